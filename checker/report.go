package main

// Obligation bookkeeping, evidence files, known findings, vacuity floors.

import (
	"crypto/sha1"
	"encoding/json"
	"fmt"
	"golang.org/x/tools/go/ssa"
	"os"
	"path/filepath"
	"sort"
	"strings"
	"time"
)

type Status int

const (
	OK Status = iota
	Violation
	Undecided
	Info
)

func (s Status) String() string {
	return [...]string{"ok", "VIOLATION", "UNDECIDED", "info"}[s]
}

// Obl is one decided rule instance.
type Obl struct {
	Rule      string   `json:"rule"`      // "O-1 channel privacy"
	Construct string   `json:"construct"` // refactoring-stable key (package, function, object, operation)
	Pos       string   `json:"pos"`       // file:line (for the reader; not part of the key)
	Status    string   `json:"status"`
	Detail    string   `json:"detail,omitempty"`
	Path      []string `json:"path,omitempty"`
	Query     bool     `json:"-"` // decision needed a CFG/provenance query
	st        Status
}

// Ctx collects the obligations of one property run.
type Ctx struct {
	P        *Prog
	Prop     string
	Tier     string
	Thorough bool
	obls     []*Obl
	counts   map[string]int // rule -> instances evaluated
	notes    []string
	analysed map[string]int
	fnSeen   map[string]bool
	prefix   string // prepended to rule names (obligations borrowed from another property)
	// ifaceResults: the use-after-error rule also covers interface-typed results
	ifaceResults bool
}

func newCtx(p *Prog, prop, tier string) *Ctx {
	return &Ctx{P: p, Prop: prop, Tier: tier, Thorough: tier == "thorough", counts: map[string]int{},
		analysed: map[string]int{}, fnSeen: map[string]bool{}}
}

func (c *Ctx) add(st Status, rule, construct, pos, detail string, path []string, query bool) *Obl {
	rule = c.prefix + rule
	o := &Obl{Rule: rule, Construct: construct, Pos: pos, Status: st.String(), Detail: detail, Path: path, Query: query, st: st}
	c.obls = append(c.obls, o)
	if st != Info {
		c.counts[rule]++
	}
	return o
}

// ok records a discharged obligation decided by a CFG/provenance query.
func (c *Ctx) ok(rule, construct, pos, detail string) {
	c.add(OK, rule, construct, pos, detail, nil, true)
}

// okTrivial records a discharged obligation decided by mere existence/lookup.
func (c *Ctx) okTrivial(rule, construct, pos, detail string) {
	c.add(OK, rule, construct, pos, detail, nil, false)
}

func (c *Ctx) viol(rule, construct, pos, detail string, path ...string) {
	c.add(Violation, rule, construct, pos, detail, path, true)
}

func (c *Ctx) undecided(rule, construct, pos, detail string) {
	c.add(Undecided, rule, construct, pos, detail, nil, true)
}

func (c *Ctx) info(rule, detail string) {
	c.add(Info, rule, "", "", detail, nil, false)
}

// check is shorthand: cond true -> ok, false -> violation.
func (c *Ctx) check(cond bool, rule, construct, pos, okDetail, badDetail string, path ...string) bool {
	if cond {
		c.ok(rule, construct, pos, okDetail)
	} else {
		c.viol(rule, construct, pos, badDetail, path...)
	}
	return cond
}

// analysedFn notes that a function was looked at (for the evidence summary).
func (c *Ctx) analysedFn(name string) {
	if !c.fnSeen[name] {
		c.fnSeen[name] = true
		c.analysed["functions"]++
	}
}

func (c *Ctx) count(what string, n int) { c.analysed[what] += n }

// ---------- known findings ----------

type KnownFinding struct {
	Property  string `json:"property"`
	Rule      string `json:"rule"`
	Construct string `json:"construct"`
	What      string `json:"what"`
}

type FixedFinding struct {
	Property string `json:"property"`
	Commit   string `json:"commit"`
	What     string `json:"what"`
	Line     string `json:"line,omitempty"` // "fixed: property=<id> <commit> <what failed>"
}

type KnownFile struct {
	Comment string         `json:"comment"`
	Known   []KnownFinding `json:"known"`
	Fixed   []FixedFinding `json:"fixed"`
}

func loadKnown(path string) (*KnownFile, error) {
	b, err := os.ReadFile(path)
	if err != nil {
		return nil, err
	}
	var k KnownFile
	if err := json.Unmarshal(b, &k); err != nil {
		return nil, err
	}
	return &k, nil
}

// ---------- floors (vacuity guard) ----------

// Floors: property -> rule -> minimum number of rule instances that must have
// been evaluated (confirmed by hand on the reference tree).
type Floors map[string]map[string]int

func loadFloors(path string) (Floors, error) {
	b, err := os.ReadFile(path)
	if err != nil {
		return nil, err
	}
	var f Floors
	if err := json.Unmarshal(b, &f); err != nil {
		return nil, err
	}
	return f, nil
}

// verdict computes the exit code finish would return, without printing or
// writing anything: 1 violation (not a known finding), 2 undecided or floor not
// reached, 0 pass.
func (c *Ctx) verdict(known *KnownFile, floors Floors) int {
	nViol, nUndec := 0, 0
	for _, o := range c.obls {
		switch o.st {
		case Violation:
			isKnown := false
			for _, k := range known.Known {
				if k.Property == c.Prop && k.Rule == ruleID(o.Rule) && k.Construct == o.Construct {
					isKnown = true
				}
			}
			if !isKnown {
				nViol++
			}
		case Undecided:
			nUndec++
		}
	}
	if nViol > 0 {
		return 1
	}
	if nUndec > 0 {
		return 2
	}
	if fl, ok := floors[c.Prop]; ok {
		for r, min := range fl {
			got := 0
			for rule, n := range c.counts {
				if ruleID(rule) == r {
					got += n
				}
			}
			if got < min {
				return 2
			}
		}
	} else {
		return 2
	}
	return 0
}

// ---------- finish ----------

type evidence struct {
	PropertyID  string                 `json:"property_id"`
	Tier        string                 `json:"tier"`
	Seed        int                    `json:"seed"`
	Level       string                 `json:"level"`
	Coverage    map[string]interface{} `json:"coverage"`
	Assumptions []string               `json:"assumptions"`
	WallS       float64                `json:"wall_s"`
	Violations  int                    `json:"violations"`
}

type propMeta struct {
	Explanation string
	NotDecided  string
	Assumptions []string
}

// finish prints the report, writes evidence and replay files and returns the
// process exit code (0 held, 1 violation, 2 broken check).
func (c *Ctx) finish(verifDir string, meta propMeta, known *KnownFile, floors Floors, seed int, t0 time.Time) int {
	sort.SliceStable(c.obls, func(i, j int) bool {
		if c.obls[i].Rule != c.obls[j].Rule {
			return c.obls[i].Rule < c.obls[j].Rule
		}
		return c.obls[i].Construct < c.obls[j].Construct
	})
	nOK, nViol, nKnown, nUndec, nQuery := 0, 0, 0, 0, 0
	distinct := map[string]bool{}
	var violLines, knownLines []string
	var violObls []*Obl
	for _, o := range c.obls {
		switch o.st {
		case OK:
			nOK++
		case Violation:
			isKnown := false
			for _, k := range known.Known {
				if k.Property == c.Prop && k.Rule == ruleID(o.Rule) && k.Construct == o.Construct {
					isKnown = true
					knownLines = append(knownLines, fmt.Sprintf("KNOWN-FINDING: property=%s %s [%s] %s", c.Prop, k.What, o.Rule, o.Pos))
				}
			}
			if isKnown {
				nKnown++
				o.Status = "known-finding"
			} else {
				nViol++
				violObls = append(violObls, o)
			}
		case Undecided:
			nUndec++
		}
		if o.st != Info && o.Query {
			if !distinct[o.Rule+"|"+o.Construct] {
				distinct[o.Rule+"|"+o.Construct] = true
				nQuery++
			}
		}
	}
	// floors
	var floorFail []string
	if fl, ok := floors[c.Prop]; ok {
		var rules []string
		for r := range fl {
			rules = append(rules, r)
		}
		sort.Strings(rules)
		for _, r := range rules {
			got := 0
			for rule, n := range c.counts {
				if ruleID(rule) == r {
					got += n
				}
			}
			if got < fl[r] {
				floorFail = append(floorFail, fmt.Sprintf("rule %s evaluated %d instances, floor is %d (rule matches fewer sites than confirmed by hand: vacuity guard)", r, got, fl[r]))
			}
		}
	} else {
		floorFail = append(floorFail, "no floors recorded for "+c.Prop)
	}

	// ---- print ----
	fmt.Printf("== %s tier=%s repo=%s packages=%d functions_analysed=%d load=%.1fs\n", c.Prop, c.Tier, c.P.RepoDir, len(c.P.Pkgs), c.analysed["functions"], c.P.LoadS)
	if len(c.P.InlineSteps) > 0 {
		fmt.Printf("   view: helper-inlined (%d transformation(s) of functions that are not on the reference list; positions marked ~ refer to the in-memory view)\n", len(c.P.InlineSteps))
		for _, st := range c.P.InlineSteps {
			fmt.Printf("   view: %s %s into %s (%s)\n", st.Kind, st.Callee, st.Caller, c.P.relFile(st.File))
		}
	}
	var akeys []string
	for k := range c.analysed {
		akeys = append(akeys, k)
	}
	sort.Strings(akeys)
	for _, k := range akeys {
		fmt.Printf("   analysed %-28s %d\n", k, c.analysed[k])
	}
	for _, o := range c.obls {
		if o.st == Info {
			fmt.Printf("   info  [%s] %s\n", o.Rule, o.Detail)
			continue
		}
		fmt.Printf("   %-9s [%s] %s @%s", o.Status, o.Rule, o.Construct, o.Pos)
		if o.Detail != "" {
			fmt.Printf(" -- %s", o.Detail)
		}
		fmt.Println()
		if o.st != OK && len(o.Path) > 0 {
			fmt.Printf("             path: %s\n", strings.Join(o.Path, " -> "))
		}
	}
	fmt.Printf("== %s: obligations=%d ok=%d violations=%d known=%d undecided=%d\n", c.Prop, nOK+nViol+nKnown+nUndec, nOK, nViol, nKnown, nUndec)
	for _, l := range knownLines {
		fmt.Println(l)
	}

	// ---- replay files ----
	replayDir := filepath.Join(verifDir, "replay")
	for _, o := range violObls {
		os.MkdirAll(replayDir, 0o755)
		h := sha1.Sum([]byte(o.Rule + "|" + o.Construct))
		name := fmt.Sprintf("%s-%s-%x.json", c.Prop, sanitize(ruleID(o.Rule)), h[:4])
		path := filepath.Join(replayDir, name)
		b, _ := json.MarshalIndent(map[string]interface{}{
			"property": c.Prop, "rule": o.Rule, "construct": o.Construct, "pos": o.Pos,
			"detail": o.Detail, "path": o.Path, "repo": c.P.RepoDir,
			"replay": fmt.Sprintf("./check %s --replay %s", c.Prop, path),
		}, "", " ")
		os.WriteFile(path, append(b, '\n'), 0o644)
		violLines = append(violLines, fmt.Sprintf("VIOLATION property=%s replay=%s", c.Prop, path))
	}

	// ---- evidence ----
	samples := []interface{}{}
	pick := func(st Status, max int) {
		n := 0
		for _, o := range c.obls {
			if o.st == st && n < max && o.Query {
				samples = append(samples, o)
				n++
			}
		}
	}
	pick(Violation, 6)
	pick(Undecided, 4)
	pick(OK, 8)
	if len(samples) == 0 {
		for _, o := range c.obls {
			if len(samples) < 4 {
				samples = append(samples, o)
			}
		}
	}
	rules := map[string]int{}
	for r, n := range c.counts {
		rules[r] = n
	}
	cov := map[string]interface{}{
		"explanation":         meta.Explanation,
		"not_decided":         meta.NotDecided,
		"obligations":         nOK + nViol + nKnown + nUndec,
		"discharged":          nOK,
		"known_findings":      nKnown,
		"undecided":           nUndec,
		"evaluations":         nOK + nViol + nKnown + nUndec,
		"distinct_nontrivial": nQuery,
		"rule":                "one evaluation per (rule, construct) instance found in the type-checked tree; non-trivial = decided by a CFG-reachability, provenance, lockset or constant-table query rather than by mere existence of the anchor; distinct = distinct (rule, construct) keys",
		"samples":             samples,
		"rules":               rules,
		"analysed":            c.analysed,
		"packages":            len(c.P.Pkgs),
		"exhaustive":          true,
		"checker_cmd":         fmt.Sprintf("./check %s %s", c.Prop, c.Tier),
		"trusted_base":        []string{"go/types", "go/ssa (x/tools v0.29.0)", "library semantic tables listed in DESIGN.md section 6"},
		"floor_failures":      floorFail,
		"view":                c.P.viewDescription(),
	}
	ev := evidence{PropertyID: c.Prop, Tier: c.Tier, Seed: seed, Level: "other", Coverage: cov,
		Assumptions: meta.Assumptions, WallS: time.Since(t0).Seconds(), Violations: nViol}
	if ev.Assumptions == nil {
		ev.Assumptions = []string{}
	}
	evDir := filepath.Join(verifDir, "evidence")
	os.MkdirAll(evDir, 0o755)
	b, _ := json.MarshalIndent(ev, "", " ")
	if err := os.WriteFile(filepath.Join(evDir, c.Prop+".json"), append(b, '\n'), 0o644); err != nil {
		fmt.Fprintf(os.Stderr, "cannot write evidence: %v\n", err)
		return 2
	}

	for _, l := range violLines {
		fmt.Println(l)
	}
	if nViol > 0 {
		return 1
	}
	if nUndec > 0 {
		fmt.Printf("CHECK-BROKEN property=%s: %d obligation(s) UNDECIDED (anchor unresolved or unrecognised shape); no verdict\n", c.Prop, nUndec)
		return 2
	}
	if len(floorFail) > 0 {
		for _, f := range floorFail {
			fmt.Printf("CHECK-BROKEN property=%s: %s\n", c.Prop, f)
		}
		return 2
	}
	fmt.Printf("PASS property=%s\n", c.Prop)
	return 0
}

// ruleID: "O-1 channel privacy" -> "O-1".
func ruleID(rule string) string {
	if i := strings.IndexByte(rule, ' '); i > 0 {
		return rule[:i]
	}
	return rule
}

func sanitize(s string) string {
	return strings.Map(func(r rune) rune {
		if (r >= 'a' && r <= 'z') || (r >= 'A' && r <= 'Z') || (r >= '0' && r <= '9') || r == '-' {
			return r
		}
		return '_'
	}, s)
}

// missingOrMoved reports a required construct that was not found where the
// rule expects it: if it exists in a same-package helper reachable from the
// anchored function the shape is unrecognised (UNDECIDED, no verdict); if it
// exists nowhere the required action is gone and that is a violation.
func (c *Ctx) missingOrMoved(rule, construct string, anchor *ssa.Function, pred func(ssa.Instruction) bool, what, consequence string) {
	pos := "-"
	if anchor != nil {
		pos = c.P.Pos(anchor.Pos())
		for _, f := range withAnon(anchor) {
			if len(deepInstrs(f, 3, pred)) > 0 {
				c.undecided(rule, construct, pos, what+" not found in the expected place but present in a helper: shape not recognised")
				return
			}
		}
	}
	c.viol(rule, construct, pos, what+" is missing: "+consequence)
}
