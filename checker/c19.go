package main

import (
	"fmt"
	"go/token"
	"go/types"
	"strings"

	"golang.org/x/tools/go/ssa"
)

func init() {
	register("C19", propMeta{
		Explanation: "E-TAINT + E-LOCK + E-CONST. O-1: in printMetrics every uint event counter of Metrics reaches the logger only as binCount(field); binCount has the ceil-to-8 shape (same constant 8 in the quotient and the product, Ceil not Floor/Round, or the integer form ((x+7)/8)*8); the sets 'counters incremented' = 'counters printed' = 'counters reset' agree, and the per-country maps created in NewMetrics are the ones reset. O-2: the rounded Prometheus counter's (total, value) pair is read and written only under its own mutex, inside one critical section per Inc, never through sync/atomic mixed with plain access, and value grows by the constant 8 only on the total > value edge. O-3: UpdateCountryStats/RecordIPAddress run with Metrics.lock in their entry lockset and every per-country count change lies behind the 'address not seen yet' edges. O-4: in ipsetsink the raw address reaches the sketch only through the keyed HMAC. O-5: the journal window predicate compares RecordingStart with from and RecordingEnd with to. Each is a necessary condition: e.g. a counter printed raw publishes a non-multiple of 8; a non-atomic pair publishes a value below the truth for some schedule. Added after the second seeding round: O-1d the matched figures (clientProxyMatchCount, ClientPollTotal{status=matched}) are incremented only on the edge on which the proxy's answer was received; O-5b every journal line is decoded into a record and a sketch created in that iteration; O-5c the journal reader uses no length-limited line scanner, or returns its Err() (D19). Added after the third seeding round: O-1e the guarded-by rows of Metrics and CountryStats are evaluated here too (an increment outside metrics.lock can be lost, publishing a count below the truth); O-4b RecordIPAddress is called from ProxyPolls itself on every path that updates the country statistics, and WriteIPSetToDisk resets the sketch and advances lastWriteTime on every way out after the chunk was written; O-4 no longer names maskIPAddress: the value added to the sketch must derive from hmac.New(_, ipMaskingKey).Sum. Added after the fourth seeding round: O-1 follows each counter forward (taint analysis through tables, helpers and loops) to the logger, binCount being the only sanitiser; O-1f every decoded poll increments one of the two relay-extension counters on every path; O-4 the bytes written to the HMAC are the address string itself. Added after the fifth seeding round: O-1g the per-type report and its total range over countryStats.proxies itself; the nat label of ProxyPollTotal{status=matched} is the NAT type decoded from this poll; ClusterWriter.AddIPToSet adds the address to the current sketch on every path. Added after the sixth seeding round and the mutation audit: O-4b RecordIPAddress receives result 0 of net.SplitHostPort; O-5d ClusterCounter.Count returns a result only behind the decoder's io.EOF edge. O-5 the merge is reachable only on the outcomes of the window tests that exclude nothing; O-5e/O-5f error discipline in ipsetsink. Added after the seventh seeding round: O-1h every entry stored into countryStats.proxies is a map made for that entry (a set made once in front of the loop is shared by all proxy types).",
		NotDecided:  "floating-point exactness of binCount beyond 2^53, HyperLogLog accuracy, which events should be counted, the arithmetic correctness of rounding for all histories (only its shape is decided).",
		Assumptions: []string{"math.Ceil, crypto/hmac and hyperloglog behave as documented", "lock identity is (type, field)"},
	}, runC19)
}

func runC19(c *Ctx) {
	p := c.P
	scope := p.FnsIn("broker")
	for _, fn := range scope {
		c.analysedFn(p.FnName(fn))
	}
	metricsT := p.Type("broker", "Metrics")
	printM := p.Fn("broker", "(*Metrics).printMetrics")
	zeroM := p.Fn("broker", "(*Metrics).zeroMetrics")
	newM := p.Fn("broker", "NewMetrics")
	bin := p.Fn("broker", "binCount")
	if metricsT == nil || printM == nil || zeroM == nil || newM == nil || bin == nil {
		c.undecided("O-1 every published counter is binned", "anchors Metrics/printMetrics/zeroMetrics/NewMetrics/binCount", "-", "an anchor does not resolve")
		return
	}
	// ---- O-1a: binCount shape ----
	c.checkBinCountShape(bin)

	// ---- O-1b: every uint counter printed only through binCount ----
	st := metricsT.Underlying().(*types.Struct)
	var counters []*types.Var
	for i := 0; i < st.NumFields(); i++ {
		f := st.Field(i)
		if b, ok := f.Type().Underlying().(*types.Basic); ok && b.Info()&types.IsUnsigned != 0 {
			counters = append(counters, f)
		}
	}
	printed := map[string]bool{}
	incremented := map[string]bool{}
	reset := map[string]bool{}
	srcFns := helperFns(printM, 2)
	for _, f := range counters {
		// printed? every load of the counter in printMetrics and its helpers is followed forward: it may
		// reach code outside the repository (the logger, fmt) only through binCount
		var loads []ssa.Value
		var firstLoad ssa.Instruction
		for _, fa := range fieldAddrsOf(srcFns, f) {
			for _, r := range *fa.Referrers() {
				if ld, ok := r.(*ssa.UnOp); ok {
					loads = append(loads, ld)
					if firstLoad == nil {
						firstLoad = ld
					}
				}
			}
		}
		if len(loads) > 0 {
			printed[f.Name()] = true
			tr := taintForward(p, loads, func(ci ssa.CallInstruction, i int) bool { return staticCallee(ci) == bin && i == 0 }, scope)
			for _, u := range tr.Leaks {
				c.viol("O-1 every published counter is binned", "printMetrics publishes Metrics."+f.Name(), p.instrPos(u), "counter value used in printMetrics other than as the argument of binCount: a raw count reaches the metrics log")
			}
			for _, u := range tr.Lost {
				c.undecided("O-1 every published counter is binned", "printMetrics publishes Metrics."+f.Name(), p.instrPos(u), "the counter value is stored where the analysis cannot follow it")
			}
			if len(tr.Leaks) == 0 && len(tr.Lost) == 0 {
				if tr.Sanitised > 0 {
					c.ok("O-1 every published counter is binned", "printMetrics publishes Metrics."+f.Name(), p.instrPos(firstLoad), "reaches the logger only as binCount(field)")
				} else {
					c.okTrivial("O-1 every published counter is binned", "printMetrics publishes Metrics."+f.Name(), p.instrPos(firstLoad), "read but neither binned nor published")
				}
			}
		}
		// incremented / reset anywhere in the broker
		for _, s := range storesToField(scope, f) {
			if k, ok := constInt(s.Val); ok && k == 0 && s.Parent() == zeroM {
				reset[f.Name()] = true
				continue
			}
			if bo, ok := s.Val.(*ssa.BinOp); ok && bo.Op == token.ADD {
				incremented[f.Name()] = true
			}
		}
	}
	c.check(sameStringSet(sortedKeys(printed), sortedKeys(incremented)) && sameStringSet(sortedKeys(printed), sortedKeys(reset)),
		"O-1c counter sets agree", "incremented = printed = reset", p.Pos(printM.Pos()),
		fmt.Sprintf("%d counters: %v", len(printed), sortedKeys(printed)),
		fmt.Sprintf("incremented %v, printed %v, reset %v differ: a counted event is never published, or a published counter is never reset", sortedKeys(incremented), sortedKeys(printed), sortedKeys(reset)))
	// maps created in NewMetrics = maps reset in zeroMetrics
	c.checkCountryMapsReset(newM, zeroM)

	// ---- O-2: rounded counter ----
	var rcRows []guardRow
	for _, r := range guardTable {
		if r.Type == "roundedCounter" {
			rcRows = append(rcRows, r)
		}
	}
	c.checkGuardRows("O-2 rounded counter pair is updated indivisibly", rcRows, scope)
	if inc := p.Fn("broker", "(*roundedCounter).Inc"); inc != nil {
		nLock := 0
		for _, ci := range callsIn(inc) {
			if k, kind := lockOp(ci); kind == opLock && k == "roundedCounter.lock" {
				if _, isDefer := ci.(*ssa.Defer); !isDefer {
					nLock++
				}
			}
		}
		c.check(nLock == 1, "O-2 rounded counter pair is updated indivisibly", "roundedCounter.Inc is one critical section", p.Pos(inc.Pos()),
			"exactly one Lock; total and value are updated inside it", fmt.Sprintf("%d Lock operations in Inc: the (total, value) pair is not updated in a single critical section", nLock))
		// value += 8 only on the total > value edge
		totalF, valueF := p.Field("broker", "roundedCounter", "total"), p.Field("broker", "roundedCounter", "value")
		if totalF != nil && valueF != nil {
			edges := cmpEdges(inc, "<", func(v ssa.Value) bool { return isFieldLoadOf(v, valueF) }, func(v ssa.Value) bool { return isFieldLoadOf(v, totalF) })
			for _, s := range storesToField([]*ssa.Function{inc}, valueF) {
				bo, ok := s.Val.(*ssa.BinOp)
				k := int64(0)
				if ok {
					if kk, isC := constInt(bo.Y); isC {
						k = kk
					}
				}
				good := ok && bo.Op == token.ADD && k == 8 && isFieldLoadOf(bo.X, valueF) && len(edges) > 0 && reachableWithout(inc, s, edges) == nil
				c.check(good, "O-2 rounded counter pair is updated indivisibly", "roundedCounter.Inc: value += 8 only when total > value", p.instrPos(s),
					"value grows by the constant 8 behind the total > value edge", "the rounded value is not (only) advanced by 8 on the total > value edge")
			}
		}
	} else {
		c.undecided("O-2 rounded counter pair is updated indivisibly", "roundedCounter.Inc", "-", "anchor does not resolve")
	}
	c.checkAtomicDisciplineFor("O-2b no mixed atomic/plain access", scope, "roundedCounter")

	// ---- O-3: uniqueness bookkeeping under the lock ----
	le := p.Locks()
	for _, name := range []string{"(*Metrics).UpdateCountryStats", "(*Metrics).RecordIPAddress"} {
		fn := p.Fn("broker", name)
		if fn == nil {
			c.undecided("O-3 uniqueness bookkeeping under the lock", "broker."+name, "-", "anchor does not resolve")
			continue
		}
		e := le.entry[fn]
		c.check(!e.top && e.mode("Metrics.lock") == heldWrite, "O-3 uniqueness bookkeeping under the lock", "broker."+name+" runs with Metrics.lock held", p.Pos(fn.Pos()),
			"entry lockset "+le.Entry(fn), "entry lockset "+le.Entry(fn)+" lacks Metrics.lock: some caller updates the per-period address sets without the lock")
	}
	if ucs := p.Fn("broker", "(*Metrics).UpdateCountryStats"); ucs != nil && len(ucs.Params) > 1 {
		addr := ucs.Params[1]
		seenEdges := boolEdges(ucs, false, func(v ssa.Value) bool {
			lk, ok := v.(*ssa.Lookup)
			return ok && !lk.CommaOk && lk.Index == ssa.Value(addr)
		})
		countsF := p.Field("broker", "CountryStats", "counts")
		n := 0
		for _, a := range accessesOfField([]*ssa.Function{ucs}, countsF, true) {
			if a.What != "map update" {
				continue
			}
			n++
			path := reachableWithout(ucs, a.Instr, seenEdges)
			c.check(len(seenEdges) >= 1 && path == nil, "O-3 uniqueness bookkeeping under the lock", "UpdateCountryStats: count change behind the not-seen-yet edges", p.instrPos(a.Instr),
				fmt.Sprintf("behind %d 'address already seen' tests", len(seenEdges)), "a per-country count can change for an address that was already counted in this period", p.pathString(path)...)
		}
		if n == 0 {
			c.undecided("O-3 uniqueness bookkeeping under the lock", "UpdateCountryStats: count change behind the not-seen-yet edges", p.Pos(ucs.Pos()), "no update of CountryStats.counts found")
		}
		// every address is entered into its per-type set before anything can make the function return
		seenTrue := boolEdges(ucs, true, func(v ssa.Value) bool {
			lk, ok := v.(*ssa.Lookup)
			return ok && !lk.CommaOk && lk.Index == ssa.Value(addr)
		})
		recorded := func(b *ssa.BasicBlock) bool {
			for _, in := range b.Instrs {
				if mu, ok := in.(*ssa.MapUpdate); ok && mu.Key == ssa.Value(addr) {
					return true
				}
			}
			return false
		}
		path := psSearch(ucs.Blocks[0], seenTrue, recorded, func(b *ssa.BasicBlock) bool {
			if len(b.Instrs) == 0 {
				return false
			}
			_, ok := b.Instrs[len(b.Instrs)-1].(*ssa.Return)
			return ok
		})
		c.check(len(seenTrue) >= 1 && path == nil, "O-3 uniqueness bookkeeping under the lock", "UpdateCountryStats records every new address in its per-type set before any other exit", p.Pos(ucs.Pos()), "",
			"a path returns without the address having been found in, or added to, its per-type set (for example when no geoip database is loaded): the per-period unique-address figures stay too low", p.pathString(path)...)
	}

	// ---- O-4: only keyed hashes are stored ----
	c.checkIPSetSink()

	// ---- O-1d: a match is counted when the proxy's answer arrived ----
	c.checkMatchCountedOnAnswer()
	// ---- O-1e: every counter is incremented under the metrics lock (lost updates publish a count below the truth) ----
	{
		var rows []guardRow
		for _, r := range guardTable {
			if r.Rel == "broker" && (r.Type == "Metrics" || r.Type == "CountryStats") {
				rows = append(rows, r)
			}
		}
		c.prefix = "O-1e/C20:"
		c.checkGuardRows("O-1 guarded-by table", rows, p.FnsIn("broker"))
		c.prefix = ""
	}
	// ---- O-4b: the journal sees every poll's address; a chunk holds exactly its interval ----
	c.checkJournalFeeding()
	// ---- O-1f: every decoded poll is counted as with or without the relay-URL extension ----
	c.checkEveryPollClassified()
	c.checkReportCoversAllTypes()
	// ---- O-5: window predicate orientation ----
	c.checkWindowPredicate()
	// ---- O-5c: the journal is read to its end or the reader says so ----
	{
		ruleS := "O-5c the journal reader does not stop silently"
		n := 0
		for _, fn := range p.FnsIn("common/ipsetsink/sinkcluster", "distinctcounter") {
			for _, ci := range callsTo(fn, "bufio.NewScanner") {
				n++
				sc, _ := ci.(*ssa.Call)
				// the scanner's Err() must be consulted and handed to the caller: a line beyond
				// the scanner's buffer limit (a sketch of a busy interval encodes to more than
				// 64 KiB) or a read error otherwise ends the loop like a clean end of file
				consulted := false
				for _, e := range callsTo(fn, "(*bufio.Scanner).Err") {
					ec, _ := e.(*ssa.Call)
					if sc == nil || ec == nil || !isResultOfCall1(ec.Call.Args[0], sc, 0) {
						continue
					}
					for _, r := range returnsOf(fn) {
						ei := errResultIndex(fn.Signature)
						if ei >= 0 && flowsLocal(retVal(r, ei), func(v ssa.Value) bool { return v == ssa.Value(ec) }) {
							consulted = true
						}
					}
				}
				c.check(consulted, ruleS, p.FnName(fn)+" returns the scanner's error", p.instrPos(ci), "Scanner.Err() reaches the error result",
					"the journal is read with a bufio.Scanner whose Err() is never returned: a chunk line longer than the scanner's limit (64 KiB by default; one interval with some tens of thousands of addresses) silently ends the scan and the published estimate leaves out that chunk and all later ones")
			}
		}
		if n == 0 {
			c.ok(ruleS, "the journal reader uses no length-limited line scanner", "-", "no bufio.Scanner in sinkcluster/distinctcounter")
		}
	}
	// ---- O-5b: one record per journal line ----
	{
		ruleF := "O-5b one record per journal line"
		sites, stale := staleDecodeDests(p.FnsIn("common/ipsetsink/sinkcluster"))
		for _, ci := range stale {
			c.viol(ruleF, p.FnName(ci.Parent())+" decodes each journal line into a fresh record", p.instrPos(ci), "a journal entry is decoded inside the loop into a variable that lives across iterations: fields absent from a line keep the previous entry's values (window bounds, sketch bytes)")
		}
		if len(stale) == 0 {
			c.okTrivial(ruleF, "journal decodes inside loops use a per-iteration record", "-", fmt.Sprintf("%d decode site(s) inside loops", len(sites)))
		}
	}
}

func (c *Ctx) checkBinCountShape(bin *ssa.Function) {
	p := c.P
	rule := "O-1a binCount is ceil-to-8"
	key := "broker.binCount shape"
	rets := returnsOf(bin)
	if len(rets) != 1 || len(bin.Params) != 1 {
		c.undecided(rule, key, p.Pos(bin.Pos()), "more than one return: shape not recognised")
		return
	}
	par := bin.Params[0]
	v := rets[0].Results[0]
	isParam := func(x ssa.Value) bool {
		for {
			if cv, ok := x.(*ssa.Convert); ok {
				x = cv.X
				continue
			}
			break
		}
		return x == ssa.Value(par)
	}
	constF := func(x ssa.Value) (float64, bool) {
		cst, ok := x.(*ssa.Const)
		if !ok || cst.Value == nil {
			return 0, false
		}
		return cst.Float64(), true
	}
	// float form: uint(math.Ceil(float64(x)/K) * K)
	if cv, ok := v.(*ssa.Convert); ok {
		if mul, ok := cv.X.(*ssa.BinOp); ok && mul.Op == token.MUL {
			var call *ssa.Call
			var k1 float64
			if cc, ok := mul.X.(*ssa.Call); ok {
				call = cc
				k1, _ = constF(mul.Y)
			} else if cc, ok := mul.Y.(*ssa.Call); ok {
				call = cc
				k1, _ = constF(mul.X)
			}
			if call != nil {
				n := calleeName(call)
				quo, isQuo := call.Call.Args[0].(*ssa.BinOp)
				if isQuo && quo.Op == token.QUO && isParam(quo.X) {
					k2, _ := constF(quo.Y)
					switch {
					case n != "math.Ceil":
						c.viol(rule, key, p.instrPos(call), "rounding function is "+n+", not math.Ceil: published counts can be lower than the true count")
					case k1 != 8 || k2 != 8:
						c.viol(rule, key, p.instrPos(call), fmt.Sprintf("quotient constant %v and product constant %v are not both 8", k2, k1))
					default:
						c.ok(rule, key, p.Pos(bin.Pos()), "uint(math.Ceil(float64(x)/8)*8)")
					}
					return
				}
			}
		}
	}
	// integer form: ((x+7)/8)*8
	if mul, ok := v.(*ssa.BinOp); ok && mul.Op == token.MUL {
		if quo, ok := mul.X.(*ssa.BinOp); ok && quo.Op == token.QUO {
			if add, ok := quo.X.(*ssa.BinOp); ok && add.Op == token.ADD && isParam(add.X) {
				a, _ := constInt(add.Y)
				q, _ := constInt(quo.Y)
				m, _ := constInt(mul.Y)
				c.check(a == 7 && q == 8 && m == 8, rule, key, p.Pos(bin.Pos()), "((x+7)/8)*8", fmt.Sprintf("((x+%d)/%d)*%d is not ceil-to-8", a, q, m))
				return
			}
		}
	}
	c.undecided(rule, key, p.Pos(bin.Pos()), "binCount is neither uint(math.Ceil(float64(x)/8)*8) nor ((x+7)/8)*8: a new recogniser is needed")
}

// checkAtomicDisciplineFor: fields of the named type touched by sync/atomic
// must never be accessed plainly.
func (c *Ctx) checkAtomicDisciplineFor(rule string, scope []*ssa.Function, typeName string) {
	p := c.P
	found := false
	for _, fn := range scope {
		allInstrs(fn, func(in ssa.Instruction) {
			ci, ok := in.(ssa.CallInstruction)
			if !ok {
				return
			}
			n := calleeName(ci)
			if len(n) < 12 || n[:12] != "sync/atomic." {
				return
			}
			for _, a := range ci.Common().Args {
				fa, ok := a.(*ssa.FieldAddr)
				if !ok {
					continue
				}
				base, f, ok := fieldOfAddr(fa)
				if !ok {
					continue
				}
				if nt := namedOf(base.Type()); nt == nil || nt.Obj().Name() != typeName {
					continue
				}
				found = true
				for _, acc := range accessesOfField(scope, f, false) {
					if acc.Kind != accAtomic && !isFreshBase(acc.Fn, acc.Base, acc.Instr) {
						c.viol(rule, p.FnName(acc.Fn)+" plain "+acc.Kind.String()+" of "+typeName+"."+f.Name(), p.instrPos(acc.Instr), "mixed atomic and plain access to the same field")
					}
				}
			}
		})
	}
	if !found {
		c.ok(rule, typeName+" fields are not accessed through sync/atomic", "-", "protection is the mutex alone (O-2)")
	}
}

func (c *Ctx) checkIPSetSink() {
	p := c.P
	rule := "O-4 only keyed hashes reach the sketch"
	add := p.Fn("common/ipsetsink", "(*IPSetSink).AddIPToSet")
	keyF := p.Field("common/ipsetsink", "IPSetSink", "ipMaskingKey")
	if add == nil || keyF == nil || len(add.Params) < 2 {
		c.undecided(rule, "ipsetsink.AddIPToSet/ipMaskingKey", "-", "anchor does not resolve")
		return
	}
	c.analysedFn(p.FnName(add))
	// a MAC value: hmac.New(_, key).Sum(_) with the key taken from IPSetSink.ipMaskingKey
	// (directly or through a parameter of a helper)
	isMAC := func(v ssa.Value) bool {
		cc, _, ok := callResult(v)
		if !ok || calleeName(cc) != "(hash.Hash).Sum" {
			return false
		}
		hm, _, ok := callResult(cc.Common().Value)
		if !ok || !isCallTo(hm, "crypto/hmac.New") {
			return false
		}
		return flows(hm.Common().Args[1], func(v ssa.Value) bool { return isFieldLoadOf(v, keyF) })
	}
	// the masking function(s): every return is a MAC value (maskIPAddress on the reference tree)
	maskFns := map[*ssa.Function]bool{}
	for _, fn := range p.FnsIn("common/ipsetsink") {
		rets := returnsOf(fn)
		if len(rets) == 0 || fn.Signature.Results().Len() != 1 {
			continue
		}
		all := true
		for _, r := range rets {
			if !isMAC(r.Results[0]) {
				all = false
			}
		}
		if all {
			maskFns[fn] = true
			c.analysedFn(p.FnName(fn))
		}
	}
	masked := func(v ssa.Value) bool {
		if isMAC(v) {
			return true
		}
		cc, _, ok := callResult(v)
		return ok && maskFns[staticCallee(cc)]
	}
	ip := add.Params[1]
	n := 0
	for _, ci := range callsIn(add) {
		if maskFns[staticCallee(ci)] {
			continue
		}
		if cn := calleeName(ci); cn == "(hash.Hash).Write" || cn == "(io.Writer).Write" {
			// feeding the address to the MAC itself
			if hm, _, ok := callResult(ci.Common().Value); ok && isCallTo(hm, "crypto/hmac.New") {
				continue
			}
		}
		// any other call that receives something derived from the raw address
		for _, a := range callArgs(ci) {
			raw := flowsAvoiding(a, func(v ssa.Value) bool { return v == ssa.Value(ip) }, masked)
			n++
			if raw {
				c.viol(rule, "ipsetsink.AddIPToSet passes the raw address to "+calleeName(ci), p.instrPos(ci), "the unmasked address reaches a sink without passing through the keyed MAC")
			}
		}
	}
	// what the MAC is computed over is the address text itself: bytes derived from it by a parser or a
	// normaliser (ParseIP().To4() is nil for every IPv6 address) are not injective, and distinct addresses
	// collapse into one sketch entry
	{
		nW := 0
		fns := []*ssa.Function{add}
		for f := range maskFns {
			fns = append(fns, f)
		}
		for _, fn := range fns {
			for _, ci := range callsIn(fn) {
				cn := calleeName(ci)
				if cn != "(hash.Hash).Write" && cn != "(io.Writer).Write" {
					continue
				}
				hm, _, ok := callResult(ci.Common().Value)
				if !ok || !isCallTo(hm, "crypto/hmac.New") {
					continue
				}
				nW++
				arg := ci.Common().Args[0]
				for {
					if cv, okc := arg.(*ssa.Convert); okc {
						arg = cv.X
						continue
					}
					if ct, okc := arg.(*ssa.ChangeType); okc {
						arg = ct.X
						continue
					}
					break
				}
				src := xstrip(arg)
				_, isPar := src.(*ssa.Parameter)
				okSrc := isPar && types.Identical(src.Type().Underlying(), types.Typ[types.String])
				c.check(okSrc, rule, "the keyed hash is computed over the address text itself", p.instrPos(ci), "[]byte(address)", "the bytes written to the MAC are not the address string as given (they pass through a parser or normaliser): two different addresses can yield the same input, e.g. a nil To4() for every IPv6 address, and are counted as one")
			}
		}
		if nW == 0 {
			c.undecided(rule, "the keyed hash is computed over the address text itself", p.Pos(add.Pos()), "no Write on the HMAC found")
		}
	}
	isMasked := false
	for _, d := range deepCalls(add, 2, "(*github.com/clarkduvall/hyperloglog.HyperLogLogPlus).Add") {
		ci, ok := d.In.(ssa.CallInstruction)
		if ok && flows(ci.Common().Args[1], masked) {
			isMasked = true
		}
	}
	c.check(isMasked, rule, "ipsetsink.AddIPToSet adds hmac.New(_, ipMaskingKey).Sum of the address to the sketch", p.Pos(add.Pos()), fmt.Sprintf("%d call argument(s) examined, none carries the raw address; %d masking function(s)", n, len(maskFns)), "the value added to the sketch does not derive from a MAC keyed with ipMaskingKey")
	// no other state
	t := p.Type("common/ipsetsink", "IPSetSink")
	if t != nil {
		st := t.Underlying().(*types.Struct)
		bad := ""
		for i := 0; i < st.NumFields(); i++ {
			f := st.Field(i)
			if f.Name() == "ipMaskingKey" {
				continue
			}
			if n := namedOf(f.Type()); n != nil && n.Obj().Name() == "HyperLogLogPlus" {
				continue
			}
			bad += f.Name() + " "
		}
		c.check(bad == "", rule, "IPSetSink keeps only the key and the sketch", p.Pos(t.Obj().Pos()), "fields: ipMaskingKey, countDistinct", "additional state in IPSetSink: "+bad)
	}
}

// flowsAvoiding: like flows, but the backward walk does not look through
// values for which stop is true (sanitiser results).
func flowsAvoiding(v ssa.Value, src func(ssa.Value) bool, stop func(ssa.Value) bool) bool {
	return flows(v, func(x ssa.Value) bool {
		return src(x)
	}) && !sanitisedOnly(v, src, stop)
}

// sanitisedOnly: every backward path from v to a source passes a stop value.
func sanitisedOnly(v ssa.Value, src, stop func(ssa.Value) bool) bool {
	seen := map[ssa.Value]bool{}
	var rec func(v ssa.Value) bool // returns true if a source is reachable WITHOUT passing stop
	rec = func(v ssa.Value) bool {
		if v == nil || seen[v] {
			return false
		}
		seen[v] = true
		if stop(v) {
			return false
		}
		if src(v) {
			return true
		}
		if in, ok := v.(ssa.Instruction); ok {
			for _, op := range in.Operands(nil) {
				if op != nil && *op != nil && rec(*op) {
					return true
				}
			}
		}
		return false
	}
	return !rec(v)
}

func (c *Ctx) checkWindowPredicate() {
	p := c.P
	c.checkDecodeErrorsConsumed("O-5e a decoding step's error is part of the verdict", p.FnsIn("common/ipsetsink", "common/ipsetsink/sinkcluster"))
	c.checkErrorBranchesLeave("O-5f a failed step ends the function", p.FnsIn("common/ipsetsink", "common/ipsetsink/sinkcluster"))
	rule := "O-5 journal window predicate orientation"
	fn := p.Fn("common/ipsetsink/sinkcluster", "(ClusterCounter).Count")
	if fn == nil {
		c.undecided(rule, "sinkcluster.(ClusterCounter).Count", "-", "anchor does not resolve")
		return
	}
	c.analysedFn(p.FnName(fn))
	// every chunk of the journal is examined: a result is returned only after the decoder reported io.EOF
	{
		var eofEdges []Edge
		for _, ci := range callsIn(fn) {
			dc, ok := ci.(*ssa.Call)
			if !ok || calleeName(ci) != "(*encoding/json.Decoder).Decode" {
				continue
			}
			eofEdges = append(eofEdges, condEdges(fn, true, func(a Atom) bool {
				if a.Op != token.EQL {
					return false
				}
				isDec := func(v ssa.Value) bool { return strip(v) == ssa.Value(dc) }
				isEOF := func(v ssa.Value) bool {
					u, okU := strip(v).(*ssa.UnOp)
					if !okU {
						return false
					}
					g, okG := u.X.(*ssa.Global)
					return okG && g.Pkg != nil && g.Pkg.Pkg.Path() == "io" && g.Name() == "EOF"
				}
				return (isDec(a.X) && isEOF(a.Y)) || (isDec(a.Y) && isEOF(a.X))
			})...)
		}
		if len(eofEdges) == 0 {
			c.undecided("O-5d the journal is read to its end", "ClusterCounter.Count leaves its loop at io.EOF only", p.Pos(fn.Pos()), "no comparison of the decoder's error with io.EOF found")
		} else {
			var bad *ssa.Return
			var path []*ssa.BasicBlock
			for _, r := range returnsOf(fn) {
				if len(r.Results) == 0 || !isNilConst(strip(retVal(r, len(r.Results)-1))) {
					continue
				}
				if pth := reachableWithout(fn, r, eofEdges); pth != nil {
					bad, path = r, pth
				}
			}
			if bad != nil {
				c.viol("O-5d the journal is read to its end", "ClusterCounter.Count leaves its loop at io.EOF only", p.instrPos(bad), "a result is returned on a path that did not see the end of the journal (a break or return inside the loop): chunks that come later in the stream are never merged and the distinct count comes out too low", p.pathString(path)...)
			} else {
				c.ok("O-5d the journal is read to its end", "ClusterCounter.Count leaves its loop at io.EOF only", p.Pos(fn.Pos()), fmt.Sprintf("%d io.EOF edge(s)", len(eofEdges)))
			}
		}
	}
	fieldName := func(v ssa.Value) string {
		if _, f, ok := fieldLoad(v); ok {
			return f.Name()
		}
		return ""
	}
	n := 0
	for _, d := range deepCalls(fn, 2, "(time.Time).Before", "(time.Time).After", "(time.Time).Equal") {
		ci := d.In.(ssa.CallInstruction)
		name := calleeName(ci)
		args := ci.Common().Args
		recv, arg := fieldName(args[0]), fieldName(args[1])
		n++
		key := fmt.Sprintf("Count: %s.%s(%s)", recv, name[len("(time.Time)."):], arg)
		good := (recv == "RecordingStart" && arg == "from" && (name == "(time.Time).Before" || name == "(time.Time).Equal")) ||
			(recv == "RecordingEnd" && arg == "to" && name == "(time.Time).After") ||
			(recv == "from" && arg == "RecordingStart" && (name == "(time.Time).After" || name == "(time.Time).Equal")) ||
			(recv == "to" && arg == "RecordingEnd" && name == "(time.Time).Before")
		c.check(good, rule, key, p.instrPos(ci), "start is compared with from, end with to, in the excluding direction", "window comparison has the wrong operands or direction: chunks outside the window are merged or chunks inside are skipped")
	}
	if n < 2 {
		c.undecided(rule, "Count: window comparisons", p.Pos(fn.Pos()), fmt.Sprintf("only %d time comparisons found; shape not recognised", n))
	}
	// ... and with the outcome that excludes: a chunk is merged only when "ends after the window" is false and
	// "starts before the window" is false or the start equals the window's
	var merges []ssa.Instruction
	for _, ci := range callsIn(fn) {
		if strings.HasSuffix(calleeName(ci), ".Merge") {
			merges = append(merges, ci)
		}
	}
	callIs := func(v ssa.Value, method, recvF, argF string) bool {
		cc, _, ok := callResult1(strip(v))
		if !ok || calleeName(cc) != "(time.Time)."+method || len(cc.Call.Args) < 2 {
			return false
		}
		return fieldName(cc.Call.Args[0]) == recvF && fieldName(cc.Call.Args[1]) == argF
	}
	endOK := boolEdges(fn, false, func(v ssa.Value) bool { return callIs(v, "After", "RecordingEnd", "to") })
	startOK := append(boolEdges(fn, false, func(v ssa.Value) bool { return callIs(v, "Before", "RecordingStart", "from") }),
		boolEdges(fn, true, func(v ssa.Value) bool { return callIs(v, "Equal", "RecordingStart", "from") })...)
	if len(merges) > 0 && len(endOK) > 0 && len(startOK) > 0 {
		for _, m := range merges {
			p1 := reachableWithout(fn, m, endOK)
			p2 := reachableWithout(fn, m, startOK)
			c.check(p1 == nil && p2 == nil, rule, "Count merges a chunk only when both window tests exclude nothing", p.instrPos(m), "behind RecordingEnd.After(to) == false and RecordingStart.Before(from) == false (or Equal)", "the merge is reachable on the outcome of a window test that should skip the chunk (an inverted condition): chunks outside the window are counted, chunks inside are not", p.pathString(append(p1, p2...))...)
		}
	}
}

// checkMatchCountedOnAnswer: the "matched" figures (Metrics.clientProxyMatchCount
// and the rounded counter with status=matched) are incremented only on the
// edge on which the proxy's answer was received: counting at the hand-off would
// publish matches that timed out, i.e. a figure above the truth by more than
// the rounding allows.
func (c *Ctx) checkMatchCountedOnAnswer() {
	p := c.P
	rule := "O-1d a match is counted when the answer arrived"
	co := p.Fn("broker", "(*IPC).ClientOffers")
	f := p.Field("broker", "Metrics", "clientProxyMatchCount")
	if co == nil || f == nil {
		c.undecided(rule, "IPC.ClientOffers / Metrics.clientProxyMatchCount", "-", "anchor does not resolve")
		return
	}
	mk := func(fn *ssa.Function) []Edge {
		var out []Edge
		for _, op := range chanOpsIn(p, fn) {
			if op.Dir == chRecv && op.Class == "Snowflake.answerChannel" && op.Sel != nil {
				if e, ok := selectCaseEdge(op.Sel, op.State); ok {
					out = append(out, e)
				}
			}
		}
		return out
	}
	n := 0
	for _, st := range storesToField(p.FnsIn("broker"), f) {
		if st.Parent().Name() == "zeroMetrics" {
			continue
		}
		if k, ok := constInt(st.Val); ok && k == 0 {
			continue
		}
		n++
		ok, where, path := p.guardedUp(st, mk, 2)
		pos := p.instrPos(st)
		if where != nil {
			pos = p.instrPos(where)
		}
		c.check(ok && belongsTo(st.Parent(), co), rule, "clientProxyMatchCount is incremented on the answer-received edge only", pos, "", "the match count is incremented on a path that has not received the proxy's answer: polls that time out are published as matches", p.pathString(path)...)
	}
	if n == 0 {
		c.missingOrMoved(rule, "clientProxyMatchCount is incremented when an answer arrived", co, func(in ssa.Instruction) bool {
			st, ok := in.(*ssa.Store)
			if !ok {
				return false
			}
			_, g, okf := fieldOfAddr(st.Addr)
			return okf && g == f
		}, "an increment of Metrics.clientProxyMatchCount", "matches are never counted: the published figure stays below the truth")
	}
	// the rounded counter with status=matched
	m := 0
	for _, fn := range p.FnsIn("broker") {
		for _, ci := range callsIn(fn) {
			if !strings.HasSuffix(calleeName(ci), "RoundedCounterVec).With") {
				continue
			}
			if _, fld, okf := fieldLoad(callArgs(ci)[0]); !okf || fld.Name() != "ClientPollTotal" {
				continue
			}
			if st, ok := mapLiteralConstValue(callArgs(ci)[1], "status"); !ok || st != "matched" {
				continue
			}
			m++
			ok, where, path := p.guardedUp(ci, mk, 2)
			pos := p.instrPos(ci)
			if where != nil {
				pos = p.instrPos(where)
			}
			c.check(ok && belongsTo(fn, co), rule, "ClientPollTotal{status=matched} is incremented on the answer-received edge only", pos, "", "the rounded matched counter is incremented on a path that has not received the proxy's answer", p.pathString(path)...)
		}
	}
	if m == 0 {
		c.missingOrMoved(rule, "ClientPollTotal{status=matched} is incremented when an answer arrived", co, func(in ssa.Instruction) bool {
			ci, ok := in.(ssa.CallInstruction)
			if !ok || !strings.HasSuffix(calleeName(ci), "RoundedCounterVec).With") {
				return false
			}
			st, oks := mapLiteralConstValue(callArgs(ci)[1], "status")
			return oks && st == "matched"
		}, "an increment of ClientPollTotal{status=matched}", "matches are never counted in the rounded counter")
	}
}

// checkJournalFeeding: (a) Metrics.RecordIPAddress is called from ProxyPolls itself,
// for every poll whose address parsed - not from behind the per-period
// "already seen" returns of UpdateCountryStats, which would feed a chunk only on
// an address's first poll of the metrics period; (b) WriteIPSetToDisk, once the
// chunk has been written, resets the sketch and advances lastWriteTime on every
// way out, so that the next chunk holds exactly the addresses of its own interval.
func (c *Ctx) checkJournalFeeding() {
	p := c.P
	rule := "O-4b the journal is fed per poll and cut per interval"
	rec := p.Fn("broker", "(*Metrics).RecordIPAddress")
	pp := p.Fn("broker", "(*IPC).ProxyPolls")
	ucs := p.Fn("broker", "(*Metrics).UpdateCountryStats")
	if rec == nil || pp == nil || ucs == nil {
		c.undecided(rule, "RecordIPAddress/ProxyPolls/UpdateCountryStats", "-", "anchor does not resolve")
	} else {
		isRecord := func(in ssa.Instruction) bool {
			ci, ok := in.(ssa.CallInstruction)
			return ok && staticCallee(ci) == rec
		}
		n := 0
		for _, d := range deepCalls(pp, 2, funcFullName(ucs)) {
			u, ok := d.Top.(ssa.CallInstruction)
			if !ok || staticCallee(d.In.(ssa.CallInstruction)) != ucs {
				continue
			}
			n++
			// wherever the per-country statistics are updated the journal is fed too: the
			// call itself (if UpdateCountryStats records on all of its paths), the same
			// block, or every way out from there
			path := escapesWithout(u.Block(), isRecord)
			c.check(path == nil, rule, "ProxyPolls feeds the journal on every path that updates the country statistics", p.instrPos(u), "", "a poll can update the per-country statistics without its address being recorded in the journal (for example RecordIPAddress sits behind UpdateCountryStats' already-seen returns): an address reaches a chunk only on its first poll of the metrics period and later chunks under-count", p.pathString(path)...)
		}
		if n == 0 {
			c.okTrivial(rule, "ProxyPolls feeds the journal on every path that updates the country statistics", p.Pos(pp.Pos()), "UpdateCountryStats is not called from ProxyPolls: obligation not evaluated here")
		}
		// what is recorded is the address: the host part of the peer's host:port (a different source port must
		// not make a different journal entry)
		for _, d := range deepCalls(pp, 2, funcFullName(rec)) {
			ci, ok := d.In.(ssa.CallInstruction)
			if !ok || len(ci.Common().Args) < 2 {
				continue
			}
			c.check(isResultOf(ci.Common().Args[1], 0, "net.SplitHostPort"), rule, "the journal records the host part of the peer address", p.instrPos(ci), "argument is result 0 of net.SplitHostPort", "RecordIPAddress is not given the host returned by net.SplitHostPort: with the port included one address polling from several source ports is counted several times")
		}
	}
	w := p.Fn("common/ipsetsink/sinkcluster", "(*ClusterWriter).WriteIPSetToDisk")
	lwF := p.Field("common/ipsetsink/sinkcluster", "ClusterWriter", "lastWriteTime")
	if w == nil || lwF == nil {
		c.undecided(rule, "ClusterWriter.WriteIPSetToDisk", "-", "anchor does not resolve")
		return
	}
	var cp *ssa.Call
	for _, d := range deepCalls(w, 2, "io.Copy") {
		cp, _ = d.Top.(*ssa.Call)
		if cp == nil {
			cp, _ = d.In.(*ssa.Call)
		}
	}
	if cp == nil || cp.Parent() != w {
		c.okTrivial(rule, "WriteIPSetToDisk writes the chunk with io.Copy", p.Pos(w.Pos()), "write step not in the expected place: obligation not evaluated")
		return
	}
	okE := errNilEdges(w, cp, errResultIndex(cp.Call.Signature()))
	isReset := func(in ssa.Instruction) bool {
		ci, ok := in.(ssa.CallInstruction)
		return ok && strings.HasSuffix(calleeName(ci), "IPSetSink).Reset")
	}
	isAdvance := func(in ssa.Instruction) bool {
		st, ok := in.(*ssa.Store)
		if !ok {
			return false
		}
		_, f, okf := fieldOfAddr(st.Addr)
		return okf && f == lwF
	}
	for _, what := range []struct {
		name string
		pred func(ssa.Instruction) bool
	}{{"resets the sketch", isReset}, {"advances lastWriteTime", isAdvance}} {
		good := len(okE) > 0
		var wp []*ssa.BasicBlock
		for _, e := range okE {
			if pth := escapesWithout(e.To(), what.pred); pth != nil {
				good = false
				wp = pth
			}
		}
		c.check(good, rule, "after the chunk is written WriteIPSetToDisk "+what.name+" on every way out", p.instrPos(cp), "", "a way out after a successful write skips this step (for example on a Sync error): the next chunk claims the new interval but still carries the previous chunk's addresses, or the same interval is written twice", p.pathString(wp)...)
	}
}

// escapesWithoutInstr: from instruction a, is there a path to a return that does not execute b?
func escapesWithoutInstr(a, b ssa.Instruction) []*ssa.BasicBlock {
	if a.Block() == b.Block() && instrIndex(a) < instrIndex(b) {
		return nil
	}
	var out []*ssa.BasicBlock
	for _, s := range a.Block().Succs {
		if pth := escapesWithout(s, func(in ssa.Instruction) bool { return in == b }); pth != nil {
			out = pth
		}
	}
	return out
}

// checkEveryPollClassified: from the successful decode of a proxy poll every path
// of ProxyPolls to a return increments proxyPollWithRelayURLExtension or
// proxyPollWithoutRelayURLExtension: a poll that is rejected later (relay
// pattern) still is a poll with or without the extension. A classification that
// treats "rejected" as a third, exclusive case publishes the two counts too low.
func (c *Ctx) checkEveryPollClassified() {
	p := c.P
	rule := "O-1f every poll is counted with or without the relay-URL extension"
	pp := p.Fn("broker", "(*IPC).ProxyPolls")
	withF := p.Field("broker", "Metrics", "proxyPollWithRelayURLExtension")
	withoutF := p.Field("broker", "Metrics", "proxyPollWithoutRelayURLExtension")
	if pp == nil || withF == nil || withoutF == nil {
		c.undecided(rule, "ProxyPolls / relay-URL extension counters", "-", "anchor does not resolve")
		return
	}
	var dec *ssa.Call
	for _, ci := range callsIn(pp) {
		if cc, ok := ci.(*ssa.Call); ok && strings.HasPrefix(calleeName(ci), "common/messages.DecodeProxyPollRequest") {
			dec = cc
		}
	}
	if dec == nil {
		c.undecided(rule, "ProxyPolls decodes the poll", p.Pos(pp.Pos()), "decode call not found")
		return
	}
	isCount := func(in ssa.Instruction) bool {
		st, ok := in.(*ssa.Store)
		if !ok {
			return false
		}
		_, f, okf := fieldOfAddr(st.Addr)
		if !okf || (f != withF && f != withoutF) {
			return false
		}
		bo, okb := st.Val.(*ssa.BinOp)
		return okb && bo.Op == token.ADD
	}
	okE := errNilEdges(pp, dec, errResultIndex(dec.Call.Signature()))
	good := len(okE) > 0
	var wp []*ssa.BasicBlock
	for _, e := range okE {
		if pth := escapesWithout(e.To(), isCount); pth != nil {
			good, wp = false, pth
		}
	}
	c.check(good, rule, "ProxyPolls counts every decoded poll in one of the two counters", p.instrPos(dec), "on every path from the successful decode", "a decoded poll can be answered without having been counted as with or without the extension (for example a poll whose pattern is rejected): the published counts are below the number of polls", p.pathString(wp)...)
}

// checkCountryMapsReset: every map of CountryStats that NewMetrics creates is
// re-created (or emptied entry by entry) by zeroMetrics: a map left nil by the
// rotation makes the next update of that map panic (assignment to entry in nil
// map) with the metrics lock held.
func (c *Ctx) checkCountryMapsReset(newM, zeroM *ssa.Function) {
	p := c.P
	csT := p.Type("broker", "CountryStats")
	if csT == nil || newM == nil || zeroM == nil {
		return
	}
	{
		created, zeroed := map[string]bool{}, map[string]bool{}
		cst := csT.Underlying().(*types.Struct)
		for i := 0; i < cst.NumFields(); i++ {
			f := cst.Field(i)
			if _, ok := f.Type().Underlying().(*types.Map); !ok {
				continue
			}
			for _, s := range storesToField([]*ssa.Function{newM}, f) {
				if _, ok := s.Val.(*ssa.MakeMap); ok {
					created[f.Name()] = true
				}
			}
			for _, s := range storesToField([]*ssa.Function{zeroM}, f) {
				if _, ok := s.Val.(*ssa.MakeMap); ok {
					zeroed[f.Name()] = true
				}
			}
			// proxies is reset entry by entry
			if f.Name() == "proxies" {
				for _, a := range accessesOfField([]*ssa.Function{zeroM}, f, true) {
					if a.What == "map update" {
						zeroed[f.Name()] = true
					}
				}
			}
		}
		c.check(sameStringSet(sortedKeys(created), sortedKeys(zeroed)), "O-1c counter sets agree", "per-period maps created = maps reset", p.Pos(zeroM.Pos()),
			fmt.Sprintf("%v", sortedKeys(created)), fmt.Sprintf("created %v but reset %v", sortedKeys(created), sortedKeys(zeroed)))
	}
	// one address set per proxy type: every entry stored into the per-type table is a map made for that entry.
	// A set made once in front of the loop is shared by every type: each type's unique-address line then shows
	// the sum over all types, and the total counts every address once per type.
	{
		rule := "O-1h one address set per proxy type"
		n, bad := 0, 0
		for _, fn := range p.FnsIn("broker") {
			allInstrs(fn, func(in ssa.Instruction) {
				mu, ok := in.(*ssa.MapUpdate)
				if !ok {
					return
				}
				if _, f, okf := fieldLoad(mu.Map); !okf || f.Name() != "proxies" || f.Pkg() == nil || !strings.HasPrefix(f.Pkg().Path(), modPath) {
					return
				}
				n++
				mm, isMake := strip(mu.Value).(*ssa.MakeMap)
				if isMake && (!inCycle(mu.Block()) || inCycle(mm.Block())) {
					return
				}
				bad++
				why := "the stored set is not a map made for this entry"
				if isMake {
					why = "the set is made once, outside the loop that stores it under every proxy type"
				}
				c.viol(rule, p.FnName(fn)+" stores a per-type address set", p.instrPos(mu), why+": proxy types share one set, so per-type unique-address figures count other types' addresses")
			})
		}
		if bad == 0 {
			c.check(n >= 2, rule, "every entry of the per-type table is a map made for that entry", p.Pos(zeroM.Pos()), fmt.Sprintf("%d store(s) into countryStats.proxies, each a make() in the same iteration", n), "fewer than two stores into the per-type table found (creation and rotation)")
		}
	}
}

// checkReportCoversAllTypes: (a) the per-type unique-address lines and the total
// of printMetrics are produced by ranging over countryStats.proxies itself, so
// that every proxy type that is counted is published (a fixed list of type names
// omits the types it does not name from the total); (b) the "nat" label of the
// matched-poll counter is the polling proxy's NAT type; (c) ClusterWriter.AddIPToSet
// adds the address to the current sketch on every path (the address that
// triggers a flush belongs to the new chunk).
func (c *Ctx) checkReportCoversAllTypes() {
	p := c.P
	rule := "O-1g every counted proxy is published"
	pm := p.Fn("broker", "(*Metrics).printMetrics")
	if pm != nil {
		ranged := false
		for _, fn := range helperFns(pm, 2) {
			allInstrs(fn, func(in ssa.Instruction) {
				if r, ok := in.(*ssa.Range); ok {
					if _, f, okf := fieldLoad(r.X); okf && f.Name() == "proxies" {
						ranged = true
					}
				}
			})
		}
		c.check(ranged, rule, "printMetrics ranges over countryStats.proxies for the per-type lines and the total", p.Pos(pm.Pos()), "", "the per-type unique-address figures are not taken by iterating over the map of all types: addresses of a type that is not named explicitly are left out of snowflake-ips-total")
	}
	pp := p.Fn("broker", "(*IPC).ProxyPolls")
	if pp != nil {
		n := 0
		for _, ci := range callsIn(pp) {
			if calleeName(ci) != "(*broker.RoundedCounterVec).With" {
				continue
			}
			if _, f, ok := fieldLoad(ci.Common().Args[0]); !ok || f.Name() != "ProxyPollTotal" {
				continue
			}
			if st, ok := mapLiteralConstValue(ci.Common().Args[1], "status"); !ok || st != "matched" {
				continue
			}
			n++
			natV := mapLiteralValue(ci.Common().Args[1], "nat")
			good := natV != nil && isResultOf(natV, 2, "common/messages.DecodeProxyPollRequestWithRelayPrefix", "common/messages.DecodeProxyPollRequest")
			c.check(good, rule, "the matched-poll counter is labelled with the polling proxy's NAT type", p.instrPos(ci), "", "the nat label of ProxyPollTotal{status=matched} is not the NAT type decoded from this poll (the client's, for example): the series of the proxy's NAT type is published too low")
		}
		if n == 0 {
			c.okTrivial(rule, "the matched-poll counter is labelled with the polling proxy's NAT type", p.Pos(pp.Pos()), "no ProxyPollTotal{status=matched} increment found: obligation not evaluated")
		}
	}
	if add := p.Fn("common/ipsetsink/sinkcluster", "(*ClusterWriter).AddIPToSet"); add != nil && len(add.Params) == 2 {
		path := escapesWithout(add.Blocks[0], func(in ssa.Instruction) bool {
			ci, ok := in.(ssa.CallInstruction)
			if !ok || !strings.HasSuffix(calleeName(ci), "IPSetSink).AddIPToSet") {
				return false
			}
			return strip(ci.Common().Args[1]) == ssa.Value(add.Params[1])
		})
		c.check(path == nil, rule, "ClusterWriter.AddIPToSet records the address on every path", p.Pos(add.Pos()), "", "a path returns without adding the address to the current sketch (the address that triggers a flush is dropped): the first address of every chunk is missing from the journal", p.pathString(path)...)
	}
}
