package main

// Nil-after-error rules (part of E-PANIC / E-GUARD).
//
// R-A  result use: for a call returning (..., P, ..., error) with P a pointer,
//      every dereferencing use of the pointer result must be reachable only
//      through the err == nil edge of the same call's error (or a != nil test of
//      the pointer itself).
// R-B  field summary: a method that stores the pointer result of such a call
//      into a receiver field and returns the call's error on the err != nil
//      edge leaves that field possibly nil; in its callers the field must not be
//      dereferenced between the call and the test of the returned error.

import (
	"fmt"
	"go/token"
	"go/types"

	"golang.org/x/tools/go/ssa"
)

// errResultIndex returns the index of the trailing error result of sig (-1 if none).
func errResultIndex(sig *types.Signature) int {
	n := sig.Results().Len()
	if n == 0 {
		return -1
	}
	last := sig.Results().At(n - 1).Type()
	if types.Identical(last, types.Universe.Lookup("error").Type()) {
		return n - 1
	}
	return -1
}

func isPointer(t types.Type) bool {
	_, ok := t.Underlying().(*types.Pointer)
	return ok
}

// extractsOf returns the Extract instructions of a tuple-valued call by index.
func extractsOf(call *ssa.Call) map[int][]*ssa.Extract {
	out := map[int][]*ssa.Extract{}
	if call.Referrers() == nil {
		return out
	}
	for _, r := range *call.Referrers() {
		if e, ok := r.(*ssa.Extract); ok {
			out[e.Index] = append(out[e.Index], e)
		}
	}
	return out
}

// aliasesOf returns v plus every value that is v after strip (loads of locals
// that v was stored to, conversions), within fn.
func aliasesOf(fn *ssa.Function, v ssa.Value) map[ssa.Value]bool {
	out := map[ssa.Value]bool{v: true}
	changed := true
	for changed {
		changed = false
		allInstrs(fn, func(in ssa.Instruction) {
			val, ok := in.(ssa.Value)
			if !ok || out[val] {
				return
			}
			if s := strip(val); s != val && out[s] {
				out[val] = true
				changed = true
			}
		})
	}
	return out
}

// derefUses lists the instructions that dereference pointer value v (or an
// alias): field address, load, method call with v as receiver, or passing v to
// a repository function whose parameter is dereferenced.
func (p *Prog) derefUses(fn *ssa.Function, v ssa.Value) []ssa.Instruction {
	var out []ssa.Instruction
	al := aliasesOf(fn, v)
	for a := range al {
		refs := a.Referrers()
		if refs == nil {
			continue
		}
		for _, r := range *refs {
			switch x := r.(type) {
			case *ssa.FieldAddr:
				if x.X == a {
					out = append(out, r)
				}
			case *ssa.UnOp:
				if x.X == a && x.Op.String() == "*" {
					// a load through the pointer itself (not a load of a local cell holding it)
					if _, isAlloc := a.(*ssa.Alloc); !isAlloc {
						out = append(out, r)
					}
				}
			case ssa.CallInstruction:
				c := x.Common()
				if c.IsInvoke() {
					if c.Value == a {
						out = append(out, r) // method call on a (possibly nil) interface result
					}
					continue
				}
				if f := staticCallee(x); f != nil && len(c.Args) > 0 && c.Args[0] == a && f.Signature.Recv() != nil {
					out = append(out, r) // method call on the pointer
					continue
				}
				if f := staticCallee(x); f != nil && p.IsRepoFn(f) && f.Blocks != nil {
					for i, arg := range c.Args {
						if arg == a && i < len(f.Params) && paramDereferenced(f.Params[i]) {
							out = append(out, r)
						}
					}
				}
			}
		}
	}
	return out
}

func paramDereferenced(par *ssa.Parameter) bool {
	if par.Referrers() == nil {
		return false
	}
	for _, r := range *par.Referrers() {
		switch x := r.(type) {
		case *ssa.FieldAddr:
			if x.X == par {
				return true
			}
		case *ssa.UnOp:
			if x.X == par && x.Op.String() == "*" {
				return true
			}
		}
	}
	return false
}

// errNilEdges returns the edges on which the error produced by `call` (result
// errIdx) is known to be nil.
func errNilEdges(fn *ssa.Function, call *ssa.Call, errIdx int) []Edge {
	isErr := func(v ssa.Value) bool {
		c, i, ok := callResult(v)
		return ok && c == call && i == errIdx
	}
	out := nilCheckEdges(fn, true, isErr)
	// The error may be tested after it was merged with other errors (a helper that returns the
	// first failure, flattened into temporaries). "phi == nil" then certifies this call exactly
	// when every other incoming value either cannot be nil where it arrives (a fresh error, a value
	// behind its own != nil test) or arrives on a path that did not execute the call at all.
	out = append(out, nilCheckEdges(fn, true, func(v ssa.Value) bool {
		ph, ok := v.(*ssa.Phi)
		if !ok {
			return false
		}
		has := false
		for i, e := range ph.Edges {
			pred := ph.Block().Preds[i]
			if isErr(e) {
				has = true
				continue
			}
			if definitelyNonNil(e) {
				continue
			}
			if call.Block() != pred && reachPath(call.Block(), pred, nil) == nil {
				// the call is not executed before this edge: but is the value non-nil or irrelevant? A nil
				// arriving here means the call never ran on this path, which is not a failure of the call.
				continue
			}
			// behind its own != nil test?
			nn := nilCheckEdges(fn, false, func(w ssa.Value) bool { return w == e })
			if len(nn) > 0 && psSearch(fn.Blocks[0], nn, nil, func(b *ssa.BasicBlock) bool { return b == pred }) == nil {
				continue
			}
			return false
		}
		return has
	})...)
	return out
}

// checkResultUse applies R-A to every (pointer, error) call in fns whose callee
// satisfies sel (nil: all).
func (c *Ctx) checkResultUse(rule string, fns []*ssa.Function, sel func(ci *ssa.Call) bool) {
	p := c.P
	for _, fn := range fns {
		c.analysedFn(p.FnName(fn))
		allInstrs(fn, func(in ssa.Instruction) {
			call, ok := in.(*ssa.Call)
			if !ok {
				return
			}
			sig := call.Call.Signature()
			ei := errResultIndex(sig)
			if ei < 1 {
				return
			}
			if sel != nil && !sel(call) {
				return
			}
			exs := extractsOf(call)
			for ri := 0; ri < ei; ri++ {
				rt := sig.Results().At(ri).Type()
				_, isIface := rt.Underlying().(*types.Interface)
				if !isPointer(rt) && !(c.ifaceResults && isIface) {
					continue
				}
				for _, ex := range exs[ri] {
					key := fmt.Sprintf("%s result%d of %s", p.FnName(fn), ri, calleeName(call))
					pos := p.instrPos(call)
					uses := p.derefUses(fn, ex)
					if len(uses) == 0 {
						c.okTrivial(rule, key, pos, "pointer result is not dereferenced in this function")
						continue
					}
					cut := errNilEdges(fn, call, ei)
					cut = append(cut, nilCheckEdges(fn, false, func(v ssa.Value) bool { return strip(v) == ex })...)
					bad := false
					for _, u := range uses {
						if path := reachableWithout(fn, u, cut); path != nil {
							bad = true
							c.viol(rule, key, p.instrPos(u), "pointer result dereferenced on a path that does not pass the err == nil edge of its call", p.pathString(path)...)
							break
						}
					}
					if !bad {
						c.ok(rule, key, pos, fmt.Sprintf("%d dereferencing use(s), all behind the err == nil edge", len(uses)))
					}
				}
			}
		})
	}
}

// fieldSummary is an R-B summary: after method M returns a non-nil error,
// receiver field F may be nil.
type fieldSummary struct {
	M     *ssa.Function
	F     *types.Var
	Call  *ssa.Call // the producing call inside M
	Where string
}

// nilFieldSummaries computes the R-B summaries of the given functions.
func (p *Prog) nilFieldSummaries(fns []*ssa.Function) []fieldSummary {
	var out []fieldSummary
	for _, m := range fns {
		if m.Signature.Recv() == nil || len(m.Params) == 0 || errResultIndex(m.Signature) < 0 {
			continue
		}
		recv := m.Params[0]
		allInstrs(m, func(in ssa.Instruction) {
			st, ok := in.(*ssa.Store)
			if !ok {
				return
			}
			base, f, ok := fieldOfAddr(st.Addr)
			if !ok || strip(base) != recv {
				return
			}
			call, ri, ok := callResult(st.Val)
			if !ok {
				return
			}
			sig := call.Call.Signature()
			ei := errResultIndex(sig)
			if ei < 1 || ri >= ei || !isPointer(sig.Results().At(ri).Type()) {
				return
			}
			// M returns that error on some path?
			for _, r := range returnsOf(m) {
				last := r.Results[len(r.Results)-1]
				if cc, i, ok := callResult(last); ok && cc == call && i == ei {
					out = append(out, fieldSummary{m, f, call, p.instrPos(st)})
					return
				}
				if flows(last, func(v ssa.Value) bool { cc, i, ok := callResult(v); return ok && cc == call && i == ei }) {
					out = append(out, fieldSummary{m, f, call, p.instrPos(st)})
					return
				}
			}
		})
	}
	return out
}

// checkFieldAfterError applies R-B: in every caller (within fns) of a summarised
// method, dereferences of recv.F after the call must be behind the err == nil
// edge of the call (or a recv.F != nil test).
func (c *Ctx) checkFieldAfterError(rule string, fns []*ssa.Function, sums []fieldSummary) {
	p := c.P
	for _, s := range sums {
		for _, fn := range fns {
			for _, ci := range callsIn(fn) {
				call, ok := ci.(*ssa.Call)
				if !ok || staticCallee(ci) != s.M {
					continue
				}
				key := fmt.Sprintf("%s uses %s.%s after %s", p.FnName(fn), namedOf(s.M.Signature.Recv().Type()).Obj().Name(), s.F.Name(), p.FnName(s.M))
				recvArg := strip(call.Call.Args[0])
				ei := errResultIndex(call.Call.Signature())
				cut := errNilEdges(fn, call, ei)
				// loads of recv.F that are then dereferenced
				var derefs []ssa.Instruction
				allInstrs(fn, func(in ssa.Instruction) {
					ld, ok := in.(*ssa.UnOp)
					if !ok {
						return
					}
					base, f, ok := fieldLoad(ld)
					if !ok || f != s.F || strip(base) != recvArg {
						return
					}
					if !canFollow(call, ld) {
						return
					}
					derefs = append(derefs, p.derefUses(fn, ld)...)
					cut = append(cut, nilCheckEdges(fn, false, func(v ssa.Value) bool { return v == ld })...)
				})
				if len(derefs) == 0 {
					c.okTrivial(rule, key, p.instrPos(call), "field not dereferenced after the call")
					continue
				}
				bad := false
				for _, u := range derefs {
					// path from the call to the use avoiding the certifying edges
					if path := reachAfter(call, u, cut); path != nil {
						bad = true
						c.viol(rule, key, p.instrPos(u), fmt.Sprintf("%s may be nil when %s returns an error (set at %s), but it is dereferenced before that error is tested", s.F.Name(), p.FnName(s.M), s.Where), p.pathString(path)...)
						break
					}
				}
				if !bad {
					c.ok(rule, key, p.instrPos(call), fmt.Sprintf("%d dereference(s) of the field after the call, all behind the err == nil edge", len(derefs)))
				}
			}
		}
	}
}

// reachAfter: is there a path on which b executes after a that avoids the cut
// edges? Returns the block path.
func reachAfter(a, b ssa.Instruction, cut []Edge) []*ssa.BasicBlock {
	if a.Block() == b.Block() && instrIndex(a) < instrIndex(b) {
		return []*ssa.BasicBlock{a.Block()}
	}
	isCut := map[Edge]bool{}
	for _, e := range cut {
		isCut[e] = true
	}
	for i, s := range a.Block().Succs {
		if isCut[Edge{From: a.Block(), Idx: i}] {
			continue
		}
		if path := reachPath(s, b.Block(), cut); path != nil {
			return append([]*ssa.BasicBlock{a.Block()}, path...)
		}
	}
	return nil
}

// checkNilPhiDerefs (R-C): a pointer variable that is nil on some path - a phi
// with a nil-constant operand, "var x *T; if ok { x = ... }" - is dereferenced
// only where that path cannot arrive: the dereference is not reachable from the
// entry along a path on which the phi received nil (the search follows the
// outcomes of the tests taken, so "if x != nil" and error tests that share a
// condition with the assignment both count).
func (c *Ctx) checkNilPhiDerefs(rule string, fns []*ssa.Function) {
	p := c.P
	n := 0
	for _, fn := range fns {
		allInstrs(fn, func(in ssa.Instruction) {
			ph, ok := in.(*ssa.Phi)
			if !ok {
				return
			}
			if _, isPtr := ph.Type().Underlying().(*types.Pointer); !isPtr {
				return
			}
			hasNil := false
			for _, e := range ph.Edges {
				if isNilConst(e) {
					hasNil = true
				}
			}
			if !hasNil || ph.Referrers() == nil {
				return
			}
			for _, r := range *ph.Referrers() {
				deref := false
				switch x := r.(type) {
				case *ssa.UnOp:
					deref = x.Op == token.MUL && x.X == ssa.Value(ph)
				case *ssa.FieldAddr:
					deref = x.X == ssa.Value(ph)
				case ssa.CallInstruction:
					// a method call with the pointer as receiver of a method that dereferences (conservatively: any
					// static method of a repository or library type is taken to dereference)
					cm := x.Common()
					deref = !cm.IsInvoke() && len(cm.Args) > 0 && cm.Args[0] == ssa.Value(ph) && cm.Signature().Recv() != nil
				}
				if !deref {
					continue
				}
				n++
				use := r
				path := psSearchState(fn.Blocks[0], nil, nil, func(b *ssa.BasicBlock, known map[ssa.Value]bool) bool {
					if b != use.Block() {
						return false
					}
					isNil, okk := known[ph]
					return okk && isNil
				})
				c.check(path == nil, rule, p.FnName(fn)+" dereferences "+describeOperand(p, ph)+" only where it cannot be nil", p.instrPos(use), "",
					"the pointer is nil on a path that reaches this dereference (it is only assigned inside a branch, and the test that follows does not cover the other branch): a malformed message ends in a nil dereference", p.pathString(path)...)
			}
		})
	}
	if n == 0 {
		c.okTrivial(rule, "dereferences of pointer variables that are nil on some path", "-", "none")
	}
}

// checkNilErrorInvokes (R-D): err.Error() - or any method invoked on an error
// value that is the result of a call - is reachable only where that value is
// known to be non-nil. "if err != nil || other { log(err.Error()) }" calls a
// method on a nil interface when only the second condition holds: a panic that a
// well-formed but unexpected message triggers.
func (c *Ctx) checkNilErrorInvokes(rule string, fns []*ssa.Function) {
	p := c.P
	n, bad := 0, 0
	for _, fn := range fns {
		allInstrs(fn, func(in ssa.Instruction) {
			ci, ok := in.(ssa.CallInstruction)
			if !ok || !ci.Common().IsInvoke() {
				return
			}
			v := ci.Common().Value
			if v.Type().String() != "error" {
				return
			}
			// only values whose nil-ness is decided in this function: call results and their merges
			src := strip(v)
			switch src.(type) {
			case *ssa.Extract, *ssa.Call, *ssa.Phi:
			default:
				return
			}
			if definitelyNonNil(src) {
				return
			}
			n++
			nonNil := nilCheckEdges(fn, false, func(w ssa.Value) bool { return w == v || strip(w) == src })
			var path []*ssa.BasicBlock
			if len(nonNil) > 0 {
				path = reachableWithout(fn, in, nonNil)
				if path == nil {
					return
				}
				// a merged error whose every incoming value is non-nil where it arrives
				if ph, isPhi := src.(*ssa.Phi); isPhi && !retLikeMayBeNil(ph) {
					return
				}
			} else if ph, isPhi := src.(*ssa.Phi); isPhi && !retLikeMayBeNil(ph) {
				return
			}
			bad++
			c.viol(rule, p.FnName(fn)+" calls "+ci.Common().Method.Name()+"() on an error that may be nil", p.instrPos(in), "the method is invoked on a path on which the error value was not established to be non-nil: a nil interface method call panics", p.pathString(path)...)
		})
	}
	if bad == 0 {
		c.ok(rule, "methods of error values are invoked only where the error is non-nil", "-", fmt.Sprintf("%d invoke(s) on call-result errors examined", n))
	}
}

// retLikeMayBeNil: may the merged error value be nil (some incoming value is nil or unknown)?
func retLikeMayBeNil(ph *ssa.Phi) bool {
	seen := map[ssa.Value]bool{}
	var rec func(v ssa.Value) bool
	rec = func(v ssa.Value) bool {
		if isNilConst(v) {
			return true
		}
		if definitelyNonNil(v) {
			return false
		}
		if p2, ok := v.(*ssa.Phi); ok {
			if seen[v] {
				return false
			}
			seen[v] = true
			for _, e := range p2.Edges {
				if rec(e) {
					return true
				}
			}
			return false
		}
		return true
	}
	return rec(ph)
}

// checkNilTypeAndEarlyClosures (R-E, R-F): (R-E) reflect.TypeOf yields a nil Type
// for a nil interface (a JSON null): a method invoked on its result without a nil
// test panics. (R-F) a function literal that dereferences the pointer result of
// a (pointer, error) call is created only behind that call's err == nil edge - a
// goroutine started before the error check closes a nil connection later, in a
// goroutine nobody recovers.
func (c *Ctx) checkNilTypeAndEarlyClosures(rule string, fns []*ssa.Function) {
	p := c.P
	n, bad := 0, 0
	for _, fn := range fns {
		allInstrs(fn, func(in ssa.Instruction) {
			ci, ok := in.(ssa.CallInstruction)
			if !ok {
				return
			}
			// R-E
			if ci.Common().IsInvoke() {
				if cc, _, okc := callResult1(strip(ci.Common().Value)); okc && calleeName(cc) == "reflect.TypeOf" {
					n++
					v := ci.Common().Value
					nonNil := nilCheckEdges(fn, false, func(w ssa.Value) bool { return w == v || strip(w) == strip(v) })
					argNonNil := nilCheckEdges(fn, false, func(w ssa.Value) bool { return w == cc.Call.Args[0] })
					if (len(nonNil) == 0 || reachableWithout(fn, in, nonNil) != nil) && (len(argNonNil) == 0 || reachableWithout(fn, in, argNonNil) != nil) {
						bad++
						c.viol(rule, p.FnName(fn)+" calls "+ci.Common().Method.Name()+"() on reflect.TypeOf(x)", p.instrPos(in), "reflect.TypeOf returns nil for a nil interface value (a JSON null): the method call on it panics")
					}
				}
				return
			}
		})
		// R-F
		for _, call := range callsIn(fn) {
			cc, ok := call.(*ssa.Call)
			if !ok {
				continue
			}
			sig := cc.Call.Signature()
			if sig.Results().Len() != 2 || sig.Results().At(1).Type().String() != "error" {
				continue
			}
			if _, isPtr := sig.Results().At(0).Type().Underlying().(*types.Pointer); !isPtr {
				continue
			}
			okE := errNilEdges(fn, cc, 1)
			if len(okE) == 0 {
				continue
			}
			// the cell the pointer result is stored in, if a closure captures it
			var ptrVal ssa.Value
			if cc.Referrers() != nil {
				for _, r := range *cc.Referrers() {
					if ex, isEx := r.(*ssa.Extract); isEx && ex.Index == 0 {
						ptrVal = ex
					}
				}
			}
			if ptrVal == nil || ptrVal.Referrers() == nil {
				continue
			}
			for _, r := range *ptrVal.Referrers() {
				st, isSt := r.(*ssa.Store)
				if !isSt {
					continue
				}
				cell, isAl := st.Addr.(*ssa.Alloc)
				if !isAl || cell.Referrers() == nil {
					continue
				}
				for _, u := range *cell.Referrers() {
					mc, isMC := u.(*ssa.MakeClosure)
					if !isMC {
						continue
					}
					body, _ := mc.Fn.(*ssa.Function)
					if body == nil {
						continue
					}
					// does the body dereference the captured pointer (a method call or field access through it)?
					derefs := false
					for i, b := range mc.Bindings {
						if b != ssa.Value(cell) || i >= len(body.FreeVars) || body.FreeVars[i].Referrers() == nil {
							continue
						}
						for _, fr := range *body.FreeVars[i].Referrers() {
							if ld, isLd := fr.(*ssa.UnOp); isLd && ld.Referrers() != nil {
								for _, lu := range *ld.Referrers() {
									switch x := lu.(type) {
									case ssa.CallInstruction:
										if len(x.Common().Args) > 0 && x.Common().Args[0] == ssa.Value(ld) || x.Common().Value == ssa.Value(ld) {
											derefs = true
										}
									case *ssa.FieldAddr:
										derefs = true
									}
								}
							}
						}
					}
					if !derefs {
						continue
					}
					n++
					if path := reachableWithout(fn, mc, okE); path != nil && canFollow(cc, mc) {
						// the body may itself test the pointer for nil
						bad++
						c.viol(rule, p.FnName(fn)+" creates a function literal that uses the result of "+calleeName(cc)+" before its error is tested", p.instrPos(mc), "the literal (a goroutine body, a callback) dereferences the pointer result of a call whose failure leaves it nil: it runs later and panics where nothing recovers", p.pathString(path)...)
					}
				}
			}
		}
	}
	if bad == 0 {
		c.ok(rule, "reflect.TypeOf results and captured pointer results are used only where they cannot be nil", "-", fmt.Sprintf("%d site(s) examined", n))
	}
}
