package main

import (
	"golang.org/x/tools/go/ssa"
)

func init() {
	register("C13", propMeta{
		Explanation: "E-PANIC + E-GUARD. O-1/O-2: over every repository function reachable from the untrusted session-description entry points (util.DeserializeSessionDescription, util.SerializeSessionDescription, util.StripLocalAddresses, proxy/lib.remoteIPFromSDP) no explicit panic, log.Fatal/os.Exit, or single-value type assertion that is not discharged (dominating comma-ok of the same value, container callback tables) exists, and every constant index into a regexp submatch result is within the pattern's capture groups and behind a != nil test. O-3: in every caller, the *SessionDescription returned by a (pointer, error) call is dereferenced only through the err == nil edge of that call. These are necessary conditions of 'never panic': each violating construct is a concrete crash path for some input.",
		NotDecided:  "panics inside third-party parsers (pion/sdp, pion/ice, encoding/json) - trusted base; the serialise/deserialise round-trip equality (value-level); variable-index slice accesses.",
		Assumptions: []string{"third-party and standard-library callees do not panic on any input", "pion: RemoteDescription()/LocalDescription() are non-nil after a successful Set*Description"},
	}, runC13)
}

func runC13(c *Ctx) {
	p := c.P
	var entries []*ssa.Function
	for _, a := range [][2]string{
		{"common/util", "DeserializeSessionDescription"},
		{"common/util", "SerializeSessionDescription"},
		{"common/util", "StripLocalAddresses"},
		{"proxy/lib", "remoteIPFromSDP"},
	} {
		fn := p.Fn(a[0], a[1])
		if fn == nil {
			c.undecided("O-0 anchors", a[0]+"."+a[1], "-", "entry point does not resolve")
			continue
		}
		c.okTrivial("O-0 anchors", a[0]+"."+a[1], p.Pos(fn.Pos()), "entry point resolved")
		entries = append(entries, fn)
	}
	reached := c.checkTerminators("O-1 no termination construct on the untrusted SDP path", entries, nil)
	c.checkConstIndexes("O-2 constant indexes into submatch/split results", reached)

	// O-3: callers use the deserialised description only after the error check.
	var scope []*ssa.Function
	if c.Thorough {
		scope = p.FnsIn()
	} else {
		scope = p.FnsIn("client/lib", "proxy/lib", "probetest", "common/util")
	}
	des := p.Fn("common/util", "DeserializeSessionDescription")
	c.checkResultUse("O-3 description used only after its error check", scope, func(call *ssa.Call) bool {
		if c.Thorough {
			return true
		}
		f := staticCallee(call)
		if f == nil {
			return false
		}
		// quick: the deserialiser and every repository function that forwards its result
		return f == des || returnsResultOf(f, des)
	})
}

// returnsResultOf: f has a return statement that forwards the results of a call to g.
func returnsResultOf(f, g *ssa.Function) bool {
	if f.Blocks == nil || g == nil {
		return false
	}
	for _, r := range returnsOf(f) {
		for _, res := range r.Results {
			if c, _, ok := callResult(res); ok && staticCallee(c) == g {
				return true
			}
		}
	}
	return false
}
