package main

import (
	"fmt"
	"go/types"
	"strings"

	"golang.org/x/tools/go/ssa"
)

func init() {
	register("C13", propMeta{
		Explanation: "E-PANIC + E-GUARD. O-1/O-2: over every repository function reachable from the untrusted session-description entry points (util.DeserializeSessionDescription, util.SerializeSessionDescription, util.StripLocalAddresses, proxy/lib.remoteIPFromSDP) no explicit panic, log.Fatal/os.Exit, or single-value type assertion that is not discharged (dominating comma-ok of the same value, container callback tables) exists, and every constant index into a regexp submatch result is within the pattern's capture groups and behind a != nil test. O-3: in every caller, the *SessionDescription returned by a (pointer, error) call is dereferenced only through the err == nil edge of that call. These are necessary conditions of 'never panic': each violating construct is a concrete crash path for some input. Added after the second seeding round: O-5 in every client/proxy function returning (pointer, error) that feeds a description parameter to a fallible call, no return reachable from that call's failure edge yields (nil, possibly-nil error); O-6 no function of common/util keeps package-level mutable state (a shared buffer/encoder for serialising descriptions). Added after the third seeding round: O-2b a constant index is used only behind a length test of the same slice; O-3c a pointer that can be nil on an edge where the accompanying error is nil (shadowed err, error of an earlier call) is not dereferenced or passed on; O-5 DeserializeSessionDescription has no (nil, nil) return. Added after the fourth seeding round: O-2b covers constant indexes into strings (msg[0] on a blank message); O-3d no method is invoked on an error value that may be nil (if err != nil || other { ... err.Error() }). Added after the fifth seeding round: O-3e no method is invoked on reflect.TypeOf(x) without a nil test, and a function literal that dereferences the pointer result of a (pointer, error) call is created only behind that call's err == nil edge (probe server included). Added after the sixth seeding round and the mutation audit: O-3f a method is invoked on an interface value that a repository function may return as nil (RemoteAddr without a public candidate) only behind a nil test - parameters are followed to their callers through the VTA call graph, method-value wrappers and go statements included; O-7 the SDP of the deserialised description is the decoded member itself; O-7/C15 the event-error obligation of C15. O-8/O-9 the two error-discipline rules for common/util.",
		NotDecided:  "panics inside third-party parsers (pion/sdp, pion/ice, encoding/json) - trusted base; the serialise/deserialise round-trip equality (value-level); variable-index slice accesses.",
		Assumptions: []string{"third-party and standard-library callees do not panic on any input", "pion: RemoteDescription()/LocalDescription() are non-nil after a successful Set*Description"},
	}, runC13)
}

func runC13(c *Ctx) {
	p := c.P
	// an answer that pion refuses is reported through an event whose String() calls Error() on its error field:
	// the field must hold the error of that refusal (C15's obligation)
	c.prefix = "O-7/C15:"
	c.checkEventErrors("O-6d events carry the error their String() dereferences")
	c.prefix = ""
	var entries []*ssa.Function
	for _, a := range [][2]string{
		{"common/util", "DeserializeSessionDescription"},
		{"common/util", "SerializeSessionDescription"},
		{"common/util", "StripLocalAddresses"},
		{"proxy/lib", "remoteIPFromSDP"},
	} {
		fn := p.Fn(a[0], a[1])
		if fn == nil {
			c.undecided("O-0 anchors", a[0]+"."+a[1], "-", "entry point does not resolve")
			continue
		}
		c.okTrivial("O-0 anchors", a[0]+"."+a[1], p.Pos(fn.Pos()), "entry point resolved")
		entries = append(entries, fn)
	}
	reached := c.checkTerminators("O-1 no termination construct on the untrusted SDP path", entries, nil)
	c.checkConstIndexes("O-2 constant indexes into submatch/split results", reached)
	c.checkConstIndexGuards("O-2b constant indexes into slices are behind a length-establishing edge", reached)

	// O-3: callers use the deserialised description only after the error check.
	var scope []*ssa.Function
	if c.Thorough {
		scope = p.FnsIn()
	} else {
		scope = p.FnsIn("client/lib", "proxy/lib", "probetest", "common/util")
	}
	des := p.Fn("common/util", "DeserializeSessionDescription")
	// inside the entry points themselves (and what they reach): every pointer or
	// interface result of a (T, error) call, e.g. the ICE candidate
	c.ifaceResults = true
	c.checkResultUse("O-3b parsed values used only after their error check", reached, nil)
	c.ifaceResults = false
	c.checkSDPSchema()
	c.checkRejectionHasError("O-5 a rejected description is reported as an error")
	c.checkNilPhiDerefs("O-3c a pointer that is nil on some path is not dereferenced there", p.FnsIn("client/lib", "proxy/lib", "common/util"))
	c.checkDecodeErrorsConsumed("O-8 a decoding step's error is part of the verdict", p.FnsIn("common/util"))
	c.checkErrorBranchesLeave("O-9 a failed step ends the function", p.FnsIn("common/util"))
	c.checkNilErrorInvokes("O-3d no method is invoked on an error that may be nil", p.FnsIn("client/lib", "proxy/lib", "common/util"))
	// the address taken from a description may be absent (no public candidate): RemoteAddr() then returns nil
	c.checkNilInterfaceResults("O-3f no method is invoked on an interface result that may be nil", p.FnsIn("client/lib", "proxy/lib", "common/util"))
	c.checkNilTypeAndEarlyClosures("O-3e nil types and pointers captured before the error test", p.FnsIn("client/lib", "proxy/lib", "common/util", "probetest"))
	c.checkNoSharedState("O-6 the description codec keeps no shared mutable state", "common/util", p.FnsIn("common/util"))
	c.checkResultUse("O-3 description used only after its error check", scope, func(call *ssa.Call) bool {
		if c.Thorough {
			// thorough: every call, anywhere, that yields a *SessionDescription with an error
			sig := call.Call.Signature()
			for i := 0; i < sig.Results().Len(); i++ {
				if pt, ok := sig.Results().At(i).Type().(*types.Pointer); ok {
					if n, okn := pt.Elem().(*types.Named); okn && n.Obj().Name() == "SessionDescription" {
						return true
					}
				}
			}
		}
		f := staticCallee(call)
		if f == nil {
			return false
		}
		// quick: the deserialiser and every repository function that forwards its result
		return f == des || returnsResultOf(f, des)
	})
}

// returnsResultOf: f has a return statement that forwards the results of a call to g.
func returnsResultOf(f, g *ssa.Function) bool {
	if f.Blocks == nil || g == nil {
		return false
	}
	for _, r := range returnsOf(f) {
		for _, res := range r.Results {
			if c, _, ok := callResult(res); ok && staticCallee(c) == g {
				return true
			}
		}
	}
	return false
}

// checkSDPSchema: the serialiser's JSON members are exactly the members the
// deserialiser requires (same names, none omitted when empty).
func (c *Ctx) checkSDPSchema() {
	p := c.P
	rule := "O-4 serialiser and deserialiser agree on the members"
	ser := p.Fn("common/util", "SerializeSessionDescription")
	des := p.Fn("common/util", "DeserializeSessionDescription")
	if ser == nil || des == nil {
		c.undecided(rule, "util.Serialize/DeserializeSessionDescription", "-", "anchor does not resolve")
		return
	}
	// members written: json tags of the marshalled struct type
	written := map[string]bool{}
	omit := ""
	n := 0
	for _, ci := range callsTo(ser, "encoding/json.Marshal") {
		n++
		bt := boxedType(ci.Common().Args[0])
		if bt == nil {
			continue
		}
		if pt, ok := bt.(*types.Pointer); ok {
			bt = pt.Elem()
		}
		st, ok := bt.Underlying().(*types.Struct)
		if !ok {
			continue
		}
		for i := 0; i < st.NumFields(); i++ {
			f := st.Field(i)
			if !f.Exported() {
				continue
			}
			tag := reflectTag(st.Tag(i), "json")
			name := f.Name()
			parts := strings.Split(tag, ",")
			if parts[0] == "-" {
				continue
			}
			if parts[0] != "" {
				name = parts[0]
			}
			written[name] = true
			for _, o := range parts[1:] {
				if o == "omitempty" {
					omit += name + " "
				}
			}
		}
	}
	// members required: constant keys looked up in the parsed map
	required := map[string]bool{}
	allInstrs(des, func(in ssa.Instruction) {
		if lk, ok := in.(*ssa.Lookup); ok {
			if k, okk := constString(lk.Index); okk {
				required[k] = true
			}
		}
	})
	c.check(n == 1 && sameStringSet(sortedKeys(written), sortedKeys(required)) && omit == "", rule, "members written == members required, none omitted when empty", p.Pos(ser.Pos()),
		fmt.Sprintf("%v", sortedKeys(required)), fmt.Sprintf("the serialiser writes %v (omitted when empty: %q) but the deserialiser requires %v: some description does not survive the round trip", sortedKeys(written), omit, sortedKeys(required)))
}

// reflectTag extracts a key from a struct tag without importing reflect.
func reflectTag(tag, key string) string {
	for tag != "" {
		i := 0
		for i < len(tag) && tag[i] == ' ' {
			i++
		}
		tag = tag[i:]
		if tag == "" {
			break
		}
		i = 0
		for i < len(tag) && tag[i] > ' ' && tag[i] != ':' && tag[i] != '"' {
			i++
		}
		if i == 0 || i+1 >= len(tag) || tag[i] != ':' || tag[i+1] != '"' {
			break
		}
		name := tag[:i]
		tag = tag[i+1:]
		i = 1
		for i < len(tag) && tag[i] != '"' {
			if tag[i] == '\\' {
				i++
			}
			i++
		}
		if i >= len(tag) {
			break
		}
		val := tag[1:i]
		tag = tag[i+1:]
		if name == key {
			return val
		}
	}
	return ""
}

// checkRejectionHasError: in every client/proxy function that returns
// (pointer, error) and feeds one of its parameters - the untrusted description -
// to a call that can fail, no return reachable from that call's failure edge
// yields (nil, possibly-nil error): callers dereference the pointer behind
// err == nil (O-3), so a swallowed or overwritten rejection error turns a
// malformed description into a nil dereference.
func (c *Ctx) checkRejectionHasError(rule string) {
	p := c.P
	nFn, nCalls := 0, 0
	// the deserialiser itself: every return yields a description or a non-nil error (callers test the
	// error and then dereference the description)
	// the description that comes out carries the text that went in: the SDP of the result is the decoded "sdp"
	// member itself (no call between the two)
	if des := p.Fn("common/util", "DeserializeSessionDescription"); des != nil {
		ruleRT := "O-7 the deserialised description carries the received text"
		n := 0
		for _, r := range returnsOf(des) {
			if len(r.Results) < 1 {
				continue
			}
			al, ok := strip(retVal(r, 0)).(*ssa.Alloc)
			if !ok {
				continue
			}
			sdp := structLitField(al, "SDP")
			if sdp == nil {
				continue
			}
			n++
			// walk back through assertions and extracts; a call on the way is a transformation
			v := sdp
			var viaCall *ssa.Call
			fromLookup := false
			for i := 0; i < 10 && v != nil; i++ {
				switch x := v.(type) {
				case *ssa.Extract:
					v = x.Tuple
				case *ssa.TypeAssert:
					v = x.X
				case *ssa.Lookup:
					if k, okk := constString(x.Index); okk && k == "sdp" {
						fromLookup = true
					}
					v = nil
				case *ssa.Call:
					viaCall = x
					v = nil
				case *ssa.Phi:
					v = nil
				case *ssa.FieldAddr, *ssa.UnOp, *ssa.Field:
					// a struct decoded by encoding/json: the field is what was received
					fromLookup = true
					v = nil
				default:
					v = nil
				}
			}
			if viaCall != nil {
				c.viol(ruleRT, "DeserializeSessionDescription stores the decoded sdp member unchanged", p.instrPos(viaCall), "the SDP of the result is the result of "+calleeName(viaCall)+", not the decoded member itself: a description whose text this call changes (line terminators, white space, case) does not come back as it was serialised")
			} else {
				c.check(fromLookup, ruleRT, "DeserializeSessionDescription stores the decoded sdp member unchanged", p.instrPos(r), "", "the origin of the SDP text of the result is not the decoded \"sdp\" member")
			}
		}
		if n == 0 {
			c.undecided(ruleRT, "DeserializeSessionDescription stores the decoded sdp member unchanged", p.Pos(des.Pos()), "no returned description literal found")
		}
	}
	if des := p.Fn("common/util", "DeserializeSessionDescription"); des != nil {
		okAll := true
		var where *ssa.Return
		for _, r := range returnsOf(des) {
			if len(r.Results) == 2 && isNilConst(retVal(r, 0)) && retMayBeNil(r, 1) {
				okAll = false
				where = r
			}
		}
		pos := p.Pos(des.Pos())
		if where != nil {
			pos = p.instrPos(where)
		}
		c.check(okAll, rule, "DeserializeSessionDescription never returns (nil, nil)", pos, "", "a return yields no description together with an error that may be nil (a stale err variable): the caller's error test passes and it dereferences nil")
	} else {
		c.undecided(rule, "common/util.DeserializeSessionDescription", "-", "anchor does not resolve")
	}
	for _, fn := range p.FnsIn("client/lib", "proxy/lib") {
		res := fn.Signature.Results()
		ei := errResultIndex(fn.Signature)
		if res.Len() != 2 || ei != 1 {
			continue
		}
		if _, isPtr := res.At(0).Type().Underlying().(*types.Pointer); !isPtr {
			continue
		}
		// parameters that carry a description or raw message
		untrusted := func(v ssa.Value) bool {
			par, ok := v.(*ssa.Parameter)
			if !ok || par.Parent() != fn {
				return false
			}
			t := par.Type()
			if pt, okp := t.(*types.Pointer); okp {
				t = pt.Elem()
			}
			if n, okn := t.(*types.Named); okn && n.Obj().Name() == "SessionDescription" {
				return true
			}
			return false
		}
		used := false
		for _, ci := range callsIn(fn) {
			cc, ok := ci.(*ssa.Call)
			if !ok {
				continue
			}
			cei := errResultIndex(cc.Call.Signature())
			if cei < 0 {
				continue
			}
			fed := false
			for _, a := range callArgs(cc) {
				if flowsLocal(a, untrusted) {
					fed = true
				}
			}
			if !fed {
				continue
			}
			used = true
			nCalls++
			bad := nilCheckEdges(fn, false, func(v ssa.Value) bool { return errFrom(v, cc, cei) })
			okAll := true
			var where ssa.Instruction
			for _, e := range bad {
				for _, r := range returnsOf(fn) {
					if reachPath(e.To(), r.Block(), nil) == nil {
						continue
					}
					if isNilConst(retVal(r, 0)) && retMayBeNil(r, 1) {
						okAll = false
						where = r
					}
				}
			}
			pos := p.instrPos(cc)
			if where != nil {
				pos = p.instrPos(where)
			}
			c.check(okAll, rule, p.FnName(fn)+": failure of "+calleeName(cc)+" is returned as a non-nil error", pos, "", "after the description was rejected a path returns a nil result together with an error that may be nil (overwritten or shadowed): the caller takes it for success and dereferences nil")
		}
		if used {
			nFn++
		}
	}
	if nCalls == 0 {
		c.undecided(rule, "functions fed an untrusted description", "-", "none found in client/lib and proxy/lib")
	}
	_ = nFn
}
