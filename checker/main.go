// sfcheck: repository-specific static checker for the Snowflake properties
// C01..C20 (see /verif/DESIGN.md). It type-checks /repo's current working tree,
// builds SSA and decides structural necessary conditions of each property.
package main

import (
	"encoding/json"
	"flag"
	"fmt"
	"os"
	"path/filepath"
	"runtime/debug"
	"sort"
	"strconv"
	"strings"
	"time"
)

type property struct {
	run  func(c *Ctx)
	meta propMeta
}

var registry = map[string]*property{}

func register(id string, meta propMeta, run func(c *Ctx)) {
	registry[id] = &property{run: run, meta: meta}
}

func main() {
	prop := flag.String("prop", "", "property id (C01..C20) or 'all'")
	tier := flag.String("tier", "quick", "quick|thorough")
	repo := flag.String("repo", "/repo", "repository working tree to analyse")
	verif := flag.String("verif", "/verif", "verification directory (evidence/, replay/, known_findings.json)")
	out := flag.String("out", "", "directory for evidence/ and replay/ output (default: -verif)")
	replay := flag.String("replay", "", "replay file: re-run its property and print the matching obligation")
	debugLocks := flag.String("debug-locks", "", "print lockset call sites of the named function and exit")
	list := flag.Bool("list", false, "print the registered properties with their meta data as JSON and exit")
	selftest := flag.Bool("selftest", false, "run the checker on its seeded-fault fixtures")
	flag.Parse()

	if *tier == "" {
		*tier = os.Getenv("VERIF_TIER")
	}
	if *out == "" {
		*out = *verif
	}
	if *tier != "quick" && *tier != "thorough" {
		fmt.Fprintln(os.Stderr, "bad -tier")
		os.Exit(2)
	}
	seed := 0
	if s := os.Getenv("VERIF_SEED"); s != "" {
		if n, err := strconv.Atoi(s); err == nil {
			seed = n // recorded, not used: the analysis is deterministic
		}
	}
	var replayRule, replayConstruct string
	if *replay != "" {
		b, err := os.ReadFile(*replay)
		if err != nil {
			fmt.Fprintln(os.Stderr, err)
			os.Exit(2)
		}
		var r map[string]interface{}
		if err := json.Unmarshal(b, &r); err != nil {
			fmt.Fprintln(os.Stderr, err)
			os.Exit(2)
		}
		*prop, _ = r["property"].(string)
		replayRule, _ = r["rule"].(string)
		replayConstruct, _ = r["construct"].(string)
	}
	if *list {
		out := map[string]interface{}{}
		for id, pr := range registry {
			out[id] = map[string]interface{}{"explanation": pr.meta.Explanation, "not_decided": pr.meta.NotDecided, "assumptions": pr.meta.Assumptions}
		}
		b, _ := json.MarshalIndent(out, "", " ")
		fmt.Println(string(b))
		os.Exit(0)
	}
	if *selftest {
		os.Exit(runSelfTest(*verif))
	}
	var ids []string
	if *prop == "all" {
		for id := range registry {
			ids = append(ids, id)
		}
		sort.Strings(ids)
	} else if _, ok := registry[*prop]; ok {
		ids = []string{*prop}
	} else {
		fmt.Fprintf(os.Stderr, "unknown property %q\n", *prop)
		os.Exit(2)
	}

	known, err := loadKnown(filepath.Join(*verif, "known_findings.json"))
	if err != nil {
		fmt.Fprintf(os.Stderr, "CHECK-BROKEN: known_findings.json: %v\n", err)
		os.Exit(2)
	}
	floors, err := loadFloors(filepath.Join(*verif, "checker", "expect.json"))
	if err != nil {
		fmt.Fprintf(os.Stderr, "CHECK-BROKEN: expect.json: %v\n", err)
		os.Exit(2)
	}

	t0 := time.Now()
	p, err := loadProg(*repo)
	if err != nil {
		fmt.Printf("CHECK-BROKEN: cannot load %s: %v\n", *repo, err)
		os.Exit(2)
	}
	if *debugLocks != "" {
		p.Locks().DebugSites(*debugLocks)
		os.Exit(0)
	}
	exit := 0
	for _, id := range ids {
		code := runOne(p, id, *tier, *out, known, floors, seed, t0, replayRule, replayConstruct)
		if code == 1 || (code == 2 && exit == 0) {
			if exit != 1 {
				exit = code
			}
		}
		t0 = time.Now()
	}
	os.Exit(exit)
}

func runOne(p *Prog, id, tier, verif string, known *KnownFile, floors Floors, seed int, t0 time.Time, replayRule, replayConstruct string) (code int) {
	c := newCtx(p, id, tier)
	defer func() {
		if r := recover(); r != nil {
			fmt.Printf("CHECK-BROKEN property=%s: analyser panic: %v\n%s\n", id, r, debug.Stack())
			code = 2
		}
	}()
	registry[id].run(c)
	code = c.finish(verif, registry[id].meta, known, floors, seed, t0)
	if replayRule != "" {
		fmt.Printf("-- replay of [%s] %s:\n", replayRule, replayConstruct)
		for _, o := range c.obls {
			if o.Rule == replayRule && o.Construct == replayConstruct {
				fmt.Printf("   %s @%s -- %s\n", o.Status, o.Pos, o.Detail)
				if len(o.Path) > 0 {
					fmt.Printf("   path: %s\n", strings.Join(o.Path, " -> "))
				}
			}
		}
	}
	return code
}
