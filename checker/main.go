// sfcheck: repository-specific static checker for the Snowflake properties
// C01..C20 (see /verif/DESIGN.md). It type-checks /repo's current working tree,
// builds SSA and decides structural necessary conditions of each property.
package main

import (
	"encoding/json"
	"flag"
	"fmt"
	"os"
	"path/filepath"
	"runtime/debug"
	"sort"
	"strconv"
	"strings"
	"time"
)

type property struct {
	run  func(c *Ctx)
	meta propMeta
}

var registry = map[string]*property{}

func register(id string, meta propMeta, run func(c *Ctx)) {
	registry[id] = &property{run: run, meta: meta}
}

func main() {
	prop := flag.String("prop", "", "property id (C01..C20) or 'all'")
	tier := flag.String("tier", "quick", "quick|thorough")
	repo := flag.String("repo", "/repo", "repository working tree to analyse")
	verif := flag.String("verif", "/verif", "verification directory (evidence/, replay/, known_findings.json)")
	out := flag.String("out", "", "directory for evidence/ and replay/ output (default: -verif)")
	replay := flag.String("replay", "", "replay file: re-run its property and print the matching obligation")
	debugLocks := flag.String("debug-locks", "", "print lockset call sites of the named function and exit")
	list := flag.Bool("list", false, "print the registered properties with their meta data as JSON and exit")
	selftest := flag.Bool("selftest", false, "run the checker on its seeded-fault fixtures")
	dumpTypes := flag.Bool("dump-types", false, "print the JSON list of the repository's named types (reference list for the scalar-replacement pass of the helper-inlined view) and exit")
	dumpFns := flag.Bool("dump-functions", false, "print the JSON list of the repository's functions (reference list for the helper-inlined view) and exit")
	flag.Parse()

	if *tier == "" {
		*tier = os.Getenv("VERIF_TIER")
	}
	if *out == "" {
		*out = *verif
	}
	if *tier != "quick" && *tier != "thorough" {
		fmt.Fprintln(os.Stderr, "bad -tier")
		os.Exit(2)
	}
	seed := 0
	if s := os.Getenv("VERIF_SEED"); s != "" {
		if n, err := strconv.Atoi(s); err == nil {
			seed = n // recorded, not used: the analysis is deterministic
		}
	}
	var replayRule, replayConstruct string
	if *replay != "" {
		b, err := os.ReadFile(*replay)
		if err != nil {
			fmt.Fprintln(os.Stderr, err)
			os.Exit(2)
		}
		var r map[string]interface{}
		if err := json.Unmarshal(b, &r); err != nil {
			fmt.Fprintln(os.Stderr, err)
			os.Exit(2)
		}
		*prop, _ = r["property"].(string)
		replayRule, _ = r["rule"].(string)
		replayConstruct, _ = r["construct"].(string)
	}
	if *list {
		out := map[string]interface{}{}
		for id, pr := range registry {
			out[id] = map[string]interface{}{"explanation": pr.meta.Explanation, "not_decided": pr.meta.NotDecided, "assumptions": pr.meta.Assumptions}
		}
		b, _ := json.MarshalIndent(out, "", " ")
		fmt.Println(string(b))
		os.Exit(0)
	}
	if *selftest {
		os.Exit(runSelfTest(*verif))
	}
	if *dumpTypes {
		l, err := dumpTypeNames(*repo)
		if err != nil {
			fmt.Fprintln(os.Stderr, err)
			os.Exit(2)
		}
		b, _ := json.MarshalIndent(l, "", " ")
		fmt.Println(string(b))
		os.Exit(0)
	}
	if *dumpFns {
		l, err := dumpFunctions(*repo)
		if err != nil {
			fmt.Fprintln(os.Stderr, err)
			os.Exit(2)
		}
		b, _ := json.MarshalIndent(l, "", " ")
		fmt.Println(string(b))
		os.Exit(0)
	}
	var ids []string
	if *prop == "all" {
		for id := range registry {
			ids = append(ids, id)
		}
		sort.Strings(ids)
	} else if _, ok := registry[*prop]; ok {
		ids = []string{*prop}
	} else {
		fmt.Fprintf(os.Stderr, "unknown property %q\n", *prop)
		os.Exit(2)
	}

	known, err := loadKnown(filepath.Join(*verif, "known_findings.json"))
	if err != nil {
		fmt.Fprintf(os.Stderr, "CHECK-BROKEN: known_findings.json: %v\n", err)
		os.Exit(2)
	}
	floors, err := loadFloors(filepath.Join(*verif, "checker", "expect.json"))
	if err != nil {
		fmt.Fprintf(os.Stderr, "CHECK-BROKEN: expect.json: %v\n", err)
		os.Exit(2)
	}

	if ref, rerr := loadReferenceFunctions(filepath.Join(*verif, "checker", "expect_functions.json")); rerr == nil {
		referenceFns = ref
	}
	t0 := time.Now()
	p, err := loadProg(*repo)
	if err != nil {
		fmt.Printf("CHECK-BROKEN: cannot load %s: %v\n", *repo, err)
		os.Exit(2)
	}
	if *debugLocks != "" {
		p.Locks().DebugSites(*debugLocks)
		os.Exit(0)
	}
	exit := 0
	fb := &fallback{repo: *repo, verif: *verif, second: &fallback{repo: *repo, verif: *verif, tailDup: true}}
	for _, id := range ids {
		code := runOne(p, fb, id, *tier, *out, known, floors, seed, t0, replayRule, replayConstruct)
		if code == 1 || (code == 2 && exit == 0) {
			if exit != 1 {
				exit = code
			}
		}
		t0 = time.Now()
	}
	os.Exit(exit)
}

// fallback lazily builds the helper-inlined view of the repository (inlineview.go).
type fallback struct {
	repo, verif string
	tried       bool
	prog        *Prog
	err         error
	tailDup     bool      // build the second-chance view (continuations copied to the exits of flattened helpers)
	second      *fallback // consulted when the first view does not pass either
}

func (fb *fallback) get() *Prog {
	if fb.tried {
		return fb.prog
	}
	fb.tried = true
	knownFns, err := loadKnownFunctions(filepath.Join(fb.verif, "checker", "expect_functions.json"))
	if err != nil {
		fb.err = err
		return nil
	}
	if b, errT := os.ReadFile(filepath.Join(fb.verif, "checker", "expect_types.json")); errT == nil {
		var l []string
		if json.Unmarshal(b, &l) == nil {
			knownTypesRef = map[string]bool{}
			for _, n := range l {
				knownTypesRef[n] = true
			}
		}
	}
	viewTailDup = fb.tailDup
	overlay, steps, err := buildInlinedOverlay(fb.repo, knownFns, 40)
	viewTailDup = false
	if err != nil {
		fb.err = err
		return nil
	}
	if len(steps) == 0 {
		return nil
	}
	if d := os.Getenv("SFCHECK_DUMP_VIEW"); d != "" {
		for name, content := range overlay {
			rel, _ := filepath.Rel(fb.repo, name)
			dst := filepath.Join(d, rel)
			os.MkdirAll(filepath.Dir(dst), 0o755)
			os.WriteFile(dst, content, 0o644)
		}
	}
	saved := theProg
	p2, err := loadProgOverlay(fb.repo, overlay)
	theProg = saved
	if err != nil {
		fb.err = err
		return nil
	}
	p2.InlineSteps = steps
	fb.prog = p2
	return p2
}

// referenceFns: "rel.declName" -> signature of every function of the reference tree.
var referenceFns map[string]string

func loadReferenceFunctions(path string) (map[string]string, error) {
	b, err := os.ReadFile(path)
	if err != nil {
		return nil, err
	}
	var l []string
	if err := json.Unmarshal(b, &l); err != nil {
		return nil, err
	}
	m := map[string]string{}
	referenceCallers = map[string]string{}
	for _, n := range l {
		parts := strings.Split(n, "\t")
		m[parts[0]] = ""
		if len(parts) > 1 {
			m[parts[0]] = parts[1]
		}
		if len(parts) > 2 {
			referenceCallers[parts[0]] = parts[2]
		}
	}
	return m, nil
}

// referenceCallers: "rel.declName" -> comma-joined sorted list of the functions that call it statically.
var referenceCallers map[string]string

func loadKnownFunctions(path string) (map[string]bool, error) {
	ref, err := loadReferenceFunctions(path)
	if err != nil {
		return nil, err
	}
	m := map[string]bool{}
	for n := range ref {
		m[n] = true
	}
	// a renamed reference function is not a new helper: keep it out of the inliner's reach
	if theProg != nil {
		for newKey := range theProg.renamedFrom {
			m[newKey] = true
		}
		for k := range theProg.looseAnchors {
			m[k] = true
		}
	}
	return m, nil
}

func runRules(p *Prog, id, tier string) (c *Ctx, panicked interface{}, stack []byte) {
	theProg = p
	resetInterpMemo()
	c = newCtx(p, id, tier)
	defer func() {
		if r := recover(); r != nil {
			panicked, stack = r, debug.Stack()
		}
	}()
	registry[id].run(c)
	return c, nil, nil
}

func runOne(p *Prog, fb *fallback, id, tier, verif string, known *KnownFile, floors Floors, seed int, t0 time.Time, replayRule, replayConstruct string) (code int) {
	c, pan, stack := runRules(p, id, tier)
	if pan != nil {
		fmt.Printf("CHECK-BROKEN property=%s: analyser panic: %v\n%s\n", id, pan, stack)
		return 2
	}
	if v := c.verdict(known, floors); v != 0 {
		// Not a pass on the tree as written. If the tree contains functions that are not on the
		// reference list, judge the equivalent program in which they are inlined into their callers.
		if p2 := fb.get(); p2 != nil {
			c2, pan2, _ := runRules(p2, id, tier)
			theProg = p
			resetInterpMemo()
			if pan2 == nil {
				v2 := c2.verdict(known, floors)
				if v2 != 0 && fb.second != nil {
					// the same program once more, with the continuation behind each flattened helper copied to the
					// helper's exits (values merged from constants become the constants again)
					if p3 := fb.second.get(); p3 != nil {
						tailDupUsed := false
						for _, st := range p3.InlineSteps {
							if st.Kind == "tail-duplication" {
								tailDupUsed = true
							}
						}
						if tailDupUsed {
							c3, pan3, _ := runRules(p3, id, tier)
							theProg = p
							resetInterpMemo()
							if pan3 == nil && c3.verdict(known, floors) == 0 {
								c2, v2, p2 = c3, 0, p3
							}
						}
					}
				}
				if v2 != 0 && !(v == 2 && v2 == 1) {
					fmt.Printf("   note: %s does not pass on the helper-inlined view either (%d transformation(s)); reporting the tree as written. On the view:\n", id, len(p2.InlineSteps))
					for _, st := range p2.InlineSteps {
						fmt.Printf("   note:   %s %s into %s (%s)\n", st.Kind, st.Callee, st.Caller, p2.relFile(st.File))
					}
					n := 0
					for _, o := range c2.obls {
						if (o.st == Violation || o.st == Undecided) && n < 6 {
							fmt.Printf("   note:   %s [%s] %s @~%s\n", o.Status, o.Rule, o.Construct, o.Pos)
							n++
						}
					}
				}
				switch {
				case v2 == 0:
					c = c2 // the alarm was an artefact of where the statements live
				case v == 2 && v2 == 1:
					c = c2 // the moved code is decided on the inlined view, and it is a violation
					for _, o := range c.obls {
						if o.Pos != "-" && o.Pos != "" {
							o.Pos = "~" + o.Pos
						}
					}
				}
			}
		} else if fb.err != nil {
			fmt.Printf("   note: helper-inlined view not available: %v\n", fb.err)
		}
	}
	code = c.finish(verif, registry[id].meta, known, floors, seed, t0)
	if replayRule != "" {
		fmt.Printf("-- replay of [%s] %s:\n", replayRule, replayConstruct)
		for _, o := range c.obls {
			if o.Rule == replayRule && o.Construct == replayConstruct {
				fmt.Printf("   %s @%s -- %s\n", o.Status, o.Pos, o.Detail)
				if len(o.Path) > 0 {
					fmt.Printf("   path: %s\n", strings.Join(o.Path, " -> "))
				}
			}
		}
	}
	return code
}
