package main

import (
	"fmt"
	"go/token"
	"go/types"
	"strings"

	"golang.org/x/tools/go/ssa"
)

func init() {
	register("C14", propMeta{
		Explanation: "E-PANIC + E-CONST + E-GUARD over the broker's HTTP surface. O-0: the routes registered in main are enumerated from the http.Handle/HandleFunc calls. O-1: from every handler entry point (ServeHTTP methods, handler functions reached through the handler field, metric callbacks) no repository code path contains an explicit panic, Fatal/Exit or undischarged single-value assertion; the Prometheus With() panics are discharged by O-1b label-set agreement (literal key set of every prometheus.Labels{...} equals the label names given to that vector's constructor). O-2: a request body is only ever read through http.MaxBytesReader(w, r.Body, 100000) and a failed read answers 4xx without reaching the IPC layer. O-3: after each IPC call the success output is behind err == nil and every error path writes a 4xx/5xx status before returning. O-4: the legacy shim and the versioned path share the single ClientOffers call site. O-5 no unbounded wait inside a handler: the channel-rendezvous obligations of C04 (reply obligation, abandonable peer, claimed means committed, deregistration, lock hygiene) are evaluated here as well, under rule names prefixed O-5/C04. A handler panic makes net/http drop the connection without a response, so each clause is a necessary condition of 'every request gets a well-formed response'. Added after the second seeding round: O-6/C02 the Broker loop's poll goroutine works on its own poll (no captured loop variable) and the broker rows of the guarded-by table hold (an unlocked iteration of the id map is a fatal runtime error for the whole process). Added after the third seeding round: O-1d every status the legacy shim writes is a constant or comes from a table whose miss case yields a valid status. Added after the fourth seeding round: O-1e/O-1f the index and nil-error obligations on everything reachable from a handler; O-1g a WriteTimeout or TimeoutHandler of the broker's server is a constant above ClientTimeout and ProxyTimeout; O-6/C20 the broker's guarded-by rows (an unlocked map write is a fatal 'concurrent map writes' that answers nobody). Added after the fifth seeding round: O-1h no handler sets Content-Length or Transfer-Encoding; O-7/C19 zeroMetrics re-creates every per-period map NewMetrics created (a nil map panics in the next poll with the metrics lock held); the legacy path is confined to bodies starting with '{'. Added after the sixth seeding round and the mutation audit: O-8/C20 no channel of the broker is both closed and sent on without a common mutex (a send on a closed channel panics in the handler). O-9/O-10/O-11 format strings, decoder errors and failure branches of the broker's functions that report errors.",
		NotDecided:  "net/http's own behaviour, byte-level well-formedness of responses, timing (C04), panics inside third-party libraries other than the label-mismatch panic of prometheus With().",
		Assumptions: []string{"third-party/stdlib callees do not panic except prometheus With()/GetMetricWith on label mismatch", "net/http recovers handler panics by closing the connection (the behaviour the property forbids)"},
	}, runC14)
}

// errFrom reports whether v is the error result of call (possibly merged with
// other errors through phis).
func errFrom(v ssa.Value, call *ssa.Call, idx int) bool {
	seen := map[ssa.Value]bool{}
	var rec func(v ssa.Value) bool
	rec = func(v ssa.Value) bool {
		v = strip(v)
		if seen[v] {
			return false
		}
		seen[v] = true
		if c, i, ok := callResult(v); ok && c == call && i == idx {
			return true
		}
		if ph, ok := v.(*ssa.Phi); ok {
			for _, e := range ph.Edges {
				if rec(e) {
					return true
				}
			}
		}
		return false
	}
	return rec(v)
}

// errEdges: edges on which the error of call (result idx, possibly through a
// phi) is nil (isNil) or non-nil.
func errEdges(fn *ssa.Function, call *ssa.Call, idx int, isNil bool) []Edge {
	return nilCheckEdges(fn, isNil, func(v ssa.Value) bool { return errFrom(v, call, idx) })
}

// escapesWithout: starting at block `from`, is there a path to a function exit
// (Return) that passes no block containing an instruction satisfying pass?
func escapesWithout(from *ssa.BasicBlock, pass func(ssa.Instruction) bool) []*ssa.BasicBlock {
	passEdges := liftPassEdges(from.Parent(), pass, 2)
	pass = liftPass(pass, 3)
	blocked := func(b *ssa.BasicBlock) bool {
		for _, in := range b.Instrs {
			if pass(in) {
				return true
			}
		}
		return false
	}
	isExit := func(b *ssa.BasicBlock) bool {
		if len(b.Instrs) == 0 {
			return false
		}
		_, ok := b.Instrs[len(b.Instrs)-1].(*ssa.Return)
		return ok
	}
	return psSearch(from, passEdges, blocked, isExit)
}

func isWriteHeader(in ssa.Instruction, lo, hi int64) bool {
	ci, ok := in.(ssa.CallInstruction)
	if !ok {
		return false
	}
	n := calleeName(ci)
	if n == "net/http.NotFound" && lo <= 404 && 404 <= hi {
		return true
	}
	if n == "net/http.Error" {
		if k, ok := constInt(ci.Common().Args[2]); ok && k >= lo && k <= hi {
			return true
		}
	}
	if n != "(net/http.ResponseWriter).WriteHeader" {
		return false
	}
	k, ok := constInt(ci.Common().Args[0])
	if ok {
		return k >= lo && k <= hi
	}
	// a status merged from constants (the result of a small mapping function): it counts for the range when some
	// member lies in it and every other member is no status at all (0: "carry on", excluded by the caller's own
	// test before the call)
	if ph, isPhi := strip(ci.Common().Args[0]).(*ssa.Phi); isPhi && len(ph.Edges) > 0 {
		in := false
		for _, e := range ph.Edges {
			kk, isK := constInt(strip(e))
			if !isK {
				return false
			}
			switch {
			case kk >= lo && kk <= hi:
				in = true
			case kk >= 100 && kk <= 999:
				return false // a valid status outside the range asked for
			}
		}
		return in
	}
	return false
}

func runC14(c *Ctx) {
	p := c.P
	mainFn := p.Fn("broker", "main")
	if mainFn == nil {
		c.undecided("O-0 routes", "broker.main", "-", "anchor does not resolve")
		return
	}
	// a send on a closed channel panics inside the handler: net/http drops the connection without a response
	c.prefix = "O-8/C20:"
	c.checkNoSendRacesClose("O-8 no send races with a close", p.FnsIn("broker"))
	c.prefix = ""
	// what a handler writes is what it was given: no relayed text is used as a format, and no decoder's error is dropped
	c.checkNoDataAsFormat("O-9 relayed text is never a format string", p.FnsIn("broker"))
	c.checkDecodeErrorsConsumed("O-10 a decoding step's error is part of the verdict", p.FnsIn("broker"))
	c.checkErrorBranchesLeaveMode("O-11 a failed step is not carried on with", p.FnsIn("broker"), true)
	// once a handler has written an error status it is done with the request: no call into the IPC layer and no
	// second status is reachable from there (a dropped return after the status line processes a request the
	// handler has already refused, and the superfluous second WriteHeader is ignored by net/http)
	{
		ruleE := "O-2b an error status ends the handling"
		nSites := 0
		perFn := map[*ssa.Function]int{}
		for _, fn := range p.FnsIn("broker") {
			isHandler := false
			for _, par := range fn.Params {
				if typeString(par.Type()) == "net/http.ResponseWriter" {
					isHandler = true
				}
			}
			if !isHandler || fn.Blocks == nil {
				continue
			}
			allInstrs(fn, func(in ssa.Instruction) {
				if !isWriteHeader(in, 400, 599) {
					return
				}
				nSites++
				perFn[fn]++
				var hit ssa.Instruction
				seen := map[*ssa.BasicBlock]bool{}
				var walk func(b *ssa.BasicBlock, from int)
				walk = func(b *ssa.BasicBlock, from int) {
					for j := from; j < len(b.Instrs) && hit == nil; j++ {
						x := b.Instrs[j]
						if isWriteHeader(x, 100, 599) {
							hit = x
							return
						}
						if ci, ok := x.(ssa.CallInstruction); ok {
							if callee := staticCallee(ci); callee != nil && callee.Signature.Recv() != nil && typeNameOfStruct(callee.Signature.Recv().Type()) == "IPC" {
								hit = x
								return
							}
						}
					}
					for _, sb := range b.Succs {
						if !seen[sb] && hit == nil {
							seen[sb] = true
							walk(sb, 0)
						}
					}
				}
				walk(in.Block(), instrIndex(in)+1)
				c.check(hit == nil, ruleE, fmt.Sprintf("%s: nothing is processed after the error status #%d", p.FnName(fn), perFn[fn]), p.instrPos(in), "", "after this error status the handler can still "+map[bool]string{true: "reach " + p.instrPos(hitOr(hit, in)), false: ""}[hit != nil]+" (a call into the IPC layer or another status line): the request is processed although it has been refused, and its outcome cannot be reported any more")
			})
		}
		if nSites == 0 {
			c.undecided(ruleE, "error statuses written by handlers", "-", "no WriteHeader with a constant 4xx/5xx status found")
		}
	}
	// ---- O-0 routes ----
	var entries []*ssa.Function
	routes := callsTo(mainFn, "net/http.Handle", "net/http.HandleFunc")
	for _, r := range routes {
		path, _ := constString(r.Common().Args[0])
		h := r.Common().Args[1]
		desc := ""
		switch calleeName(r) {
		case "net/http.HandleFunc":
			if f, ok := strip(h).(*ssa.Function); ok {
				entries = append(entries, f)
				desc = "func " + p.FnName(f)
			} else {
				desc = "dynamic handler function"
			}
		default:
			if bt := boxedType(h); bt != nil {
				desc = "handler type " + shortType(bt)
				if m := p.methodOf(bt, "ServeHTTP"); m != nil && p.IsRepoFn(m) {
					entries = append(entries, m)
				}
			} else {
				desc = "library handler " + describeOperand(p, h)
			}
		}
		c.okTrivial("O-0 routes", "route "+path, p.instrPos(r), desc)
	}
	// metric callbacks invoked by the prometheus registry on /prometheus
	for _, fn := range p.FnsIn("broker") {
		if fn.Signature.Recv() != nil && (fn.Name() == "Write" || fn.Name() == "Desc" || fn.Name() == "Collect" || fn.Name() == "Describe") {
			if n := namedOf(fn.Signature.Recv().Type()); n != nil && strings.Contains(strings.ToLower(n.Obj().Name()), "counter") {
				entries = append(entries, fn)
			}
		}
		for _, ci := range callsTo(fn, "github.com/prometheus/client_golang/prometheus.NewMetricVec") {
			if mc, ok := strip(ci.Common().Args[1]).(*ssa.MakeClosure); ok {
				entries = append(entries, mc.Fn.(*ssa.Function))
			}
		}
	}

	// ---- O-1b label-set agreement ----
	labelsOK := c.checkLabelAgreement()

	// ---- O-1 E-PANIC ----
	reached := c.checkTerminators("O-1 no termination construct reachable from a handler", entries, func(t Term) string {
		if t.Kind == "panic" && labelsOK {
			n := p.FnName(t.Fn)
			if n == "broker.(*RoundedCounterVec).With" || strings.HasPrefix(n, "broker.NewRoundedCounterVec$") {
				return "label-mismatch panic; discharged by O-1b label-set agreement at every With() site"
			}
		}
		return ""
	})
	c.checkConstIndexes("O-1c constant indexes into submatch/split results", reached)
	{
		var own []*ssa.Function
		for _, fn := range reached {
			if p.IsRepoFn(fn) && fn.Blocks != nil {
				own = append(own, fn)
			}
		}
		c.checkConstIndexGuardsOpt("O-1e constant indexes into strings and slices are behind a length-establishing edge", own, false)
		c.checkNilErrorInvokes("O-1f no method is invoked on an error that may be nil", own)
	}

	// ---- O-1g the server's own deadlines leave room for the long polls ----
	// net/http arms the write deadline when the request has been read: a WriteTimeout (or a TimeoutHandler) at or
	// below the time a poll may legitimately wait closes the connection before the handler answers
	{
		rule := "O-1g server deadlines exceed the long-poll waits"
		maxWait := int64(0)
		for _, name := range []string{"ClientTimeout", "ProxyTimeout"} {
			if k := p.Const("broker", name); k != nil {
				var v int64
				if _, err := fmt.Sscan(k.Val().ExactString(), &v); err == nil && v > maxWait {
					maxWait = v
				}
			}
		}
		n := 0
		for _, fn := range p.FnsIn("broker") {
			allInstrs(fn, func(in ssa.Instruction) {
				st, ok := in.(*ssa.Store)
				if !ok {
					return
				}
				fa, ok := st.Addr.(*ssa.FieldAddr)
				if !ok {
					return
				}
				stt := derefStruct(fa.X.Type())
				if stt == nil || !strings.HasSuffix(fa.X.Type().String(), "net/http.Server") {
					return
				}
				name := stt.Field(fa.Field).Name()
				if name != "WriteTimeout" && name != "ReadTimeout" && name != "IdleTimeout" && name != "ReadHeaderTimeout" {
					return
				}
				n++
				if name != "WriteTimeout" {
					c.ok(rule, "http.Server."+name, p.instrPos(st), "does not bound the handler's answer")
					return
				}
				d, okd := constInt(st.Val)
				need := maxWait * 1000000000
				c.check(okd && (d == 0 || d > need), rule, "http.Server.WriteTimeout leaves room for a full long poll", p.instrPos(st), fmt.Sprintf("%d ns", d),
					fmt.Sprintf("the write deadline (%d ns) is not a constant above the %d s a poll may wait: idle proxy polls and matched client polls are cut off without a response", d, maxWait))
			})
			for _, ci := range callsTo(fn, "net/http.TimeoutHandler") {
				n++
				d, okd := constInt(ci.Common().Args[1])
				c.check(okd && d > maxWait*1000000000, rule, "http.TimeoutHandler leaves room for a full long poll", p.instrPos(ci), "", "the handler timeout is below the time a poll may wait")
			}
		}
		if n == 0 {
			c.okTrivial(rule, "the broker's http.Server sets no deadline of its own", "-", fmt.Sprintf("longest handler wait %d s", maxWait))
		}
	}
	// a crash of the process answers nobody: the broker's shared state is accessed under its locks (C20's rows
	// for the broker; an unlocked map write is a fatal 'concurrent map writes', not a recoverable panic)
	{
		var rows []guardRow
		for _, r := range guardTable {
			if r.Rel == "broker" || strings.HasPrefix(r.Rel, "common/ipsetsink") {
				rows = append(rows, r)
			}
		}
		c.prefix = "O-6/C20:"
		c.checkGuardRows("O-1 guarded-by table", rows, append(p.FnsIn("broker"), p.FnsIn("common/ipsetsink", "common/ipsetsink/sinkcluster")...))
		c.prefix = ""
	}

	// the daily rotation leaves every per-period map usable (C19's obligation; a nil map panics in the next poll
	// with metrics.lock held, after which every request hangs)
	c.prefix = "O-7/C19:"
	c.checkCountryMapsReset(p.Fn("broker", "NewMetrics"), p.Fn("broker", "(*Metrics).zeroMetrics"))
	c.prefix = ""

	// net/http frames the reply itself: a handler that announces a Content-Length and then writes another body (the
	// legacy shim replaces the body after the IPC call) sends a response the client cannot read to the end
	{
		rule := "O-1h handlers leave the framing to net/http"
		bad := 0
		for _, fn := range reached {
			if p.Rel(fn) != "broker" {
				continue
			}
			for _, ci := range callsIn(fn) {
				if n := calleeName(ci); n == "(net/http.Header).Set" || n == "(net/http.Header).Add" {
					if k, ok := constString(ci.Common().Args[1]); ok && (strings.EqualFold(k, "Content-Length") || strings.EqualFold(k, "Transfer-Encoding")) {
						bad++
						c.viol(rule, p.FnName(fn)+" sets "+k, p.instrPos(ci), "the handler fixes the length of the reply by hand: any later change of the body (legacy translation, error status) yields a response that is shorter or longer than announced")
					}
				}
			}
		}
		if bad == 0 {
			c.ok(rule, "no broker handler sets Content-Length or Transfer-Encoding", "-", "")
		}
	}

	// ---- O-1d status codes are constants ----
	// net/http panics on WriteHeader(code) with code < 100 or > 999: a status looked up or computed at run
	// time (a table with a missing entry yields 0) turns an unexpected value into a dropped connection
	{
		nWH := 0
		for _, fn := range reached {
			if p.Rel(fn) != "broker" {
				continue
			}
			for _, ci := range callsTo(fn, "(net/http.ResponseWriter).WriteHeader") {
				nWH++
				good := validStatusValue(p, fn, ci.Common().Args[0], ci.Block(), map[ssa.Value]bool{})
				if !good {
					// a value merged from constants (the result of a small mapping function), where every constant
					// that is not a valid status is excluded by a test of the value on the way to this call
					// (status != 0)
					if ph, isPhi := strip(ci.Common().Args[0]).(*ssa.Phi); isPhi && len(ph.Edges) > 0 {
						all := true
						ciInstr, _ := ci.(ssa.Instruction)
						for _, e := range ph.Edges {
							k, isK := constInt(strip(e))
							if !isK {
								all = false
								break
							}
							if k >= 100 && k <= 599 {
								continue
							}
							excl := condEdges(fn, false, func(a Atom) bool {
								if a.Op != token.EQL {
									return false
								}
								if k2, ok2 := constInt(a.Y); ok2 && k2 == k && strip(a.X) == ssa.Value(ph) {
									return true
								}
								k2, ok2 := constInt(a.X)
								return ok2 && k2 == k && strip(a.Y) == ssa.Value(ph)
							})
							if len(excl) == 0 || ciInstr == nil || reachableWithout(fn, ciInstr, excl) != nil {
								all = false
							}
						}
						good = all
					}
				}
				c.check(good, "O-1d status codes are constants", p.FnName(fn)+" writes a constant status", p.instrPos(ci), "", "the status handed to WriteHeader is not a compile-time constant between 100 and 599 (nor a table entry of such constants taken only when present): net/http panics on an invalid code (0 from a table miss) and the client gets no response")
			}
		}
		c.count("WriteHeader sites", nWH)
	}

	// ---- O-2 body cap ----
	c.checkBodyCap(reached)

	// ---- O-3 error mapping after each IPC call ----
	c.checkIPCErrorMapping(reached)

	// ---- O-4 legacy shim shares the ClientOffers call ----
	c.checkLegacyShim("O-4 legacy shim is a wrapper around the same handler")

	// ---- O-6 every poll goroutine answers its own poller; the proxy table is read under its lock ----
	// (C02's provenance obligation: a goroutine that captured the loop variable answers the wrong
	// poll and leaves its own without a response; C20's rows for the matching state: an unlocked
	// iteration of the id map is a fatal "concurrent map iteration and map write" for the process)
	c.prefix = "O-6/C02:"
	c.checkBrokerLoopProvenance()
	{
		var rows []guardRow
		for _, r := range guardTable {
			if r.Rel == "broker" && (r.Type == "BrokerContext" || r.Type == "Snowflake") {
				rows = append(rows, r)
			}
		}
		c.checkGuardRows("O-2 unique holder", rows, p.FnsIn("broker"))
	}
	c.prefix = ""

	// ---- O-5 no unbounded wait: the rendezvous-channel obligations of C04 ----
	c.prefix = "O-5/C04:"
	runC04(c)
	c.prefix = ""
}

// checkLabelAgreement decides O-1b for every vector field of PromMetrics.
func (c *Ctx) checkLabelAgreement() bool {
	p := c.P
	rule := "O-1b prometheus label-set agreement"
	fns := p.FnsIn("broker")
	vecLabels := map[*types.Var][]string{}
	ctors := []string{"broker.NewRoundedCounterVec",
		"github.com/prometheus/client_golang/prometheus.NewCounterVec",
		"github.com/prometheus/client_golang/prometheus.NewGaugeVec"}
	for _, fn := range fns {
		allInstrs(fn, func(in ssa.Instruction) {
			st, ok := in.(*ssa.Store)
			if !ok {
				return
			}
			_, f, ok := fieldOfAddr(st.Addr)
			if !ok {
				return
			}
			call, _, ok := callResult(st.Val)
			if !ok || !isCallTo(call, ctors...) {
				return
			}
			labels, ok := stringSliceLiteral(call.Call.Args[1])
			if !ok {
				c.undecided(rule, "labels of "+f.Name(), p.instrPos(call), "label names are not a constant []string literal")
				return
			}
			if _, dup := vecLabels[f]; dup {
				c.undecided(rule, "labels of "+f.Name(), p.instrPos(call), "vector field assigned more than once")
				return
			}
			vecLabels[f] = labels
		})
	}
	all := true
	n := 0
	for _, fn := range fns {
		for _, ci := range callsTo(fn, "(*broker.RoundedCounterVec).With",
			"(*github.com/prometheus/client_golang/prometheus.CounterVec).With",
			"(*github.com/prometheus/client_golang/prometheus.GaugeVec).With") {
			n++
			recv := ci.Common().Args[0]
			_, f, ok := fieldLoad(recv)
			key := fmt.Sprintf("%s With() on %s", p.FnName(fn), describeOperand(p, recv))
			// several sites per function on the same vector: disambiguate by label values' status constants
			keys, okKeys := mapLiteralKeys(ci.Common().Args[1])
			if okKeys {
				key += " {" + strings.Join(keys, ",") + "}"
				if s := constLabelValues(ci.Common().Args[1]); s != "" {
					key += " " + s
				}
			}
			if !ok || vecLabels[f] == nil {
				all = false
				c.undecided(rule, key, p.instrPos(ci), "receiver is not a vector field with known label names")
				continue
			}
			if !okKeys {
				all = false
				c.undecided(rule, key, p.instrPos(ci), "labels argument is not a map literal with constant keys")
				continue
			}
			if !sameStringSet(keys, vecLabels[f]) {
				all = false
				c.viol(rule, key, p.instrPos(ci), fmt.Sprintf("label keys %v differ from the vector's label names %v: With() panics on every such request", keys, vecLabels[f]))
				continue
			}
			c.ok(rule, key, p.instrPos(ci), fmt.Sprintf("keys %v == constructor label names", keys))
		}
	}
	c.count("With() call sites", n)
	return all && n > 0
}

// constLabelValues renders the constant values of a Labels literal (to tell
// apart several With() sites on the same vector in one function).
func constLabelValues(v ssa.Value) string {
	mm, ok := strip(v).(*ssa.MakeMap)
	if !ok || mm.Referrers() == nil {
		return ""
	}
	var parts []string
	var walk func(val ssa.Value)
	walk = func(val ssa.Value) {
		for _, r := range *val.Referrers() {
			switch x := r.(type) {
			case *ssa.MapUpdate:
				if k, ok := constString(x.Key); ok {
					if s, ok := constString(x.Value); ok {
						parts = append(parts, k+"="+s)
					}
				}
			case *ssa.ChangeType:
				walk(x)
			}
		}
	}
	walk(mm)
	return strings.Join(parts, ",")
}

// checkLegacyShim: the pre-versioning client format is translated into the
// versioned request from the request body and the Snowflake-NAT-Type header
// (read with Header.Get, i.e. case-insensitively) and handed to the one shared
// ClientOffers call.
func (c *Ctx) checkLegacyShim(rule string) {
	p := c.P
	if co := p.Fn("broker", "clientOffers"); co != nil {
		var sites []ssa.CallInstruction
		for _, d := range deepCalls(co, 2, "(*broker.IPC).ClientOffers") {
			if ci, ok := d.Top.(ssa.CallInstruction); ok {
				sites = append(sites, ci)
			}
		}
		twice := false
		for _, a := range sites {
			for _, b := range sites {
				if canFollow(a, b) {
					twice = true
				}
			}
		}
		c.check(len(sites) >= 1 && !twice, rule, "broker.clientOffers calls (*IPC).ClientOffers once", p.Pos(co.Pos()),
			"the legacy and the versioned format reach the same handler, once per request", fmt.Sprintf("%d call sites of ClientOffers in clientOffers (one request can reach the handler twice: %v)", len(sites), twice))
		// the legacy request is built from the body and the NAT header
		found := false
		for _, d := range deepCalls(co, 2, "(*common/messages.ClientPollRequest).EncodeClientPollRequest") {
			in := d.In
			if ci, ok := in.(ssa.CallInstruction); ok {
				recv := ci.Common().Args[0]
				offer := structLitField(recv, "Offer")
				nat := structLitField(recv, "NAT")
				okOffer := offer != nil && flows(offer, func(v ssa.Value) bool { return isResultOf(v, 0, "io/ioutil.ReadAll", "io.ReadAll") })
				okNAT := nat != nil && flows(nat, func(v ssa.Value) bool {
					cc, _, ok := callResult(v)
					if !ok || !isCallTo(cc, "(net/http.Header).Get") {
						return false
					}
					s, _ := constString(cc.Call.Args[1])
					return s == "Snowflake-NAT-Type"
				})
				found = true
				// the legacy path is taken exactly for bodies that start with '{' (everything else, a missing or unknown
				// version line included, goes to the versioned decoder and gets its error)
				{
					lfn := in.Parent()
					brace := condEdges(lfn, true, func(a Atom) bool {
						if a.Op != token.EQL {
							return false
						}
						for _, pr := range [][2]ssa.Value{{a.X, a.Y}, {a.Y, a.X}} {
							k, okk := constInt(pr[1])
							if !okk || k != '{' {
								continue
							}
							switch x := strip(pr[0]).(type) {
							case *ssa.UnOp:
								if ia, okia := x.X.(*ssa.IndexAddr); okia {
									if i0, ok0 := constInt(ia.Index); ok0 && i0 == 0 {
										return true
									}
								}
							case *ssa.Index:
								if i0, ok0 := constInt(x.Index); ok0 && i0 == 0 {
									return true
								}
							}
						}
						return false
					})
					// or a flag computed as "len(body) > 0 && body[0] == '{'" and tested later
					isBraceCmp := func(v ssa.Value) bool {
						a, pos := normCond(v)
						if a.Op != token.EQL || !pos {
							return false
						}
						for _, pr := range [][2]ssa.Value{{a.X, a.Y}, {a.Y, a.X}} {
							if k, okk := constInt(pr[1]); okk && k == '{' {
								switch x := strip(pr[0]).(type) {
								case *ssa.UnOp:
									if ia, okia := x.X.(*ssa.IndexAddr); okia {
										if i0, ok0 := constInt(ia.Index); ok0 && i0 == 0 {
											return true
										}
									}
								case *ssa.Index:
									if i0, ok0 := constInt(x.Index); ok0 && i0 == 0 {
										return true
									}
								}
							}
						}
						return false
					}
					brace = append(brace, boolEdges(lfn, true, func(v ssa.Value) bool {
						ph, isPhi := v.(*ssa.Phi)
						if !isPhi {
							return false
						}
						saw := false
						for _, lf := range valueLeaves(ph, nil) {
							if k, isC := lf.V.(*ssa.Const); isC && k.Value != nil && k.Value.String() == "false" {
								continue
							}
							if !isBraceCmp(lf.V) {
								return false
							}
							saw = true
						}
						return saw
					})...)
					okBrace := len(brace) > 0 && reachableWithout(lfn, in, brace) == nil
					if !okBrace && d.Top != d.In {
						// the test may be in clientOffers while the legacy request is built in a helper
						if topI, okT := d.Top.(ssa.Instruction); okT {
							b2 := condEdges(co, true, func(a Atom) bool {
								if a.Op != token.EQL {
									return false
								}
								k, okk := constInt(a.Y)
								return okk && k == '{'
							})
							okBrace = len(b2) > 0 && reachableWithout(co, topI, b2) == nil
						}
					}
					c.check(okBrace, rule, "broker.clientOffers treats a body as legacy exactly when it starts with '{'", p.instrPos(in), "", "the legacy (bare SDP) path is not confined to bodies whose first byte is '{': a poll with a missing or unknown version line is answered in the legacy way (status codes, or handed to a proxy as an offer) instead of getting the versioned error")
				}
				c.check(okOffer && okNAT, rule, "broker.clientOffers legacy request fields", p.instrPos(in),
					"Offer = request body, NAT = Snowflake-NAT-Type header", fmt.Sprintf("legacy request not built from body/header (offer ok=%v, nat ok=%v)", okOffer, okNAT))
			}
		}
		if !found {
			c.undecided(rule, "broker.clientOffers legacy request fields", p.Pos(co.Pos()), "no EncodeClientPollRequest call found")
		}
	} else {
		c.undecided(rule, "broker.clientOffers", "-", "anchor does not resolve")
	}

}

// checkBodyCap: a request body is only ever read through
// http.MaxBytesReader(w, r.Body, readLimit) and a failed read answers 4xx.
func (c *Ctx) checkBodyCap(reached []*ssa.Function) {
	p := c.P
	if rl := p.Const("broker", "readLimit"); rl == nil || rl.Val().ExactString() != "100000" {
		c.viol("O-2 body cap", "broker.readLimit", "-", "readLimit constant missing or not 100000")
	} else {
		c.okTrivial("O-2 body cap", "broker.readLimit == 100000", p.Pos(rl.Pos()), "")
	}
	for _, fn := range reached {
		allInstrs(fn, func(in ssa.Instruction) {
			fa, ok := in.(*ssa.FieldAddr)
			if !ok {
				return
			}
			_, f, ok := fieldOfAddr(fa)
			if !ok || f.Name() != "Body" || f.Pkg() == nil || f.Pkg().Path() != "net/http" {
				return
			}
			key := p.FnName(fn) + " reads Request.Body"
			if fa.Referrers() == nil {
				return
			}
			for _, r := range *fa.Referrers() {
				ld, ok := r.(*ssa.UnOp)
				if !ok {
					c.viol("O-2 body cap", key, p.instrPos(r), "Request.Body address used other than by a load")
					continue
				}
				for _, u := range *ld.Referrers() {
					ci, ok := u.(*ssa.Call)
					if !ok || !isCallTo(ci, "net/http.MaxBytesReader") || ci.Call.Args[1] != ld {
						if _, dbg := u.(*ssa.DebugRef); dbg {
							continue
						}
						c.viol("O-2 body cap", key, p.instrPos(u), "request body flows to a reader without http.MaxBytesReader")
						continue
					}
					if k, ok := constInt(ci.Call.Args[2]); !ok || k != 100000 {
						c.viol("O-2 body cap", key, p.instrPos(u), "MaxBytesReader limit is not the constant 100000")
						continue
					}
					// the capped reader is consumed by ReadAll; its error edge answers 4xx and returns
					var readAll *ssa.Call
					var findReadAll func(v ssa.Value)
					findReadAll = func(v ssa.Value) {
						if v.Referrers() == nil {
							return
						}
						for _, ru := range *v.Referrers() {
							switch rc := ru.(type) {
							case *ssa.Call:
								if isCallTo(rc, "io/ioutil.ReadAll", "io.ReadAll") {
									readAll = rc
								}
							case *ssa.ChangeInterface:
								findReadAll(rc)
							case *ssa.MakeInterface:
								findReadAll(rc)
							}
						}
					}
					findReadAll(ci)
					if readAll == nil {
						c.undecided("O-2 body cap", key, p.instrPos(ci), "capped reader is not consumed by ReadAll: shape not recognised")
						continue
					}
					bad := false
					for _, e := range errEdges(fn, readAll, 1, false) {
						if path := escapesWithout(e.To(), func(in ssa.Instruction) bool { return isWriteHeader(in, 400, 499) }); path != nil {
							bad = true
							c.viol("O-2 body cap", key, p.instrPos(readAll), "a failed body read can return without a 4xx status", p.pathString(path)...)
						}
					}
					if len(errEdges(fn, readAll, 1, false)) == 0 {
						bad = true
						c.viol("O-2 body cap", key, p.instrPos(readAll), "error of the body read is never tested")
					}
					if !bad {
						c.ok("O-2 body cap", key, p.instrPos(ci), "body read through MaxBytesReader(100000); read error answers 4xx on every path")
					}
				}
			}
		})
	}

}

// checkIPCErrorMapping: after each IPC call of a handler the success output is
// behind err == nil and every error path writes a 4xx/5xx status.
func (c *Ctx) checkIPCErrorMapping(reached []*ssa.Function) {
	p := c.P
	ipcMethods := map[string]bool{"ProxyPolls": true, "ClientOffers": true, "ProxyAnswers": true, "Debug": true}
	nIPC := 0
	for _, fn := range reached {
		if p.Rel(fn) != "broker" {
			continue
		}
		for _, ci := range callsIn(fn) {
			call, ok := ci.(*ssa.Call)
			if !ok {
				continue
			}
			if fn.Synthetic != "" {
				continue // a bound-method wrapper hands the error to whoever called the function value
			}
			callee := staticCallee(call)
			if callee == nil {
				// a call through a function value (an IPC method handed over as a parameter): its possible targets
				if cg := p.CallGraph(); cg != nil && cg.Nodes[fn] != nil {
					for _, e := range cg.Nodes[fn].Out {
						if e.Site != ssa.CallInstruction(call) || e.Callee == nil {
							continue
						}
						t := e.Callee.Func
						if strings.HasPrefix(t.Synthetic, "bound method wrapper") {
							if obj, okm := t.Object().(*types.Func); okm {
								if real := p.SSA.FuncValue(obj); real != nil {
									t = real
								}
							}
						}
						if t.Signature.Recv() != nil && ipcMethods[t.Name()] {
							callee = t
						}
					}
				}
			}
			if callee == nil || callee.Signature.Recv() == nil || !ipcMethods[callee.Name()] {
				continue
			}
			if n := namedOf(callee.Signature.Recv().Type()); n == nil || n.Obj().Name() != "IPC" {
				continue
			}
			if fn.Signature.Recv() != nil {
				if n := namedOf(fn.Signature.Recv().Type()); n != nil && n.Obj().Name() == "IPC" {
					continue // IPC-internal call
				}
			}
			nIPC++
			key := p.FnName(fn) + " after " + p.FnName(callee)
			nilE := errEdges(fn, call, 0, true)
			nonNilE := errEdges(fn, call, 0, false)
			if len(nilE) == 0 {
				c.viol("O-3 every IPC error is mapped to a status", key, p.instrPos(call), "the error of the IPC call is never tested")
				continue
			}
			bad := false
			// success output only behind err == nil
			allInstrs(fn, func(in ssa.Instruction) {
				oc, ok := in.(ssa.CallInstruction)
				if !ok {
					return
				}
				isOut := isCallTo(oc, "(net/http.ResponseWriter).Write") || isWriteHeader(in, 200, 299)
				if !isOut || !canFollow(call, in) {
					return
				}
				if path := reachAfter(call, in, nilE); path != nil {
					bad = true
					c.viol("O-3 every IPC error is mapped to a status", key, p.instrPos(in), "success output reachable without passing the err == nil edge of the IPC call", p.pathString(path)...)
				}
			})
			for _, e := range nonNilE {
				if path := escapesWithout(e.To(), func(in ssa.Instruction) bool { return isWriteHeader(in, 400, 599) }); path != nil {
					bad = true
					c.viol("O-3 every IPC error is mapped to a status", key, p.instrPos(call), "an IPC error can return without writing a 4xx/5xx status", p.pathString(path)...)
				}
			}
			if !bad {
				c.ok("O-3 every IPC error is mapped to a status", key, p.instrPos(call), fmt.Sprintf("success output behind err == nil; %d error edge(s) all write a 4xx/5xx status before returning", len(nonNilE)))
			}
		}
	}
	c.count("IPC call sites in handlers", nIPC)

}

// validStatusValue: v is a constant in [100, 599]; or a phi of such values; or
// the value of a comma-ok lookup in a package-level table whose entries are all
// such constants, arriving only over the "present" edge of the lookup.
func validStatusValue(p *Prog, fn *ssa.Function, v ssa.Value, at *ssa.BasicBlock, seen map[ssa.Value]bool) bool {
	if seen[v] {
		return true
	}
	seen[v] = true
	if k, ok := constInt(v); ok {
		return k >= 100 && k <= 599
	}
	switch x := v.(type) {
	case *ssa.Phi:
		for i, e := range x.Edges {
			if ex, ok := e.(*ssa.Extract); ok && ex.Index == 0 {
				if lk, okl := ex.Tuple.(*ssa.Lookup); okl && lk.CommaOk {
					// must arrive over (or from behind) the ok == true edge
					okE := boolEdges(fn, true, func(w ssa.Value) bool {
						e2, isE := w.(*ssa.Extract)
						return isE && e2.Tuple == ssa.Value(lk) && e2.Index == 1
					})
					via := false
					pred := x.Block().Preds[i]
					for _, ce := range okE {
						if ce.From == pred && ce.To() == x.Block() {
							via = true
						}
					}
					if !via && (len(okE) == 0 || psSearch(fn.Blocks[0], okE, nil, func(b *ssa.BasicBlock) bool { return b == pred }) != nil) {
						return false
					}
					if !tableOfStatuses(p, lk.X) {
						return false
					}
					continue
				}
			}
			if !validStatusValue(p, fn, e, x.Block().Preds[i], seen) {
				return false
			}
		}
		return len(x.Edges) > 0
	}
	return false
}

// tableOfStatuses: m is a load of a package-level map that is written only by
// its initialiser, with constant values in [100, 599].
func tableOfStatuses(p *Prog, m ssa.Value) bool {
	addr, ok := loadAddr(strip(m))
	if !ok {
		return false
	}
	g, ok := addr.(*ssa.Global)
	if !ok || g.Pkg == nil {
		return false
	}
	init := g.Pkg.Func("init")
	if init == nil {
		return false
	}
	var mk *ssa.MakeMap
	nStore := 0
	allInstrs(init, func(in ssa.Instruction) {
		if st, ok := in.(*ssa.Store); ok && st.Addr == ssa.Value(g) {
			nStore++
			mk, _ = strip(st.Val).(*ssa.MakeMap)
		}
	})
	if nStore != 1 || mk == nil || mk.Referrers() == nil {
		return false
	}
	// no other writer of the variable or of the map anywhere in the repository
	for _, fn := range p.FnsIn() {
		bad := false
		allInstrs(fn, func(in ssa.Instruction) {
			switch x := in.(type) {
			case *ssa.Store:
				if x.Addr == ssa.Value(g) {
					bad = true
				}
			case *ssa.MapUpdate:
				if a, okl := loadAddr(strip(x.Map)); okl && a == ssa.Value(g) {
					bad = true
				}
			}
		})
		if bad {
			return false
		}
	}
	n := 0
	for _, r := range *mk.Referrers() {
		if mu, ok := r.(*ssa.MapUpdate); ok && mu.Map == ssa.Value(mk) {
			k, okk := constInt(mu.Value)
			if !okk || k < 100 || k > 599 {
				return false
			}
			n++
		}
	}
	return n > 0
}

func hitOr(a, b ssa.Instruction) ssa.Instruction {
	if a != nil {
		return a
	}
	return b
}
