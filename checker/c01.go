package main

import (
	"fmt"
	"go/constant"
	"go/types"
	"strings"

	"golang.org/x/tools/go/ssa"
)

func init() {
	register("C01", propMeta{
		Explanation: "Exactly-once in-order delivery is provided by third-party KCP and smux and is NOT decided. Decided is the repository's glue that lets one KCP session outlive its carriers; each clause is a necessary condition (break it and some payload/fault schedule stalls, corrupts or ends the stream). O-1 carrier preamble agreement: in the dialContext closure of newSession every path to the successful return writes, in this order, turbotunnel.Token and the session's ClientID, each followed by an error exit; the ClientID is the value of one turbotunnel.NewClientID() call made by newSession outside the closure (one id per session, not per dial); the server reads len(Token) then len(ClientID) bytes before the first ReadData (sizes via types: 8/8). O-2 protocol constants agree between the two ends: kcp.NewConn2(_, nil, 0, 0, _) versus kcp.ServeConn(nil, 0, 0, _), smux Version equal on both ends; stream mode, window size and no-delay parameters equal on both ends. O-3 reliable ordered data channel: the DataChannelInit given to CreateDataChannel has Ordered pointing at a variable whose only store is true and sets neither MaxRetransmits nor MaxPacketLifeTime. O-4/O-5 (shared with C17): the redial adapter surfaces errors only after close and enqueues private copies. O-6 both relay directions exist in the three copy loops (two io.Copy calls with swapped arguments). O-7 liveness glue: the last-receive timestamp is written only on the receive path (the OnMessage callback and the staleness loop's initialisation) so that traffic the client itself sends cannot keep a dead proxy alive; the staleness loop closes the peer when time.Since(lastReceive) exceeds its timeout and is started on every successful connect; the broker round trip has a bounded response-header timeout, so a lost broker answer cannot park the collector (which holds the collect lock) for ever. O-8 every packet written with encapsulation.WriteData through a bufio.Writer is flushed on its success path before the next packet or the return (client adapter and server write loop). Added after the second seeding round: O-2 also compares the smux keep-alive timeout of both ends with each other and with the server's client-map retention; O-7 also requires that WebRTCPeer.Close marks the peer closed before it tears the transport down (Pop skips peers by Closed()); O-9 no goroutine started in a loop captures a variable that lives across iterations and is assigned in the loop (server accept loop and the other per-connection loops). Sites are searched in the anchored functions and the same-package helpers they call; a parameter of a single-call-site helper is identified with its argument. Added after the third seeding round: O-9b a timer or time.After that bounds a wait inside a loop is drawn or re-armed in every iteration; the closed mark precedes what cleanup does (closing the pipe, DataChannel, PeerConnection), whether or not a function named cleanup still exists; the rendezvous transport keeps a ResponseHeaderTimeout. Added after the fourth seeding round: O-10/C05 ClientID.String() covers the whole identifier (a redial re-attaches to its session through that string); O-11/C06 the proxy-side relay gate (a proxy that serves a client through a relay other than the one its rendezvous named splits one KCP conversation over two bridges). Added after the fifth seeding round: O-4/C17 also covers errors-only-after-close for the redial adapter (a full send queue reported as an error ends the client's KCP session during a proxy outage). Added after the sixth seeding round and the mutation audit: O-4/C17 also covers close-once/publication order and O-11 (RedialPacketConn.ReadFrom reports the connection's own remoteAddr on every successful return: the KCP client discards packets from any other address); O-12/C18 every carrier records its address before it is served (a session without an address crashes the server's handler).",
		NotDecided:  "delivery, ordering and duplication under any fault sequence; KCP/smux correctness; timing of staleness detection and re-collection; the proxy's relay behaviour under load. These remain the bulk of C01.",
		Assumptions: []string{"kcp-go and smux implement reliable ordered delivery over a lossy packet conn", "pion data channels are reliable and ordered when Ordered is true and no retransmit limit is set"},
	}, runC01)
}

func runC01(c *Ctx) {
	p := c.P
	for _, fn := range p.FnsIn("client/lib", "server/lib") {
		c.analysedFn(p.FnName(fn))
	}
	ns := p.Fn("client/lib", "newSession")
	if ns == nil {
		c.undecided("O-1 carrier preamble agreement", "client/lib.newSession", "-", "anchor does not resolve")
		return
	}
	// ---------- O-1 ----------
	rule1 := "O-1 carrier preamble agreement"
	var nid *ssa.Call
	nNID := 0
	for _, fn := range withAnon(ns) {
		for _, ci := range callsTo(fn, "common/turbotunnel.NewClientID") {
			nNID++
			if fn == ns {
				nid, _ = ci.(*ssa.Call)
			}
		}
	}
	c.check(nid != nil && nNID == 1 && !inCycle(nid.Block()), rule1, "newSession draws one ClientID per session", p.Pos(ns.Pos()), "one NewClientID() call, outside the dial closure",
		fmt.Sprintf("%d NewClientID calls, in newSession itself: %v: a ClientID drawn per dial makes the server bind each new carrier to a fresh, empty KCP session and the stream stalls after the first proxy replacement", nNID, nid != nil))
	tokG := p.Global("common/turbotunnel", "Token")
	var dial *ssa.Function
	for _, clo := range closuresNear(ns, 1) {
		if len(callsTo(clo, "(client/lib.SnowflakeCollector).Pop")) > 0 {
			dial = clo
		}
	}
	if dial == nil {
		c.undecided(rule1, "dialContext closure", p.Pos(ns.Pos()), "closure calling Pop not found")
	} else if nid != nil {
		var wTok, wID *ssa.Call
		for _, ci := range callsIn(dial) {
			cc, ok := ci.(*ssa.Call)
			if !ok || !strings.HasSuffix(calleeName(cc), "WebRTCPeer).Write") {
				continue
			}
			sl, oks := cc.Call.Args[1].(*ssa.Slice)
			if !oks {
				continue
			}
			if sl.X == ssa.Value(tokG) {
				wTok = cc
			}
			// captured clientID cell bound to the NewClientID result
			if fv, okf := sl.X.(*ssa.FreeVar); okf {
				if b := freeVarBinding(fv); b != nil {
					if al, oka := b.(*ssa.Alloc); oka {
						if s := singleStoreAny(al); s != nil && xforms(s, func(x ssa.Value) bool { return x == ssa.Value(nid) }) {
							wID = cc
						}
					}
				}
			}
		}
		good := wTok != nil && wID != nil && precedes(wTok, wID)
		c.check(good, rule1, "dialContext writes Token then the session ClientID on every new carrier", p.Pos(dial.Pos()), "", "the carrier preamble is not Token followed by the session's ClientID (missing, reordered, or a different id)")
		if good {
			for _, r := range returnsOf(dial) {
				if !isNilConst(r.Results[1]) {
					continue
				}
				for _, w := range []*ssa.Call{wTok, wID} {
					path := reachableWithout(dial, r, errNilEdges(dial, w, 1))
					c.check(path == nil, rule1, "dialContext returns a carrier only after "+describeWrite(w, wTok)+" succeeded", p.instrPos(r), "", "a carrier is handed to KCP although its preamble was not written", p.pathString(path)...)
				}
			}
		}
	}
	// server side order and sizes
	sh := p.Fn("server/lib", "(*httpHandler).ServeHTTP")
	tm := p.FnLoose("server/lib", "turbotunnelMode")
	if sh == nil || tm == nil {
		c.undecided(rule1, "server ServeHTTP/turbotunnelMode", "-", "anchor does not resolve")
	} else {
		arrLen := func(fn *ssa.Function) int64 {
			for _, ci := range callsTo(fn, "io.ReadFull") {
				if sl, ok := ci.Common().Args[1].(*ssa.Slice); ok {
					if al, ok := sl.X.(*ssa.Alloc); ok {
						if at, ok := al.Type().(*types.Pointer).Elem().Underlying().(*types.Array); ok {
							return at.Len()
						}
					}
				}
			}
			return -1
		}
		tokLen, idLen := int64(-1), int64(-1)
		if tokG != nil {
			if at, ok := tokG.Type().(*types.Pointer).Elem().Underlying().(*types.Array); ok {
				tokLen = at.Len()
			}
		}
		if t := p.Type("common/turbotunnel", "ClientID"); t != nil {
			if at, ok := t.Underlying().(*types.Array); ok {
				idLen = at.Len()
			}
		}
		c.check(arrLen(sh) == tokLen && tokLen > 0, rule1, "server reads len(Token) bytes first", p.Pos(sh.Pos()), fmt.Sprintf("%d", tokLen), "the server's token read has a different size than the token the client writes")
		c.check(arrLen(tm) == idLen && idLen > 0, rule1, "server reads len(ClientID) bytes next", p.Pos(tm.Pos()), fmt.Sprintf("%d", idLen), "the server's ClientID read has a different size than the id the client writes")
		// before the first ReadData
		var rdID ssa.Instruction
		for _, ci := range callsTo(tm, "io.ReadFull") {
			rdID = ci
		}
		okOrder := rdID != nil
		for _, fn := range withAnon(tm) {
			for _, ci := range callsTo(fn, "common/encapsulation.ReadData") {
				var site ssa.Instruction = ci
				if fn != tm {
					for _, mc := range p.closureSites[fn] {
						site = mc
					}
				}
				if rdID == nil || !precedes(rdID, site) {
					okOrder = false
				}
			}
		}
		c.check(okOrder, rule1, "server reads the preamble before the first encapsulated packet", p.Pos(tm.Pos()), "", "ReadData can run before the ClientID was read")
	}

	// ---------- O-2 ----------
	c.checkTunnelConstants(ns)

	// ---------- O-3 ----------
	rule3 := "O-3 reliable ordered data channel"
	if pp := p.Fn("client/lib", "(*WebRTCPeer).preparePeerConnection"); pp != nil {
		n := 0
		for _, ci := range callsIn(pp) {
			if !strings.HasSuffix(calleeName(ci), "PeerConnection).CreateDataChannel") {
				continue
			}
			n++
			opts := ci.Common().Args[2]
			ord := structLitField(opts, "Ordered")
			okOrd := false
			if al, ok := ord.(*ssa.Alloc); ok {
				if s := singleStoreAny(al); s != nil {
					if k, okk := s.(*ssa.Const); okk && k.Value != nil && k.Value.String() == "true" {
						okOrd = true
					}
				}
			}
			lossy := structLitField(opts, "MaxRetransmits") != nil || structLitField(opts, "MaxPacketLifeTime") != nil
			c.check(okOrd && !lossy, rule3, "the data channel is created ordered and without a retransmission limit", p.instrPos(ci), "", "the framing is a byte stream over the data channel and KCP runs without a checksum: an unordered or partially reliable channel desynchronises it")
		}
		if n != 1 {
			c.undecided(rule3, "CreateDataChannel call", p.Pos(pp.Pos()), fmt.Sprintf("%d calls", n))
		}
	} else {
		c.undecided(rule3, "preparePeerConnection", "-", "anchor does not resolve")
	}

	// ---------- O-4 / O-5 shared with C17 ----------
	c.prefix = "O-4/C17:"
	tt := p.FnsIn("common/turbotunnel")
	c.checkCopyOnEnqueue(tt)
	c.checkGoroutineExits(tt)
	c.checkErrorsOnlyAfterClose("RedialPacketConn", "QueuePacketConn")
	c.checkCloseOncePublication(tt)
	c.checkRedialAddress()
	c.prefix = ""
	// a carrier whose address is not recorded leaves the session without a RemoteAddr: the server's handler
	// dereferences it and the process - with every other client's stream - ends (C18's obligation)
	c.prefix = "O-12/C18:"
	c.checkSetOnEveryCarrier("O-2 address flow")
	c.prefix = ""
	// the session a redial re-attaches to is found by the ClientID's address string (C05's obligation)
	c.prefix = "O-10/C05:"
	c.checkClientIDString("O-5 typed addresses")
	c.prefix = ""
	// the proxy carries the stream to the bridge the client's rendezvous named, or not at all (C06's proxy-side
	// gate: a proxy that falls back to another relay splits one KCP conversation over two bridges)
	c.prefix = "O-11/C06:"
	c.checkProxyRelayGate()
	c.prefix = ""

	// ---------- O-6 ----------
	rule6 := "O-6 both relay directions exist"
	for _, w := range [][2]string{{"proxy/lib", "copyLoop"}, {"client", "copyLoop"}, {"server", "proxy"}} {
		fn := p.Fn(w[0], w[1])
		if fn == nil {
			c.undecided(rule6, w[0]+"."+w[1], "-", "anchor does not resolve")
			continue
		}
		c.analysedFn(p.FnName(fn))
		// collect (dst, src) root pairs of io.Copy calls, including those in closures
		type pair struct{ d, s string }
		var pairs []pair
		root := func(v ssa.Value) string {
			r := ""
			flowsLocal(v, func(x ssa.Value) bool {
				switch y := x.(type) {
				case *ssa.Parameter:
					r = "param:" + y.Name() + "@" + p.FnName(y.Parent())
					return true
				case *ssa.FreeVar:
					r = "free:" + y.Name()
					return true
				}
				return false
			})
			return r
		}
		// every way an io.Copy is reached from this function (inline, in a
		// closure, or in a copier helper/closure started once per direction),
		// with its operands mapped back to this function's values
		reached := map[ssa.Instruction]bool{}
		for _, f := range withAnon(fn) {
			for _, d := range deepCalls(f, 2, "io.Copy") {
				ci := d.In.(ssa.CallInstruction)
				if len(d.Chain) == 0 {
					continue
				}
				reached[d.In] = true
				pairs = append(pairs, pair{root(originAlong(ci.Common().Args[0], d.Chain)), root(originAlong(ci.Common().Args[1], d.Chain))})
			}
		}
		for _, f := range withAnon(fn) {
			for _, ci := range callsTo(f, "io.Copy") {
				if !reached[ci] {
					pairs = append(pairs, pair{root(ci.Common().Args[0]), root(ci.Common().Args[1])})
				}
			}
		}
		good := false
		if len(pairs) == 2 && pairs[0].d == pairs[1].s && pairs[0].s == pairs[1].d && pairs[0].d != pairs[0].s && pairs[0].d != "" && pairs[0].s != "" {
			good = true
		}
		c.check(good, rule6, w[0]+"."+w[1]+" copies in both directions", p.Pos(fn.Pos()), "", fmt.Sprintf("the two io.Copy calls do not have swapped (dst, src): one direction of the stream is never relayed (%v)", pairs))
	}

	// ---------- O-7 ----------
	c.checkLivenessGlue()
	c.checkClosedBeforeTeardown("O-7 liveness glue")
	c.checkLoopTimers("O-7 liveness glue", "client/lib")
	if c.Thorough {
		// thorough: every package of the repository
		c.checkLoopCapture("O-9 per-connection goroutines own their variables")
	} else {
		c.checkLoopCapture("O-9 per-connection goroutines own their variables", "server", "server/lib", "client", "client/lib", "proxy", "proxy/lib", "common/turbotunnel", "common/websocketconn")
	}

	// ---------- O-8 buffered packet writes are flushed ----------
	c.checkFlushAfterWriteData("O-8 every encapsulated packet written through a buffered writer is flushed")
}

// checkFlushAfterWriteData: wherever encapsulation.WriteData writes through a
// *bufio.Writer, every path on which it succeeded reaches Flush on that writer
// before the function returns or writes the next packet.
func (c *Ctx) checkFlushAfterWriteData(rule string) {
	p := c.P
	n := 0
	for _, fn := range p.FnsIn("client/lib", "server/lib") {
		for _, ci := range callsTo(fn, "common/encapsulation.WriteData") {
			cc, ok := ci.(*ssa.Call)
			if !ok {
				continue
			}
			w := cc.Call.Args[0]
			bt := boxedType(w)
			if bt == nil || !strings.HasSuffix(typeString(bt), "bufio.Writer") {
				continue
			}
			n++
			inner := w
			if mi, okm := w.(*ssa.MakeInterface); okm {
				inner = mi.X
			}
			isFlush := func(in ssa.Instruction) bool {
				f, okf := in.(ssa.CallInstruction)
				if !okf || calleeName(f) != "(*bufio.Writer).Flush" {
					return false
				}
				a := f.Common().Args[0]
				return a == inner || sameSource(a, inner)
			}
			var path []*ssa.BasicBlock
			for _, e := range errNilEdges(fn, cc, 1) {
				blocked := func(b *ssa.BasicBlock) bool {
					for _, in := range b.Instrs {
						if isFlush(in) {
							return true
						}
					}
					return false
				}
				if pth := psSearch(e.To(), nil, blocked, func(b *ssa.BasicBlock) bool {
					if b == cc.Block() {
						return true
					}
					if len(b.Instrs) == 0 {
						return false
					}
					_, isRet := b.Instrs[len(b.Instrs)-1].(*ssa.Return)
					return isRet
				}); pth != nil {
					path = pth
				}
			}
			c.check(len(errNilEdges(fn, cc, 1)) > 0 && path == nil, rule, p.FnName(fn)+" flushes after WriteData", p.instrPos(cc), "",
				"a packet written into the bufio.Writer can stay buffered (no Flush before the next packet or the return): KCP segments sit in the buffer and the stream stalls until unrelated traffic pushes them out", p.pathString(path)...)
		}
	}
	if n < 2 {
		// fewer buffered writers than on the reference tree is not a defect of this rule's
		// subject (an unbuffered writer has nothing to flush); the count is kept as evidence
		c.okTrivial(rule, "WriteData sites that go through a bufio.Writer", "-", fmt.Sprintf("%d (reference tree: client adapter and server write loop)", n))
	}
}

// sameSource: two values are loads of the same field of the same base, or the
// same value.
func sameSource(a, b ssa.Value) bool {
	if a == b {
		return true
	}
	ba, fa, oka := fieldLoad(a)
	bb, fb, okb := fieldLoad(b)
	return oka && okb && fa == fb && strip(ba) == strip(bb)
}

func describeWrite(w, tok *ssa.Call) string {
	if w == tok {
		return "the token write"
	}
	return "the ClientID write"
}

// singleStoreAny: the unique value stored directly into cell al (the cell may
// have its address taken for reads/slicing, e.g. id[:]).
func singleStoreAny(al *ssa.Alloc) ssa.Value {
	var v ssa.Value
	n := 0
	if al.Referrers() == nil {
		return nil
	}
	for _, r := range *al.Referrers() {
		if st, ok := r.(*ssa.Store); ok && st.Addr == ssa.Value(al) {
			v = st.Val
			n++
		}
	}
	if n != 1 {
		return nil
	}
	return v
}

func (c *Ctx) checkTunnelConstants(ns *ssa.Function) {
	p := c.P
	rule := "O-2 protocol constants agree between the two ends"
	listen := p.Fn("server/lib", "(*Transport).Listen")
	acceptS := p.Fn("server/lib", "(*SnowflakeListener).acceptSessions")
	acceptT := p.Fn("server/lib", "(*SnowflakeListener).acceptStreams")
	if listen == nil || acceptS == nil || acceptT == nil {
		c.undecided(rule, "server Listen/acceptSessions/acceptStreams", "-", "anchor does not resolve")
		return
	}
	argConsts := func(fn *ssa.Function, suffix string, idxs ...int) (string, ssa.CallInstruction) {
		for _, d := range deepInstrs(fn, 2, func(in ssa.Instruction) bool {
			ci, ok := in.(ssa.CallInstruction)
			return ok && strings.HasSuffix(calleeName(ci), suffix)
		}) {
			ci := d.In.(ssa.CallInstruction)
			{
				var parts []string
				for _, i := range idxs {
					a := ci.Common().Args[i]
					if isNilConst(a) {
						parts = append(parts, "nil")
					} else if k, ok := constInt(a); ok {
						parts = append(parts, fmt.Sprint(k))
					} else if cst, ok := strip(a).(*ssa.Const); ok && cst.Value != nil {
						parts = append(parts, cst.Value.String())
					} else {
						parts = append(parts, "?")
					}
				}
				return strings.Join(parts, ","), ci
			}
		}
		return "missing", nil
	}
	cl, _ := argConsts(ns, "kcp-go/v5.NewConn2", 1, 2, 3)
	sv, _ := argConsts(listen, "kcp-go/v5.ServeConn", 0, 1, 2)
	c.check(cl == sv && cl == "nil,0,0", rule, "KCP block cipher and FEC shards (nil, 0, 0) on both ends", p.Pos(ns.Pos()), "", "client NewConn2("+cl+") vs server ServeConn("+sv+"): the two ends no longer speak the same KCP wire format")
	for _, m := range []struct {
		suffix string
		idx    []int
		what   string
	}{
		{"UDPSession).SetStreamMode", []int{1}, "stream mode"},
		{"UDPSession).SetNoDelay", []int{1, 2, 3, 4}, "no-delay/congestion parameters"},
	} {
		a, _ := argConsts(ns, m.suffix, m.idx...)
		b, _ := argConsts(acceptS, m.suffix, m.idx...)
		c.check(a == b && a != "missing", rule, "KCP "+m.what+" equal on both ends", p.Pos(acceptS.Pos()), a, "client ("+a+") vs server ("+b+")")
	}
	// smux version
	ver := func(fn *ssa.Function) int64 {
		v := int64(-1)
		for _, g := range deepFns(fn, 2) {
			allInstrs(g, func(in ssa.Instruction) {
				if st, ok := in.(*ssa.Store); ok {
					if _, f, okf := fieldOfAddr(st.Addr); okf && f.Name() == "Version" && f.Pkg() != nil && strings.Contains(f.Pkg().Path(), "smux") {
						v, _ = constInt(st.Val)
					}
				}
			})
		}
		return v
	}
	c.check(ver(ns) == ver(acceptT) && ver(ns) > 0, rule, "smux protocol version equal on both ends", p.Pos(acceptT.Pos()), fmt.Sprint(ver(ns)), fmt.Sprintf("client %d vs server %d", ver(ns), ver(acceptT)))
	// smux keep-alive timeout: the session must outlive a carrier-less period, so
	// both ends override smux's 30 s default with the same, longer value (and one
	// that is not shorter than the server's client-map retention)
	kat := func(fn *ssa.Function) int64 {
		v := int64(-1)
		for _, g := range deepFns(fn, 2) {
			allInstrs(g, func(in ssa.Instruction) {
				if st, ok := in.(*ssa.Store); ok {
					if _, f, okf := fieldOfAddr(st.Addr); okf && f.Name() == "KeepAliveTimeout" && f.Pkg() != nil && strings.Contains(f.Pkg().Path(), "smux") {
						if k, okk := constInt(st.Val); okk {
							v = k
						} else {
							v = -2
						}
					}
				}
			})
		}
		return v
	}
	ka, kb := kat(ns), kat(acceptT)
	retention := int64(-1)
	if cm := p.Const("server/lib", "clientMapTimeout"); cm != nil {
		if k, ok := constant.Int64Val(cm.Val()); ok {
			retention = k
		}
	}
	c.check(ka == kb && ka > 0 && retention > 0 && ka >= retention, rule, "smux keep-alive timeout equal on both ends and not below the client-map retention", p.Pos(acceptT.Pos()), fmt.Sprintf("%d ns on both ends (retention %d ns)", ka, retention),
		fmt.Sprintf("client %d ns vs server %d ns (retention %d ns; -1 = smux default of 30 s, -2 = not a constant): one end gives up on the session during a carrier-less period that the other end, and the client map, are prepared to bridge", ka, kb, retention))
}

func (c *Ctx) checkLivenessGlue() {
	p := c.P
	rule := "O-7 liveness glue"
	cl := p.FnsIn("client/lib")
	lrF := p.Field("client/lib", "WebRTCPeer", "lastReceive")
	stale := p.Fn("client/lib", "(*WebRTCPeer).checkForStaleness")
	conn := p.Fn("client/lib", "(*WebRTCPeer).connect")
	if lrF == nil || stale == nil || conn == nil {
		c.undecided(rule, "WebRTCPeer.lastReceive/checkForStaleness/connect", "-", "anchor does not resolve")
		return
	}
	// who (transitively) writes lastReceive: roots must be the receive path
	isOnMessage := func(fn *ssa.Function) bool {
		for _, mc := range p.closureSites[fn] {
			if mc.Referrers() == nil {
				continue
			}
			for _, r := range *mc.Referrers() {
				if ci, ok := r.(ssa.CallInstruction); ok && strings.HasSuffix(calleeName(ci), "DataChannel).OnMessage") {
					return true
				}
			}
		}
		return false
	}
	writers := map[*ssa.Function]bool{}
	for _, s := range storesToField(cl, lrF) {
		writers[s.Parent()] = true
	}
	roots := map[*ssa.Function]bool{}
	seen := map[*ssa.Function]bool{}
	var up func(fn *ssa.Function)
	up = func(fn *ssa.Function) {
		if seen[fn] {
			return
		}
		seen[fn] = true
		if fn == stale || isOnMessage(fn) {
			roots[fn] = true
			return
		}
		callers := p.realCallers(fn)
		if len(callers) == 0 {
			roots[fn] = true
			return
		}
		for _, ci := range callers {
			up(ci.Parent())
		}
	}
	for w := range writers {
		up(w)
	}
	bad := ""
	for r := range roots {
		if r != stale && !isOnMessage(r) {
			bad += p.FnName(r) + " "
		}
	}
	c.check(bad == "" && len(writers) > 0, rule, "the last-receive timestamp is refreshed only by received messages", p.Pos(lrF.Pos()), fmt.Sprintf("%d writer(s), all reached only from OnMessage and the staleness loop", len(writers)),
		"lastReceive is also refreshed from "+bad+": data the client itself sends (KCP retransmissions, smux keep-alives) keeps the timer fresh, so a silently dead proxy is never dropped and the standby is never used")
	// the staleness loop closes the peer when Since(lastReceive) > timeout
	isSince := func(v ssa.Value) bool {
		cc, _, ok := callResult(v)
		return ok && calleeName(cc) == "time.Since" && flows(cc.Call.Args[0], func(w ssa.Value) bool { return isFieldLoadOf(w, lrF) })
	}
	isTO := func(v ssa.Value) bool {
		return sameValue(v, func(w ssa.Value) bool { return w == ssa.Value(stale.Params[1]) })
	}
	// tested inline or in a boolean helper/literal of the loop
	expired := predEdgesS(stale, append(sCmp(">", isSince, isTO), sCmp(">=", isSince, isTO)...), 2)
	okClose := false
	for _, ci := range callsTo(stale, "(*client/lib.WebRTCPeer).Close") {
		if len(expired) > 0 && reachableWithout(stale, ci, expired) == nil {
			okClose = true
		}
	}
	c.check(okClose, rule, "the staleness loop closes the peer once nothing was received for the timeout", p.Pos(stale.Pos()), "", "the peer is not closed on the time.Since(lastReceive) > timeout edge: a dead carrier is never replaced")
	// started on every successful connect
	started := false
	for _, ci := range callsIn(conn) {
		if g, ok := ci.(*ssa.Go); ok && staticCallee(g) == stale {
			started = true
			for _, r := range returnsOf(conn) {
				if isNilConst(r.Results[0]) && !precedes(g, r) {
					started = false
				}
			}
		}
	}
	c.check(started, rule, "every successfully connected peer gets a staleness loop", p.Pos(conn.Pos()), "", "connect can succeed without starting checkForStaleness")
	c.checkBoundedRendezvous(rule)
}

// checkBoundedRendezvous: the rendezvous transport has a positive ResponseHeaderTimeout.
func (c *Ctx) checkBoundedRendezvous(rule string) {
	p := c.P
	cl := p.FnsIn("client/lib")
	// bounded broker round trip
	okTimeout := false
	for _, fn := range cl {
		allInstrs(fn, func(in ssa.Instruction) {
			if st, ok := in.(*ssa.Store); ok {
				if _, f, okf := fieldOfAddr(st.Addr); okf && f.Name() == "ResponseHeaderTimeout" {
					if k, okk := constInt(st.Val); okk && k > 0 {
						// the transport so configured is the one returned to the rendezvous code
						okTimeout = true
					}
				}
			}
		})
	}
	c.check(okTimeout, rule, "the broker round trip has a bounded response-header timeout", "-", "", "no positive ResponseHeaderTimeout is set on the rendezvous transport: when the broker accepts a poll but never answers, Collect blocks for ever holding collectLock and no replacement proxy is ever collected")
}

// checkClosedBeforeTeardown: WebRTCPeer.Close marks the peer closed (close of
// the closed channel, which Closed() polls) before it tears the transport down,
// so that Peers.Pop - which skips peers whose Closed() is true - cannot hand out
// a peer whose data channel is already gone.
func (c *Ctx) checkClosedBeforeTeardown(rule string) {
	p := c.P
	cl := p.Fn("client/lib", "(*WebRTCPeer).Close")
	if cl == nil {
		c.undecided(rule, "WebRTCPeer.Close", "-", "anchor does not resolve")
		return
	}
	// teardown actions: the closes cleanup consists of, wherever they live
	isTeardown := func(in ssa.Instruction) bool {
		ci, ok := in.(ssa.CallInstruction)
		if !ok {
			return false
		}
		n := calleeName(ci)
		return strings.HasSuffix(n, "webrtc/v3.DataChannel).Close") || strings.HasSuffix(n, "webrtc/v3.PeerConnection).Close") ||
			n == "(*io.PipeWriter).Close" || n == "(*io.PipeReader).Close"
	}
	isMark := func(in ssa.Instruction) bool {
		for _, op := range chanOpsIn(p, in.Parent()) {
			if op.Instr == in && op.Dir == chClose && op.Class == "WebRTCPeer.closed" {
				return true
			}
		}
		return false
	}
	// the mark and a teardown action are ordered in the function in which they are
	// told apart (their lowest common caller): Close's once body, cleanup, or a helper
	n := 0
	type pair struct{ a, b ssa.Instruction }
	seen := map[pair]bool{}
	for _, fn := range deepFns(cl, 3) {
		marks := deepInstrs(fn, 3, isMark)
		if len(marks) == 0 {
			continue
		}
		for _, t := range deepInstrs(fn, 3, isTeardown) {
			for _, m := range marks {
				if m.Top == t.Top || seen[pair{m.In, t.In}] {
					continue // both inside the same callee: judged there
				}
				seen[pair{m.In, t.In}] = true
				n++
				good := precedes(m.Top, t.Top) && !canFollow(t.Top, m.Top)
				c.check(good, rule, "the peer is marked closed before its transport is torn down", p.instrPos(t.In), "close(c.closed) precedes the teardown ("+p.FnName(fn)+")",
					"the transport can be torn down while Closed() still reports false: Pop hands the dying peer to the redial loop, whose preamble write fails and ends the session although healthy peers are available")
			}
		}
	}
	if n == 0 {
		c.undecided(rule, "teardown after close(c.closed) in WebRTCPeer.Close", p.Pos(cl.Pos()), "no close of WebRTCPeer.closed followed by a teardown action found")
	}
}

// checkLoopCapture: a goroutine started inside a loop must not capture a
// variable that lives across iterations and is assigned in the loop: the next
// iteration overwrites it while the goroutine of the previous one is still
// reading (two connections handled as one, one never handled).
func (c *Ctx) checkLoopCapture(rule string, rels ...string) {
	p := c.P
	nGo := 0
	bad := 0
	for _, fn := range p.FnsIn(rels...) {
		for _, ci := range callsIn(fn) {
			g, ok := ci.(*ssa.Go)
			if !ok || !inCycle(g.Block()) {
				continue
			}
			mc, ok := g.Call.Value.(*ssa.MakeClosure)
			if !ok {
				continue
			}
			nGo++
			for _, b := range mc.Bindings {
				al, ok := b.(*ssa.Alloc)
				if !ok {
					continue
				}
				// re-created in every iteration?
				if reachPath(g.Block(), al.Block(), nil) != nil {
					continue
				}
				if al.Referrers() == nil {
					continue
				}
				for _, r := range *al.Referrers() {
					st, ok := r.(*ssa.Store)
					if !ok || st.Addr != ssa.Value(al) {
						continue
					}
					if reachPath(g.Block(), st.Block(), nil) != nil && reachPath(st.Block(), g.Block(), nil) != nil {
						bad++
						c.viol(rule, p.FnName(fn)+": goroutine captures "+al.Comment, p.instrPos(g), "the variable is declared outside the loop and assigned at "+p.instrPos(st)+" in every iteration: goroutines of earlier iterations observe later values")
					}
				}
			}
		}
	}
	if bad == 0 {
		c.ok(rule, "goroutines started in loops capture only per-iteration variables", "-", fmt.Sprintf("%d go statements with closures inside loops examined", nGo))
	}
}

// checkLoopTimers: a select inside a loop that waits on a timer waits on a
// timer drawn in that iteration (time.After / time.NewTimer inside the loop), on
// a ticker, or on a timer that is Reset inside the loop. A one-shot timer made
// before the loop fires once: afterwards the loop either spins or, as in the
// collection loop, never makes another pass.
func (c *Ctx) checkLoopTimers(rule string, rels ...string) {
	p := c.P
	n := 0
	for _, fn := range p.FnsIn(rels...) {
		for _, op := range chanOpsIn(p, fn) {
			if op.Sel == nil || op.Dir != chRecv || !inCycle(op.Instr.Block()) {
				continue
			}
			ch := strip(op.Chan)
			var src *ssa.Call
			viaTimerField := false
			if cc, _, ok := callResult1(ch); ok && calleeName(cc) == "time.After" {
				src = cc
			} else if base, f, okf := fieldLoad(ch); okf && f.Name() == "C" && f.Pkg() != nil && f.Pkg().Path() == "time" {
				if cc, _, okc := callResult1(strip(base)); okc && (calleeName(cc) == "time.NewTimer" || calleeName(cc) == "time.NewTicker") {
					src = cc
					viaTimerField = calleeName(cc) == "time.NewTimer"
					if calleeName(cc) == "time.NewTicker" {
						continue
					}
				}
			}
			if src == nil {
				continue
			}
			n++
			sel := op.Instr.Block()
			fresh := src.Parent() == fn && reachPath(sel, src.Block(), nil) != nil // re-executed by the loop
			if !fresh && viaTimerField {
				for _, ci := range callsTo(fn, "(*time.Timer).Reset") {
					if reachPath(sel, ci.Block(), nil) != nil && inCycle(ci.Block()) {
						fresh = true
					}
				}
			}
			c.check(fresh, rule, p.FnName(fn)+": the timer awaited in the loop is drawn (or reset) in every iteration", p.instrPos(op.Instr), "", "the loop waits on a one-shot timer created before the loop and never reset: after it has fired once the wait never ends (or ends at once) - the collection loop stops making passes and a proxy that dies later is never replaced")
		}
	}
	if n == 0 {
		c.okTrivial(rule, "timed selects inside loops", "-", "none")
	}
}
