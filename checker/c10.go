package main

import (
	"fmt"
	"go/token"
	"go/types"
	"sort"
	"strings"

	"golang.org/x/tools/go/ssa"
)

func init() {
	register("C10", propMeta{
		Explanation: "E-CONST + E-GUARD + E-PAIR + E-PANIC on common/amp. O-1 size constants: bytesPerChunk = 32, elementSizeLimit = 32 KiB, 1 + chunksPerElement*(bytesPerChunk+1) <= elementSizeLimit, and in decodeToWriter tokenizer.SetMaxBuf(c) with c >= that encoder maximum lies on every path between html.NewTokenizer and the first tokenizer.Next (bounded buffering). O-2 whitespace vocabulary: the case set of isASCIIWhitespace is {09, 0a, 0c, 0d, 20} and every separator the encoder writes after a word is in it. O-3 version, alphabet and single stream agree: the encoder writes the version byte '0' through the element encoder before creating the base64 encoder; armorEncoder.Write feeds the payload only through that one streaming base64 encoder; the decoder accepts exactly '0', returns ErrUnknownVersion otherwise; both sides use base64.StdEncoding. O-4 structural errors are errors: the 'inside a pre element' state becomes true only on its false edge and false only on its true edge, by literal transitions; a nested start tag, a stray end tag and end of input inside an element each lead to a return that never re-enters the loop; text reaches the output only on the active edge. O-5 no hang or leak: the decoder goroutine closes the pipe with the decode error on every path and every error return of NewArmorDecoder closes the read side first. O-6 no termination construct reachable from the encoder and decoder entry points. O-7 the one Read whose count is discarded (the version byte from the io.Pipe) is fed only by writes of scanner tokens. Added after the second seeding round: O-5 also requires that no path leads from the tokenizer's ErrorToken case back to Next() (the error is sticky: the loop would spin); O-8 no function of common/amp returns, writes, appends/copies into, or calls a method on a package-level object (compiled regexps, base64 alphabets and sync primitives excepted). Added after the fourth seeding round: O-1b the element encoder's two counters are only advanced (old value plus something) or restarted at zero behind the comparison with their limit, and every payload write is followed by an advance of the chunk counter. Added after the fifth seeding round: decodeToWriter returns success only behind the end-of-input token test; the base64 decoder returned by NewArmorDecoder reads the pipe itself (no limiting reader in between). Added after the sixth seeding round and the mutation audit: O-7b every token return of splitASCIIWhitespace advances to the token's end in data or one past it (bounds composed through nested slices, compared symbolically); O-7/C11 the AMP exchange caps the body it reads, not the decoder's output. O-8/O-9 the same two error-discipline rules for common/amp.",
		NotDecided:  "round-trip equality and re-chunking invariance over actual bytes (value-level), the HTML tokenizer's behaviour (third-party).",
		Assumptions: []string{"golang.org/x/net/html honours SetMaxBuf", "encoding/base64 streaming encoder/decoder are inverse"},
	}, runC10)
}

func runC10(c *Ctx) {
	p := c.P
	// the armored document is bounded before it is decoded: the cap is on the body the cache sends, not on what
	// comes out of the decoder (C11's obligation on the AMP exchange)
	if ex := p.Fn("client/lib", "(*ampCacheRendezvous).Exchange"); ex != nil {
		c.prefix = "O-7/C11:"
		c.checkStatusAndLimit(ex, "ampCacheRendezvous")
		c.prefix = ""
	}
	amp := p.FnsIn("common/amp")
	c.checkDecodeErrorsConsumed("O-8 a decoding step's error is part of the verdict", amp)
	c.checkErrorBranchesLeave("O-9 a failed step ends the function", amp)
	for _, fn := range amp {
		c.analysedFn(p.FnName(fn))
	}
	constInt64 := func(name string) (int64, bool) {
		k := p.Const("common/amp", name)
		if k == nil {
			return 0, false
		}
		var v int64
		_, err := fmt.Sscan(k.Val().ExactString(), &v)
		return v, err == nil
	}
	// ---------- O-1 ----------
	rule1 := "O-1 size constants"
	bpc, ok1 := constInt64("bytesPerChunk")
	esl, ok2 := constInt64("elementSizeLimit")
	cpe, ok3 := constInt64("chunksPerElement")
	if !ok1 || !ok2 || !ok3 {
		c.undecided(rule1, "amp constants", "-", "bytesPerChunk/elementSizeLimit/chunksPerElement do not resolve")
	} else {
		c.check(bpc == 32, rule1, "bytesPerChunk == 32", "-", "", fmt.Sprintf("words are %d bytes, the format promises at most 32", bpc))
		c.check(esl == 32*1024, rule1, "elementSizeLimit == 32 KiB", "-", "", fmt.Sprintf("%d", esl))
		c.check(1+cpe*(bpc+1) <= esl, rule1, "an element's text fits the element size limit", "-", fmt.Sprintf("1 + %d*(%d+1) = %d <= %d", cpe, bpc, 1+cpe*(bpc+1), esl), fmt.Sprintf("1 + %d*(%d+1) = %d > %d: the encoder can produce elements the decoder's buffer limit rejects", cpe, bpc, 1+cpe*(bpc+1), esl))
	}
	c.checkEncoderCounters()
	c.checkDecoderEnds()
	dec := p.Fn("common/amp", "decodeToWriter")
	if dec == nil {
		c.undecided(rule1, "amp.decodeToWriter", "-", "anchor does not resolve")
		return
	}
	var newTok, setMax ssa.CallInstruction
	var nexts []ssa.CallInstruction
	for _, ci := range callsIn(dec) {
		n := calleeName(ci)
		switch {
		case strings.HasSuffix(n, "html.NewTokenizer"):
			newTok = ci
		case strings.HasSuffix(n, "html.Tokenizer).SetMaxBuf"):
			setMax = ci
		case strings.HasSuffix(n, "html.Tokenizer).Next"):
			nexts = append(nexts, ci)
		}
	}
	if newTok == nil || len(nexts) == 0 {
		c.undecided(rule1, "decodeToWriter uses an html.Tokenizer", p.Pos(dec.Pos()), "NewTokenizer/Next not found")
	} else if setMax == nil {
		c.viol(rule1, "decodeToWriter bounds the tokenizer buffer before the first Next", p.Pos(dec.Pos()), "no SetMaxBuf call: the tokenizer buffers text without limit when it is not broken up by other tokens")
	} else {
		k, _ := constInt(setMax.Common().Args[1])
		good := ok1 && ok3 && k >= 1+cpe*(bpc+1) && k <= esl
		for _, nx := range nexts {
			if !precedes(setMax, nx) {
				good = false
			}
		}
		c.check(good && precedes(newTok, setMax), rule1, "decodeToWriter bounds the tokenizer buffer before the first Next", p.instrPos(setMax), fmt.Sprintf("SetMaxBuf(%d)", k),
			fmt.Sprintf("SetMaxBuf(%d) does not dominate every tokenizer.Next or is outside [encoder maximum, elementSizeLimit]", k))
	}

	// ---------- O-2 ----------
	rule2 := "O-2 whitespace vocabulary"
	if ws := p.Fn("common/amp", "isASCIIWhitespace"); ws != nil {
		set := map[int64]bool{}
		allInstrs(ws, func(in ssa.Instruction) {
			if bo, ok := in.(*ssa.BinOp); ok && bo.Op == token.EQL {
				if k, okk := constInt(bo.Y); okk && bo.X == ssa.Value(ws.Params[0]) {
					set[k] = true
				}
			}
		})
		var ks []int64
		for k := range set {
			ks = append(ks, k)
		}
		sort.Slice(ks, func(i, j int) bool { return ks[i] < ks[j] })
		c.check(fmt.Sprint(ks) == "[9 10 12 13 32]", rule2, "isASCIIWhitespace accepts {09, 0a, 0c, 0d, 20}", p.Pos(ws.Pos()), "", fmt.Sprintf("accepts %v: re-separating the words with some ASCII whitespace changes the decoding", ks))
		// encoder separators
		if ew := p.Fn("common/amp", "(*elementEncoder).Write"); ew != nil {
			bad := ""
			n := 0
			for _, ci := range callsIn(ew) {
				if calleeName(ci) != "(io.Writer).Write" {
					continue
				}
				if s, ok := constString(ci.Common().Args[0]); ok {
					n++
					last := int64(s[len(s)-1])
					if !set[last] {
						bad += fmt.Sprintf("%q ", s)
					}
				}
			}
			c.check(bad == "" && n >= 3, rule2, "every separator the encoder writes ends in accepted whitespace", p.Pos(ew.Pos()), fmt.Sprintf("%d literals", n), "encoder literals "+bad+"do not end in ASCII whitespace the decoder accepts")
		}
	} else {
		c.undecided(rule2, "amp.isASCIIWhitespace", "-", "anchor does not resolve")
	}

	// ---------- O-3 ----------
	c.checkArmorVersion()

	// ---------- O-3b encoder Close order ----------
	if cl := p.Fn("common/amp", "(*armorEncoder).Close"); cl != nil {
		var b64, elem, trailer ssa.Instruction
		for _, ci := range callsIn(cl) {
			switch calleeName(ci) {
			case "(io.WriteCloser).Close", "(io.Closer).Close":
				b64 = ci
			case "(*common/amp.elementEncoder).Close":
				elem = ci
			case "(io.Writer).Write":
				trailer = ci
			}
		}
		good := b64 != nil && elem != nil && trailer != nil && precedes(b64, elem) && precedes(elem, trailer)
		c.check(good, "O-3 version, alphabet and single stream agree", "armorEncoder.Close flushes base64, then closes the element, then writes the trailer", p.Pos(cl.Pos()), "",
			"the closing order is not base64 -> element -> boilerplate trailer: the final base64 quantum or the closing </pre> lands outside the element (or is lost)")
		// errors of the first two steps are returned
		for _, st := range []ssa.Instruction{b64, elem} {
			if cc, ok := st.(*ssa.Call); ok && elem != nil && b64 != nil {
				ne := nilCheckEdges(cl, false, func(v ssa.Value) bool { return v == ssa.Value(cc) })
				c.check(len(ne) > 0, "O-3 version, alphabet and single stream agree", "armorEncoder.Close checks the error of "+calleeName(cc), p.instrPos(cc), "", "a failed flush/close is ignored")
			}
		}
	}
	if ecl := p.Fn("common/amp", "(*elementEncoder).Close"); ecl != nil {
		lits := map[string]bool{}
		for _, ci := range callsIn(ecl) {
			if calleeName(ci) == "(io.Writer).Write" {
				if ss, ok := constStrings(ci.Common().Args[0]); ok {
					for _, s := range ss {
						lits[s] = true
					}
				}
			}
		}
		c.check(lits["</pre>\n"] && lits["\n</pre>\n"], "O-3 version, alphabet and single stream agree", "elementEncoder.Close terminates an open element (after a separator if a word is in progress)", p.Pos(ecl.Pos()), "", fmt.Sprintf("closing literals are %v", sortedKeys(lits)))
	}

	// ---------- O-4 ----------
	c.checkArmorStateMachine(dec)

	// ---------- O-5 ----------
	rule5 := "O-5 no hang or leak"
	// the tokenizer's error is sticky (Next keeps returning ErrorToken): the token
	// loop must end on it - no path from the ErrorToken case back to Next()
	{
		var next *ssa.Call
		for _, d := range deepInstrs(dec, 1, func(in ssa.Instruction) bool {
			ci, ok := in.(*ssa.Call)
			return ok && strings.HasSuffix(calleeName(ci), "html.Tokenizer).Next")
		}) {
			next, _ = d.In.(*ssa.Call)
		}
		if next == nil {
			c.undecided(rule5, "decodeToWriter calls tokenizer.Next", p.Pos(dec.Pos()), "call not found")
		} else {
			fnN := next.Parent()
			errTok := eqEdges(fnN, true, func(v ssa.Value) bool { return strip(v) == ssa.Value(next) }, func(v ssa.Value) bool { k, ok := constInt(v); return ok && k == 0 })
			okEnd := len(errTok) > 0
			var wp []*ssa.BasicBlock
			for _, e := range errTok {
				if pth := psSearch(e.To(), nil, nil, func(b *ssa.BasicBlock) bool { return b == next.Block() }); pth != nil {
					okEnd = false
					wp = pth
				}
			}
			c.check(okEnd, rule5, "the token loop ends at the tokenizer's error token", p.instrPos(next), "no path from the ErrorToken case back to Next()",
				"after an ErrorToken the loop can call Next() again; the tokenizer's error is sticky, so the decoder spins for ever and the reader never sees data or an error", p.pathString(wp)...)
		}
	}
	c.checkNoSharedState("O-8 the armor codec keeps no shared mutable state", "common/amp", p.FnsIn("common/amp"))
	nad := p.Fn("common/amp", "NewArmorDecoder")
	if nad == nil {
		c.undecided(rule5, "amp.NewArmorDecoder", "-", "anchor does not resolve")
	} else {
		for _, clo := range nad.AnonFuncs {
			path := escapesWithout(clo.Blocks[0], func(in ssa.Instruction) bool {
				ci, ok := in.(ssa.CallInstruction)
				return ok && calleeName(ci) == "(*io.PipeWriter).CloseWithError"
			})
			c.check(path == nil, rule5, "the decoder goroutine closes the pipe writer on every path", p.Pos(clo.Pos()), "", "a path of the goroutine ends without closing the pipe: the reader blocks for ever", p.pathString(path)...)
			// with the decode error
			okErr := false
			for _, ci := range callsTo(clo, "(*io.PipeWriter).CloseWithError") {
				if cc, idx, ok := callResult(ci.Common().Args[1]); ok && staticCallee(cc) == dec && idx == 1 {
					okErr = true
				}
			}
			c.check(okErr, rule5, "the pipe is closed with decodeToWriter's error", p.Pos(clo.Pos()), "", "decode errors are not propagated to the reader: a malformed document reads as a clean end")
		}
		n := 0
		for _, r := range returnsOf(nad) {
			if isNilConst(r.Results[1]) {
				continue
			}
			n++
			// a pr.CloseWithError precedes in the same block or dominates
			closed := false
			for _, ci := range callsTo(nad, "(*io.PipeReader).CloseWithError", "(*io.PipeReader).Close") {
				if precedes(ci, r) {
					closed = true
				}
			}
			c.check(closed, rule5, "NewArmorDecoder closes the pipe reader before returning an error", p.instrPos(r), "", "an error return leaves the decoder goroutine parked in a pipe write")
		}
		if n < 1 {
			c.undecided(rule5, "NewArmorDecoder error returns", p.Pos(nad.Pos()), fmt.Sprintf("%d found", n))
		}
	}

	// ---------- O-6 ----------
	rule6 := "O-6 no termination construct in the armor codec"
	var entries []*ssa.Function
	for _, n := range []string{"NewArmorDecoder", "decodeToWriter", "splitASCIIWhitespace", "NewArmorEncoder", "(*armorEncoder).Write", "(*armorEncoder).Close", "(*elementEncoder).Write", "(*elementEncoder).Close"} {
		if fn := p.Fn("common/amp", n); fn != nil {
			entries = append(entries, fn)
		} else {
			c.undecided(rule6, "common/amp."+n, "-", "anchor does not resolve")
		}
	}
	reached := c.checkTerminators(rule6, entries, nil)
	c.okTrivial(rule6, fmt.Sprintf("%d functions reachable from the armor entry points examined", len(reached)), "-", "")

	// ---------- O-7 ----------
	rule7 := "O-7 the version byte read sees only non-empty writes"
	okW := false
	nW := 0
	for _, d := range deepCalls(dec, 2, "(io.Writer).Write") {
		ci := d.In.(ssa.CallInstruction)
		nW++
		if cc, _, ok := callResult(ci.Common().Args[0]); ok && calleeName(cc) == "(*bufio.Scanner).Bytes" {
			okW = true
		} else {
			okW = false
		}
	}
	c.checkSplitAdvance()
	splitOK := false
	if sp := p.Fn("common/amp", "splitASCIIWhitespace"); sp != nil {
		// every token returned is data[i:j]; the at-EOF return is behind i < j
		nTok := 0
		splitOK = true
		for _, r := range returnsOf(sp) {
			if isNilConst(r.Results[1]) {
				continue
			}
			nTok++
			if _, isSlice := r.Results[1].(*ssa.Slice); !isSlice {
				splitOK = false
			}
		}
		if nTok == 0 {
			splitOK = false
		}
	}
	c.check(okW && nW == 1 && splitOK, rule7, "decodeToWriter writes only scanner tokens of splitASCIIWhitespace", p.Pos(dec.Pos()), "", "the pipe feeding NewArmorDecoder's single-byte Read can receive an empty write, after which the discarded count hides a (0, nil) read")
}

func (c *Ctx) checkArmorVersion() {
	p := c.P
	rule := "O-3 version, alphabet and single stream agree"
	ne := p.Fn("common/amp", "NewArmorEncoder")
	nd := p.Fn("common/amp", "NewArmorDecoder")
	aw := p.Fn("common/amp", "(*armorEncoder).Write")
	if ne == nil || nd == nil || aw == nil {
		c.undecided(rule, "armor anchors", "-", "anchor does not resolve")
		return
	}
	std := globalOf(p, "encoding/base64", "StdEncoding")
	isStd := func(v ssa.Value) bool { addr, ok := loadAddr(v); return ok && std != nil && addr == ssa.Value(std) }
	var elemWrite, newEnc ssa.CallInstruction
	for _, ci := range callsIn(ne) {
		switch calleeName(ci) {
		case "(*common/amp.elementEncoder).Write":
			elemWrite = ci
		case "encoding/base64.NewEncoder":
			newEnc = ci
		}
	}
	good := elemWrite != nil && newEnc != nil && precedes(elemWrite, newEnc)
	ver := int64(-1)
	if good {
		// the byte written: []byte{'0'}
		if sl, ok := elemWrite.Common().Args[1].(*ssa.Slice); ok {
			for _, v := range subStores(sl.X) {
				ver, _ = constInt(v)
			}
		}
		good = ver == '0' && isStd(newEnc.Common().Args[0])
	}
	c.check(good, rule, "NewArmorEncoder writes version '0' outside base64, then creates a StdEncoding encoder", p.Pos(ne.Pos()), "", fmt.Sprintf("version byte %q / ordering / alphabet differ from the decoder's expectations", rune(ver)))
	// decoder
	var newDec ssa.CallInstruction
	for _, ci := range callsTo(nd, "encoding/base64.NewDecoder") {
		newDec = ci
	}
	set := map[int64]bool{}
	accept := condEdges(nd, true, func(a Atom) bool {
		if a.Op != token.EQL {
			return false
		}
		k, ok := constInt(a.Y)
		if !ok {
			return false
		}
		if _, isLoad := a.X.(*ssa.UnOp); !isLoad {
			return false
		}
		set[k] = true
		return true
	})
	goodD := newDec != nil && isStd(newDec.Common().Args[0]) && len(set) == 1 && set['0'] && reachableWithout(nd, newDec, accept) == nil
	c.check(goodD, rule, "NewArmorDecoder accepts exactly version '0' and decodes with StdEncoding", p.Pos(nd.Pos()), "", "the decoder's accepted version set or alphabet differs from what the encoder writes")
	// default -> ErrUnknownVersion
	okUnknown := false
	for _, r := range returnsOf(nd) {
		for _, lf := range valueLeaves(r.Results[1], r) {
			if bt := boxedType(lf.V); bt != nil && strings.HasSuffix(typeString(bt), "amp.ErrUnknownVersion") {
				okUnknown = reachableWithout(nd, lf.At, condEdges(nd, false, func(a Atom) bool {
					k, ok := constInt(a.Y)
					return a.Op == token.EQL && ok && k == '0'
				})) == nil
			}
		}
	}
	c.check(okUnknown, rule, "any other version byte yields ErrUnknownVersion", p.Pos(nd.Pos()), "", "an unknown version indicator is not reported as ErrUnknownVersion")
	// single stream
	n := 0
	okStream := true
	for _, ci := range callsIn(aw) {
		n++
		if calleeName(ci) != "(io.WriteCloser).Write" && calleeName(ci) != "(io.Writer).Write" {
			okStream = false
			continue
		}
		if _, f, ok := fieldLoad(callArgs(ci)[0]); !ok || f.Name() != "base64" {
			okStream = false
		}
	}
	c.check(okStream && n == 1, rule, "armorEncoder.Write feeds the payload only through the one streaming base64 encoder", p.Pos(aw.Pos()), "",
		"payload bytes can bypass the streaming base64 encoder (a second encoding path): bytes still buffered from an earlier write are emitted out of order, so a multi-write sequence decodes to a permuted payload")
}

func (c *Ctx) checkArmorStateMachine(dec *ssa.Function) {
	p := c.P
	rule := "O-4 structural errors are errors"
	// the 'inside an element' state, found by role: the boolean phi of a loop
	// header that has constant incoming edges and is tested most often
	uses := func(ph *ssa.Phi) int {
		n := 0
		for _, b := range dec.Blocks {
			if len(b.Instrs) == 0 {
				continue
			}
			if ifi, ok := b.Instrs[len(b.Instrs)-1].(*ssa.If); ok {
				if k, _ := condKey(ifi.Cond); k == ssa.Value(ph) {
					n++
				}
			}
		}
		return n
	}
	var A *ssa.Phi
	for _, b := range dec.Blocks {
		if !inCycle(b) {
			continue
		}
		for _, in := range b.Instrs {
			ph, ok := in.(*ssa.Phi)
			if !ok {
				break
			}
			if bt, okb := ph.Type().Underlying().(*types.Basic); !okb || bt.Kind() != types.Bool {
				continue
			}
			hasConst := false
			for _, e := range ph.Edges {
				if _, isC := e.(*ssa.Const); isC {
					hasConst = true
				}
			}
			if hasConst && uses(ph) >= 2 && (A == nil || uses(ph) > uses(A)) {
				A = ph
			}
		}
	}
	if A == nil {
		c.undecided(rule, "decodeToWriter 'inside a pre element' state", p.Pos(dec.Pos()), "no boolean loop state tested at least twice found: the state machine must be re-identified")
		return
	}
	header := A.Block()
	// the family of phis that carry the state around the loop
	family := map[*ssa.Phi]bool{A: true}
	for changed := true; changed; {
		changed = false
		for ph := range family {
			for _, e := range ph.Edges {
				if p2, ok := e.(*ssa.Phi); ok && !family[p2] {
					family[p2] = true
					changed = true
				}
			}
		}
	}
	isA := func(v ssa.Value) bool {
		ph, ok := v.(*ssa.Phi)
		return ok && family[ph]
	}
	aTrue := boolEdges(dec, true, isA)
	aFalse := boolEdges(dec, false, isA)
	// transitions: follow phi edges of every 'active' phi
	bad := ""
	nT, nF := 0, 0
	for _, b := range dec.Blocks {
		for _, in := range b.Instrs {
			ph, ok := in.(*ssa.Phi)
			if !ok {
				break
			}
			if !family[ph] {
				continue
			}
			for i, e := range ph.Edges {
				pred := ph.Block().Preds[i]
				if isA(e) {
					continue
				}
				k, isConst := e.(*ssa.Const)
				if !isConst {
					bad = "the state is assigned a computed value (" + e.Name() + ") instead of the literal transitions true/false"
					continue
				}
				val := k.Value != nil && k.Value.String() == "true"
				if reachPath(header, pred, nil) == nil {
					// initial value from before the loop
					if val {
						bad = "the state starts as true"
					}
					continue
				}
				if val {
					nT++
					if psSearch(header, aFalse, nil, func(x *ssa.BasicBlock) bool { return x == pred }) != nil {
						bad = "active becomes true on a path where it was not tested false (a nested <pre> is accepted)"
					}
				} else {
					nF++
					if psSearch(header, aTrue, nil, func(x *ssa.BasicBlock) bool { return x == pred }) != nil {
						bad = "active becomes false on a path where it was not tested true (a stray </pre> is accepted)"
					}
				}
			}
		}
	}
	c.check(bad == "" && nT >= 1 && nF >= 1, rule, "active becomes true only from false and false only from true", p.Pos(dec.Pos()), "", bad+fmt.Sprintf(" (true transitions %d, false transitions %d)", nT, nF))
	// error exits: edges that never re-enter the loop
	leaves := func(e Edge) bool {
		return reachPath(e.To(), header, nil) == nil
	}
	nTrueLeaves, nFalseLeaves := 0, 0
	for _, e := range aTrue {
		if leaves(e) {
			nTrueLeaves++
		}
	}
	for _, e := range aFalse {
		if leaves(e) {
			nFalseLeaves++
		}
	}
	c.check(nTrueLeaves >= 2, rule, "nested <pre> and end of input inside an element end decoding with an error", p.Pos(dec.Pos()), fmt.Sprintf("%d exits on the active edge", nTrueLeaves), fmt.Sprintf("only %d of the two error exits taken while inside an element remain", nTrueLeaves))
	c.check(nFalseLeaves >= 1, rule, "a stray </pre> ends decoding with an error", p.Pos(dec.Pos()), "", "no exit is taken on the not-active edge any more: a stray end tag is silently accepted")
	// text is written only on the active edge
	for _, ci := range callsIn(dec) {
		if calleeName(ci) == "(io.Writer).Write" {
			path := psSearch(header, aTrue, nil, func(x *ssa.BasicBlock) bool { return x == ci.Block() })
			c.check(path == nil, rule, "text is decoded only inside a pre element", p.instrPos(ci), "", "text outside pre elements reaches the base64 decoder", p.pathString(path)...)
		}
	}
}

// checkEncoderCounters: the element encoder keeps the word and element limits by
// counting. Each of its two counters is only ever advanced (old value plus
// something) or restarted at zero, the restart lies behind the comparison of that
// counter with its limit, and every payload write is followed by an advance of
// the chunk counter. A counter that is assigned anything else forgets what was
// written: words grow past 32 bytes and elements past the decoder's limit.
func (c *Ctx) checkEncoderCounters() {
	p := c.P
	rule := "O-1b the element encoder's counters accumulate"
	scope := p.FnsIn("common/amp")
	for _, row := range []struct{ field, limit string }{{"chunkCounter", "bytesPerChunk"}, {"elementCounter", "chunksPerElement"}} {
		f := p.Field("common/amp", "elementEncoder", row.field)
		lim := p.Const("common/amp", row.limit)
		if f == nil || lim == nil {
			c.undecided(rule, "elementEncoder."+row.field, "-", "field or limit constant does not resolve")
			continue
		}
		isCounter := func(v ssa.Value) bool { return isFieldLoadOf(v, f) }
		isLimit := func(v ssa.Value) bool {
			k, ok := v.(*ssa.Const)
			return ok && k.Value != nil && k.Value.ExactString() == lim.Val().ExactString()
		}
		nAdv, nZero, bad := 0, 0, 0
		for _, st := range storesToField(scope, f) {
			fn := st.Parent()
			if k, ok := constInt(st.Val); ok && k == 0 {
				nZero++
				full := cmpEdges(fn, ">=", isCounter, isLimit)
				full = append(full, condEdges(fn, true, func(a Atom) bool { return a.Op == token.EQL && isCounter(a.X) && isLimit(a.Y) })...)
				if isFreshBase(fn, st.Addr, st) {
					continue // initialisation of a new encoder
				}
				path := reachableWithout(fn, st, full)
				if len(full) == 0 || path != nil {
					bad++
					c.viol(rule, p.FnName(fn)+" restarts "+row.field, p.instrPos(st), "the counter is reset although it has not reached "+row.limit+": the word or element being filled is forgotten", p.pathString(path)...)
				}
				continue
			}
			if bo, ok := st.Val.(*ssa.BinOp); ok && bo.Op == token.ADD && (isCounter(bo.X) || isCounter(bo.Y)) {
				nAdv++
				continue
			}
			bad++
			c.viol(rule, p.FnName(fn)+" assigns "+row.field, p.instrPos(st), "the counter receives a value that is neither its old value plus something nor zero: bytes already written into the open word are no longer counted, so the word never completes (no newline, no </pre>) or overflows")
		}
		if bad == 0 {
			if nAdv == 0 || nZero == 0 {
				c.undecided(rule, "elementEncoder."+row.field, p.Pos(f.Pos()), fmt.Sprintf("%d advancing and %d restarting store(s): the counting scheme must be re-identified", nAdv, nZero))
			} else {
				c.ok(rule, "elementEncoder."+row.field+" is only advanced or restarted at its limit", p.Pos(f.Pos()), fmt.Sprintf("%d advancing, %d restarting store(s)", nAdv, nZero))
			}
		}
	}
	// every payload write advances the chunk counter
	w := p.Fn("common/amp", "(*elementEncoder).Write")
	cf := p.Field("common/amp", "elementEncoder", "chunkCounter")
	if w == nil || cf == nil || len(w.Params) < 2 {
		c.undecided(rule, "elementEncoder.Write", "-", "anchor does not resolve")
		return
	}
	n := 0
	for _, ci := range callsIn(w) {
		cc, ok := ci.(*ssa.Call)
		if !ok || calleeName(ci) != "(io.Writer).Write" {
			continue
		}
		if !flows(cc.Call.Args[0], func(v ssa.Value) bool { return v == ssa.Value(w.Params[1]) }) {
			continue // markup
		}
		n++
		okE := errNilEdges(w, cc, 1)
		good := len(okE) > 0
		var wp []*ssa.BasicBlock
		for _, e := range okE {
			if pth := escapesOrLoopsBackWithout(e.To(), cc.Block(), func(in ssa.Instruction) bool {
				st, ok := in.(*ssa.Store)
				if !ok {
					return false
				}
				_, g, okf := fieldOfAddr(st.Addr)
				return okf && g == cf
			}); pth != nil {
				good, wp = false, pth
			}
		}
		c.check(good, rule, "elementEncoder.Write counts every payload write", p.instrPos(cc), "", "payload bytes can be written without the chunk counter being advanced", p.pathString(wp)...)
	}
	if n == 0 {
		c.undecided(rule, "elementEncoder.Write payload writes", p.Pos(w.Pos()), "no write of the parameter's bytes found")
	}
}

// escapesOrLoopsBackWithout: from block `from`, is there a path to a return, or back to
// block `again`, that executes no instruction satisfying pass?
func escapesOrLoopsBackWithout(from, again *ssa.BasicBlock, pass func(ssa.Instruction) bool) []*ssa.BasicBlock {
	blocked := func(b *ssa.BasicBlock) bool {
		for _, in := range b.Instrs {
			if pass(in) {
				return true
			}
		}
		return false
	}
	return psSearch(from, nil, blocked, func(b *ssa.BasicBlock) bool {
		if b == again {
			return true
		}
		if len(b.Instrs) == 0 {
			return false
		}
		_, isRet := b.Instrs[len(b.Instrs)-1].(*ssa.Return)
		return isRet
	})
}

// checkDecoderEnds: (a) decodeToWriter reports success only at the end of its
// input: every return with a nil error lies behind the test "the token is an
// ErrorToken" (an early success return on some tag skips the end-of-input check
// for an unterminated element); (b) the base64 decoder returned by
// NewArmorDecoder reads the pipe itself: a limiting or buffering reader in
// between truncates long messages silently (a clean EOF at a multiple of four).
func (c *Ctx) checkDecoderEnds() {
	p := c.P
	rule := "O-4 structural errors are errors"
	dec := p.Fn("common/amp", "decodeToWriter")
	if dec != nil {
		isTok := func(v ssa.Value) bool {
			cc, _, ok := callResult(v)
			return ok && strings.HasSuffix(calleeName(cc), "html.Tokenizer).Next")
		}
		atEnd := condEdges(dec, true, func(a Atom) bool {
			if a.Op != token.EQL {
				return false
			}
			k, ok := constInt(a.Y)
			return ok && k == 0 && isTok(a.X)
		})
		n := 0
		for _, r := range returnsOf(dec) {
			if len(r.Results) != 2 || !retMayBeNil(r, 1) {
				continue
			}
			n++
			path := successReachableWithout(dec, r, 1, atEnd)
			c.check(len(atEnd) > 0 && path == nil, rule, "decodeToWriter succeeds only at the end of the input", p.instrPos(r), "behind tt == html.ErrorToken", "decoding can end successfully before the input is exhausted (an early return on some tag): the end-of-input checks (an element still open) are skipped and a truncated document is accepted", p.pathString(path)...)
		}
		if n == 0 {
			c.undecided(rule, "decodeToWriter success return", p.Pos(dec.Pos()), "none found")
		}
	}
	if nd := p.Fn("common/amp", "NewArmorDecoder"); nd != nil {
		ruleB := "O-3 version, alphabet and single stream agree"
		n := 0
		for _, d := range deepCalls(nd, 2, "encoding/base64.NewDecoder") {
			ci, ok := d.In.(ssa.CallInstruction)
			if !ok {
				continue
			}
			n++
			src := ci.Common().Args[1]
			if mi, isMI := src.(*ssa.MakeInterface); isMI {
				src = mi.X
			}
			cc, idx, okc := callResult(src)
			c.check(okc && calleeName(cc) == "io.Pipe" && idx == 0, ruleB, "the base64 decoder reads the decoder pipe itself", p.instrPos(ci), "", "a reader is interposed between the pipe and the base64 decoder (a LimitReader, a buffer): text beyond it is dropped without an error and the decoder goroutine is left blocked")
		}
		if n == 0 {
			c.undecided(ruleB, "NewArmorDecoder builds a base64 decoder", p.Pos(nd.Pos()), "no base64.NewDecoder call found")
		}
	}
}

// ---------- the word scanner consumes exactly what it returns ----------

// linExpr is an integer expression as a constant plus integer multiples of opaque SSA values.
type linExpr struct {
	k     int64
	terms map[string]int64
}

func (a linExpr) add(b linExpr, sign int64) linExpr {
	out := linExpr{k: a.k + sign*b.k, terms: map[string]int64{}}
	for t, v := range a.terms {
		out.terms[t] += v
	}
	for t, v := range b.terms {
		out.terms[t] += sign * v
	}
	for t, v := range out.terms {
		if v == 0 {
			delete(out.terms, t)
		}
	}
	return out
}

func linOf(v ssa.Value, data ssa.Value, depth int) linExpr {
	v = strip(v)
	if k, ok := constInt(v); ok {
		return linExpr{k: k, terms: map[string]int64{}}
	}
	if depth < 8 {
		switch x := v.(type) {
		case *ssa.BinOp:
			switch x.Op {
			case token.ADD:
				return linOf(x.X, data, depth+1).add(linOf(x.Y, data, depth+1), 1)
			case token.SUB:
				return linOf(x.X, data, depth+1).add(linOf(x.Y, data, depth+1), -1)
			}
		case *ssa.Call:
			if calleeName(x) == "builtin.len" && len(x.Call.Args) == 1 {
				if strip(x.Call.Args[0]) == data {
					return linExpr{terms: map[string]int64{"len(data)": 1}}
				}
				// len of a slice of data: high - low
				if lo, hi, ok := sliceBounds(x.Call.Args[0], data, depth+1); ok {
					return hi.add(lo, -1)
				}
			}
		}
	}
	return linExpr{terms: map[string]int64{fmt.Sprintf("%s@%p", v.Name(), v): 1}}
}

// sliceBounds: v is data[lo:hi] (through nested slicing); the bounds in data's coordinates.
func sliceBounds(v ssa.Value, data ssa.Value, depth int) (lo, hi linExpr, ok bool) {
	v = strip(v)
	if v == data {
		return linExpr{terms: map[string]int64{}}, linExpr{terms: map[string]int64{"len(data)": 1}}, true
	}
	sl, isSl := v.(*ssa.Slice)
	if !isSl || depth > 8 {
		return lo, hi, false
	}
	l0, h0, ok0 := sliceBounds(sl.X, data, depth+1)
	if !ok0 {
		return lo, hi, false
	}
	lo = l0
	if sl.Low != nil {
		lo = l0.add(linOf(sl.Low, data, depth+1), 1)
	}
	hi = h0
	if sl.High != nil {
		hi = l0.add(linOf(sl.High, data, depth+1), 1)
	}
	return lo, hi, true
}

// checkSplitAdvance: every return of the bufio.SplitFunc that yields a token advances to the token's end in the
// input, or one byte (the delimiter) past it. An advance measured in other coordinates (relative to the start of
// the word rather than of the data) rescans or skips bytes as soon as the input has leading white space.
func (c *Ctx) checkSplitAdvance() {
	p := c.P
	rule := "O-7b the word scanner consumes exactly the word and one delimiter"
	sp := p.Fn("common/amp", "splitASCIIWhitespace")
	if sp == nil || len(sp.Params) < 1 {
		c.undecided(rule, "amp.splitASCIIWhitespace", "-", "anchor does not resolve")
		return
	}
	data := ssa.Value(sp.Params[0])
	n := 0
	for _, r := range returnsOf(sp) {
		if len(r.Results) != 3 || isNilConst(strip(retVal(r, 1))) {
			continue
		}
		n++
		_, hi, ok := sliceBounds(retVal(r, 1), data, 0)
		if !ok {
			c.undecided(rule, "splitASCIIWhitespace advance", p.instrPos(r), "the token is not a slice of the data parameter")
			continue
		}
		d := linOf(retVal(r, 0), data, 0).add(hi, -1)
		good := len(d.terms) == 0 && (d.k == 0 || d.k == 1)
		c.check(good, rule, "splitASCIIWhitespace advances to the end of the token it returns", p.instrPos(r), fmt.Sprintf("advance - end of token = %d", d.k), "the advance is not the token's end position in data (or one past it): with leading white space in the input - text re-indented or re-wrapped by a cache - bytes of the word are scanned twice or skipped, and the decoded payload differs")
	}
	if n == 0 {
		c.undecided(rule, "splitASCIIWhitespace advance", p.Pos(sp.Pos()), "no token return found")
	}
}
