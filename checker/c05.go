package main

import (
	"fmt"
	"go/token"
	"go/types"
	"strings"

	"golang.org/x/tools/go/ssa"
)

func init() {
	register("C05", propMeta{
		Explanation: "E-PROV + E-GUARD + E-OWN on the server's carrier path. O-1 one identity per carrier: in turbotunnelMode the address given to QueueIncoming, the argument of OutgoingQueue and the key of clientIDAddrMap.Set all load from one local ClientID whose only writer is io.ReadFull(conn, clientID[:]), and all are reachable only through that read's err == nil edge; the packets queued are the results of encapsulation.ReadData on this carrier and the packets written to it are the values received from that OutgoingQueue, through a writer created by this invocation around this carrier (no state shared between carriers). O-2 token gate: turbotunnelMode is reachable only through the true edge of bytes.Equal(token, turbotunnel.Token) with token filled by a successful io.ReadFull; QueueIncoming/OutgoingQueue/Set are called from turbotunnelMode only; the carrier is closed on every path (deferred Close). O-3 address-tag integrity in the queue connection: QueueIncoming enqueues its addr parameter with its packet, ReadFrom returns P and Addr of one received element, WriteTo and OutgoingQueue use SendQueue(addr) of their parameter, and enqueued packets are private copies (shared with C17 O-4). O-4 map/heap index consistency of the client map (Swap/Push/Pop/SendQueue keep byAddr[record.Addr] = position). O-5 typed addresses: every QueueIncoming/OutgoingQueue call passes a turbotunnel.ClientID and ClientID.String() encodes the whole identifier (KCP keys sessions by the address string). O-6 one accepted connection per stream: queueConn is called once per successful AcceptStream, from acceptStreams only, and is the only sender on the accept queue. Added after the second seeding round: O-6/C01 the protocol-constant obligations of C01 including the smux keep-alive timeout against the client-map retention; a ClientID cell that is not filled by io.ReadFull is a violation; helpers of turbotunnelMode with one call site count as part of it. Added after the third seeding round: the per-session goroutine of the accept loop captures per-iteration variables only; every carrier records its address (empty included) before it is served, so a later carrier's absence of an address cannot leave an earlier one in place. Added after the fourth seeding round: O-4 no byAge[i] is read after heap.Fix/Push/Pop moved the records, and Swap re-indexes the record that ends up in each slot; O-9/C17 the queue connection reports an error only after close (a full queue reported as an error makes KCP end the session at the first gap between carriers). Added after the fifth seeding round: O-1b the QueuePacketConn a listener's KCP engine reads from is created by that call of Listen; O-9/C17 the heap.Interface methods of the client map are called by container/heap only; turbotunnelMode is found by its simple name if it became a method, its parameters by type. Added after the sixth seeding round and the mutation audit: O-0b NewClientID returns only behind the err == nil edge of crypto/rand.Read; O-11/C20 the guarded-by rows of ClientMap/clientMapInner; O-12/C17 the never-block rule for sends under the map's mutex. Swap exchanges the two records (slot i receives what slot j held and the reverse).",
		NotDecided:  "continuity of the byte stream across carriers (KCP), the retention arithmetic (C17 O-7), packet interleaving of overlapping carriers, kcp-go's own session table.",
		Assumptions: []string{"kcp-go keys its sessions by RemoteAddr().String()", "encapsulation.ReadData returns a fresh slice per packet"},
	}, runC05)
}

func runC05(c *Ctx) {
	p := c.P
	srv := p.FnsIn("server/lib")
	for _, fn := range srv {
		c.analysedFn(p.FnName(fn))
	}
	// the ClientID-to-queue index is one structure for all carriers: it is read and rewritten (LastSeen, heap.Fix)
	// under the one mutex (C20's rows), and nothing waits while holding that mutex (C17's rule)
	{
		var rows []guardRow
		for _, r := range guardTable {
			if r.Type == "ClientMap" || r.Type == "clientMapInner" {
				rows = append(rows, r)
			}
		}
		c.prefix = "O-11/C20:"
		c.checkGuardRows("O-1 guarded-by table", rows, p.FnsIn("common/turbotunnel"))
		c.prefix = "O-12/C17:"
		c.checkCopyOnEnqueue(p.FnsIn("common/turbotunnel"))
		c.prefix = ""
	}
	// ClientIDs are what keeps sessions apart: one is handed out only when the random source delivered it
	if nid := p.Fn("common/turbotunnel", "NewClientID"); nid != nil {
		ruleID := "O-0b ClientIDs are random"
		var rd *ssa.Call
		for _, ci := range callsIn(nid) {
			switch calleeName(ci) {
			case "crypto/rand.Read", "io.ReadFull":
				rd, _ = ci.(*ssa.Call)
			}
		}
		if rd == nil {
			c.undecided(ruleID, "NewClientID reads the system's random source", p.Pos(nid.Pos()), "no crypto/rand.Read call found")
		} else {
			okE := errNilEdges(nid, rd, 1)
			good := len(okE) > 0
			var path []*ssa.BasicBlock
			for _, r := range returnsOf(nid) {
				if pth := reachableWithout(nid, r, okE); pth != nil {
					good, path = false, pth
				}
			}
			c.check(good, ruleID, "NewClientID returns only after a successful read of the random source", p.instrPos(rd), "every return behind err == nil", "an identifier is returned although crypto/rand failed: while that lasts every new session gets the same (all-zero) ClientID and the server treats different clients' carriers as one session", p.pathString(path)...)
		}
	}
	tm := p.FnLoose("server/lib", "turbotunnelMode")
	sh := p.Fn("server/lib", "(*httpHandler).ServeHTTP")
	if tm == nil || sh == nil {
		c.undecided("O-0 anchors", "turbotunnelMode/ServeHTTP", "-", "anchor does not resolve")
		return
	}
	// a session's accept goroutine works on its own session (no variable shared with the accept loop),
	// and every carrier leaves an address entry (a session without one is accepted with a nil address)
	c.prefix = "O-7/C01:"
	c.checkLoopCapture("O-9 per-connection goroutines own their variables", "server", "server/lib", "common/turbotunnel", "common/websocketconn")
	c.prefix = "O-7/C18:"
	c.checkSetOnEveryCarrier("O-2 address flow")
	c.prefix = ""
	// the session must outlive its carriers on both ends (C01's protocol-constant obligations: KCP/smux parameters and the keep-alive timeout against the client-map retention)
	if ns := p.Fn("client/lib", "newSession"); ns != nil {
		c.prefix = "O-6/C01:"
		c.checkTunnelConstants(ns)
		c.prefix = ""
	}
	rule1 := "O-1 one identity per carrier"
	// the ClientID cell: the Alloc whose slice is read by io.ReadFull
	var idCell *ssa.Alloc
	var readID *ssa.Call
	for _, ci := range callsTo(tm, "io.ReadFull") {
		if sl, ok := ci.Common().Args[1].(*ssa.Slice); ok {
			if al, ok := sl.X.(*ssa.Alloc); ok && strings.HasSuffix(typeString(al.Type().(*types.Pointer).Elem()), "turbotunnel.ClientID") {
				idCell = al
				readID, _ = ci.(*ssa.Call)
			}
		}
	}
	if idCell == nil {
		// is there a local ClientID at all? Then it is filled by something other than io.ReadFull
		hasCell := false
		allInstrs(tm, func(in ssa.Instruction) {
			if al, ok := in.(*ssa.Alloc); ok && strings.HasSuffix(typeString(al.Type().(*types.Pointer).Elem()), "turbotunnel.ClientID") {
				hasCell = true
			}
		})
		if hasCell {
			c.viol(rule1, "turbotunnelMode reads the ClientID with io.ReadFull", p.Pos(tm.Pos()), "the carrier's ClientID is not filled by io.ReadFull: a prefix that arrives in more than one read binds the carrier to a partial, zero-padded identifier shared with other clients")
		} else {
			c.undecided(rule1, "turbotunnelMode reads the ClientID with io.ReadFull", p.Pos(tm.Pos()), "no local turbotunnel.ClientID")
		}
		return
	}
	// only writer
	wr := 0
	for _, r := range *idCell.Referrers() {
		switch x := r.(type) {
		case *ssa.Store:
			if x.Addr == ssa.Value(idCell) {
				if _, isZero := x.Val.(*ssa.Const); !isZero {
					wr++
				}
			}
		case *ssa.IndexAddr:
			wr++
		}
	}
	c.check(wr == 0, rule1, "the ClientID cell is written only by io.ReadFull", p.instrPos(idCell), "", "the carrier's ClientID is modified after being read from the stream")
	var fromCellRec func(v ssa.Value) bool
	fromCell := func(v ssa.Value) bool {
		for i := 0; i < 12; i++ {
			switch x := v.(type) {
			case *ssa.MakeInterface:
				v = x.X
				continue
			case *ssa.ChangeType:
				v = x.X
				continue
			case *ssa.Parameter:
				// a helper with one call site: the argument passed there
				if a := paramSource(x); a != nil {
					v = a
					continue
				}
				return false
			case *ssa.UnOp:
				if copyOrigin(x.X) == ssa.Value(idCell) {
					return true
				}
				if fv, ok := x.X.(*ssa.FreeVar); ok {
					return copyOrigin(freeVarBinding(fv)) == ssa.Value(idCell)
				}
				if al, ok := x.X.(*ssa.Alloc); ok {
					if par := paramSpill(al); par != nil {
						v = par
						continue
					}
					// a copy of the identifier (returned by value from a helper, merged over its paths)
					if sv := singleStoreAny(al); sv != nil {
						v = sv
						continue
					}
				}
			case *ssa.Phi:
				all := len(x.Edges) > 0
				for _, e := range x.Edges {
					if !fromCellRec(e) {
						all = false
					}
				}
				return all
			}
			return false
		}
		return false
	}
	fromCellRec = fromCell
	okE := errNilEdges(tm, readID, 1)
	all := helperFns(tm, 2)
	nUse := 0
	for _, fn := range all {
		for _, ci := range callsIn(fn) {
			var arg ssa.Value
			what := ""
			switch calleeName(ci) {
			case "(*common/turbotunnel.QueuePacketConn).QueueIncoming":
				arg, what = ci.Common().Args[2], "QueueIncoming address"
			case "(*common/turbotunnel.QueuePacketConn).OutgoingQueue":
				arg, what = ci.Common().Args[1], "OutgoingQueue address"
			case "(*server/lib.clientIDMap).Set":
				arg, what = ci.Common().Args[1], "clientIDAddrMap.Set key"
			default:
				continue
			}
			nUse++
			c.check(fromCell(arg), rule1, "turbotunnelMode: "+what+" is the carrier's ClientID", p.instrPos(ci), "", what+" is not the ClientID read from this carrier: packets are attributed to, or taken from, another session")
			// reachable only after a successful read: for closures, the go statement
			site := topSiteIn(tm, ci)
			var path []*ssa.BasicBlock
			if site != nil {
				path = reachableWithout(tm, site, okE)
			}
			c.check(len(okE) > 0 && site != nil && path == nil, rule1, "turbotunnelMode: "+what+" used only after the ClientID was read successfully", p.instrPos(ci), "", "the ClientID is used although reading it failed", p.pathString(path)...)
		}
	}
	if nUse < 3 {
		c.undecided(rule1, "uses of the ClientID", p.Pos(tm.Pos()), fmt.Sprintf("%d found, expected QueueIncoming, OutgoingQueue and Set", nUse))
	}
	// packets queued come from ReadData(conn); packets written come from the OutgoingQueue receive
	connPar := paramOfType(tm, "net.Conn")
	isConn := func(v ssa.Value) bool {
		return connPar != nil && sameValue(v, func(w ssa.Value) bool { return w == ssa.Value(connPar) })
	}
	for _, fn := range all {
		for _, ci := range callsIn(fn) {
			switch calleeName(ci) {
			case "(*common/turbotunnel.QueuePacketConn).QueueIncoming":
				pk := ci.Common().Args[1]
				cc, idx, ok := callResult(pk)
				good := ok && idx == 0 && calleeName(cc) == "common/encapsulation.ReadData" && isConn(cc.Call.Args[0])
				c.check(good, rule1, "packets queued are those decapsulated from this carrier", p.instrPos(ci), "", "QueueIncoming is fed something other than encapsulation.ReadData(conn) of this carrier")
			case "common/encapsulation.WriteData":
				// data: received from OutgoingQueue(clientID)
				data := ci.Common().Args[1]
				okData := flows(data, func(w ssa.Value) bool {
					e, ok := w.(*ssa.Extract)
					if !ok {
						return false
					}
					sel, ok := e.Tuple.(*ssa.Select)
					if !ok {
						return false
					}
					for _, st := range sel.States {
						if cc, _, ok := callResult(st.Chan); ok && calleeName(cc) == "(*common/turbotunnel.QueuePacketConn).OutgoingQueue" {
							return true
						}
					}
					return false
				})
				c.check(okData, rule1, "packets written downstream are those received from this ClientID's outgoing queue", p.instrPos(ci), "", "the data written to the carrier does not come from OutgoingQueue(clientID)")
				// writer: created here around this conn, or conn itself
				w := ci.Common().Args[0]
				okW := isConn(w) || flows(w, func(x ssa.Value) bool {
					cc, _, ok := callResult(x)
					if !ok || !belongsTo(cc.Parent(), tm) {
						return false
					}
					n := calleeName(cc)
					if n != "bufio.NewWriter" && n != "bufio.NewWriterSize" {
						return false
					}
					return isConn(cc.Call.Args[0])
				})
				// and nothing else: the writer must not come from a pool / global
				if okW {
					if flowsLocal(w, func(x ssa.Value) bool {
						if _, ok := x.(*ssa.Global); ok {
							return true
						}
						if cc, _, ok := callResult(x); ok && strings.HasPrefix(calleeName(cc), "(*sync.Pool)") {
							return true
						}
						return false
					}) {
						okW = false
					}
				}
				c.check(okW, rule1, "downstream writer is private to this carrier", p.instrPos(ci), "bufio.NewWriter(conn) made by this invocation", "the writer used for the downstream is not created by this invocation around this carrier (shared or pooled buffer): bytes of one session can be written to another session's carrier")
			}
		}
	}

	// ---------- O-2 token gate ----------
	rule2 := "O-2 token gate"
	{
		var eq *ssa.Call
		for _, ci := range callsTo(sh, "bytes.Equal") {
			eq, _ = ci.(*ssa.Call)
		}
		var tmCall ssa.CallInstruction
		for _, ci := range callsIn(sh) {
			if staticCallee(ci) == tm {
				tmCall = ci
			}
		}
		if eq == nil || tmCall == nil {
			c.undecided(rule2, "ServeHTTP compares the token and calls turbotunnelMode", p.Pos(sh.Pos()), "bytes.Equal or the call not found")
		} else {
			tokG := p.Global("common/turbotunnel", "Token")
			isTok := func(v ssa.Value) bool {
				sl, ok := v.(*ssa.Slice)
				return ok && sl.X == ssa.Value(tokG) && sl.Low == nil && sl.High == nil
			}
			var cell *ssa.Alloc
			for _, a := range eq.Call.Args {
				if sl, ok := a.(*ssa.Slice); ok && sl.Low == nil && sl.High == nil {
					if al, ok := sl.X.(*ssa.Alloc); ok {
						cell = al
					}
				}
			}
			c.check(tokG != nil && (isTok(eq.Call.Args[0]) || isTok(eq.Call.Args[1])) && cell != nil, rule2, "ServeHTTP compares the received bytes with turbotunnel.Token", p.instrPos(eq), "", "the comparison is not against turbotunnel.Token")
			eqTrue := boolEdges(sh, true, func(v ssa.Value) bool { return v == ssa.Value(eq) })
			path := reachableWithout(sh, tmCall, eqTrue)
			c.check(len(eqTrue) > 0 && path == nil, rule2, "turbotunnelMode reachable only when the token matched", p.instrPos(tmCall), "", "a carrier without the turbotunnel token can enter turbotunnel mode", p.pathString(path)...)
			// token filled by successful ReadFull
			var rd *ssa.Call
			for _, ci := range callsTo(sh, "io.ReadFull") {
				if sl, ok := ci.Common().Args[1].(*ssa.Slice); ok && cell != nil && copyOrigin(sl.X) == copyOrigin(cell) {
					rd, _ = ci.(*ssa.Call)
				}
			}
			if rd == nil {
				c.viol(rule2, "token is read with io.ReadFull", p.Pos(sh.Pos()), "the compared bytes are not filled by io.ReadFull")
			} else {
				path := reachableWithout(sh, eq, errNilEdges(sh, rd, 1))
				c.check(path == nil, rule2, "token compared only after a successful full read", p.instrPos(rd), "", "the token is compared although it was not read completely", p.pathString(path)...)
				// token length = len(Token)
				at, _ := cell.Type().(*types.Pointer).Elem().Underlying().(*types.Array)
				c.check(at != nil && at.Len() == 8, rule2, "token buffer has the length of turbotunnel.Token", p.instrPos(cell), "", "token buffer length differs from the token")
			}
			// conn closed on all paths: deferred Close at entry region
			okDefer := false
			for _, ci := range callsIn(sh) {
				if d, ok := ci.(*ssa.Defer); ok && strings.HasSuffix(calleeName(d), "websocketconn.Conn).Close") {
					okDefer = precedes(d, tmCall) && precedes(d, eq)
				}
			}
			c.check(okDefer, rule2, "ServeHTTP defers conn.Close() before reading the token", p.Pos(sh.Pos()), "", "a rejected carrier is not closed on every path")
		}
		// who-may-call
		for _, want := range []string{"(*common/turbotunnel.QueuePacketConn).QueueIncoming", "(*common/turbotunnel.QueuePacketConn).OutgoingQueue", "(*server/lib.clientIDMap).Set"} {
			bad := 0
			for _, fn := range p.FnsIn() {
				for _, ci := range callsIn(fn) {
					if calleeName(ci) != want {
						continue
					}
					if !belongsTo(fn, tm) {
						bad++
						c.viol(rule2, p.FnName(fn)+" calls "+want, p.instrPos(ci), "the carrier interface of the queue connection is used outside turbotunnelMode, bypassing the token gate")
					}
				}
			}
			if bad == 0 {
				c.ok(rule2, want+" called only from turbotunnelMode", "-", "")
			}
		}
	}

	// ---------- O-3 address-tag integrity ----------
	c.checkQueueTags()

	// one packet engine, one queue: the QueuePacketConn a listener's KCP engine reads from is created by that call of
	// Listen (two engines reading one queue split every session's packets between them)
	if ln := p.Fn("server/lib", "(*Transport).Listen"); ln != nil {
		ruleL := "O-1b one queue connection per KCP engine"
		n := 0
		for _, ci := range callsTo(ln, "github.com/xtaci/kcp-go/v5.ServeConn") {
			n++
			args := ci.Common().Args
			pc := args[len(args)-1]
			fresh := flows(pc, func(v ssa.Value) bool {
				cc, _, ok := callResult1(strip(v))
				return ok && calleeName(cc) == "common/turbotunnel.NewQueuePacketConn" && belongsTo(cc.Parent(), ln) && cc.Parent() == ln
			})
			shared := flows(pc, func(v ssa.Value) bool {
				if _, f, ok := fieldLoad(v); ok && f.Pkg() != nil && strings.HasPrefix(f.Pkg().Path(), modPath) && f.Name() != "pconn" {
					return true
				}
				if base, f, ok := fieldLoad(v); ok && f.Name() == "pconn" {
					// a field of the handler built in this call is fine; a field of the Transport (receiver) is shared
					if _, isPar := strip(base).(*ssa.Parameter); isPar {
						return true
					}
				}
				_, isG := v.(*ssa.Global)
				return isG
			})
			c.check(fresh && !shared, ruleL, "Listen serves KCP on a QueuePacketConn it created itself", p.instrPos(ci), "", "the packet connection handed to kcp.ServeConn is not created by this call of Listen (a field of the Transport, a package-level value): listeners share one queue and each engine sees only part of a session's packets")
		}
		if n == 0 {
			c.undecided(ruleL, "Listen starts a KCP engine", p.Pos(ln.Pos()), "no kcp.ServeConn call found")
		}
	}
	// ---------- O-4 client map index consistency ----------
	c.checkClientMapIndex()
	// a session outlives a gap between carriers only if the queue connection never reports a full queue (or any
	// other transient condition) as an error: KCP closes the session on the first WriteTo error (C17's obligation)
	c.prefix = "O-9/C17:"
	c.checkErrorsOnlyAfterClose("QueuePacketConn")
	// records leave the map oldest first, through container/heap only (a direct Pop removes the newest client)
	c.checkHeapMethodsPrivate("O-7 expiry shape", "common/turbotunnel", "clientMapInner")
	c.prefix = ""

	// ---------- O-5 typed addresses / identity string ----------
	rule5 := "O-5 typed addresses"
	for _, fn := range p.FnsIn() {
		for _, ci := range callsIn(fn) {
			var arg ssa.Value
			switch calleeName(ci) {
			case "(*common/turbotunnel.QueuePacketConn).QueueIncoming":
				arg = ci.Common().Args[2]
			case "(*common/turbotunnel.QueuePacketConn).OutgoingQueue":
				arg = ci.Common().Args[1]
			default:
				continue
			}
			bt := boxedType(arg)
			c.check(bt != nil && strings.HasSuffix(typeString(bt), "turbotunnel.ClientID"), rule5, p.FnName(fn)+" addresses the queue connection by ClientID", p.instrPos(ci), "", "an address that is not a turbotunnel.ClientID reaches KCP: the single-value assertion in acceptStreams panics or sessions are keyed by something else")
		}
	}
	c.checkClientIDString(rule5)
	// the assertion in acceptStreams
	if as := p.Fn("server/lib", "(*SnowflakeListener).acceptStreams"); as != nil {
		n := 0
		allInstrs(as, func(in ssa.Instruction) {
			if ta, ok := in.(*ssa.TypeAssert); ok && !ta.CommaOk && strings.HasSuffix(typeString(ta.AssertedType), "turbotunnel.ClientID") {
				n++
				cc, _, okc := callResult(ta.X)
				c.check(okc && strings.HasSuffix(calleeName(cc), "UDPSession).RemoteAddr"), rule5, "acceptStreams takes the session's ClientID from its RemoteAddr", p.instrPos(in), "discharged by the typed-address rows above", "the ClientID is not taken from the KCP session's remote address")
			}
		})
		if n == 0 {
			c.undecided(rule5, "acceptStreams: RemoteAddr().(ClientID)", p.Pos(as.Pos()), "assertion not found")
		}
	}

	// ---------- O-6 one accepted connection per stream ----------
	rule6 := "O-6 one accepted connection per stream"
	qc := p.Fn("server/lib", "(*SnowflakeListener).queueConn")
	as := p.Fn("server/lib", "(*SnowflakeListener).acceptStreams")
	if as == nil {
		c.undecided(rule6, "acceptStreams", "-", "anchor does not resolve")
		return
	}
	if qc == nil {
		// queueConn was inlined into its caller: the same obligations on the send itself
		var acc *ssa.Call
		for _, ci := range callsIn(as) {
			if strings.HasSuffix(calleeName(ci), "smux.Session).AcceptStream") {
				acc, _ = ci.(*ssa.Call)
			}
		}
		nSend := 0
		for _, fn := range srv {
			for _, op := range chanOpsIn(p, fn) {
				if op.Dir != chSend || op.Class != "SnowflakeListener.queue" {
					continue
				}
				nSend++
				c.check(fn == as, rule6, p.FnName(fn)+" sends on the accept queue", p.instrPos(op.Instr), "", "the accept queue has a sender other than acceptStreams")
				if fn == as && acc != nil {
					path := reachableWithout(as, op.Instr, errNilEdges(as, acc, 1))
					c.check(path == nil, rule6, "a connection is queued only for a successfully accepted stream", p.instrPos(op.Instr), "", "the send on the accept queue is reachable without AcceptStream having succeeded", p.pathString(path)...)
					okWrap := op.Val != nil && flows(op.Val, func(v ssa.Value) bool { return isResultOfCall(v, acc, 0) })
					c.check(okWrap, rule6, "the queued connection wraps the accepted stream", p.instrPos(op.Instr), "", "the connection handed to Accept is not built from the stream just accepted")
				}
			}
		}
		if nSend != 1 {
			c.undecided(rule6, "senders on SnowflakeListener.queue", "-", fmt.Sprintf("%d found, expected one", nSend))
		}
		return
	}
	callers := p.realCallers(qc)
	c.check(len(callers) == 1 && callers[0].Parent() == as, rule6, "queueConn called once, from acceptStreams", p.Pos(qc.Pos()), "", fmt.Sprintf("%d call sites", len(callers)))
	if len(callers) == 1 {
		var acc *ssa.Call
		for _, ci := range callsIn(as) {
			if strings.HasSuffix(calleeName(ci), "smux.Session).AcceptStream") {
				acc, _ = ci.(*ssa.Call)
			}
		}
		if acc != nil {
			path := reachableWithout(as, callers[0], errNilEdges(as, acc, 1))
			c.check(path == nil, rule6, "a connection is queued only for a successfully accepted stream", p.instrPos(callers[0]), "", "queueConn reachable without AcceptStream having succeeded", p.pathString(path)...)
			// the queued conn wraps that stream
			okWrap := flows(callers[0].Common().Args[1], func(v ssa.Value) bool { return isResultOfCall(v, acc, 0) })
			c.check(okWrap, rule6, "the queued connection wraps the accepted stream", p.instrPos(callers[0]), "", "the connection handed to Accept is not built from the stream just accepted")
		}
	}
	nSend := 0
	for _, fn := range srv {
		for _, op := range chanOpsIn(p, fn) {
			if op.Dir == chSend && op.Class == "SnowflakeListener.queue" {
				nSend++
				c.check(fn == qc, rule6, p.FnName(fn)+" sends on the accept queue", p.instrPos(op.Instr), "", "the accept queue has a sender other than queueConn")
			}
		}
	}
	if nSend == 0 {
		c.undecided(rule6, "senders on SnowflakeListener.queue", "-", "none found")
	}
}

func (c *Ctx) checkQueueTags() {
	p := c.P
	rule := "O-3 address-tag integrity in the queue connection"
	qi := p.Fn("common/turbotunnel", "(*QueuePacketConn).QueueIncoming")
	rf := p.Fn("common/turbotunnel", "(*QueuePacketConn).ReadFrom")
	wt := p.Fn("common/turbotunnel", "(*QueuePacketConn).WriteTo")
	oq := p.Fn("common/turbotunnel", "(*QueuePacketConn).OutgoingQueue")
	if qi == nil || rf == nil || wt == nil || oq == nil {
		c.undecided(rule, "QueuePacketConn methods", "-", "anchor does not resolve")
		return
	}
	for _, fn := range []*ssa.Function{qi, rf, wt, oq} {
		c.analysedFn(p.FnName(fn))
	}
	// QueueIncoming: taggedPacket{buf, addr} with the addr parameter
	okQI := false
	for _, op := range chanOpsIn(p, qi) {
		if op.Dir == chSend && op.Class == "QueuePacketConn.recvQueue" {
			var al ssa.Value = strip(op.Val)
			if u, ok := op.Val.(*ssa.UnOp); ok {
				al = u.X
			}
			if a := structLitField(al, "Addr"); a != nil && a == ssa.Value(qi.Params[2]) {
				okQI = true
			}
		}
	}
	c.check(okQI, rule, "QueueIncoming tags the packet with its addr parameter", p.Pos(qi.Pos()), "", "the enqueued packet does not carry the caller's address")
	// ReadFrom: P and Addr of the same received element
	okRF := false
	for _, op := range chanOpsIn(p, rf) {
		if op.Dir == chRecv && op.Class == "QueuePacketConn.recvQueue" && op.Val != nil {
			for _, r := range returnsOf(rf) {
				if isNilConst(r.Results[1]) {
					continue
				}
				fromElem := func(v ssa.Value, field string) bool {
					return flows(v, func(w ssa.Value) bool {
						if f, ok := w.(*ssa.Field); ok && f.X == op.Val {
							st := f.X.Type().Underlying().(*types.Struct)
							return st.Field(f.Field).Name() == field
						}
						if _, fl, ok := fieldLoad(w); ok && fl.Name() == field {
							return flows(w, func(z ssa.Value) bool { return z == op.Val })
						}
						return false
					})
				}
				if fromElem(r.Results[0], "P") && fromElem(r.Results[1], "Addr") {
					okRF = true
				}
			}
		}
	}
	c.check(okRF, rule, "ReadFrom returns P and Addr of the same received element", p.Pos(rf.Pos()), "", "payload and source address returned by ReadFrom do not come from one queue element")
	// WriteTo / OutgoingQueue use SendQueue(addr parameter)
	for _, w := range []struct {
		fn  *ssa.Function
		par int
	}{{wt, 2}, {oq, 1}} {
		ok := false
		// the queue is looked up with this function's addr parameter, here or in a helper that is handed it
		for _, d := range deepCalls(w.fn, 2, "(*common/turbotunnel.ClientMap).SendQueue", "(*common/turbotunnel.clientMapInner).SendQueue") {
			ci, okc := d.In.(ssa.CallInstruction)
			if !okc {
				continue
			}
			if sameValue(ci.Common().Args[1], func(v ssa.Value) bool { return v == ssa.Value(w.fn.Params[w.par]) }) ||
				xforms(ci.Common().Args[1], func(v ssa.Value) bool { return v == ssa.Value(w.fn.Params[w.par]) }) {
				ok = true
			}
		}
		c.check(ok, rule, p.FnName(w.fn)+" uses the send queue of its addr parameter", p.Pos(w.fn.Pos()), "", "the outgoing queue is selected by something other than the given address")
	}
	if len(returnsOf(oq)) == 1 {
		cc, _, ok := callResult(returnsOf(oq)[0].Results[0])
		c.check(ok && calleeName(cc) == "(*common/turbotunnel.ClientMap).SendQueue", rule, "OutgoingQueue returns that send queue", p.Pos(oq.Pos()), "", "OutgoingQueue does not return clients.SendQueue(addr)")
	}
	c.checkCopyOnEnqueueFor("O-3b enqueued packets are private copies", []*ssa.Function{qi, wt})
}

// checkCopyOnEnqueueFor re-uses the C17 O-4 payload rule for selected functions.
func (c *Ctx) checkCopyOnEnqueueFor(rule string, fns0 []*ssa.Function) {
	p := c.P
	// the send may live in an unexported helper with one call site (ClientMap.trySend for WriteTo)
	var fns []*ssa.Function
	seenFn := map[*ssa.Function]bool{}
	for _, f0 := range fns0 {
		for _, f := range helperFns(f0, 1) {
			if !seenFn[f] {
				seenFn[f] = true
				fns = append(fns, f)
			}
		}
	}
	for _, fn := range fns {
		for _, op := range chanOpsIn(p, fn) {
			if op.Dir != chSend {
				continue
			}
			payload := op.Val
			if u, ok := op.Val.(*ssa.UnOp); ok {
				if al, ok := u.X.(*ssa.Alloc); ok {
					if v := structLitField(al, "P"); v != nil {
						payload = v
					}
				}
			}
			ms, _ := strip(payload).(*ssa.MakeSlice)
			owner := fn
			if ms == nil {
				if par, isPar := strip(payload).(*ssa.Parameter); isPar {
					if site := uniqueSite(fn); site != nil {
						for i, fp := range fn.Params {
							if fp == par && i < len(site.Common().Args) {
								ms, _ = strip(site.Common().Args[i]).(*ssa.MakeSlice)
								owner = site.Parent()
							}
						}
					}
				}
			}
			copied := false
			if ms != nil && ms.Referrers() != nil {
				for _, r := range *ms.Referrers() {
					if ci, ok := r.(ssa.CallInstruction); ok && calleeName(ci) == "builtin.copy" && ci.Common().Args[0] == ssa.Value(ms) {
						copied = true
					}
				}
			}
			c.check(ms != nil && ms.Parent() == owner && copied, rule, p.FnName(fn)+" enqueues a private copy", p.instrPos(op.Instr), "", "the enqueued packet aliases the caller's buffer (kcp-go recycles its transmit buffers): packets waiting in one client's queue are overwritten with another client's traffic")
		}
	}
}

func (c *Ctx) checkClientMapIndex() {
	p := c.P
	rule := "O-4 client map index consistency"
	swap := p.Fn("common/turbotunnel", "(*clientMapInner).Swap")
	push := p.Fn("common/turbotunnel", "(*clientMapInner).Push")
	pop := p.Fn("common/turbotunnel", "(*clientMapInner).Pop")
	sq := p.Fn("common/turbotunnel", "(*clientMapInner).SendQueue")
	if swap == nil || push == nil || pop == nil || sq == nil {
		c.undecided(rule, "clientMapInner methods", "-", "anchor does not resolve")
		return
	}
	byAddrUpdates := func(fn *ssa.Function) []*ssa.MapUpdate {
		var out []*ssa.MapUpdate
		allInstrs(fn, func(in ssa.Instruction) {
			if mu, ok := in.(*ssa.MapUpdate); ok {
				if _, f, ok := fieldLoad(mu.Map); ok && f.Name() == "byAddr" {
					out = append(out, mu)
				}
			}
		})
		return out
	}
	// Swap: byAddr[byAge[k].Addr] = k for both parameters, after the exchange
	{
		seen := map[ssa.Value]bool{}
		ok := true
		var lastExchange ssa.Instruction
		allInstrs(swap, func(in ssa.Instruction) {
			if st, isSt := in.(*ssa.Store); isSt {
				if _, isIA := st.Addr.(*ssa.IndexAddr); isIA {
					lastExchange = in
				}
			}
		})
		// the exchange: stores into the slots byAge[k]
		type slotStore struct {
			st  *ssa.Store
			idx ssa.Value
		}
		var slots []slotStore
		allInstrs(swap, func(in ssa.Instruction) {
			if st, isSt := in.(*ssa.Store); isSt {
				if ia, isIA := st.Addr.(*ssa.IndexAddr); isIA {
					slots = append(slots, slotStore{st, ia.Index})
				}
			}
		})
		for _, mu := range byAddrUpdates(swap) {
			// key = R.Addr where R is the record that sits in slot mu.Value after the exchange: read back from
			// that slot after the exchange, or the very value the exchange stored there
			keyOK := false
			if base, f, okf := fieldLoad(mu.Key); okf && f.Name() == "Addr" {
				rec := strip(base)
				if ld, isLd := rec.(*ssa.UnOp); isLd {
					if ia, okia := ld.X.(*ssa.IndexAddr); okia && ia.Index == mu.Value {
						keyOK = true
						for _, sl := range slots {
							if !precedes(sl.st, ld) {
								keyOK = false
							}
						}
					}
				}
				if !keyOK {
					for _, sl := range slots {
						if strip(sl.st.Val) == rec && sl.idx == mu.Value {
							keyOK = true
						}
					}
				}
			}
			if !keyOK || (lastExchange != nil && !precedes(lastExchange, mu)) {
				ok = false
			}
			seen[mu.Value] = true
		}
		c.check(ok && seen[swap.Params[1]] && seen[swap.Params[2]], rule, "Swap re-indexes both exchanged records after the exchange", p.Pos(swap.Pos()), "byAddr[byAge[i].Addr] = i; byAddr[byAge[j].Addr] = j", "after a swap byAddr no longer gives the position of a record: a later lookup returns another client's queue")
		// and there is an exchange: slot i receives what slot j held and the other way round (without it
		// container/heap never reorders anything: heap.Pop then removes the newest record instead of the oldest)
		{
			crossed := 0
			for _, sl := range slots {
				// the stored value is a load of the other slot
				if u, isU := strip(sl.st.Val).(*ssa.UnOp); isU {
					if ia, isIA := u.X.(*ssa.IndexAddr); isIA {
						if (sl.idx == ssa.Value(swap.Params[1]) && ia.Index == ssa.Value(swap.Params[2])) || (sl.idx == ssa.Value(swap.Params[2]) && ia.Index == ssa.Value(swap.Params[1])) {
							crossed++
						}
					}
				}
			}
			c.check(crossed == 2, rule, "Swap exchanges the two records", p.Pos(swap.Pos()), "byAge[i] <- old byAge[j], byAge[j] <- old byAge[i]", fmt.Sprintf("%d of the 2 crossing stores found: the heap order is never established, so expiry removes other records than the oldest", crossed))
		}
	}
	// Push: byAddr[record.Addr] = len(byAge) before the append
	{
		ok := false
		for _, mu := range byAddrUpdates(push) {
			_, f, okf := fieldLoad(mu.Key)
			cc, _, okc := callResult(mu.Value)
			if okf && f.Name() == "Addr" && okc && calleeName(cc) == "builtin.len" {
				ok = true
				for _, a := range callsTo(push, "builtin.append") {
					if !precedes(mu, a) && !precedes(cc, a) {
						ok = false
					}
				}
			}
		}
		c.check(ok, rule, "Push records the new record's position", p.Pos(push.Pos()), "byAddr[record.Addr] = len(byAge) before append", "Push does not map the new record's address to its position")
	}
	// Pop: delete(byAddr, record.Addr)
	{
		ok := false
		for _, d := range deepCalls(pop, 2, "builtin.delete") {
			ci, okci := d.In.(ssa.CallInstruction)
			if !okci {
				continue
			}
			_, mf, okm := fieldLoad(ci.Common().Args[0])
			_, kf, okk := fieldLoad(ci.Common().Args[1])
			if okm && okk && mf.Name() == "byAddr" && kf.Name() == "Addr" {
				ok = true
			}
		}
		c.check(ok, rule, "Pop removes the popped record's address from byAddr", p.Pos(pop.Pos()), "", "a discarded record stays in byAddr: its address later resolves to another client's record")
	}
	// SendQueue: lookup by the addr parameter; new record carries Addr: addr
	{
		okLk, okNew := false, false
		allInstrs(sq, func(in ssa.Instruction) {
			if lk, ok := in.(*ssa.Lookup); ok && lk.Index == ssa.Value(sq.Params[1]) {
				if _, f, okf := fieldLoad(lk.X); okf && f.Name() == "byAddr" {
					okLk = true
				}
			}
		})
		addrF := p.Field("common/turbotunnel", "clientRecord", "Addr")
		for _, s := range storesToField([]*ssa.Function{sq}, addrF) {
			if s.Val == ssa.Value(sq.Params[1]) {
				okNew = true
			}
		}
		c.check(okLk && okNew, rule, "SendQueue looks up and creates records by its addr parameter", p.Pos(sq.Pos()), "", "the send queue is not keyed by the requested address")
		// an index found before heap.Fix/Push/Pop/Remove is stale afterwards: the record is read before the heap moves it
		stale := ""
		for _, hc := range callsTo(sq, "container/heap.Fix", "container/heap.Push", "container/heap.Pop", "container/heap.Remove") {
			allInstrs(sq, func(in ssa.Instruction) {
				ia, ok := in.(*ssa.IndexAddr)
				if !ok {
					return
				}
				if _, f, okf := fieldLoad(ia.X); !okf || f.Name() != "byAge" {
					return
				}
				if _, isConst := ia.Index.(*ssa.Const); isConst {
					return
				}
				if canFollow(hc, ia) && !canFollow(ia, hc) {
					stale = p.instrPos(ia)
				} else if canFollow(hc, ia) && ia.Block() != hc.Block() {
					stale = p.instrPos(ia)
				} else if ia.Block() == hc.Block() && instrIndex(hc) < instrIndex(ia) {
					stale = p.instrPos(ia)
				}
			})
		}
		c.check(stale == "", rule, "SendQueue reads the record before the heap reorders it", p.Pos(sq.Pos()), "no byAge[i] after heap.Fix/Push", "byAge is indexed with a position obtained before heap.Fix/Push/Pop moved the records ("+stale+"): the queue returned belongs to whichever client now sits at that position")
		// returns the SendQueue of that record
		okRet := false
		for _, r := range returnsOf(sq) {
			if _, f, ok := fieldLoad(r.Results[0]); ok && f.Name() == "SendQueue" {
				okRet = true
			}
		}
		c.check(okRet, rule, "SendQueue returns the record's queue", p.Pos(sq.Pos()), "", "")
	}
}

// copyOrigin follows whole-value copies of a local cell back to the cell the
// value was first written into (an array returned by value from a helper and
// merged over its paths is still the bytes that io.ReadFull filled).
func copyOrigin(a ssa.Value) ssa.Value {
	for i := 0; i < 8; i++ {
		al, ok := a.(*ssa.Alloc)
		if !ok {
			return a
		}
		sv := singleStoreAny(al)
		if sv == nil {
			return a
		}
		next := ssa.Value(nil)
		var origin func(v ssa.Value) ssa.Value
		seen := map[ssa.Value]bool{}
		origin = func(v ssa.Value) ssa.Value {
			if seen[v] {
				return nil
			}
			seen[v] = true
			switch x := v.(type) {
			case *ssa.UnOp:
				if x.Op == token.MUL {
					if b, ok := x.X.(*ssa.Alloc); ok {
						return copyOrigin(b)
					}
				}
			case *ssa.Phi:
				var o ssa.Value
				for _, e := range x.Edges {
					oe := origin(e)
					if oe == nil {
						return nil
					}
					if o == nil {
						o = oe
					} else if o != oe {
						return nil
					}
				}
				return o
			}
			return nil
		}
		next = origin(sv)
		if next == nil {
			return a
		}
		a = next
	}
	return a
}

// checkClientIDString: ClientID.String() is the hex of the whole identifier. KCP
// keys its session table by the remote address's string; a shortened form merges
// clients whose identifiers share a prefix into one session.
func (c *Ctx) checkClientIDString(rule5 string) {
	p := c.P
	if str := p.Fn("common/turbotunnel", "(ClientID).String"); str != nil {
		ok := false
		for _, r := range returnsOf(str) {
			if cc, _, okc := callResult(r.Results[0]); okc && calleeName(cc) == "encoding/hex.EncodeToString" {
				if sl, oks := cc.Call.Args[0].(*ssa.Slice); oks && sl.Low == nil && sl.High == nil {
					ok = true
				}
			}
		}
		c.check(ok, rule5, "ClientID.String() encodes the whole identifier", p.Pos(str.Pos()), "hex of id[:]", "the address string does not cover all bytes of the ClientID: KCP, which keys sessions by RemoteAddr().String(), merges distinct clients into one session")
	} else {
		c.undecided(rule5, "ClientID.String", "-", "anchor does not resolve")
	}
}
