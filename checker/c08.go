package main

import (
	"fmt"
	"go/constant"
	"go/token"
	"go/types"
	"net"
	"sort"
	"strings"

	"golang.org/x/tools/go/ssa"
)

func init() {
	register("C08", propMeta{
		Explanation: "E-GUARD + E-CONST + E-PANIC. O-1 stripping dominates every export: the description serialised in BrokerChannel.Negotiate and SignalingServer.sendAnswer is, on every path not behind the true edge of the respective keepLocalAddresses flag, a fresh description whose SDP is util.StripLocalAddresses of the original; probetest strips unconditionally; the flag fields are written only from the configuration. O-2 range table = RFC table: util.IsLocal is read as a disjunction of conjunctions of byte tests (b[k] == c, b[k] & m == c) over ip.To4() and the 16-byte ip; each true path is converted syntactically to a CIDR prefix and the resulting set is compared with {10/8, 172.16/12, 192.168/16, 100.64/10, 169.254/16, fc00::/7}. O-3 filter shape: in the candidate loop of StripLocalAddresses the skip is reachable only through IsICECandidate, a successful UnmarshalCandidate, Type() == host, ParseIP != nil and one of IsLocal/IsUnspecified/IsLoopback (all three occur); every other path appends the loop's attribute; each media section gets a slice made inside its own iteration; parse/marshal errors return the input unchanged. O-4 no termination construct reachable from StripLocalAddresses/IsLocal, and every constant index into an address is behind an edge that establishes its length (To4() != nil, len(ip) == 16). O-2 is evaluated exactly since the second seeding round: byte tests including < and <= ranges become value sets, each feasible true path a product of per-byte sets, and the union is compared with the table over all 65536 leading IPv4 byte pairs and 256 leading IPv6 bytes. Added after the third seeding round: ice.UnmarshalCandidate receives the attribute value itself (no trimming or re-formatting); the caller's string is returned only on error edges, never as a 'nothing removed' shortcut decided per media section. Added after the fifth seeding round: IsLocal consulting a library predicate whose range reaches beyond the table (IsLinkLocalUnicast: fe80::/10, multicast, global unicast) is a violation. Added after the sixth seeding round and the mutation audit: the raw description may arrive only over the keep edge itself (the other branch of the same test no longer counts: an inverted flag test was accepted before); the keepLocalAddresses fields are fed from the KeepLocalAddresses option or a constant at every call site; a StripLocalAddresses without an append of kept attributes is a violation. Added after the seventh seeding round: O-2 also reads the table form of IsLocal - CIDR string constants parsed by net.ParseCIDR and a loop over (*net.IPNet).Contains(ip) - and compares the union of the blocks with the RFC table over the same leading-byte classes.",
		NotDecided:  "pion/sdp and pion/ice parsing and re-marshalling fidelity ('every other field preserved') - third-party; IPv4-mapped spellings (handled by To4, stdlib).",
		Assumptions: []string{"net.IP.To4 returns nil or a 4-byte slice", "third-party SDP/ICE code does not panic"},
	}, runC08)
}

func runC08(c *Ctx) {
	p := c.P
	strip8 := p.Fn("common/util", "StripLocalAddresses")
	isLocal := p.Fn("common/util", "IsLocal")
	if strip8 == nil || isLocal == nil {
		c.undecided("O-0 anchors", "util.StripLocalAddresses/IsLocal", "-", "anchor does not resolve")
		return
	}
	c.analysedFn(p.FnName(strip8))
	c.analysedFn(p.FnName(isLocal))

	// ---------- O-1 ----------
	rule1 := "O-1 stripping dominates every export"
	for _, w := range []struct{ rel, fn, flag string }{
		{"client/lib", "(*BrokerChannel).Negotiate", "keepLocalAddresses"},
		{"proxy/lib", "(*SignalingServer).sendAnswer", "keepLocalAddresses"},
	} {
		fn := p.Fn(w.rel, w.fn)
		if fn == nil {
			c.undecided(rule1, w.rel+"."+w.fn, "-", "anchor does not resolve")
			continue
		}
		c.analysedFn(p.FnName(fn))
		keep := boolEdges(fn, true, func(v ssa.Value) bool { _, f, ok := fieldLoad(v); return ok && f.Name() == w.flag })
		n := 0
		for _, ci := range callsTo(fn, "common/util.SerializeSessionDescription") {
			n++
			arg := ci.Common().Args[0]
			key := w.rel + "." + w.fn + " serialises a stripped description unless local addresses are kept"
			bad := ""
			var check func(v ssa.Value, at, to *ssa.BasicBlock, depth int)
			check = func(v ssa.Value, at, to *ssa.BasicBlock, depth int) {
				if depth > 4 {
					bad = "description provenance too deep"
					return
				}
				if ph, ok := v.(*ssa.Phi); ok {
					for i, e := range ph.Edges {
						check(e, ph.Block().Preds[i], ph.Block(), depth+1)
					}
					return
				}
				// stripped: a fresh SessionDescription whose SDP is Strip(...)
				if al, ok := v.(*ssa.Alloc); ok {
					sdp := structLitField(al, "SDP")
					if cc, _, okc := callResult(sdp); okc && staticCallee(cc) == strip8 {
						return
					}
					bad = "a freshly built description does not take its SDP from StripLocalAddresses"
					return
				}
				// raw: only behind keep == true (the phi edge itself may be the keep edge)
				viaKeep := false
				for _, e := range keep {
					// the edge over which the raw value arrives must be the keep edge itself, not the other
					// branch of the same test
					if e.From == at && at != ci.Block() && to != nil && e.To() == to {
						viaKeep = true
					}
				}
				if !viaKeep && (len(keep) == 0 || reachPath(fn.Blocks[0], at, keep) != nil) {
					bad = "the unstripped description reaches the serialiser on a path that does not require keepLocalAddresses"
				}
			}
			check(arg, ci.Block(), nil, 0)
			c.check(bad == "", rule1, key, p.instrPos(ci), "", bad+": private, CGNAT, link-local, ULA, loopback or unspecified host candidates are sent to the broker")
		}
		if n == 0 {
			c.undecided(rule1, w.rel+"."+w.fn+" serialises a description", p.Pos(fn.Pos()), "no SerializeSessionDescription call")
		}
	}
	// probetest: unconditional
	if ph := p.Fn("probetest", "probeHandler"); ph != nil {
		c.analysedFn(p.FnName(ph))
		ok := false
		for _, ci := range callsTo(ph, "common/util.SerializeSessionDescription") {
			arg := ci.Common().Args[0]
			if al, isAl := arg.(*ssa.Alloc); isAl {
				if cc, _, okc := callResult(structLitField(al, "SDP")); okc && staticCallee(cc) == strip8 {
					ok = true
				}
			}
		}
		c.check(ok, rule1, "probetest.probeHandler serialises a stripped description", p.Pos(ph.Pos()), "", "the probe answer is not stripped")
	}
	// flag owners: written only in constructors from the configuration
	for _, w := range []struct{ rel, typ string }{{"client/lib", "BrokerChannel"}, {"proxy/lib", "SignalingServer"}} {
		f := p.Field(w.rel, w.typ, "keepLocalAddresses")
		if f == nil {
			c.undecided(rule1, w.typ+".keepLocalAddresses", "-", "field does not resolve")
			continue
		}
		bad := 0
		for _, s := range storesToField(p.FnsIn(w.rel), f) {
			base, _, _ := fieldOfAddr(s.Addr)
			if !isFreshBase(s.Parent(), base, s) {
				bad++
				c.viol(rule1, p.FnName(s.Parent())+" rewrites "+w.typ+".keepLocalAddresses", p.instrPos(s), "the keep-local-addresses flag is changed after construction")
			}
		}
		// ... and from the option of that name (two boolean options side by side are easily confused)
		for _, s := range storesToField(p.FnsIn(w.rel), f) {
			fromOpt, other := false, ""
			// the value, or what every non-test caller passes for it
			vals := []ssa.Value{s.Val}
			if par, isPar := strip(s.Val).(*ssa.Parameter); isPar {
				vals = nil
				for i, fp := range par.Parent().Params {
					if fp != par {
						continue
					}
					for _, ci := range p.realCallers(par.Parent()) {
						if i < len(ci.Common().Args) {
							vals = append(vals, ci.Common().Args[i])
						}
					}
				}
			}
			nonConst := 0
			for _, val := range vals {
				if k, isK := strip(val).(*ssa.Const); isK && k.Value != nil {
					continue // a constant (the NAT probe never keeps them) is not an option mix-up
				}
				nonConst++
				flows(val, func(v ssa.Value) bool {
					if _, fl, ok := fieldLoad(v); ok {
						if fl.Name() == "KeepLocalAddresses" {
							fromOpt = true
						} else if b, isB := fl.Type().Underlying().(*types.Basic); isB && b.Kind() == types.Bool {
							other = fl.Name()
						}
					}
					return false
				})
			}
			if nonConst == 0 {
				continue
			}
			c.check(fromOpt && other == "", rule1, p.FnName(s.Parent())+" takes "+w.typ+".keepLocalAddresses from the KeepLocalAddresses option", p.instrPos(s), "", "the flag that switches the stripping off is not (only) the KeepLocalAddresses option"+map[bool]string{true: " but " + other, false: ""}[other != ""]+": with that other option set and this one unset, local addresses are sent to the broker")
		}
		if bad == 0 {
			c.ok(rule1, w.typ+".keepLocalAddresses is set only at construction", p.Pos(f.Pos()), "")
		}
	}

	// ---------- O-2 ----------
	c.checkIsLocalTable(isLocal)

	// ---------- O-3 ----------
	c.checkStripFilter(strip8, isLocal)

	// ---------- O-4 ----------
	rule4 := "O-4 no termination construct on the stripping path"
	reached := c.checkTerminators(rule4, []*ssa.Function{strip8, isLocal}, nil)
	if len(reached) > 0 {
		c.okTrivial(rule4, fmt.Sprintf("%d repository functions reachable from StripLocalAddresses/IsLocal examined", len(reached)), "-", "")
	}
	c.checkConstIndexGuards("O-4b constant indexes are behind a length-establishing edge", []*ssa.Function{isLocal, strip8})
}

// checkConstIndexGuards: every constant index into a []byte-like slice value
// must be reachable only through an edge that establishes a sufficient length:
// x := y.To4() with x != nil (length 4), or len(x) == C with C > index.
func (c *Ctx) checkConstIndexGuards(rule string, fns []*ssa.Function) {
	// the table form of IsLocal (CIDR blocks and Contains) has no byte tests to guard
	if il := c.P.Fn("common/util", "IsLocal"); il != nil && len(callsTo(il, "(*net.IPNet).Contains")) > 0 {
		c.checkConstIndexGuardsOpt(rule, fns, false)
		return
	}
	c.checkConstIndexGuardsOpt(rule, fns, true)
}

func (c *Ctx) checkConstIndexGuardsOpt(rule string, fns []*ssa.Function, requireSome bool) {
	p := c.P
	n := 0
	for _, fn := range fns {
		allInstrs(fn, func(in ssa.Instruction) {
			var x, idx ssa.Value
			switch v := in.(type) {
			case *ssa.IndexAddr:
				x, idx = v.X, v.Index
			case *ssa.Index:
				x, idx = v.X, v.Index
			case *ssa.Lookup:
				// s[k] on a string
				if bt, okb := v.X.Type().Underlying().(*types.Basic); !okb || bt.Info()&types.IsString == 0 {
					return
				}
				x, idx = v.X, v.Index
			default:
				return
			}
			k, ok := constInt(idx)
			if !ok {
				return
			}
			if _, isConst := x.(*ssa.Const); isConst {
				return
			}
			if _, isSlice := x.Type().Underlying().(interface{ Elem() interface{} }); isSlice {
				_ = isSlice
			}
			ts := x.Type().Underlying().String()
			isStr := ts == "string"
			if !strings.HasPrefix(ts, "[]") && !isStr {
				return // arrays are checked by the compiler
			}
			// covered by the library-table rule for Split/FindStringSubmatch results (checkConstIndexes)
			if cc, _, okc := callResult1(strip(x)); okc {
				switch calleeName(cc) {
				case "strings.Split", "strings.SplitN", "bytes.Split", "bytes.SplitN":
					if k == 0 {
						return
					}
				case "(*regexp.Regexp).FindStringSubmatch", "(*regexp.Regexp).FindSubmatch":
					return
				}
			}
			n++
			key := fmt.Sprintf("%s constant index [%d] of %s", p.FnName(fn), k, describeOperand(p, x))
			var edges []Edge
			// len(x) > j (j >= k), len(x) >= j (j > k), len(x) != 0 for index 0: in any spelling
			isLenX := func(v ssa.Value) bool {
				cc, _, okc := callResult1(strip(v))
				return okc && calleeName(cc) == "builtin.len" && (cc.Call.Args[0] == x || sameLoad(cc.Call.Args[0], x))
			}
			edges = append(edges, cmpEdges(fn, ">", isLenX, func(v ssa.Value) bool { j, okj := constInt(v); return okj && j >= k })...)
			edges = append(edges, cmpEdges(fn, ">=", isLenX, func(v ssa.Value) bool { j, okj := constInt(v); return okj && j > k })...)
			if k == 0 {
				edges = append(edges, eqEdges(fn, false, isLenX, func(v ssa.Value) bool { j, okj := constInt(v); return okj && j == 0 })...)
			}
			if isStr {
				// s != "" / s == "" (index 0), strings.HasPrefix(s, c) with len(c) > k
				if k == 0 {
					edges = append(edges, condEdges(fn, false, func(a Atom) bool {
						if a.Op != token.EQL {
							return false
						}
						e1, ok1 := constString(a.Y)
						e2, ok2 := constString(a.X)
						return (ok1 && e1 == "" && (a.X == x || sameLoad(a.X, x))) || (ok2 && e2 == "" && (a.Y == x || sameLoad(a.Y, x)))
					})...)
				}
				edges = append(edges, boolEdges(fn, true, func(v ssa.Value) bool {
					cc, _, okc := callResult(v)
					if !okc || calleeName(cc) != "strings.HasPrefix" {
						return false
					}
					pre, okp := constString(cc.Call.Args[1])
					return okp && int64(len(pre)) > k && (cc.Call.Args[0] == x || sameLoad(cc.Call.Args[0], x))
				})...)
			}
			// x = y.To4(), x != nil
			if cc, _, okc := callResult(x); okc && calleeName(cc) == "(net.IP).To4" && k < 4 {
				edges = append(edges, nilCheckEdges(fn, false, func(v ssa.Value) bool { return v == x })...)
			}
			// len(x) == C, C > k
			edges = append(edges, condEdges(fn, true, func(a Atom) bool {
				if a.Op != token.EQL {
					return false
				}
				cc, _, okc := callResult(a.X)
				cv, okk := constInt(a.Y)
				if !okc || !okk {
					cc, _, okc = callResult(a.Y)
					cv, okk = constInt(a.X)
				}
				return okc && okk && calleeName(cc) == "builtin.len" && cc.Call.Args[0] == x && cv > k
			})...)
			path := reachableWithout(fn, in, edges)
			c.check(len(edges) > 0 && path == nil, rule, key, p.instrPos(in), "behind an edge that establishes the length",
				"a constant index is used on a path that does not establish that the slice or string is long enough: a nil, empty or short value (a malformed or mDNS candidate, a blank message) makes the function panic", p.pathString(path)...)
		})
	}
	if n == 0 {
		if requireSome {
			c.undecided(rule, "constant indexes", "-", "none found (expected the byte tests of IsLocal)")
		} else {
			c.okTrivial(rule, "constant indexes", "-", "none in the analysed functions")
		}
	}
}

// checkIsLocalTable extracts the CIDR set decided by IsLocal.
func (c *Ctx) checkIsLocalTable(fn *ssa.Function) {
	p := c.P
	rule := "O-2 range table = RFC table"
	if c.checkIsLocalCIDRForm(fn, rule) {
		return
	}
	// a byte test: the set of values of byte k of `base` for which it holds
	type atom struct {
		base ssa.Value // the slice indexed
		k    int64
		set  [256]bool
	}
	byteRef := func(l ssa.Value) (base ssa.Value, k int64, mask int64, ok bool) {
		mask = 0xff
		if bo, okb := l.(*ssa.BinOp); okb && bo.Op == token.AND {
			m, okm := constInt(bo.Y)
			if !okm {
				return nil, 0, 0, false
			}
			mask = m
			l = bo.X
		}
		u, okl := l.(*ssa.UnOp)
		if !okl || u.Op != token.MUL {
			return nil, 0, 0, false
		}
		ia, oki := u.X.(*ssa.IndexAddr)
		if !oki {
			return nil, 0, 0, false
		}
		k, okk := constInt(ia.Index)
		if !okk {
			return nil, 0, 0, false
		}
		return ia.X, k, mask, true
	}
	// recognise b[k] == c, b[k]&m == c, b[k] < c, b[k] <= c, c < b[k], c <= b[k]
	byteAtom := func(a Atom) (atom, bool) {
		rel := func(v, cv int64, byteLeft bool) bool {
			switch a.Op {
			case token.EQL:
				return v == cv
			case token.LSS:
				if byteLeft {
					return v < cv
				}
				return cv < v
			case token.LEQ:
				if byteLeft {
					return v <= cv
				}
				return cv <= v
			}
			return false
		}
		if a.Op != token.EQL && a.Op != token.LSS && a.Op != token.LEQ {
			return atom{}, false
		}
		try := func(l, r ssa.Value, byteLeft bool) (atom, bool) {
			cv, ok := constInt(r)
			if !ok {
				return atom{}, false
			}
			base, k, mask, okb := byteRef(l)
			if !okb {
				return atom{}, false
			}
			at := atom{base: base, k: k}
			for v := int64(0); v < 256; v++ {
				at.set[v] = rel(v&mask, cv, byteLeft)
			}
			return at, true
		}
		if at, ok := try(a.X, a.Y, true); ok {
			return at, true
		}
		return try(a.Y, a.X, false)
	}
	negate := func(at atom) atom {
		for v := range at.set {
			at.set[v] = !at.set[v]
		}
		return at
	}
	// enumerate paths; collect byte atoms (with their outcome); verdict by the returned value
	type pathRes struct {
		atoms []atom
		v6len bool
	}
	var trues []pathRes
	undec := ""
	libViol := ""
	var to4 ssa.Value
	for _, ci := range callsTo(fn, "(net.IP).To4") {
		to4 = ci.(*ssa.Call)
	}
	var dfs func(b *ssa.BasicBlock, prev *ssa.BasicBlock, atoms []atom, v6len bool, seen map[*ssa.BasicBlock]bool)
	phiVal := map[*ssa.Phi]ssa.Value{} // value of each phi along the current path
	resolve := func(v ssa.Value, b, prev *ssa.BasicBlock) ssa.Value {
		if ph, ok := v.(*ssa.Phi); ok {
			if r, ok := phiVal[ph]; ok {
				return r
			}
		}
		return v
	}
	enter := func(b, prev *ssa.BasicBlock) {
		if prev == nil {
			return
		}
		for _, in := range b.Instrs {
			ph, ok := in.(*ssa.Phi)
			if !ok {
				break
			}
			for j, pr := range b.Preds {
				if pr == prev {
					v := ph.Edges[j]
					if p2, ok := v.(*ssa.Phi); ok {
						if r, ok := phiVal[p2]; ok {
							v = r
						}
					}
					phiVal[ph] = v
				}
			}
		}
	}
	dfs = func(b *ssa.BasicBlock, prev *ssa.BasicBlock, atoms []atom, v6len bool, seen map[*ssa.BasicBlock]bool) {
		if seen[b] || undec != "" {
			return
		}
		seen[b] = true
		defer func() { seen[b] = false }()
		enter(b, prev)
		last := b.Instrs[len(b.Instrs)-1]
		switch t := last.(type) {
		case *ssa.Return:
			v := resolve(t.Results[0], b, prev)
			if k, ok := v.(*ssa.Const); ok {
				if k.Value != nil && k.Value.String() == "true" {
					trues = append(trues, pathRes{append([]atom(nil), atoms...), v6len})
				}
				return
			}
			// a final comparison (the && / || chain is already expanded into the CFG)
			a, pos := normCond(v)
			if at, ok := byteAtom(a); ok {
				if !pos {
					at = negate(at)
				}
				trues = append(trues, pathRes{append(append([]atom(nil), atoms...), at), v6len})
				return
			}
			undec = "IsLocal returns a value that is not a constant or a byte comparison (" + v.String() + ")"
		case *ssa.If:
			a, pos := normCond(t.Cond)
			if at, ok := byteAtom(a); ok {
				tIdx, fIdx := 0, 1
				if !pos {
					tIdx, fIdx = 1, 0
				}
				dfs(b.Succs[tIdx], b, append(append([]atom(nil), atoms...), at), v6len, seen)
				dfs(b.Succs[fIdx], b, append(append([]atom(nil), atoms...), negate(at)), v6len, seen)
				return
			}
			// ip4 != nil
			if a.Op == token.EQL && (isNilConst(a.Y) || isNilConst(a.X)) {
				dfs(b.Succs[0], b, atoms, v6len, seen)
				dfs(b.Succs[1], b, atoms, v6len, seen)
				return
			}
			// len(ip) == 16
			if a.Op == token.EQL {
				if cc, _, ok := callResult(a.X); ok && calleeName(cc) == "builtin.len" {
					if k, okk := constInt(a.Y); okk && k == 16 {
						tIdx, fIdx := 0, 1
						if !pos {
							tIdx, fIdx = 1, 0
						}
						dfs(b.Succs[tIdx], b, atoms, true, seen)
						dfs(b.Succs[fIdx], b, atoms, v6len, seen)
						return
					}
				}
			}
			undec = "IsLocal branches on a condition that is not a byte test, a nil test or len(ip) == 16: " + t.Cond.String()
			// a library classification whose range is known to reach beyond the table (IPv6 link-local, multicast,
			// global unicast) is a violation, not merely an unrecognised shape
			if cc, _, okc := callResult(t.Cond); okc {
				switch calleeName(cc) {
				case "(net.IP).IsLinkLocalUnicast", "(net.IP).IsLinkLocalMulticast", "(net.IP).IsGlobalUnicast", "(net.IP).IsMulticast", "(net.IP).IsInterfaceLocalMulticast":
					libViol = calleeName(cc)
				}
			}
		default:
			for _, s := range b.Succs {
				dfs(s, b, atoms, v6len, seen)
			}
		}
	}
	dfs(fn.Blocks[0], nil, nil, false, map[*ssa.BasicBlock]bool{})
	if libViol != "" {
		c.viol(rule, "util.IsLocal decides by the RFC ranges", p.Pos(fn.Pos()), "IsLocal consults "+libViol+", whose range (IPv6 link-local fe80::/10, multicast ...) is not in the table of local ranges: candidates the property says must be kept are stripped")
		return
	}
	if undec != "" {
		c.undecided(rule, "util.IsLocal is a disjunction of byte tests", p.Pos(fn.Pos()), undec+": a new recogniser is needed")
		return
	}
	// Evaluate the decision exactly over the leading bytes: each true path is a
	// product of per-byte value sets; IsLocal(addr) holds iff some true path
	// admits every byte of addr. The RFC ranges constrain bytes 0-1 (IPv4) and
	// byte 0 (IPv6) only, so a path that constrains a later byte makes the
	// verdict depend on more than the table allows and is reported.
	type prod struct {
		fam  string
		sets map[int64]*[256]bool
	}
	var prods []prod
	deep := ""
	for _, t := range trues {
		pr := prod{sets: map[int64]*[256]bool{}}
		var base ssa.Value
		mixed := false
		for _, a := range t.atoms {
			if base == nil {
				base = a.base
			} else if base != a.base {
				mixed = true
			}
			cur, ok := pr.sets[a.k]
			if !ok {
				full := [256]bool{}
				for v := range full {
					full[v] = true
				}
				cur = &full
				pr.sets[a.k] = cur
			}
			for v := 0; v < 256; v++ {
				cur[v] = cur[v] && a.set[v]
			}
		}
		feasible := true
		for _, st := range pr.sets {
			any := false
			for _, x := range st {
				any = any || x
			}
			if !any {
				feasible = false
			}
		}
		if !feasible {
			continue
		}
		switch {
		case mixed:
			deep = "a true path tests bytes of both the 4-byte and the 16-byte form"
		case base == nil:
			deep = "a true path without any byte test: IsLocal holds for every address of a family"
		case base == to4:
			pr.fam = "v4"
		case t.v6len:
			pr.fam = "v6"
		default:
			deep = "a true path indexes the address without len(ip) == 16 or To4() != nil"
		}
		limit := int64(1)
		if pr.fam == "v6" {
			limit = 0
		}
		for k, st := range pr.sets {
			if k > limit {
				full := true
				for _, x := range st {
					full = full && x
				}
				if !full {
					deep = fmt.Sprintf("a true path constrains byte %d of the %s form", k, pr.fam)
				}
			}
		}
		prods = append(prods, pr)
	}
	admits := func(pr prod, k int64, v int) bool {
		st, ok := pr.sets[k]
		return !ok || st[v]
	}
	wantV4 := func(b0, b1 int) bool {
		return b0 == 10 || (b0 == 172 && b1&0xf0 == 16) || (b0 == 192 && b1 == 168) || (b0 == 100 && b1&0xc0 == 64) || (b0 == 169 && b1 == 254)
	}
	var diffs []string
	nDiff := 0
	for b0 := 0; b0 < 256; b0++ {
		for b1 := 0; b1 < 256; b1++ {
			got := false
			for _, pr := range prods {
				if pr.fam == "v4" && admits(pr, 0, b0) && admits(pr, 1, b1) {
					got = true
				}
			}
			if got != wantV4(b0, b1) {
				nDiff++
				if len(diffs) < 4 {
					diffs = append(diffs, fmt.Sprintf("%d.%d.x.x: IsLocal=%v, table=%v", b0, b1, got, wantV4(b0, b1)))
				}
			}
		}
		got6 := false
		for _, pr := range prods {
			if pr.fam == "v6" && admits(pr, 0, b0) {
				got6 = true
			}
		}
		if want6 := b0&0xfe == 0xfc; got6 != want6 {
			nDiff++
			if len(diffs) < 4 {
				diffs = append(diffs, fmt.Sprintf("%02x00::/8: IsLocal=%v, table=%v", b0, got6, want6))
			}
		}
	}
	want := []string{"10.0.0.0/8", "100.64.0.0/10", "169.254.0.0/16", "172.16.0.0/12", "192.168.0.0/16", "fc00::/7"}
	c.count("IsLocal true paths", len(trues))
	c.check(nDiff == 0 && deep == "" && len(prods) >= 6, rule, "util.IsLocal decides exactly the RFC 1918/6598/3927/4193 ranges", p.Pos(fn.Pos()), fmt.Sprintf("%d feasible true paths, evaluated over all 65536 leading IPv4 byte pairs and 256 leading IPv6 bytes against %s", len(prods), strings.Join(want, " ")),
		fmt.Sprintf("IsLocal differs from the table {%s} on %d leading-byte classes (%s) %s: an address on a range boundary is misclassified (a private address is sent to the broker, or a public candidate is dropped)", strings.Join(want, " "), nDiff, strings.Join(diffs, "; "), deep))
}

func (c *Ctx) checkStripFilter(fn, isLocal *ssa.Function) {
	p := c.P
	rule := "O-3 filter shape"
	// the append of the loop attribute
	var app *ssa.Call
	for _, ci := range callsTo(fn, "builtin.append") {
		app, _ = ci.(*ssa.Call)
	}
	if app == nil {
		c.viol(rule, "StripLocalAddresses appends kept attributes", p.Pos(fn.Pos()), "the function no longer builds each media section's attribute list from the attributes it keeps (no append): the result is not the parsed description minus the local candidates (a textual cut depends on the spelling of the input, for example its line terminators)")
		return
	}
	// innermost natural loop containing the append: back edge T->H with H dominating the append's block
	var header *ssa.BasicBlock
	for _, b := range fn.Blocks {
		for _, h := range b.Succs {
			if h.Dominates(b) && h.Dominates(app.Block()) && reachPath(app.Block(), b, nil) != nil {
				if header == nil || header.Dominates(h) {
					header = h
				}
			}
		}
	}
	if header == nil {
		c.undecided(rule, "candidate loop", p.instrPos(app), "loop header not found")
		return
	}
	body := header.Succs[0]
	if reachPath(body, app.Block(), nil) == nil {
		body = header.Succs[1]
	}
	callSpec := func(name string, want bool) condSpec {
		return sBool(want, func(v ssa.Value) bool {
			cc, _, ok := callResult(v)
			return ok && strings.HasSuffix(calleeName(cc), name)
		})
	}
	// the parsing calls, in the filter or in a boolean helper it consults
	var unm *ssa.Call
	for _, d := range deepInstrs(fn, 2, func(in ssa.Instruction) bool {
		ci, ok := in.(ssa.CallInstruction)
		return ok && strings.HasSuffix(calleeName(ci), "ice/v2.UnmarshalCandidate")
	}) {
		unm, _ = d.In.(*ssa.Call)
	}
	var parse *ssa.Call
	for _, d := range deepCalls(fn, 2, "net.ParseIP") {
		parse, _ = d.In.(*ssa.Call)
	}
	conds := []struct {
		what  string
		specs []condSpec
	}{
		{"IsICECandidate()", []condSpec{callSpec("sdp/v3.Attribute).IsICECandidate", true)}},
		{"Type() == CandidateTypeHost", []condSpec{sCond(true, func(a Atom) bool {
			if a.Op != token.EQL {
				return false
			}
			cc, _, ok := callResult(a.X)
			k, okk := constInt(a.Y)
			return ok && okk && strings.HasSuffix(calleeName(cc), "Candidate).Type") && k == 1
		})}},
	}
	if unm != nil {
		conds = append(conds, struct {
			what  string
			specs []condSpec
		}{"UnmarshalCandidate err == nil", []condSpec{sEq(true, func(v ssa.Value) bool { return isResultOfCall1(v, unm, 1) }, isNilConst)}})
	}
	if parse != nil {
		conds = append(conds, struct {
			what  string
			specs []condSpec
		}{"ParseIP != nil", []condSpec{sEq(false, func(v ssa.Value) bool { return v == ssa.Value(parse) }, isNilConst)}})
	}
	var anyLocal []condSpec
	nPred := 0
	for _, nm := range []string{"common/util.IsLocal", "(net.IP).IsUnspecified", "(net.IP).IsLoopback"} {
		nm := nm
		sp := sBool(true, func(v ssa.Value) bool {
			cc, _, ok := callResult(v)
			return ok && calleeName(cc) == nm && parse != nil && cc.Call.Args[0] == ssa.Value(parse)
		})
		if specSeen(fn, sp, 2) > 0 {
			nPred++
		}
		anyLocal = append(anyLocal, sp)
	}
	conds = append(conds, struct {
		what  string
		specs []condSpec
	}{"IsLocal || IsUnspecified || IsLoopback", anyLocal})
	if unm != nil {
		// the candidate parser sees the attribute's value as it is (trimming or rewriting it changes what parses)
		_, vf, okv := fieldLoad(unm.Call.Args[0])
		c.check(okv && vf.Name() == "Value", rule, "UnmarshalCandidate is given the attribute's Value unmodified", p.instrPos(unm), "", "the text handed to the candidate parser is not the attribute's Value itself: a candidate line that no longer parses is kept, local address included")
	}
	c.check(nPred == 3 && unm != nil && parse != nil, rule, "the filter consults IsLocal, IsUnspecified and IsLoopback on the parsed candidate address", p.Pos(fn.Pos()), "", fmt.Sprintf("only %d of the three address predicates are applied to the parsed address", nPred))
	blockedAppend := func(b *ssa.BasicBlock) bool { return b == app.Block() }
	for _, cd := range conds {
		edges := predEdgesS(fn, cd.specs, 2)
		path := psSearch(body, edges, blockedAppend, func(b *ssa.BasicBlock) bool { return b == header })
		c.check(len(edges) > 0 && path == nil, rule, "an attribute is skipped only behind "+cd.what, p.instrPos(app), "",
			"an attribute can be dropped without "+cd.what+" having held: something other than a local host candidate is lost", p.pathString(path)...)
	}
	// appended value is the loop's attribute; the slice is made inside the media loop
	// the collecting slice: made (make / constant-size make lowered to new+slice) inside the media loop
	var made ssa.Instruction
	resliced := false
	seenV := map[ssa.Value]bool{}
	var origin func(v ssa.Value)
	origin = func(v ssa.Value) {
		if seenV[v] {
			return
		}
		seenV[v] = true
		switch x := v.(type) {
		case *ssa.Phi:
			for _, e := range x.Edges {
				origin(e)
			}
		case *ssa.Call:
			if calleeName(x) == "builtin.append" {
				origin(x.Call.Args[0])
			} else {
				resliced = true
			}
		case *ssa.MakeSlice:
			made = x
		case *ssa.Slice:
			if al, ok := x.X.(*ssa.Alloc); ok && al.Comment == "makeslice" {
				made = x
			} else {
				resliced = true
			}
		default:
			resliced = true
		}
	}
	origin(app.Call.Args[0])
	c.check(made != nil && inCycle(made.Block()) && !resliced, rule, "each media section collects into a slice made in its own iteration", p.instrPos(app), "",
		"the filtered-attribute slice is shared between media sections (made outside the loop or re-sliced): earlier sections are overwritten by later ones")
	// error returns give the input back
	nErrRet := 0
	for _, r := range returnsOf(fn) {
		if r.Results[0] == ssa.Value(fn.Params[0]) {
			nErrRet++
		}
	}
	okOut := false
	for _, r := range returnsOf(fn) {
		if flows(r.Results[0], func(v ssa.Value) bool {
			cc, i, ok := callResult(v)
			return ok && i == 0 && strings.HasSuffix(calleeName(cc), "SessionDescription).Marshal")
		}) {
			okOut = true
		}
	}
	c.check(okOut, rule, "the result is the re-marshalled filtered description", p.Pos(fn.Pos()), "", "no return carries the output of desc.Marshal(): the filtered candidates are thrown away")
	// the caller's own string comes back only when parsing or marshalling failed (never as a shortcut
	// that some condition on the filtering decides)
	{
		var errE []Edge
		for _, ci := range callsIn(fn) {
			cc, ok := ci.(*ssa.Call)
			if !ok {
				continue
			}
			n := calleeName(cc)
			if strings.HasSuffix(n, "SessionDescription).Unmarshal") || strings.HasSuffix(n, "SessionDescription).Marshal") {
				ei := errResultIndex(cc.Call.Signature())
				if ei >= 0 {
					errE = append(errE, nilCheckEdges(fn, false, func(v ssa.Value) bool { return errFrom(v, cc, ei) })...)
				}
			}
		}
		for _, r := range returnsOf(fn) {
			if len(r.Results) == 1 && len(fn.Params) > 0 && strip(retVal(r, 0)) == ssa.Value(fn.Params[0]) {
				path := reachableWithout(fn, r, errE)
				c.check(len(errE) > 0 && path == nil, rule, "the input comes back unchanged only after a parse or marshal error", p.instrPos(r), "", "a path returns the caller's string without a parse/marshal failure: whatever was filtered on that path is thrown away and the local addresses stay in", p.pathString(path)...)
			}
		}
	}
	// the filtered slice replaces the section's attributes
	okAssign := false
	allInstrs(fn, func(in ssa.Instruction) {
		if st, ok := in.(*ssa.Store); ok {
			if _, f, okf := fieldOfAddr(st.Addr); okf && f.Name() == "Attributes" {
				okAssign = flows(st.Val, func(v ssa.Value) bool { return v == ssa.Value(app) }) || st.Val == ssa.Value(app)
				if ph, isPhi := st.Val.(*ssa.Phi); isPhi {
					for _, e := range ph.Edges {
						if e == ssa.Value(app) {
							okAssign = true
						}
					}
				}
			}
		}
	})
	c.check(okAssign, rule, "each media section's attributes are replaced by its filtered list", p.Pos(fn.Pos()), "", "m.Attributes is not assigned the filtered slice")
	c.check(nErrRet >= 2, rule, "parse and marshal errors return the input unchanged", p.Pos(fn.Pos()), "", fmt.Sprintf("%d returns of the unchanged input, expected the unmarshal and the marshal error exits", nErrRet))
}

// checkIsLocalCIDRForm: the other natural way to write IsLocal - a table of blocks in CIDR notation, parsed with
// net.ParseCIDR, and a loop that asks each block whether it Contains the address. It applies when IsLocal has
// no constant index at all and calls (*net.IPNet).Contains on its own parameter. The blocks are the string
// constants of the package that net.ParseCIDR accepts (the package must call net.ParseCIDR); every true return
// of IsLocal must lie behind the true edge of a Contains call, and the union of the blocks is compared with the
// RFC table over the same 65536 + 256 leading-byte classes as the byte-test form. A block narrower than a class
// must lie inside the table (it then adds nothing); outside it, it would drop a public candidate.
func (c *Ctx) checkIsLocalCIDRForm(fn *ssa.Function, rule string) bool {
	p := c.P
	contains := callsTo(fn, "(*net.IPNet).Contains")
	if len(contains) == 0 || len(fn.Params) != 1 {
		return false
	}
	hasIndex := false
	allInstrs(fn, func(in ssa.Instruction) {
		if _, ok := in.(*ssa.IndexAddr); ok {
			if ia := in.(*ssa.IndexAddr); ia.X.Type().String() == "net.IP" {
				hasIndex = true
			}
		}
	})
	if hasIndex {
		return false
	}
	for _, ci := range contains {
		args := ci.Common().Args
		if len(args) == 0 || !sameValue(args[len(args)-1], func(v ssa.Value) bool { return v == ssa.Value(fn.Params[0]) }) {
			c.viol(rule, "util.IsLocal asks each block about the address it was given", p.instrPos(ci), "Contains is asked about something other than IsLocal's parameter")
			return true
		}
	}
	// true returns only behind a Contains() true edge
	for _, r := range returnsOf(fn) {
		rv := retVal(r, 0)
		if k, ok := rv.(*ssa.Const); ok && k.Value != nil && k.Value.Kind() == constant.Bool {
			if !constant.BoolVal(k.Value) {
				continue
			}
			behind := false
			for _, ci := range contains {
				cv, isV := ci.(ssa.Value)
				if !isV {
					continue
				}
				for _, b := range fn.Blocks {
					if ifi, okIf := b.Instrs[len(b.Instrs)-1].(*ssa.If); okIf {
						if k2, pos := condKey(ifi.Cond); k2 == cv {
							idx := 0
							if !pos {
								idx = 1
							}
							if b.Succs[idx] == r.Block() || (len(b.Succs[idx].Preds) == 1 && reachPath(b.Succs[idx], r.Block(), nil) != nil && b.Succs[idx].Dominates(r.Block())) {
								behind = true
							}
						}
					}
				}
			}
			if !behind {
				c.viol(rule, "util.IsLocal answers true only for an address some block contains", p.instrPos(r), "a true return of IsLocal is not behind the true edge of a Contains call")
				return true
			}
			continue
		}
		// a computed verdict: only the result of Contains itself
		isContains := false
		for _, ci := range contains {
			if cv, isV := ci.(ssa.Value); isV && sameValue(rv, func(v ssa.Value) bool { return v == cv }) {
				isContains = true
			}
		}
		if !isContains {
			c.undecided(rule, "util.IsLocal in table form returns constants or a Contains verdict", p.instrPos(r), "a return of IsLocal is neither a constant nor the result of Contains")
			return true
		}
	}
	// the blocks
	nParse := 0
	var blocks []*net.IPNet
	var names []string
	seenStr := map[string]bool{}
	for _, f := range p.FnsIn("common/util") {
		nParse += len(callsTo(f, "net.ParseCIDR"))
	}
	scan := func(f *ssa.Function) {
		allInstrs(f, func(in ssa.Instruction) {
			for _, op := range in.Operands(nil) {
				if op == nil || *op == nil {
					continue
				}
				k, ok := (*op).(*ssa.Const)
				if !ok || k.Value == nil || k.Value.Kind() != constant.String {
					continue
				}
				sv := constant.StringVal(k.Value)
				if seenStr[sv] {
					continue
				}
				if _, n, err := net.ParseCIDR(sv); err == nil {
					seenStr[sv] = true
					blocks = append(blocks, n)
					names = append(names, n.String())
				}
			}
		})
	}
	for _, f := range p.FnsIn("common/util") {
		scan(f)
	}
	if pk := fn.Pkg; pk != nil {
		if ini := pk.Func("init"); ini != nil {
			scan(ini)
		}
	}
	sort.Strings(names)
	if nParse == 0 || len(blocks) == 0 {
		c.undecided(rule, "util.IsLocal in table form: the blocks are CIDR constants parsed by net.ParseCIDR", p.Pos(fn.Pos()), fmt.Sprintf("%d ParseCIDR call(s), %d CIDR constant(s) in common/util", nParse, len(blocks)))
		return true
	}
	wantV4 := func(b0, b1 int) bool {
		return b0 == 10 || (b0 == 172 && b1&0xf0 == 16) || (b0 == 192 && b1 == 168) || (b0 == 100 && b1&0xc0 == 64) || (b0 == 169 && b1 == 254)
	}
	var diffs []string
	nDiff := 0
	for _, n := range blocks {
		ones, bits := n.Mask.Size()
		narrow := (bits == 32 && ones > 16) || (bits == 128 && ones > 8)
		if !narrow {
			continue
		}
		inside := false
		if ip4 := n.IP.To4(); ip4 != nil && bits == 32 {
			inside = wantV4(int(ip4[0]), int(ip4[1]))
		} else if bits == 128 {
			inside = n.IP[0]&0xfe == 0xfc
		}
		if !inside {
			nDiff++
			diffs = append(diffs, fmt.Sprintf("%s lies outside the table", n.String()))
		}
	}
	for b0 := 0; b0 < 256; b0++ {
		for b1 := 0; b1 < 256; b1++ {
			got := false
			for _, n := range blocks {
				if ones, bits := n.Mask.Size(); bits == 32 && ones <= 16 && n.Contains(net.IPv4(byte(b0), byte(b1), 0, 0)) {
					got = true
				}
			}
			if got != wantV4(b0, b1) {
				nDiff++
				if len(diffs) < 4 {
					diffs = append(diffs, fmt.Sprintf("%d.%d.x.x: IsLocal=%v, table=%v", b0, b1, got, wantV4(b0, b1)))
				}
			}
		}
		got6 := false
		ip6 := make(net.IP, 16)
		ip6[0] = byte(b0)
		for _, n := range blocks {
			if ones, bits := n.Mask.Size(); bits == 128 && ones <= 8 && n.Contains(ip6) {
				got6 = true
			}
		}
		if want6 := b0&0xfe == 0xfc; got6 != want6 {
			nDiff++
			if len(diffs) < 4 {
				diffs = append(diffs, fmt.Sprintf("%02x00::/8: IsLocal=%v, table=%v", b0, got6, want6))
			}
		}
	}
	want := []string{"10.0.0.0/8", "100.64.0.0/10", "169.254.0.0/16", "172.16.0.0/12", "192.168.0.0/16", "fc00::/7"}
	c.check(nDiff == 0, rule, "util.IsLocal (table of CIDR blocks) decides exactly the RFC 1918/6598/3927/4193 ranges", p.Pos(fn.Pos()), fmt.Sprintf("blocks %s, evaluated over all 65536 leading IPv4 byte pairs and 256 leading IPv6 bytes against %s", strings.Join(names, " "), strings.Join(want, " ")),
		fmt.Sprintf("the blocks {%s} differ from the table {%s} on %d leading-byte classes (%s): an address on a range boundary is misclassified (a private address is sent to the broker, or a public candidate is dropped)", strings.Join(names, " "), strings.Join(want, " "), nDiff, strings.Join(diffs, "; ")))
	return true
}
