package main

import (
	"fmt"
	"go/types"
	"sort"
	"strings"

	"golang.org/x/tools/go/ssa"
)

func init() {
	register("C15", propMeta{
		Explanation: "E-GUARD + E-LOCK x E-CHAN + E-PANIC on client/lib. O-1 capacity gate: in Collect the rendezvous (Tongue.Catch) is reachable only through the false edge of count >= max, with collectLock held continuously from the count to the insertion into activePeers, which has no other inserter; the hand-over channel's capacity is the maximum. O-2: Pop returns a peer only through the false edge of Closed() on that very peer. O-3 close-once: every close(ch) in client/lib is inside a sync.Once.Do closure or is a verified table row; O-3b no send can race with a close: for every channel that is both closed and sent on, one mutex is held at the close and at every send. O-4: while collectLock is held every channel operation is polling or is a select with a case on the melt channel (End needs the lock). O-5 shutdown reaches every loop: connectLoop blocks only in a select with a Melted() case that returns; Collect tests melt first under the lock; End closes melt before taking the lock and then closes every peer it holds; SnowflakeConn.Close reaches End, the packet conn, the session and the stream on all paths; the staleness loop selects on the peer's closed channel. O-6 a failed attempt cannot terminate the process: from Collect no reachable repository code contains an undischarged panic/Fatal/Exit/assertion, pointer results are used only behind their err == nil edge, and a field that a failing method may leave nil is not dereferenced before that method's error is tested. Each clause is a necessary condition: e.g. an unconditional send under collectLock makes Close hang once spare peers went stale. Added after the second seeding round: O-6d every construction of an event type whose String() calls Error() on a field without a nil test supplies a value that is non-nil at the construction site (fresh error, behind its != nil edge, or the argument of an error callback). The melt test and the hand-over select may live in helpers of Collect (boolean-helper summaries, entry locksets). Added after the third seeding round: the closed mark precedes the teardown steps in WebRTCPeer.Close; the rendezvous transport keeps ResponseHeaderTimeout (borrowed from C01); a vanished Count() use in the capacity test is a violation. Added after the fourth seeding round: every peer caught by Collect is inserted into activePeers or closed on every path; O-2b the data channel's OnClose callback reaches WebRTCPeer.Close; a close inside a function whose only call site is a Once.Do body counts as close-once. Added after the fifth seeding round: O-4b BrokerChannel.lock is not held across RendezvousMethod.Exchange; O-7/C20 goroutine bodies of the client write only state with a protection row (one connection's SOCKS arguments do not reach the next); Count() may be written out as purgeClosedPeers() plus activePeers.Len(). Added after the sixth seeding round and the mutation audit: O-1c purgeClosedPeers removes exactly the peers whose Closed() is true; O-6e every ICEServer built from the configuration has a URL list literal at least as long as the constant index the NAT probe reads; O-9 a failure return that comes after one that closes a resource closes it too (E-CLEANUP). O-10/C20 lock pairing of client/lib; O-11 in functions of client/lib that return an error a failure branch does not run on into code that can still end in success.",
		NotDecided:  "bounded time of Close, pion callback behaviour after Close, the TOCTOU between Closed() in Pop and first use, panics inside third-party code.",
		Assumptions: []string{"pion fires OnOpen at most once per data channel (table row)", "crypto/rand failure is not a rendezvous failure (two panic rows)", "lock identity is (type, field)"},
	}, runC15)
}

func runC15(c *Ctx) {
	p := c.P
	cl := p.FnsIn("client/lib")
	for _, fn := range cl {
		c.analysedFn(p.FnName(fn))
	}
	le := p.Locks()
	collect := p.Fn("client/lib", "(*Peers).Collect")
	pop := p.Fn("client/lib", "(*Peers).Pop")
	end := p.Fn("client/lib", "(*Peers).End")
	if collect == nil || pop == nil || end == nil {
		c.undecided("O-0 anchors", "Peers.Collect/Pop/End", "-", "anchor does not resolve")
		return
	}
	const CL = "Peers.collectLock"

	// ---------- O-6e the NAT probe indexes only what the configuration parser guarantees ----------
	// updateNATType reads server.URLs[0] of every configured ICE server in a goroutine nothing recovers: an entry
	// with an empty URL list ends the client process
	{
		ruleU := "O-6e constant indexes into ICE server URL lists"
		var sites []ssa.Instruction
		var maxIdx int64
		for _, fn := range cl {
			allInstrs(fn, func(in ssa.Instruction) {
				var x, idx ssa.Value
				switch v := in.(type) {
				case *ssa.IndexAddr:
					x, idx = v.X, v.Index
				case *ssa.Index:
					x, idx = v.X, v.Index
				default:
					return
				}
				k, ok := constInt(idx)
				if !ok {
					return
				}
				if _, f, okf := fieldLoad(x); okf && f.Name() == "URLs" && fieldOwnerName(f) == "ICEServer" {
					if len(lenAtLeastEdges(fn, x, k+1)) > 0 && reachableWithout(fn, in, lenAtLeastEdges(fn, x, k+1)) == nil {
						return // guarded where it is used
					}
					sites = append(sites, in)
					if k > maxIdx {
						maxIdx = k
					}
				}
			})
		}
		if len(sites) > 0 {
			// every ICEServer this package builds has a URL list literal long enough
			bad := ""
			nLit := 0
			for _, fn := range cl {
				allInstrs(fn, func(in ssa.Instruction) {
					st, ok := in.(*ssa.Store)
					if !ok {
						return
					}
					_, f, okf := fieldOfAddr(st.Addr)
					if !okf || f.Name() != "URLs" || fieldOwnerName(f) != "ICEServer" {
						return
					}
					nLit++
					long := false
					if sl, isSl := st.Val.(*ssa.Slice); isSl {
						if al, isAl := sl.X.(*ssa.Alloc); isAl {
							if at, isArr := al.Type().Underlying().(*types.Pointer).Elem().Underlying().(*types.Array); isArr && at.Len() > maxIdx {
								long = true
							}
						}
					}
					if !long {
						bad = p.instrPos(in)
					}
				})
			}
			if bad != "" {
				c.viol(ruleU, "every ICE server built from the configuration has the URL the NAT probe reads", bad, fmt.Sprintf("an ICEServer is built whose URLs is not a literal of at least %d element(s) while %s indexes URLs[%d] without a length test: an entry that yields no URL (an empty item of the -ice list) makes the probe goroutine panic and the client exit", maxIdx+1, p.instrPos(sites[0]), maxIdx))
			} else {
				c.ok(ruleU, "every ICE server built from the configuration has the URL the NAT probe reads", p.instrPos(sites[0]), fmt.Sprintf("%d unguarded constant index site(s), %d URL list literal(s), all long enough", len(sites), nLit))
			}
		} else {
			c.okTrivial(ruleU, "every ICE server built from the configuration has the URL the NAT probe reads", "-", "no unguarded constant index into ICEServer.URLs")
		}
	}

	// ---------- O-1c closed peers leave the count ----------
	// Count() is what the capacity gate compares with the maximum: a closed peer that stays in activePeers is
	// counted for ever, and after max peers have died the client never collects another one.
	if purge := p.FnLoose("client/lib", "(*Peers).purgeClosedPeers"); purge != nil {
		var closedCalls []ssa.Value
		for _, ci := range callsIn(purge) {
			if f := staticCallee(ci); f != nil && f.Name() == "Closed" {
				if v, ok := ci.(ssa.Value); ok {
					closedCalls = append(closedCalls, v)
				}
			}
		}
		var removes []ssa.Instruction
		for _, ci := range callsIn(purge) {
			if calleeName(ci) == "(*container/list.List).Remove" {
				removes = append(removes, ci)
			}
		}
		ruleC := "O-1c closed peers leave the count"
		if len(closedCalls) == 0 {
			c.undecided(ruleC, "purgeClosedPeers removes the closed peers", p.Pos(purge.Pos()), "no Closed() test found")
		} else if len(removes) == 0 {
			c.viol(ruleC, "purgeClosedPeers removes the closed peers", p.Pos(purge.Pos()), "no element is removed from activePeers: peers that have closed are counted against the maximum for ever")
		} else {
			edges := boolEdges(purge, true, func(v ssa.Value) bool {
				for _, cc := range closedCalls {
					if strip(v) == cc {
						return true
					}
				}
				return false
			})
			good := len(edges) > 0
			for _, rm := range removes {
				if reachableWithout(purge, rm, edges) != nil {
					good = false
				}
			}
			// and the true edge leads to a Remove on every path to the next element
			for _, e := range edges {
				hit := false
				for _, rm := range removes {
					if rm.Block() == e.To() || e.To().Dominates(rm.Block()) {
						hit = true
					}
				}
				if !hit {
					good = false
				}
			}
			c.check(good, ruleC, "purgeClosedPeers removes the closed peers", p.Pos(purge.Pos()), fmt.Sprintf("%d Remove call(s) behind Closed() == true", len(removes)), "activePeers.Remove is not what happens exactly when Closed() is true: live peers are dropped from the count or closed ones stay in it")
		}
	}

	// a step that failed is not carried on with: in a function that reports errors, the branch for a non-nil error
	// does not run on into code that can still end in success (a rendezvous that failed is not "negotiated")
	c.checkErrorBranchesLeaveMode("O-11 a failed step is not carried on with", cl, true)
	// a client mutex left locked blocks End (collectLock) or the next callback (C20's pairing rule)
	c.prefix = "O-10/C20:"
	c.checkLockPairing("O-2 lock pairing", cl)
	c.prefix = ""
	// ---------- O-9 a failed step releases what the earlier steps created ----------
	c.checkCleanupOnErrorPaths("O-9 failure returns release what was created", cl)

	// ---------- O-1 capacity gate ----------
	rule1 := "O-1 capacity gate"
	var catch, count, getMax *ssa.Call
	var pushBack ssa.CallInstruction
	for _, ci := range callsIn(collect) {
		cc, _ := ci.(*ssa.Call)
		switch n := calleeName(ci); {
		case n == "(client/lib.Tongue).Catch":
			catch = cc
		case n == "(client/lib.Tongue).GetMax":
			getMax = cc
		case n == "(*client/lib.Peers).Count":
			count = cc
		case n == "(*container/list.List).PushBack":
			pushBack = ci
		}
	}
	if count == nil {
		// Count() written out at the gate: activePeers.Len() taken after purgeClosedPeers()
		var purge, ln *ssa.Call
		for _, ci := range callsIn(collect) {
			cc, _ := ci.(*ssa.Call)
			if cc == nil {
				continue
			}
			switch calleeName(ci) {
			case "(*client/lib.Peers).purgeClosedPeers":
				purge = cc
			case "(*container/list.List).Len":
				if _, f, okf := fieldLoad(cc.Call.Args[0]); okf && f.Name() == "activePeers" {
					ln = cc
				}
			}
		}
		if purge != nil && ln != nil && precedes(purge, ln) {
			count = ln
		}
	}
	if count == nil && catch != nil && getMax != nil {
		c.missingOrMoved(rule1, "Collect compares the number of live peers with the maximum", collect, func(in ssa.Instruction) bool {
			ci, ok := in.(ssa.CallInstruction)
			return ok && calleeName(ci) == "(*client/lib.Peers).Count"
		}, "the call of Peers.Count()", "the capacity gate does not count the peers that are alive (popped peers still in use included): more than the maximum can be open at once")
	} else if catch == nil || count == nil || getMax == nil || pushBack == nil {
		c.undecided(rule1, "Collect: Count/GetMax/Catch/PushBack", p.Pos(collect.Pos()), "one of the calls was not found")
	} else {
		// edges on which  Count() < GetMax()  is known (any source form)
		gate := cmpEdges(collect, "<", func(v ssa.Value) bool { return strip(v) == ssa.Value(count) }, func(v ssa.Value) bool { return strip(v) == ssa.Value(getMax) })
		path := reachableWithout(collect, catch, gate)
		c.check(len(gate) > 0 && path == nil, rule1, "Collect reaches Tongue.Catch only when Count() < GetMax()", p.instrPos(catch), "false edge of cnt >= capacity",
			"the rendezvous is reachable without the count having been found strictly below the maximum (gate missing, weakened or computed on other values)", p.pathString(path)...)
		held := le.Held(count, CL) >= heldWrite && le.Held(catch, CL) >= heldWrite && le.Held(pushBack, CL) >= heldWrite
		nLock := 0
		for _, ci := range callsIn(collect) {
			if k, kind := lockOp(ci); kind == opLock && k == CL {
				if _, d := ci.(*ssa.Defer); !d {
					nLock++
				}
			}
		}
		c.check(held && nLock == 1, rule1, "Collect: count, rendezvous and insertion in one collectLock critical section", p.Pos(collect.Pos()), "", "the count check and the insertion into activePeers are not one critical section: two collectors can both pass the gate")
		// PushBack's argument is the caught peer
		c.check(isResultOf(pushBack.Common().Args[1], 0, "(client/lib.Tongue).Catch"), rule1, "Collect inserts the peer it caught", p.instrPos(pushBack), "", "the value inserted into activePeers is not the result of Catch")
		// every caught peer ends up tracked (End closes what activePeers holds) or closed: a peer that is neither
		// stays open after Close has returned
		if cc := catch; cc != nil {
			okE := errNilEdges(collect, cc, 1)
			isKeepOrClose := func(in ssa.Instruction) bool {
				ci, ok := in.(ssa.CallInstruction)
				if !ok {
					return false
				}
				switch calleeName(ci) {
				case "(*container/list.List).PushBack", "(*container/list.List).PushFront":
					return len(ci.Common().Args) > 1 && isResultOfCall(ci.Common().Args[1], cc, 0)
				case "(*client/lib.WebRTCPeer).Close":
					return isResultOfCall(ci.Common().Args[0], cc, 0)
				}
				return false
			}
			good := len(okE) > 0
			var wp []*ssa.BasicBlock
			for _, e := range okE {
				if pth := escapesWithout(e.To(), isKeepOrClose); pth != nil {
					good, wp = false, pth
				}
			}
			c.check(good, rule1, "Collect tracks or closes every peer it caught", p.instrPos(cc), "on every path from the successful rendezvous", "a caught peer can leave Collect neither in activePeers nor closed (for example on the melt branch): it outlives Close", p.pathString(wp)...)
		}
	}
	// who-may-insert
	nIns := 0
	for _, fn := range cl {
		for _, ci := range callsTo(fn, "(*container/list.List).PushBack", "(*container/list.List).PushFront", "(*container/list.List).InsertBefore", "(*container/list.List).InsertAfter") {
			_, f, ok := fieldLoad(ci.Common().Args[0])
			if ok && f.Name() == "activePeers" {
				nIns++
				c.check(fn == collect, rule1, p.FnName(fn)+" inserts into activePeers", p.instrPos(ci), "", "peers are added to activePeers outside Collect, bypassing the capacity gate")
			}
		}
	}
	if nIns == 0 {
		c.undecided(rule1, "insertions into activePeers", "-", "none found")
	}
	// snowflakeChan capacity = GetMax()
	for _, fn := range cl {
		for _, op := range chanOpsIn(p, fn) {
			if op.Dir == chMake && makeChanFieldClass(op.Instr.(*ssa.MakeChan)) == "Peers.snowflakeChan" {
				c.check(isResultOf(op.Instr.(*ssa.MakeChan).Size, 0, "(client/lib.Tongue).GetMax"), rule1, "snowflakeChan capacity is the configured maximum", p.instrPos(op.Instr), "", "hand-over channel capacity is not Tongue.GetMax()")
			}
		}
	}

	// ---------- O-2 no closed peer to the data path ----------
	rule2 := "O-2 Pop never returns a closed peer"
	{
		n := 0
		for _, r := range returnsOf(pop) {
			if isNilConst(r.Results[0]) {
				continue
			}
			n++
			v := strip(r.Results[0])
			open := boolEdges(pop, false, func(w ssa.Value) bool {
				cc, _, ok := callResult(w)
				return ok && calleeName(cc) == "(*client/lib.WebRTCPeer).Closed" && strip(cc.Call.Args[0]) == v
			})
			path := reachableWithout(pop, r, open)
			c.check(len(open) > 0 && path == nil, rule2, "Pop returns a peer only after Closed() == false on it", p.instrPos(r), "", "a peer can be returned without having been found open", p.pathString(path)...)
		}
		if n == 0 {
			c.undecided(rule2, "Pop returns", p.Pos(pop.Pos()), "no non-nil return")
		}
		// dialContext treats nil as an error
		if ns := p.Fn("client/lib", "newSession"); ns != nil {
			okNil := false
			for _, clo := range closuresNear(ns, 1) {
				for _, ci := range callsIn(clo) {
					cc, ok := ci.(*ssa.Call)
					if !ok || calleeName(cc) != "(client/lib.SnowflakeCollector).Pop" {
						continue
					}
					nonNil := nilCheckEdges(clo, false, func(v ssa.Value) bool { return v == ssa.Value(cc) })
					uses := p.derefUses(clo, cc)
					okNil = len(nonNil) > 0
					for _, u := range uses {
						if reachableWithout(clo, u, nonNil) != nil {
							okNil = false
						}
					}
					// invoke on interface value (conn.Write) is also a use
					allInstrs(clo, func(in ssa.Instruction) {
						if ci2, ok := in.(ssa.CallInstruction); ok && len(callArgs(ci2)) > 0 && strip(callArgs(ci2)[0]) == ssa.Value(cc) && ci2 != ssa.CallInstruction(cc) {
							if reachableWithout(clo, in, nonNil) != nil {
								okNil = false
							}
						}
					})
				}
			}
			c.check(okNil, rule2, "dialContext uses the popped peer only when it is non-nil", p.Pos(ns.Pos()), "", "the data path uses the result of Pop without a nil test (Pop returns nil after End)")
		}
	}

	// a peer whose data channel the other side closed marks itself closed: the OnClose callback of the data
	// channel reaches WebRTCPeer.Close (otherwise Closed() stays false and Pop hands the dead peer to the data path)
	{
		ruleC := "O-2b a remotely closed peer reports Closed()"
		prep := p.Fn("client/lib", "(*WebRTCPeer).preparePeerConnection")
		closeFn := p.Fn("client/lib", "(*WebRTCPeer).Close")
		if prep == nil || closeFn == nil {
			c.undecided(ruleC, "WebRTCPeer.preparePeerConnection/Close", "-", "anchor does not resolve")
		} else {
			n := 0
			for _, d := range deepCalls(prep, 2, "(*github.com/pion/webrtc/v3.DataChannel).OnClose") {
				ci, ok := d.In.(ssa.CallInstruction)
				if !ok {
					continue
				}
				n++
				var cb *ssa.Function
				switch v := strip(ci.Common().Args[1]).(type) {
				case *ssa.MakeClosure:
					cb, _ = v.Fn.(*ssa.Function)
				case *ssa.Function:
					cb = v
				}
				reaches := false
				if cb != nil {
					for _, fn := range deepFns(cb, 3) {
						for _, c2 := range callsIn(fn) {
							if staticCallee(c2) == closeFn {
								reaches = true
							}
						}
					}
				}
				c.check(reaches, ruleC, "the data channel's OnClose callback closes the peer", p.instrPos(ci), "", "when the remote side closes the data channel the peer is not closed: Closed() keeps reporting false for a peer whose transport is gone, and Pop returns it")
			}
			if n == 0 {
				c.viol(ruleC, "the data channel's OnClose callback closes the peer", p.Pos(prep.Pos()), "no OnClose callback is registered on the data channel: a remote close goes unnoticed")
			}
		}
	}

	// each SOCKS connection is configured by its own arguments only (C20's obligation on goroutine bodies: a
	// handler that writes into a configuration shared with later handlers lets one connection's max, url or ice
	// settings govern the next)
	c.prefix = "O-7/C20:"
	c.checkGoroutineFieldWrites("O-6 goroutine bodies modify only state with a protection row", p.FnsIn("client", "client/lib"))
	c.prefix = ""

	// the mutex of the broker channel guards the NAT type only: it is not held across the exchange with the broker
	// (all connections of a Transport share the channel; Close of one would wait for the others' rendezvous)
	{
		ruleL := "O-4b the rendezvous is not serialised by the NAT-type lock"
		n := 0
		for _, fn := range cl {
			for _, ci := range callsIn(fn) {
				if calleeName(ci) != "(client/lib.RendezvousMethod).Exchange" {
					continue
				}
				n++
				c.check(le.Held(ci, "BrokerChannel.lock") == heldNone, ruleL, p.FnName(fn)+" exchanges with the broker without holding BrokerChannel.lock", p.instrPos(ci), "", "BrokerChannel.lock is held across the broker round trip: rendezvous attempts of all connections sharing the channel run one after the other, and closing a connection waits for them")
			}
		}
		if n == 0 {
			c.undecided(ruleL, "RendezvousMethod.Exchange call", "-", "none found in client/lib")
		}
	}

	// ---------- O-3 close-once ----------
	rule3 := "O-3 close-once"
	closeRows := map[string]string{
		"client/lib.(*WebRTCPeer).preparePeerConnection$1 close WebRTCPeer.open": "pion fires OnOpen at most once per data channel and the channel is created per peer",
	}
	nClose := 0
	type clsOps struct{ closes, sends []chanOp }
	classes := map[string]*clsOps{}
	for _, fn := range cl {
		for _, op := range chanOpsIn(p, fn) {
			if op.Dir != chClose && op.Dir != chSend {
				continue
			}
			co := classes[op.Class]
			if co == nil {
				co = &clsOps{}
				classes[op.Class] = co
			}
			if op.Dir == chSend {
				co.sends = append(co.sends, op)
				continue
			}
			co.closes = append(co.closes, op)
			nClose++
			key := fmt.Sprintf("%s close %s", p.FnName(fn), op.Class)
			if onceClosure(p, fn) {
				c.ok(rule3, key, p.instrPos(op.Instr), "inside a sync.Once.Do closure")
			} else if runsOnlyUnderOnce(p, fn, 3) {
				c.ok(rule3, key, p.instrPos(op.Instr), "in a function whose only call site lies inside a sync.Once.Do closure")
			} else if why, ok := closeRows[key]; ok {
				c.ok(rule3, key, p.instrPos(op.Instr), "table row: "+why)
			} else {
				c.viol(rule3, key, p.instrPos(op.Instr), "close of a channel outside sync.Once.Do (and not a verified table row): a second call panics with 'close of closed channel'")
			}
		}
	}
	c.count("close sites in client/lib", nClose)
	for _, cls := range sortedClassKeys(classes) {
		co := classes[cls]
		if len(co.closes) == 0 || len(co.sends) == 0 {
			continue
		}
		for _, cop := range co.closes {
			for _, sop := range co.sends {
				common := ""
				if st, ok := le.at[cop.Instr]; ok && !st.top {
					for k := range st.m {
						if le.Held(sop.Instr, k) != heldNone {
							common = k
						}
					}
				}
				c.check(common != "", "O-3b no send races with a close", fmt.Sprintf("close of %s in %s vs send in %s", cls, p.FnName(cop.Fn), p.FnName(sop.Fn)), p.instrPos(cop.Instr),
					"both under "+common, "no mutex is held at both the close and the send: the send can hit a closed channel and panic")
			}
		}
	}

	// ---------- O-4 nothing parks under collectLock ----------
	rule4 := "O-4 nothing parks while holding collectLock"
	nUnder := 0
	for _, fn := range cl {
		for _, op := range chanOpsIn(p, fn) {
			if op.Dir == chMake || op.Dir == chClose || le.Held(op.Instr, CL) == heldNone {
				continue
			}
			if op.Sel != nil && op.State != 0 && op.Mode != "polling" {
				// report each select once (state 0)
				continue
			}
			nUnder++
			key := fmt.Sprintf("%s %s under collectLock", p.FnName(fn), op.String())
			switch {
			case op.Mode == "polling":
				c.ok(rule4, key, p.instrPos(op.Instr), "non-blocking")
			case op.Sel != nil && selectHasCase(p, op.Sel, "Peers.melt"):
				c.ok(rule4, key, p.instrPos(op.Instr), "select with a case on the melt channel")
			default:
				c.viol(rule4, key, p.instrPos(op.Instr), "a blocking channel operation with collectLock held and no melt case: once the hand-over queue is full the holder parks and End/Close waits for the lock for ever")
			}
		}
	}
	if nUnder == 0 {
		c.undecided(rule4, "channel operations under collectLock", "-", "none found (expected the melt test and the hand-over send in Collect)")
	}

	// ---------- O-5 shutdown reaches every loop ----------
	c.checkClientShutdown(le)

	// ---------- O-6 a failed attempt cannot terminate the process ----------
	rule6 := "O-6 a failed attempt cannot terminate the process"
	randRows := map[string]bool{"client/lib.NewWebRTCPeerWithEvents": true, "common/amp.EncodePath": true}
	reached := c.checkTerminators(rule6, []*ssa.Function{collect}, func(t Term) string {
		if t.Kind == "panic" && randRows[p.FnName(t.Fn)] {
			// verify the row: the panic is behind the err != nil edge of a crypto/rand read
			pi := t.Instr.(*ssa.Panic)
			for _, ci := range callsTo(t.Fn, "crypto/rand.Read", "io.ReadFull") {
				cc, ok := ci.(*ssa.Call)
				if !ok {
					continue
				}
				if reachableWithout(t.Fn, pi, errEdges(t.Fn, cc, 1, false)) == nil && len(errEdges(t.Fn, cc, 1, false)) > 0 {
					return "table row: only reachable when the system random source fails (not a rendezvous failure)"
				}
			}
		}
		return ""
	})
	c.checkResultUse("O-6b pointer results used only after their error check", filterRel(reached, "client/lib", "common/util", "common/amp", "common/messages"), nil)
	sums := p.nilFieldSummaries(cl)
	c.count("nil-after-error field summaries", len(sums))
	c.checkFieldAfterError("O-6c field left nil by a failing method is not used before the error test", cl, sums)
	c.checkEventErrors("O-6d events carry the error their String() dereferences")
	// Pop skips peers by Closed(): the mark must precede the teardown (C01's obligation); and a rendezvous
	// attempt is bounded, or Collect parks under collectLock for ever and End/Close never return (C01's)
	c.prefix = "O-2b/C01:"
	c.checkClosedBeforeTeardown("O-7 liveness glue")
	c.checkBoundedRendezvous("O-7 liveness glue")
	c.prefix = ""
	if len(sums) == 0 {
		c.undecided("O-6c field left nil by a failing method is not used before the error test", "summaries", "-", "no (field, method) summary found; expected WebRTCPeer.pc set by preparePeerConnection")
	}
}

func filterRel(fns []*ssa.Function, rels ...string) []*ssa.Function {
	var out []*ssa.Function
	for _, fn := range fns {
		if fn.Synthetic != "" {
			continue
		}
		for _, r := range rels {
			if strings.HasPrefix(funcFullName(fn), r) || strings.Contains(funcFullName(fn), "("+r+".") || strings.Contains(funcFullName(fn), "(*"+r+".") {
				out = append(out, fn)
				break
			}
		}
	}
	return out
}

func sortedClassKeys[T any](m map[string]T) []string {
	s := map[string]bool{}
	for k := range m {
		s[k] = true
	}
	return sortedKeys(s)
}

// onceClosure: fn is a closure whose only use is as the argument of sync.Once.Do.
func onceClosure(p *Prog, fn *ssa.Function) bool {
	sites := p.closureSites[fn]
	if len(sites) == 0 {
		return false
	}
	for _, mc := range sites {
		if mc.Referrers() == nil {
			return false
		}
		for _, r := range *mc.Referrers() {
			ci, ok := r.(ssa.CallInstruction)
			if !ok || calleeName(ci) != "(*sync.Once).Do" {
				if _, dbg := r.(*ssa.DebugRef); dbg {
					continue
				}
				return false
			}
		}
	}
	return true
}

// checkNoSendRacesClose: for every channel class that is both closed and sent on
// in fns, one mutex is held at the close and at every send. A send that can run
// concurrently with the close panics ("send on closed channel") and is a data
// race; a receive is not (it observes the close).
func (c *Ctx) checkNoSendRacesClose(rule string, fns []*ssa.Function) {
	p := c.P
	le := p.Locks()
	type clsOps struct{ closes, sends []chanOp }
	classes := map[string]*clsOps{}
	for _, fn := range fns {
		for _, op := range chanOpsIn(p, fn) {
			if op.Dir != chClose && op.Dir != chSend {
				continue
			}
			if strings.HasPrefix(op.Class, "local:") || strings.HasPrefix(op.Class, "param:") || strings.HasPrefix(op.Class, "call:") || strings.HasPrefix(op.Class, "captured:") || op.Class == "?" || op.Class == "phi" || op.Class == "extract" {
				continue
			}
			co := classes[op.Class]
			if co == nil {
				co = &clsOps{}
				classes[op.Class] = co
			}
			if op.Dir == chSend {
				co.sends = append(co.sends, op)
			} else {
				co.closes = append(co.closes, op)
			}
		}
	}
	n := 0
	for _, cls := range sortedClassKeys2(classes) {
		co := classes[cls]
		if len(co.closes) == 0 || len(co.sends) == 0 {
			continue
		}
		for _, cop := range co.closes {
			for _, sop := range co.sends {
				if cop.Fn == sop.Fn {
					continue // one goroutine: the close and the send are alternatives or in sequence, not concurrent
				}
				n++
				common := ""
				if st, ok := le.at[cop.Instr]; ok && !st.top {
					for k := range st.m {
						if le.Held(cop.Instr, k) != heldNone && le.Held(sop.Instr, k) != heldNone {
							common = k
						}
					}
				}
				c.check(common != "", rule, fmt.Sprintf("close of %s in %s vs send in %s", cls, p.FnName(cop.Fn), p.FnName(sop.Fn)), p.instrPos(sop.Instr),
					"both under "+common, "no mutex is held at both the close and the send: the send can hit the closed channel (panic: send on closed channel) and races with the close")
			}
		}
	}
	if n == 0 {
		c.okTrivial(rule, "channels that are both closed and sent on", "-", "none in the analysed functions")
	}
}

func sortedClassKeys2[T any](m map[string]T) []string {
	var out []string
	for k := range m {
		out = append(out, k)
	}
	sort.Strings(out)
	return out
}

// runsOnlyUnderOnce: fn is a sync.Once.Do closure, or an unexported function
// that is never used as a value and whose single call site lies in such a
// function (a cleanup helper called from the once body).
func runsOnlyUnderOnce(p *Prog, fn *ssa.Function, depth int) bool {
	if onceClosure(p, fn) {
		return true
	}
	if depth <= 0 {
		return false
	}
	site := uniqueSite(fn)
	if site == nil {
		return false
	}
	return runsOnlyUnderOnce(p, site.Parent(), depth-1)
}

func selectHasCase(p *Prog, sel *ssa.Select, class string) bool {
	for _, st := range sel.States {
		if chanClass(p, st.Chan) == class {
			return true
		}
	}
	return false
}

func (c *Ctx) checkClientShutdown(le *LockEngine) {
	p := c.P
	rule := "O-5 shutdown reaches every loop"
	const CL = "Peers.collectLock"
	// connectLoop
	if cloop := p.Fn("client/lib", "connectLoop"); cloop != nil {
		bad := 0
		n := 0
		for _, op := range chanOpsIn(p, cloop) {
			if op.Dir == chMake || op.Dir == chClose || op.Mode == "polling" {
				continue
			}
			if op.Sel != nil && op.State != 0 {
				continue
			}
			n++
			melted := false
			if op.Sel != nil {
				for i, st := range op.Sel.States {
					if cc, _, ok := callResult(st.Chan); ok && calleeName(cc) == "(client/lib.SnowflakeCollector).Melted" {
						// that case returns
						if blk := selectCaseBlock(op.Sel, i); blk != nil {
							if path := psSearch(blk, nil, nil, func(b *ssa.BasicBlock) bool { return b == op.Sel.Block() }); path == nil {
								melted = true
							}
						}
					}
				}
			}
			if !melted {
				bad++
				c.viol(rule, "connectLoop blocks only where melt wakes it and ends it", p.instrPos(op.Instr), "a blocking point of the collection loop has no Melted() case that leaves the loop: rendezvous attempts continue after Close")
			}
		}
		if bad == 0 && n > 0 {
			c.ok(rule, "connectLoop blocks only where melt wakes it and ends it", p.Pos(cloop.Pos()), fmt.Sprintf("%d blocking point(s), each a select with a Melted() case that returns", n))
		} else if n == 0 {
			c.undecided(rule, "connectLoop", p.Pos(cloop.Pos()), "no blocking point found")
		}
	} else {
		c.undecided(rule, "connectLoop", "-", "anchor does not resolve")
	}
	// Collect tests melt first under the lock: Catch is reachable only through the
	// "melt did not fire" edge of a polling select on melt taken with the lock held
	// (directly, or through a boolean helper whose result is decided by such a select)
	if collect := p.Fn("client/lib", "(*Peers).Collect"); collect != nil {
		notMelted := func(fn *ssa.Function) []Edge {
			var out []Edge
			for _, op := range chanOpsIn(p, fn) {
				if op.Dir == chRecv && op.Class == "Peers.melt" && op.Mode == "polling" && le.Held(op.Instr, CL) >= heldWrite {
					if e, ok := selectCaseEdge(op.Sel, op.State); ok {
						out = append(out, Edge{From: e.From, Idx: 1 - e.Idx})
					}
				}
			}
			return out
		}
		edges := predEdges(collect, notMelted, 2)
		catches := deepCalls(collect, 2, "(client/lib.Tongue).Catch")
		okMelt := len(edges) > 0 && len(catches) > 0
		for _, d := range catches {
			if path := reachableWithout(collect, d.Top, edges); path != nil {
				okMelt = false
			}
		}
		c.check(okMelt, rule, "Collect tests melt under the lock before any rendezvous", p.Pos(collect.Pos()), "", "Collect can start a rendezvous although End has been called")
	}
	// End: close(melt) before taking the lock, then closes every peer
	if end := p.Fn("client/lib", "(*Peers).End"); end != nil {
		fns := withAnon(end)
		var closeMelt, lockCall ssa.Instruction
		closesPeers := false
		for _, fn := range fns {
			for _, op := range chanOpsIn(p, fn) {
				if op.Dir == chClose && op.Class == "Peers.melt" {
					closeMelt = op.Instr
				}
			}
			for _, ci := range callsIn(fn) {
				if k, kind := lockOp(ci); kind == opLock && k == CL {
					if _, d := ci.(*ssa.Defer); !d && lockCall == nil {
						lockCall = ci
					}
				}
				if calleeName(ci) == "(*client/lib.WebRTCPeer).Close" && inCycle(ci.Block()) && le.Held(ci, CL) >= heldWrite {
					// receiver comes from the activePeers list
					if flows(ci.Common().Args[0], func(v ssa.Value) bool { _, f, ok := fieldLoad(v); return ok && f.Name() == "activePeers" }) {
						closesPeers = true
					}
				}
			}
		}
		c.check(closeMelt != nil && lockCall != nil && closeMelt.Parent() == lockCall.Parent() && precedes(closeMelt, lockCall) && le.Held(closeMelt, CL) == heldNone,
			rule, "End closes melt before taking collectLock", p.Pos(end.Pos()), "", "melt is not closed ahead of the lock: a collector parked under the lock is never told to give up")
		c.check(closesPeers, rule, "End closes every peer in activePeers under the lock", p.Pos(end.Pos()), "", "End does not close each held peer")
	}
	// SnowflakeConn.Close reaches End, pconn.Close, sess.Close, Stream.Close on all paths
	if cf := p.Fn("client/lib", "(*SnowflakeConn).Close"); cf != nil {
		for _, want := range []string{"(*client/lib.Peers).End", "(net.PacketConn).Close", "(*github.com/xtaci/smux.Session).Close", "(*github.com/xtaci/smux.Stream).Close"} {
			path := escapesWithout(cf.Blocks[0], func(in ssa.Instruction) bool {
				ci, ok := in.(ssa.CallInstruction)
				return ok && calleeName(ci) == want
			})
			c.check(path == nil, rule, "SnowflakeConn.Close calls "+want+" on every path", p.Pos(cf.Pos()), "", "a path of Close returns without "+want, p.pathString(path)...)
		}
	} else {
		c.undecided(rule, "SnowflakeConn.Close", "-", "anchor does not resolve")
	}
	// staleness loop
	if st := p.Fn("client/lib", "(*WebRTCPeer).checkForStaleness"); st != nil {
		ok := false
		for _, op := range chanOpsIn(p, st) {
			if op.Sel != nil && op.Dir == chRecv && op.Class == "WebRTCPeer.closed" {
				if blk := selectCaseBlock(op.Sel, op.State); blk != nil && psSearch(blk, nil, nil, func(b *ssa.BasicBlock) bool { return b == op.Sel.Block() }) == nil {
					ok = true
				}
			}
		}
		c.check(ok, rule, "checkForStaleness selects on the peer's closed channel and returns", p.Pos(st.Pos()), "", "the staleness goroutine does not stop when the peer is closed")
	}
}

// checkEventErrors: an event type of package event whose String() calls
// Error() on a field without a nil test must be constructed with a value that
// is non-nil at the construction site (a fresh error, a value behind its != nil
// edge, or the argument of an error callback): the client's PT event logger
// calls String() in the collecting goroutine, so a nil error there ends the
// process.
func (c *Ctx) checkEventErrors(rule string) {
	p := c.P
	// (type, field) pairs dereferenced unguarded in String()
	type tf struct {
		typ   string
		field *types.Var
	}
	var need []tf
	for _, fn := range p.FnsIn("common/event") {
		if fn.Name() != "String" || fn.Signature.Recv() == nil {
			continue
		}
		for _, ci := range callsIn(fn) {
			if !ci.Common().IsInvoke() || ci.Common().Method.Name() != "Error" {
				continue
			}
			_, f, ok := fieldLoad(ci.Common().Value)
			if !ok {
				continue
			}
			v := ci.Common().Value
			nonNil := nilCheckEdges(fn, false, func(w ssa.Value) bool { _, g, okg := fieldLoad(w); return okg && g == f })
			if len(nonNil) > 0 && reachableWithout(fn, ci, nonNil) == nil {
				continue // guarded
			}
			_ = v
			if n := namedOf(fn.Signature.Recv().Type()); n != nil {
				need = append(need, tf{n.Obj().Name(), f})
			}
		}
	}
	if len(need) == 0 {
		c.undecided(rule, "event types with an unguarded Error() in String()", "-", "none found (EventOnSnowflakeConnectionFailed expected)")
		return
	}
	for _, nd := range need {
		n := 0
		for _, st := range storesToField(p.FnsIn(), nd.field) {
			if p.Rel(st.Parent()) == "common/event" {
				continue
			}
			n++
			fn := st.Parent()
			v := st.Val
			good := definitelyNonNil(strip(v))
			why := "fresh error"
			if !good {
				if par, ok := strip(v).(*ssa.Parameter); ok && par.Parent().Parent() != nil {
					good, why = true, "argument of an error callback"
				}
			}
			if !good {
				nn := nilCheckEdges(fn, false, func(w ssa.Value) bool { return sameValue(w, func(x ssa.Value) bool { return x == strip(v) }) || w == v })
				if len(nn) > 0 && reachableWithout(fn, st, nn) == nil {
					good, why = true, "behind its != nil edge"
				}
			}
			c.check(good, rule, p.FnName(fn)+" builds event."+nd.typ+" with a non-nil "+nd.field.Name(), p.instrPos(st), why, "the event's "+nd.field.Name()+" may be nil here (a stale error variable): event."+nd.typ+".String() calls Error() on it without a test, and the PT event logger calls String() in the collecting goroutine - the client process panics on a failed attempt")
		}
		if n == 0 {
			c.undecided(rule, "constructions of event."+nd.typ, "-", "none found")
		}
	}
}
