package main

import (
	"fmt"
	"go/token"
	"go/types"
	"strings"

	"golang.org/x/tools/go/ssa"
)

func init() {
	register("C03", propMeta{
		Explanation: "E-GUARD + E-PROV + E-CONST. O-1 pool selection: AddSnowflake pushes to the heap loaded from field 'snowflakes' exactly on the natType == NATUnrestricted edge (else restrictedSnowflakes); the poll-timeout branch removes from the heap chosen by the same mapping on the same NAT value (sibling agreement); matchSnowflake pops from restrictedSnowflakes exactly on the client-NAT == NATUnrestricted edge, else from snowflakes (the complement). O-2 NAT vocabulary: the NAT constants of broker, common/nat and proxy/lib are equal, and both decoders accept exactly {\"\", unknown, restricted, unrestricted}, map \"\" to unknown, and reject everything else with an error. O-3 refusal only when the eligible pool is empty: matchSnowflake returns nil only through the false edge of Len() > 0 on the selected heap, test and pop in one critical section; ClientOffers answers 'no proxies' only when matchSnowflake returned nil. O-4 load order: Less compares the clients counts of its two arguments with strict <, clients never changes while queued, Swap/Push/Pop maintain index. Every clause is necessary: e.g. swapping the heaps in one branch gives a restricted client a restricted proxy. Added after the second seeding round: O-4 also requires that Push/Pop/Swap of SnowflakeHeap have no static caller (container/heap only); O-6 the legacy client format takes its NAT type from Header.Get(\"Snowflake-NAT-Type\") and hands it to the shared handler; O-7/C04 the deregistration obligations of C04 (a proxy leaves the pool it was put in on exactly the unclaimed edge). Added after the third seeding round: the guarded-by rows of the matching state are evaluated here too (O-6/C03); the goroutine started per poll captures only per-iteration variables (language version of go.mod taken into account); the NAT vocabulary may be a constant lookup table (keys = vocabulary, values = mapping) instead of comparisons. Added after the fourth seeding round: Less may consult any other criterion only behind the edge on which the two client counts are equal; Swap is judged by which element ends up in which slot, not by the spelling of the exchange. Added after the fifth seeding round: O-5b isRestrictedMapping compares address and port of the two mapped addresses (their String(), or IP and Port). Added after the sixth seeding round and the mutation audit: the chain decoded poll -> RequestOffer -> ProxyPoll -> AddSnowflake -> Snowflake is checked for id, proxyType, natType and clients alike; every path through AddSnowflake pushes the snowflake; O-5c the two mapped addresses are decoded from one round trip each, one to PrimaryAddr and one to OtherAddr. O-5d in common/nat a failed step of the measurement ends it (no failure branch runs on into the code for success). Added after the seventh seeding round: O-9/C12 the client count the pools are ordered by is the decoded field verbatim (a decoder that rounds it turns different loads into ties).",
		NotDecided:  "correctness of container/heap, fairness between simultaneous clients, the outcome of arbitrary concurrent histories beyond 'each client pops the current minimum of its eligible pool under the lock'.",
		Assumptions: []string{"container/heap maintains the heap order given a correct heap.Interface"},
	}, runC03)
}

// natBranchOf classifies how instruction `at` is reached relative to the
// comparisons `x == "unrestricted"` in fn: "yes" (only through true edges),
// "no" (only through false edges), "" otherwise. cmp receives the compared
// non-constant operands.
func natBranchOf(fn *ssa.Function, at *ssa.BasicBlock, cmp *[]ssa.Value) string {
	return natBranchOfEdge(fn, at, nil, cmp)
}

// natBranchOfEdge: as natBranchOf, for a value that arrives over the edge at -> to
// (a phi operand): the edge itself may be the true/false edge of the comparison.
func natBranchOfEdge(fn *ssa.Function, at, to *ssa.BasicBlock, cmp *[]ssa.Value) string {
	isUnrestricted := func(v ssa.Value) bool { s, ok := constString(v); return ok && s == "unrestricted" }
	other := func(a Atom) ssa.Value {
		if isUnrestricted(a.Y) {
			return a.X
		}
		return a.Y
	}
	match := func(a Atom) bool {
		if a.Op != token.EQL || !(isUnrestricted(a.X) || isUnrestricted(a.Y)) {
			return false
		}
		if cmp != nil {
			*cmp = append(*cmp, other(a))
		}
		return true
	}
	yes := condEdges(fn, true, match)
	no := condEdges(fn, false, func(a Atom) bool { return a.Op == token.EQL && (isUnrestricted(a.X) || isUnrestricted(a.Y)) })
	if len(yes) == 0 {
		return ""
	}
	if to != nil {
		for _, e := range yes {
			if e.From == at && e.To() == to {
				return "yes"
			}
		}
		for _, e := range no {
			if e.From == at && e.To() == to {
				return "no"
			}
		}
	}
	if reachPath(fn.Blocks[0], at, yes) == nil {
		return "yes"
	}
	if reachPath(fn.Blocks[0], at, no) == nil {
		return "no"
	}
	return ""
}

// heapChoice describes which BrokerContext heap field a heap value denotes and
// on which NAT branch; for a phi every incoming edge is classified.
type heapPick struct {
	Field  string
	Branch string
}

func heapPicks(fn *ssa.Function, heapVal ssa.Value, useBlock *ssa.BasicBlock, cmp *[]ssa.Value) ([]heapPick, bool) {
	v := heapVal
	if mi, ok := v.(*ssa.MakeInterface); ok {
		v = mi.X
	}
	if ph, ok := v.(*ssa.Phi); ok {
		var out []heapPick
		for i, e := range ph.Edges {
			_, f, ok := fieldLoad(e)
			if !ok {
				return nil, false
			}
			pred := ph.Block().Preds[i]
			out = append(out, heapPick{f.Name(), natBranchOfEdge(fn, pred, ph.Block(), cmp)})
		}
		return out, true
	}
	_, f, ok := fieldLoad(v)
	if !ok {
		return nil, false
	}
	return []heapPick{{f.Name(), natBranchOf(fn, useBlock, cmp)}}, true
}

func runC03(c *Ctx) {
	p := c.P
	broker := p.FnsIn("broker")
	for _, fn := range broker {
		c.analysedFn(p.FnName(fn))
	}
	c.checkMappingTest()
	// the NAT measurement gives a verdict only when every step of it succeeded
	c.checkErrorBranchesLeave("O-5d a failed step of the NAT measurement ends it", p.FnsIn("common/nat"))
	rule1 := "O-1 pool selection"
	// proxy side: push and timeout-remove use unrestricted -> snowflakes
	proxySide := map[string]string{"yes": "snowflakes", "no": "restrictedSnowflakes"}
	clientSide := map[string]string{"yes": "restrictedSnowflakes", "no": "snowflakes"}
	nSites := 0
	for _, fn := range broker {
		for _, ci := range callsTo(fn, "container/heap.Push", "container/heap.Remove", "container/heap.Pop", "container/heap.Fix") {
			if freshHeapArg(ci) {
				continue
			}
			name := calleeName(ci)
			var cmp []ssa.Value
			picks, ok := heapPicks(fn, ci.Common().Args[0], ci.Block(), &cmp)
			key := fmt.Sprintf("%s %s pool choice", p.FnName(fn), strings.TrimPrefix(name, "container/heap."))
			if !ok {
				c.undecided(rule1, key, p.instrPos(ci), "heap argument is not a BrokerContext heap field (or a phi of them)")
				continue
			}
			want := proxySide
			side := "proxy NAT"
			if name == "container/heap.Pop" {
				want = clientSide
				side = "client NAT"
			}
			nSites++
			good := len(picks) > 0
			var desc []string
			for _, pk := range picks {
				desc = append(desc, fmt.Sprintf("%s on unrestricted=%s", pk.Field, pk.Branch))
				if pk.Branch == "" || want[pk.Branch] != pk.Field {
					good = false
				}
			}
			// both branches must be covered across the function's sites for Push/Remove (checked below by counting)
			c.check(good, rule1, key, p.instrPos(ci), side+": "+strings.Join(desc, "; "),
				fmt.Sprintf("heap selection does not follow the %s table %v: got %s", side, want, strings.Join(desc, "; ")))
		}
	}
	c.count("heap operation sites", nSites)
	// every registration ends up in one of the pools: no path through AddSnowflake avoids heap.Push
	if add := p.Fn("broker", "(*BrokerContext).AddSnowflake"); add != nil {
		pushBlocks := map[*ssa.BasicBlock]bool{}
		for _, ci := range callsTo(add, "container/heap.Push") {
			pushBlocks[ci.Block()] = true
		}
		var leak *ssa.Return
		seen := map[*ssa.BasicBlock]bool{}
		var walk func(b *ssa.BasicBlock)
		walk = func(b *ssa.BasicBlock) {
			if seen[b] || pushBlocks[b] || leak != nil {
				return
			}
			seen[b] = true
			if len(b.Instrs) > 0 {
				if r, ok := b.Instrs[len(b.Instrs)-1].(*ssa.Return); ok {
					leak = r
					return
				}
			}
			for _, sb := range b.Succs {
				walk(sb)
			}
		}
		if len(add.Blocks) > 0 {
			walk(add.Blocks[0])
		}
		if leak != nil {
			c.viol(rule1, "AddSnowflake queues the snowflake on every path", p.instrPos(leak), "a return of AddSnowflake is reachable without heap.Push: a proxy of that NAT type is registered (and waits for its poll to time out) but can never be matched")
		} else {
			c.ok(rule1, "AddSnowflake queues the snowflake on every path", p.Pos(add.Pos()), fmt.Sprintf("%d push site(s)", len(pushBlocks)))
		}
	}
	// the NAT value compared at the timeout branch is the one the snowflake was registered with
	if loop := p.Fn("broker", "(*BrokerContext).Broker"); loop != nil {
		add := p.Fn("broker", "(*BrokerContext).AddSnowflake")
		for _, ci := range callsIn(loop) {
			if staticCallee(ci) == add && add != nil {
				_, f, ok := fieldLoad(ci.Common().Args[3])
				c.check(ok && f.Name() == "natType", rule1, "Broker registers the snowflake under request.natType", p.instrPos(ci), "same field the timeout branch compares", "AddSnowflake is not given request.natType: push and timeout-remove can choose different heaps")
			}
		}
		for _, clo := range loop.AnonFuncs {
			var cmp []ssa.Value
			for _, ci := range callsTo(clo, "container/heap.Remove") {
				heapPicks(clo, ci.Common().Args[0], ci.Block(), &cmp)
			}
			for _, v := range cmp {
				_, f, ok := fieldLoad(v)
				c.check(ok && f.Name() == "natType", rule1, "timeout branch compares the poll's natType", p.Pos(clo.Pos()), "", "the timeout branch selects the heap by a value other than the poll's natType")
				break
			}
		}
	}

	// ---------- O-2 NAT vocabulary ----------
	rule2 := "O-2 NAT vocabulary"
	want := map[string]string{"NATUnknown": "unknown", "NATRestricted": "restricted", "NATUnrestricted": "unrestricted"}
	for _, rel := range []string{"broker", "common/nat", "proxy/lib"} {
		for name, val := range want {
			k := p.Const(rel, name)
			key := rel + "." + name
			if k == nil {
				c.undecided(rule2, key, "-", "constant does not resolve")
				continue
			}
			got := strings.Trim(k.Val().ExactString(), `"`)
			c.check(got == val, rule2, key+" == \""+val+"\"", p.Pos(k.Pos()), "", "constant is \""+got+"\": the three components no longer agree on the NAT vocabulary")
		}
	}
	for _, d := range [][2]string{{"common/messages", "DecodeProxyPollRequestWithRelayPrefix"}, {"common/messages", "DecodeClientPollRequest"}} {
		c.checkNATSwitch(rule2, d[0], d[1])
	}

	// ---------- O-3 refusal only when the eligible pool is empty ----------
	rule3 := "O-3 refusal only when the eligible pool is empty"
	if match := p.Fn("broker", "(*IPC).matchSnowflake"); match != nil {
		var pop ssa.CallInstruction
		for _, ci := range callsTo(match, "container/heap.Pop") {
			pop = ci
		}
		var lenCall *ssa.Call
		for _, ci := range callsIn(match) {
			if cc, ok := ci.(*ssa.Call); ok && strings.HasSuffix(calleeName(cc), "SnowflakeHeap).Len") {
				lenCall = cc
			}
		}
		if pop == nil || lenCall == nil {
			c.undecided(rule3, "matchSnowflake: Len/Pop", p.Pos(match.Pos()), "no heap.Pop or Len call found")
		} else {
			popped := pop.Common().Args[0]
			if mi, ok := popped.(*ssa.MakeInterface); ok {
				popped = mi.X
			}
			lenRecv := lenCall.Call.Args[0]
			if u, ok := lenRecv.(*ssa.UnOp); ok { // (*heap).Len on value receiver: *ptr
				lenRecv = u.X
			}
			c.check(lenRecv == popped, rule3, "matchSnowflake tests the emptiness of the heap it pops", p.instrPos(lenCall), "", "Len() is evaluated on a different heap than the one popped")
			isLen := func(v ssa.Value) bool { return v == ssa.Value(lenCall) }
			isZero := func(v ssa.Value) bool { k, ok := constInt(v); return ok && k == 0 }
			isOne := func(v ssa.Value) bool { k, ok := constInt(v); return ok && k == 1 }
			nonEmpty := append(cmpEdges(match, ">", isLen, isZero), cmpEdges(match, ">=", isLen, isOne)...)
			nonEmpty = append(nonEmpty, eqEdges(match, false, isLen, isZero)...)
			emptyEdges := append(cmpEdges(match, "<=", isLen, isZero), cmpEdges(match, "<", isLen, isOne)...)
			emptyEdges = append(emptyEdges, eqEdges(match, true, isLen, isZero)...)
			bad := false
			for _, r := range returnsOf(match) {
				if isNilConst(r.Results[0]) {
					// nil return only via an edge on which the heap was found empty
					empty := emptyEdges
					if len(empty) == 0 || reachableWithout(match, r, empty) != nil {
						bad = true
						c.viol(rule3, "matchSnowflake returns nil only when the selected heap is empty", p.instrPos(r), "a nil (no proxy) result is reachable although the eligible pool was not found empty")
					}
				}
			}
			if path := reachableWithout(match, pop, nonEmpty); len(nonEmpty) == 0 || path != nil {
				bad = true
				c.viol(rule3, "matchSnowflake pops only a non-empty heap", p.instrPos(pop), "heap.Pop reachable without the Len() > 0 edge")
			}
			le := p.Locks()
			if le.Held(lenCall, "BrokerContext.snowflakeLock") < heldWrite || le.Held(pop, "BrokerContext.snowflakeLock") < heldWrite {
				bad = true
				c.viol(rule3, "matchSnowflake: test and pop under snowflakeLock", p.instrPos(lenCall), "emptiness test or pop outside the lock")
			}
			nLock := 0
			for _, ci := range callsIn(match) {
				if _, kind := lockOp(ci); kind == opLock {
					nLock++
				}
			}
			if nLock != 1 {
				bad = true
				c.viol(rule3, "matchSnowflake: test and pop in one critical section", p.Pos(match.Pos()), fmt.Sprintf("%d Lock operations: the emptiness test and the pop are not one critical section", nLock))
			}
			if !bad {
				c.ok(rule3, "matchSnowflake: nil only on empty selected heap; test and pop in one critical section", p.Pos(match.Pos()), "")
			}
		}
	} else {
		c.undecided(rule3, "matchSnowflake", "-", "anchor does not resolve")
	}
	if co := p.Fn("broker", "(*IPC).ClientOffers"); co != nil {
		var X *ssa.Call
		for _, ci := range callsIn(co) {
			if f := staticCallee(ci); f != nil && f == p.Fn("broker", "(*IPC).matchSnowflake") {
				X, _ = ci.(*ssa.Call)
			}
		}
		noProxies := p.Global("common/messages", "StrNoProxies")
		errF := p.Field("common/messages", "ClientPollResponse", "Error")
		if X == nil || noProxies == nil || errF == nil {
			c.undecided(rule3, "ClientOffers refuses only after matchSnowflake() == nil", p.Pos(co.Pos()), "anchor does not resolve")
		} else {
			nilE := nilCheckEdges(co, true, func(v ssa.Value) bool { return v == ssa.Value(X) })
			n := 0
			for _, s := range storesToField([]*ssa.Function{co}, errF) {
				if addr, ok := loadAddr(s.Val); !ok || addr != ssa.Value(noProxies) {
					continue
				}
				n++
				path := reachableWithout(co, s, nilE)
				c.check(len(nilE) > 0 && path == nil, rule3, "ClientOffers refuses only after matchSnowflake() == nil", p.instrPos(s), "", "the 'no proxies' refusal is reachable although a proxy was matched", p.pathString(path)...)
			}
			if n == 0 {
				c.undecided(rule3, "ClientOffers refuses only after matchSnowflake() == nil", p.Pos(co.Pos()), "no response with StrNoProxies found")
			}
		}
	}

	// ---------- O-4 load order ----------
	c.checkHeapShape()

	// ---------- O-7 a proxy leaves the pool it was put in (C04's deregistration obligations) ----------
	c.prefix = "O-7/C04:"
	c.checkDeregistration(p.Locks())
	c.prefix = ""

	// ---------- O-8 the pools are only touched under their lock, by the poll's own goroutine ----------
	// (C02's unique-holder rows and loop provenance: an unlocked Len/Push/Pop races with the locked ones
	// and loses or duplicates heap entries; a poll goroutine on a shared loop variable serves the wrong pool)
	c.prefix = "O-8/C02:"
	c.checkBrokerMatchingRows()
	c.checkBrokerLoopProvenance()
	c.prefix = ""

	// ---------- O-9 the load figure the pools are ordered by is the one the proxy reported ----------
	// (C12's verbatim obligation on the decoded client count: a decoder that rounds or clamps it turns
	// different loads into ties, and the heap then serves the earlier arrival instead of the less loaded proxy)
	c.prefix = "O-9/C12:"
	c.verbatimResult("O-5 fields travel verbatim", "common/messages", "DecodeProxyPollRequestWithRelayPrefix", 3, "Clients")
	c.prefix = ""

	// ---------- O-6 the legacy client format carries the NAT type too ----------
	c.checkLegacyShim("O-6 legacy format hands the NAT header to the same handler")

	// ---------- O-5 the client reports the NAT type its probe found ----------
	rule5 := "O-5 client NAT probe mapping"
	if un := p.Fn("client/lib", "updateNATType"); un != nil {
		c.analysedFn(p.FnName(un))
		var probe *ssa.Call
		for _, ci := range callsTo(un, "common/nat.CheckIfRestrictedNAT") {
			probe, _ = ci.(*ssa.Call)
		}
		if probe == nil {
			c.undecided(rule5, "updateNATType probes with CheckIfRestrictedNAT", p.Pos(un.Pos()), "call not found")
		} else {
			isRes := func(v ssa.Value) bool {
				return sameValue(v, func(w ssa.Value) bool { return isResultOfCall(w, probe, 0) }) || flows(v, func(w ssa.Value) bool { return isResultOfCall(w, probe, 0) })
			}
			restricted := boolEdges(un, true, isRes)
			unrestricted := boolEdges(un, false, isRes)
			n := 0
			for _, ci := range callsTo(un, "(*client/lib.BrokerChannel).SetNATType") {
				// the reported value, or each value it can be (one call fed from a branch): judged where that value
				// is selected
				ciInstr, _ := ci.(ssa.Instruction)
				for _, leaf := range valueLeaves(strip(ci.Common().Args[1]), ciInstr) {
					s, _ := constString(leaf.V)
					at := leaf.At
					if at == nil {
						at = ciInstr
					}
					behindProbe := reachableWithout(un, ciInstr, errNilEdges(un, probe, 1)) == nil
					switch s {
					case "restricted":
						n++
						c.check(len(restricted) > 0 && reachableWithout(un, at, restricted) == nil && behindProbe, rule5, "updateNATType reports restricted only when the probe said restricted", p.instrPos(ci), "", "the client can report 'restricted' without a successful probe that found a restricted NAT")
					case "unrestricted":
						n++
						c.check(len(unrestricted) > 0 && reachableWithout(un, at, unrestricted) == nil && behindProbe, rule5, "updateNATType reports unrestricted only when the probe said so", p.instrPos(ci), "", "the client can report 'unrestricted' although the probe failed or found a restricted NAT: a restricted client is then served from the restricted-proxy pool")
					case "unknown":
						n++
					}
				}
			}
			if n < 3 {
				c.undecided(rule5, "SetNATType calls", p.Pos(un.Pos()), fmt.Sprintf("%d constant NAT types reported, expected restricted, unrestricted and unknown", n))
			}
		}
	} else {
		c.undecided(rule5, "client/lib.updateNATType", "-", "anchor does not resolve")
	}
}

// checkNATSwitch: the decoder accepts exactly {"", unknown, restricted,
// unrestricted}, maps "" to unknown, rejects anything else.
func (c *Ctx) checkNATSwitch(rule, rel, name string) {
	p := c.P
	fn := p.Fn(rel, name)
	key := rel + "." + name
	if fn == nil {
		c.undecided(rule, key, "-", "anchor does not resolve")
		return
	}
	c.analysedFn(p.FnName(fn))
	isNATField := func(v ssa.Value) bool { _, f, ok := fieldLoad(v); return ok && f.Name() == "NAT" }
	// the vocabulary test may live in the decoder itself or in a same-package
	// helper that the decoder hands its NAT field to
	outer := fn
	var helperCall *ssa.Call
	var natPar *ssa.Parameter
	for _, ci := range callsIn(outer) {
		cc, ok := ci.(*ssa.Call)
		h := staticCallee(ci)
		if !ok || h == nil || h.Blocks == nil || !samePkg(h, outer) || h == outer {
			continue
		}
		for i, a := range callArgs(ci) {
			if isNATField(a) && i < len(h.Params) && errResultIndex(h.Signature) >= 0 {
				helperCall, natPar = cc, h.Params[i]
				fn = h
			}
		}
	}
	isNAT := func(v ssa.Value) bool {
		if natPar != nil {
			return strip(v) == ssa.Value(natPar)
		}
		return isNATField(v)
	}
	if helperCall == nil && c.checkNATTable(rule, key, fn, isNATField) {
		return
	}
	set := map[string]bool{}
	accept := condEdges(fn, true, func(a Atom) bool {
		if a.Op != token.EQL {
			return false
		}
		var k ssa.Value
		switch {
		case isNAT(a.X):
			k = a.Y
		case isNAT(a.Y):
			k = a.X
		default:
			return false
		}
		s, ok := constString(k)
		if !ok {
			return false
		}
		set[s] = true
		return true
	})
	wantSet := []string{"", "restricted", "unknown", "unrestricted"}
	c.check(sameStringSet(sortedKeys(set), wantSet), rule, key+" accepted NAT strings", p.Pos(fn.Pos()), fmt.Sprintf("%q", sortedKeys(set)),
		fmt.Sprintf("decoder compares NAT against %q, expected %q: a fourth NAT string can reach the matcher or a legal one is rejected", sortedKeys(set), wantSet))
	// success only through an accepting edge
	n := 0
	for _, r := range returnsOf(fn) {
		ei := errResultIndex(fn.Signature)
		if ei < 0 || !retMayBeNil(r, ei) {
			continue
		}
		n++
		path := successReachableWithout(fn, r, ei, accept)
		c.check(path == nil, rule, key+" success only for an accepted NAT string", p.instrPos(r), "", "a nil-error return is reachable without the NAT field having matched one of the accepted strings", p.pathString(path)...)
	}
	if n == 0 {
		c.undecided(rule, key+" success only for an accepted NAT string", p.Pos(fn.Pos()), "no success return found")
	}
	// "" -> unknown
	emptyEdge := condEdges(fn, true, func(a Atom) bool {
		if a.Op != token.EQL {
			return false
		}
		if isNAT(a.X) {
			s, ok := constString(a.Y)
			return ok && s == ""
		}
		if isNAT(a.Y) {
			s, ok := constString(a.X)
			return ok && s == ""
		}
		return false
	})
	if helperCall != nil {
		// helper form: result 0 is "unknown" exactly behind the == "" edge and the
		// argument itself otherwise; the decoder stores result 0 into the NAT field
		// and succeeds only behind the helper's err == nil
		okDefault := len(emptyEdge) > 0
		ei := errResultIndex(fn.Signature)
		for _, r := range returnsOf(fn) {
			if !retMayBeNil(r, ei) {
				continue
			}
			v := retVal(r, 0)
			s, isC := constString(v)
			switch {
			case isC && s == "unknown" && reachableWithout(fn, r, emptyEdge) == nil:
			case !isC && strip(v) == ssa.Value(natPar):
				// must not be the "" case
				for _, e := range emptyEdge {
					if reachPath(e.To(), r.Block(), nil) != nil {
						okDefault = false
					}
				}
			default:
				okDefault = false
			}
		}
		stored := false
		allInstrs(outer, func(in ssa.Instruction) {
			if st, ok := in.(*ssa.Store); ok {
				if _, f, okf := fieldOfAddr(st.Addr); okf && f.Name() == "NAT" {
					if isResultOfCall(st.Val, helperCall, 0) {
						stored = true
					} else {
						okDefault = false
					}
				}
			}
		})
		okE := errNilEdges(outer, helperCall, ei)
		for _, r := range returnsOf(outer) {
			oi := errResultIndex(outer.Signature)
			if oi >= 0 && retMayBeNil(r, oi) && (len(okE) == 0 || reachableWithout(outer, r, okE) != nil) {
				okDefault = false
			}
		}
		c.check(okDefault && stored, rule, key+" maps absent NAT to unknown", p.Pos(fn.Pos()), "through "+p.FnName(fn), "an absent NAT type is not defaulted to \"unknown\" (or the helper's verdict is not honoured)")
		return
	}
	okDefault := false
	allInstrs(fn, func(in ssa.Instruction) {
		st, ok := in.(*ssa.Store)
		if !ok {
			return
		}
		if _, f, ok := fieldOfAddr(st.Addr); !ok || f.Name() != "NAT" {
			return
		}
		s, isC := constString(st.Val)
		if isC && s == "unknown" && len(emptyEdge) > 0 && reachableWithout(fn, st, emptyEdge) == nil {
			okDefault = true
		} else {
			okDefault = false
			c.viol(rule, key+" maps absent NAT to unknown", p.instrPos(st), "the NAT field is rewritten other than \"\" -> \"unknown\"")
		}
	})
	c.check(okDefault, rule, key+" maps absent NAT to unknown", p.Pos(fn.Pos()), "", "an absent NAT type is not defaulted to \"unknown\"")
}

// definitelyNonNil: v is an error value that cannot be nil: a fresh error
// (errors.New, fmt.Errorf), a boxed concrete value, or a phi of such.
func definitelyNonNil(v ssa.Value) bool {
	seen := map[ssa.Value]bool{}
	var rec func(v ssa.Value) bool
	rec = func(v ssa.Value) bool {
		if seen[v] {
			return true
		}
		seen[v] = true
		switch x := v.(type) {
		case *ssa.MakeInterface:
			return true
		case *ssa.UnOp:
			// a package-level sentinel error (io.EOF, ErrBridgeNotFound, ...)
			if _, isG := x.X.(*ssa.Global); isG && x.Op == token.MUL {
				return true
			}
		case *ssa.Call:
			switch calleeName(x) {
			case "errors.New", "fmt.Errorf":
				return true
			}
		case *ssa.Phi:
			for _, e := range x.Edges {
				if !rec(e) {
					return false
				}
			}
			return len(x.Edges) > 0
		}
		return false
	}
	return rec(v)
}

// retMayBeNil: may result idx of return r be nil? The nil constant may; fresh
// errors may not; any other value (a callee's error handed on) may, unless the
// return (or, for a phi, the predecessor the value arrives from) lies behind
// the "value != nil" edge of a test of that very value.
func retMayBeNil(r *ssa.Return, idx int) bool {
	fn := r.Parent()
	unknownMay := func(v ssa.Value, at *ssa.BasicBlock) bool {
		nonNil := nilCheckEdges(fn, false, func(w ssa.Value) bool { return w == v })
		if len(nonNil) == 0 {
			return true
		}
		return psSearch(fn.Blocks[0], nonNil, nil, func(b *ssa.BasicBlock) bool { return b == at }) != nil
	}
	seen := map[ssa.Value]bool{}
	var rec func(v ssa.Value, at *ssa.BasicBlock) bool
	rec = func(v ssa.Value, at *ssa.BasicBlock) bool {
		if isNilConst(v) {
			return true
		}
		if definitelyNonNil(v) {
			return false
		}
		if ph, ok := v.(*ssa.Phi); ok {
			if seen[v] {
				return false
			}
			seen[v] = true
			// the merged value itself may be tested: return behind "phi != nil"
			if !unknownMay(v, at) {
				return false
			}
			for i, e := range ph.Edges {
				if rec(e, ph.Block().Preds[i]) {
					return true
				}
			}
			return false
		}
		return unknownMay(v, at)
	}
	return rec(retVal(r, idx), r.Block())
}

// successReachableWithout: can fn return through r with a nil result idx without
// having crossed one of the cut edges? When the result is merged in the return's
// block (single-exit style: err set on some paths, returned at the end), each
// incoming edge that can carry nil is judged on its own.
func successReachableWithout(fn *ssa.Function, r *ssa.Return, idx int, cut []Edge) []*ssa.BasicBlock {
	if !retMayBeNil(r, idx) {
		return nil
	}
	ph, ok := retVal(r, idx).(*ssa.Phi)
	if !ok || ph.Block() != r.Block() {
		return reachableWithout(fn, r, cut)
	}
	isCut := func(from, to *ssa.BasicBlock) bool {
		for _, e := range cut {
			if e.From == from && e.To() == to && e.Via == nil {
				return true
			}
		}
		return false
	}
	var may func(v ssa.Value, seen map[ssa.Value]bool) bool
	may = func(v ssa.Value, seen map[ssa.Value]bool) bool {
		if isNilConst(v) {
			return true
		}
		if definitelyNonNil(v) {
			return false
		}
		if p2, isPhi := v.(*ssa.Phi); isPhi {
			if seen[v] {
				return false
			}
			seen[v] = true
			for _, e := range p2.Edges {
				if may(e, seen) {
					return true
				}
			}
			return false
		}
		return true
	}
	for i, e := range ph.Edges {
		if !may(e, map[ssa.Value]bool{}) {
			continue
		}
		pred := ph.Block().Preds[i]
		if isCut(pred, ph.Block()) || len(pred.Instrs) == 0 {
			continue
		}
		if path := reachableWithout(fn, pred.Instrs[len(pred.Instrs)-1], cut); path != nil {
			return append(path, r.Block())
		}
	}
	return nil
}

// mayBeNil: v is the nil constant or a phi with a nil edge.
func mayBeNil(v ssa.Value) bool {
	if isNilConst(v) {
		return true
	}
	if ph, ok := v.(*ssa.Phi); ok {
		for _, e := range ph.Edges {
			if isNilConst(e) {
				return true
			}
		}
	}
	return false
}

func (c *Ctx) checkHeapShape() {
	p := c.P
	rule := "O-4 load order"
	less := p.Fn("broker", "(SnowflakeHeap).Less")
	if less == nil {
		c.undecided(rule, "SnowflakeHeap.Less", "-", "anchor does not resolve")
		return
	}
	elemField := func(v ssa.Value) (idx ssa.Value, field string, ok bool) {
		base, f, ok1 := fieldLoad(v)
		if !ok1 {
			return nil, "", false
		}
		addr, ok2 := loadAddr(strip(base))
		if !ok2 {
			return nil, "", false
		}
		ia, ok3 := addr.(*ssa.IndexAddr)
		if !ok3 {
			return nil, "", false
		}
		return ia.Index, f.Name(), true
	}
	good := false
	isLoadCmp := func(v ssa.Value) bool {
		lx, ly, ok := strictLess(v)
		if !ok {
			return false
		}
		ix, fx, okx := elemField(lx)
		iy, fy, oky := elemField(ly)
		return okx && oky && fx == "clients" && fy == "clients" && len(less.Params) == 3 && ix == ssa.Value(less.Params[1]) && iy == ssa.Value(less.Params[2])
	}
	isClients := func(v ssa.Value) bool { _, f, ok := elemField(v); return ok && f == "clients" }
	// edges on which the two loads are known to be equal: anything else may decide the order only there
	tie := condEdges(less, true, func(a Atom) bool { return a.Op == token.EQL && isClients(a.X) && isClients(a.Y) })
	other := ""
	for _, r := range returnsOf(less) {
		type leaf struct {
			v  ssa.Value
			at ssa.Instruction
		}
		leaves := []leaf{{retVal(r, 0), r}}
		if ph, ok := retVal(r, 0).(*ssa.Phi); ok && ph.Block() == r.Block() {
			leaves = nil
			for i, e := range ph.Edges {
				pred := ph.Block().Preds[i]
				leaves = append(leaves, leaf{e, pred.Instrs[len(pred.Instrs)-1]})
			}
		}
		for _, lf := range leaves {
			if isLoadCmp(lf.v) {
				good = true
				continue
			}
			if len(tie) == 0 || reachableWithout(less, lf.at, tie) != nil {
				other = p.instrPos(lf.at)
			}
		}
	}
	c.check(good && other == "", rule, "SnowflakeHeap.Less(i, j) is sh[i].clients < sh[j].clients", p.Pos(less.Pos()), "any other criterion decides only between equally loaded proxies", "the comparator is not 'fewer clients first' on its two arguments (orientation, field or strictness changed), or another criterion is consulted before the client counts ("+other+")")
	// the heap.Interface methods are invoked by container/heap only: a direct
	// call of Push/Pop/Swap appends, removes or exchanges without sifting and
	// breaks the order that heap.Pop relies on
	c.checkHeapMethodsPrivate(rule, "broker", "SnowflakeHeap")
	// index maintenance
	idxF := p.Field("broker", "Snowflake", "index")
	if push := p.Fn("broker", "(*SnowflakeHeap).Push"); push != nil {
		okPush := false
		for _, s := range storesToField([]*ssa.Function{push}, idxF) {
			if cc, _, ok := callResult(s.Val); ok && calleeName(cc) == "builtin.len" {
				okPush = true
			}
		}
		c.check(okPush, rule, "SnowflakeHeap.Push sets index = len before append", p.Pos(push.Pos()), "", "Push does not record the new element's position")
	}
	if pop := p.Fn("broker", "(*SnowflakeHeap).Pop"); pop != nil {
		okPop := false
		for _, s := range storesToField([]*ssa.Function{pop}, idxF) {
			if k, ok := constInt(s.Val); ok && k == -1 {
				okPop = true
			}
		}
		c.check(okPop, rule, "SnowflakeHeap.Pop marks the removed element with index -1", p.Pos(pop.Pos()), "", "Pop does not mark the removed snowflake as claimed (index = -1)")
	}
	if swap := p.Fn("broker", "(SnowflakeHeap).Swap"); swap != nil && len(swap.Params) == 3 {
		n := 0
		okSwap := true
		// the exchange: stores into the slots sh[k]
		type slotStore struct {
			st  *ssa.Store
			idx ssa.Value
		}
		var slots []slotStore
		allInstrs(swap, func(in ssa.Instruction) {
			if st, ok := in.(*ssa.Store); ok {
				if ia, isIA := st.Addr.(*ssa.IndexAddr); isIA {
					slots = append(slots, slotStore{st, ia.Index})
				}
			}
		})
		covered := map[ssa.Value]bool{}
		for _, s := range storesToField([]*ssa.Function{swap}, idxF) {
			n++
			if s.Val != ssa.Value(swap.Params[1]) && s.Val != ssa.Value(swap.Params[2]) {
				okSwap = false
				continue
			}
			base, _, _ := fieldOfAddr(s.Addr)
			good := false
			// (a) the element is read back from slot k after the exchange and gets index k
			if addr, ok := loadAddr(strip(base)); ok {
				if ia, ok2 := addr.(*ssa.IndexAddr); ok2 && ia.Index == s.Val {
					good = true
					for _, sl := range slots {
						if !precedes(sl.st, s) {
							good = false
						}
					}
				}
			}
			// (b) the element is the very value the exchange put into slot k
			if !good {
				for _, sl := range slots {
					if strip(sl.st.Val) == strip(base) && sl.idx == s.Val {
						good = true
					}
				}
			}
			if !good {
				okSwap = false
			}
			covered[s.Val] = true
		}
		if len(covered) != 2 || len(slots) != 2 {
			okSwap = false
		}
		c.check(okSwap && n == 2, rule, "SnowflakeHeap.Swap exchanges then sets sh[i].index = i and sh[j].index = j", p.Pos(swap.Pos()), "", "Swap does not keep index equal to the position after the exchange: a later heap.Remove(index) removes the wrong proxy")
	}
	// clients immutable while queued
	var rows []guardRow
	for _, r := range guardTable {
		if r.Type == "Snowflake" && r.Field == "clients" {
			rows = append(rows, r)
		}
	}
	c.checkGuardRows(rule, rows, p.FnsIn("broker"))
	// what the poll reported is what gets registered: decoded poll -> RequestOffer -> ProxyPoll field -> AddSnowflake
	// (-> Snowflake field), for the NAT type (selects the pool) and the client count (the heap key); the id and the
	// proxy type travel the same way and are checked with them
	c.checkPollAttributeChain(rule)
}

// checkHeapMethodsPrivate: Push, Pop and Swap of a heap.Interface type have no
// static caller in the repository (container/heap calls them through the
// interface); Len and Less are harmless.
func (c *Ctx) checkHeapMethodsPrivate(rule, rel, typ string) {
	p := c.P
	n := 0
	for _, m := range []string{"Push", "Pop", "Swap"} {
		for _, recv := range []string{"(*" + typ + ")", "(" + typ + ")"} {
			fn := p.Fn(rel, recv+"."+m)
			if fn == nil {
				continue
			}
			n++
			bad := 0
			for _, ci := range p.realCallers(fn) {
				if par := ci.Parent(); par != nil && namedOf(recvTypeOf(par)) == namedOf(recvTypeOf(fn)) && namedOf(recvTypeOf(fn)) != nil {
					switch par.Name() {
					case "Len", "Less", "Swap", "Push", "Pop":
						continue // the interface methods may build on one another
					}
				}
				bad++
				c.viol(rule, typ+"."+m+" is called only by container/heap", p.instrPos(ci), p.FnName(ci.Parent())+" calls the heap.Interface method directly: the element is appended, removed or exchanged without restoring the heap order")
			}
			if bad == 0 {
				c.ok(rule, typ+"."+m+" is called only by container/heap", p.Pos(fn.Pos()), "no static caller")
			}
		}
	}
	if n < 3 {
		c.undecided(rule, typ+" heap.Interface methods", "-", fmt.Sprintf("only %d of Push/Pop/Swap resolve", n))
	}
}

func recvTypeOf(fn *ssa.Function) types.Type {
	if fn == nil || fn.Signature.Recv() == nil {
		return types.Typ[types.Invalid]
	}
	return fn.Signature.Recv().Type()
}

// checkNATTable: the table form of the NAT vocabulary - v, ok := table[msg.NAT]
// with a package-level map that is filled once by a constant literal and never
// modified: the key set is the accepted vocabulary, "" maps to "unknown", every
// other key to itself; success lies behind the ok edge and the NAT field
// receives the looked-up value. Returns false when the decoder has no such
// lookup (the comparison forms are judged instead).
func (c *Ctx) checkNATTable(rule, key string, fn *ssa.Function, isNATField func(ssa.Value) bool) bool {
	p := c.P
	var lk *ssa.Lookup
	allInstrs(fn, func(in ssa.Instruction) {
		if l, ok := in.(*ssa.Lookup); ok && l.CommaOk && isNATField(l.Index) {
			lk = l
		}
	})
	if lk == nil {
		return false
	}
	ld, ok := strip(lk.X).(*ssa.UnOp)
	if !ok {
		return false
	}
	g, ok := ld.X.(*ssa.Global)
	if !ok {
		return false
	}
	table, okT := globalConstStringMap(p, g)
	if !okT {
		c.undecided(rule, key+" accepted NAT strings", p.instrPos(lk), "NAT is looked up in "+g.Name()+", which is not a constant table filled once")
		return true
	}
	keys := map[string]bool{}
	okMap := true
	for k, v := range table {
		keys[k] = true
		if (k == "" && v != "unknown") || (k != "" && v != k) {
			okMap = false
		}
	}
	wantSet := []string{"", "restricted", "unknown", "unrestricted"}
	c.check(sameStringSet(sortedKeys(keys), wantSet), rule, key+" accepted NAT strings", p.instrPos(lk), fmt.Sprintf("keys of table %s: %q", g.Name(), sortedKeys(keys)),
		fmt.Sprintf("decoder accepts the keys %q of %s, expected %q: a fourth NAT string can reach the matcher or a legal one is rejected", sortedKeys(keys), g.Name(), wantSet))
	// the ok edge
	var okV, val ssa.Value
	for _, r := range *lk.Referrers() {
		if ex, isEx := r.(*ssa.Extract); isEx {
			if ex.Index == 1 {
				okV = ex
			} else {
				val = ex
			}
		}
	}
	var accept []Edge
	if okV != nil {
		accept = condEdges(fn, true, func(a Atom) bool { return a.Op == token.ILLEGAL && strip(a.X) == okV })
	}
	n := 0
	ei := errResultIndex(fn.Signature)
	for _, r := range returnsOf(fn) {
		if ei < 0 || !retMayBeNil(r, ei) {
			continue
		}
		n++
		path := successReachableWithout(fn, r, ei, accept)
		c.check(len(accept) > 0 && path == nil, rule, key+" success only for an accepted NAT string", p.instrPos(r), "behind the ok result of the table lookup", "a nil-error return is reachable without the NAT field having been found in the table", p.pathString(path)...)
	}
	if n == 0 {
		c.undecided(rule, key+" success only for an accepted NAT string", p.Pos(fn.Pos()), "no success return found")
	}
	stored, other := false, false
	allInstrs(fn, func(in ssa.Instruction) {
		if st, ok := in.(*ssa.Store); ok {
			if _, f, okf := fieldOfAddr(st.Addr); okf && f.Name() == "NAT" {
				if val != nil && strip(st.Val) == val {
					stored = true
				} else {
					other = true
				}
			}
		}
	})
	c.check(okMap && stored && !other, rule, key+" maps absent NAT to unknown", p.instrPos(lk), "table maps \"\" to unknown and every other key to itself; the NAT field receives the looked-up value", "an absent NAT type is not defaulted to \"unknown\", or a legal value is rewritten")
	return true
}

// globalConstStringMap: g is a package-level map[string]string assigned exactly
// once, in the package initialiser, from a literal with constant keys and
// values, and no function of the package updates or deletes from it or lets it
// escape other than into lookups, ranges and len.
func globalConstStringMap(p *Prog, g *ssa.Global) (map[string]string, bool) {
	if g.Pkg == nil {
		return nil, false
	}
	var mm *ssa.MakeMap
	stores := 0
	okUse := true
	var fns []*ssa.Function
	if ini := g.Pkg.Func("init"); ini != nil {
		fns = append(fns, ini)
	}
	for _, fn := range p.fns {
		top := fn
		for top.Parent() != nil {
			top = top.Parent()
		}
		if top.Pkg == g.Pkg {
			fns = append(fns, fn)
		}
	}
	seenFn := map[*ssa.Function]bool{}
	for _, f := range fns {
		if seenFn[f] {
			continue
		}
		seenFn[f] = true
		allInstrs(f, func(in ssa.Instruction) {
			switch x := in.(type) {
			case *ssa.Store:
				if x.Addr == ssa.Value(g) {
					stores++
					if f.Name() == "init" && f.Synthetic != "" {
						mm, _ = strip(x.Val).(*ssa.MakeMap)
					}
				}
			case *ssa.UnOp:
				if x.X == ssa.Value(g) && x.Referrers() != nil {
					for _, r := range *x.Referrers() {
						switch u := r.(type) {
						case *ssa.Lookup, *ssa.Range, *ssa.DebugRef:
						case ssa.CallInstruction:
							if calleeName(u) != "builtin.len" {
								okUse = false
							}
						default:
							okUse = false
						}
					}
				}
			}
		})
	}
	if mm == nil || stores != 1 || !okUse || mm.Referrers() == nil {
		return nil, false
	}
	out := map[string]string{}
	for _, r := range *mm.Referrers() {
		switch x := r.(type) {
		case *ssa.MapUpdate:
			k, ok1 := constString(x.Key)
			v, ok2 := constString(x.Value)
			if !ok1 || !ok2 {
				return nil, false
			}
			out[k] = v
		case *ssa.Store, *ssa.DebugRef:
		default:
			return nil, false
		}
	}
	return out, len(out) > 0
}

// checkMappingTest: the client's and proxy's NAT measurement calls a mapping
// "address dependent" (restricted) when the two XOR-MAPPED-ADDRESS answers
// differ in address OR port: the verdict compares the whole mapped addresses
// (their String(), or both IP and Port), not one component. A NAT that keeps the
// port and changes the address is otherwise measured as unrestricted and the
// client is served from the pool of restricted proxies.
func (c *Ctx) checkMappingTest() {
	p := c.P
	rule := "O-5b the NAT measurement compares whole mapped addresses"
	fn := p.Fn("common/nat", "isRestrictedMapping")
	if fn == nil {
		c.undecided(rule, "common/nat.isRestrictedMapping", "-", "anchor does not resolve")
		return
	}
	c.analysedFn(p.FnName(fn))
	// the two mapped addresses are answers to requests sent to two different destinations: each
	// XOR-MAPPED-ADDRESS is decoded from the response of exactly one round trip, one to the server's primary address
	// and one to its other address (two answers from one destination always agree, whatever the NAT does)
	{
		ruleD := "O-5c the two mappings are measured against two destinations"
		dests := map[string]int{}
		nGet, okAll := 0, true
		why := ""
		for _, ci := range callsIn(fn) {
			if !strings.HasSuffix(calleeName(ci), "XORMappedAddress).GetFrom") || len(ci.Common().Args) < 2 {
				continue
			}
			nGet++
			resp := strip(ci.Common().Args[1])
			rc, idx, isRes := callResult1(resp)
			if !isRes || idx != 0 || !strings.HasSuffix(calleeName(rc), ".RoundTrip") {
				okAll = false
				why = "the response decoded at " + p.instrPos(ci) + " is not the result of one round trip (it merges several, a retry for example)"
				continue
			}
			dst := ""
			if len(rc.Call.Args) >= 3 {
				if _, f, ok := fieldLoad(rc.Call.Args[2]); ok {
					dst = f.Name()
				}
			}
			if dst == "" {
				okAll = false
				why = "the destination of the round trip at " + p.instrPos(rc) + " is not an address field of the test connection"
			}
			dests[dst]++
		}
		if nGet == 0 {
			c.undecided(ruleD, "isRestrictedMapping decodes two mapped addresses", p.Pos(fn.Pos()), "no XORMappedAddress.GetFrom call found")
		} else {
			if okAll && !(nGet == 2 && dests["PrimaryAddr"] == 1 && dests["OtherAddr"] == 1) {
				okAll = false
				why = fmt.Sprintf("the mapped addresses come from round trips to %v", dests)
			}
			c.check(okAll, ruleD, "one mapping from the primary address, one from the other address", p.Pos(fn.Pos()), "", why+": when both answers can come from the same destination they are equal behind any NAT, and an address-dependent NAT is reported as unrestricted - the broker then serves that client from the restricted pool")
		}
	}
	n := 0
	for _, r := range returnsOf(fn) {
		if len(r.Results) != 2 || !retMayBeNil(r, 1) {
			continue
		}
		n++
		usesIP, usesPort, usesString := false, false, false
		seen := map[ssa.Value]bool{}
		var walk func(v ssa.Value, d int)
		walk = func(v ssa.Value, d int) {
			if v == nil || seen[v] || d > 8 {
				return
			}
			seen[v] = true
			if cc, _, ok := callResult(v); ok {
				cn := calleeName(cc)
				if strings.HasSuffix(cn, "XORMappedAddress).String") || strings.HasSuffix(cn, "net.UDPAddr).String") {
					usesString = true
				}
				if strings.HasSuffix(cn, "net.IP).Equal") || strings.HasSuffix(cn, "net.IP).String") {
					usesIP = true
				}
				for _, a := range callArgs(cc) {
					walk(a, d+1)
				}
				return
			}
			if _, f, ok := fieldLoad(v); ok {
				switch f.Name() {
				case "IP":
					usesIP = true
				case "Port":
					usesPort = true
				}
				return
			}
			switch x := v.(type) {
			case *ssa.BinOp:
				walk(x.X, d+1)
				walk(x.Y, d+1)
			case *ssa.UnOp:
				walk(x.X, d+1)
			case *ssa.Phi:
				for _, e := range x.Edges {
					walk(e, d+1)
				}
				// a merged boolean (a || b): the conditions that select the edges count too
				for _, pb := range x.Block().Preds {
					if ifi, isIf := pb.Instrs[len(pb.Instrs)-1].(*ssa.If); isIf {
						walk(ifi.Cond, d+1)
					}
				}
			case *ssa.Convert:
				walk(x.X, d+1)
			case *ssa.ChangeType:
				walk(x.X, d+1)
			}
		}
		walk(retVal(r, 0), 0)
		c.check(usesString || (usesIP && usesPort), rule, "isRestrictedMapping compares address and port of the two mappings", p.instrPos(r), "", "the verdict depends on only one component of the mapped address (or on neither): a NAT that changes the other component is measured as unrestricted")
	}
	if n == 0 {
		c.undecided(rule, "isRestrictedMapping verdict", p.Pos(fn.Pos()), "no success return found")
	}
}

// checkPollAttributeChain: each attribute of a proxy poll reaches the registration unchanged.
func (c *Ctx) checkPollAttributeChain(rule string) {
	p := c.P
	ro := p.Fn("broker", "(*BrokerContext).RequestOffer")
	add := p.Fn("broker", "(*BrokerContext).AddSnowflake")
	pp := p.Fn("broker", "(*IPC).ProxyPolls")
	loop := p.Fn("broker", "(*BrokerContext).Broker")
	if ro == nil || add == nil || pp == nil || loop == nil || len(ro.Params) < 5 || len(add.Params) < 5 {
		c.undecided(rule, "poll attribute chain", "-", "RequestOffer/AddSnowflake/ProxyPolls/Broker: anchor does not resolve or has another parameter list")
		return
	}
	attrs := []struct {
		name      string
		decodeIdx int
		param     int    // index into Params of RequestOffer and of AddSnowflake (receiver is 0)
		sfField   string // field of Snowflake that records it ("" if none)
		why       string
	}{
		{"id", 0, 1, "id", "the proxy is registered under another id than the one it polls and answers with"},
		{"proxyType", 1, 2, "proxyType", "the proxy type of the poll is lost before registration"},
		{"natType", 2, 3, "natType", "the NAT type of the poll is lost before registration: the proxy is queued in the pool of another NAT type (and counted under another in the gauges)"},
		{"clients", 3, 4, "clients", "the client count of the poll is dropped before registration: every proxy is queued with the same load"},
	}
	for _, a := range attrs {
		// (a) ProxyPolls -> RequestOffer
		n := 0
		for _, ci := range callsIn(pp) {
			if staticCallee(ci) == ro && len(ci.Common().Args) > a.param {
				n++
				c.check(isResultOf(ci.Common().Args[a.param], a.decodeIdx, "common/messages.DecodeProxyPollRequestWithRelayPrefix"), rule, "ProxyPolls passes the decoded "+a.name+" to RequestOffer", p.instrPos(ci), "", "argument "+a.name+" is not the decoded value: "+a.why)
			}
		}
		if n == 0 {
			c.undecided(rule, "ProxyPolls passes the decoded "+a.name+" to RequestOffer", p.Pos(pp.Pos()), "no call of RequestOffer in ProxyPolls")
		}
		// (b) RequestOffer -> ProxyPoll field
		okR := false
		if f := p.Field("broker", "ProxyPoll", a.name); f != nil {
			for _, s := range storesToField([]*ssa.Function{ro}, f) {
				if strip(s.Val) == ssa.Value(ro.Params[a.param]) {
					okR = true
				}
			}
		}
		c.check(okR, rule, "RequestOffer records the poll's "+a.name+" argument", p.Pos(ro.Pos()), "", a.why)
		// (c) Broker -> AddSnowflake
		n = 0
		for _, ci := range callsIn(loop) {
			if staticCallee(ci) == add && len(ci.Common().Args) > a.param {
				n++
				_, fl, ok := fieldLoad(ci.Common().Args[a.param])
				c.check(ok && fl.Name() == a.name, rule, "Broker registers the snowflake with request."+a.name, p.instrPos(ci), "", "AddSnowflake is not given the poll's "+a.name+": "+a.why)
			}
		}
		if n == 0 {
			c.undecided(rule, "Broker registers the snowflake with request."+a.name, p.Pos(loop.Pos()), "no call of AddSnowflake in Broker")
		}
		// (d) AddSnowflake -> Snowflake field
		if a.sfField != "" {
			okC := false
			if f := p.Field("broker", "Snowflake", a.sfField); f != nil {
				for _, s := range storesToField([]*ssa.Function{add}, f) {
					if strip(s.Val) == ssa.Value(add.Params[a.param]) {
						okC = true
					}
				}
			}
			c.check(okC, rule, "AddSnowflake stores its "+a.name+" argument in the snowflake", p.Pos(add.Pos()), "", a.why)
		}
	}
}
