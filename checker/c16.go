package main

import (
	"fmt"
	"go/constant"
	"go/token"
	"go/types"
	"strings"

	"golang.org/x/tools/go/ssa"
)

func init() {
	register("C16", propMeta{
		Explanation: "E-PAIR + E-OWN + E-CONST on proxy/lib. O-1 slot pairing: tokens.get() is called only from Start and every path from it reaches runSession; over runSession's CFG every path from entry to a return carries exactly one release event, where a release event is a call of tokens.ret() or the hand-off edge 'case <-dataChan' of the final select (path enumeration with event counts, sensitive to repeated tests of one condition). The hand-off is verified separately: dataChan is closed only inside the OnDataChannel callback of makePeerConnectionFromOffer, which starts the handler goroutine on every path that closes it; the handler passed by runSession resolves to SnowflakeProxy.datachannelHandler, which releases exactly once (one deferred tokens.ret() in its entry block, no other). O-2 counter and semaphore move together: get adds +1 and sends, ret adds -1 and receives, both channel operations behind capacity != 0, ch = make(chan struct{}, capacity), no other access to ch or clients except the atomic load in count. O-3 reported load: the clients argument of the poll request is int((tokens.count()/8)*8) and is recomputed in the same loop iteration as the poll. O-4: on the exits after the peer connection was created the connection is closed before the slot is released. A missing or doubled release is a path in the source on which capacity is lost or exceeded. Added after the third seeding round: O-5 the relay dial uses a dialer with a non-zero HandshakeTimeout (websocket.DefaultDialer or a literal that sets it), so a silent relay cannot hold the slot forever. Added after the fourth seeding round: O-6 each copying goroutine of copyLoop signals the done channel (close or send, directly or through Once.Do) on every return, so that datachannelHandler's deferred release runs whatever io.Copy returned. Added after the fifth seeding round: O-6 the data channel's OnClose callback closes the pipe writer on every path; Start re-creates the token pool from its Capacity before any slot is taken; websocketconn.Close writes its Close frame under a deadline read from the clock; the hand-off channel is identified by resolving what runSession awaits to its make (in runSession or returned by makePeerConnectionFromOffer). Added after the sixth seeding round and the mutation audit: O-7 runSession creates its data-channel timer behind sendAnswer; O-9 E-CLEANUP on proxy/lib; O-10/C20 lock pairing of proxy/lib, including locks acquired through a helper and never released. O-11 the same failure-branch rule for proxy/lib. Added after the seventh seeding round: the path count of O-1 takes a branch on a boolean constant for decided, and a deferred release guarded by a constant flag is judged on the helper-inlined view, where it is copied to every return (undefer.go).",
		NotDecided:  "the race 'timeout fires while the data channel opens' (needs a happens-before argument about pion callbacks), a client opening a second data channel, sessions run concurrently by embedding applications.",
		Assumptions: []string{"pion invokes OnDataChannel at most once per peer connection in the analysed scenarios", "log.Fatalf paths are process exit and carry no obligation"},
	}, runC16)
}

func isRetCall(in ssa.Instruction) bool {
	ci, ok := in.(*ssa.Call)
	return ok && calleeName(ci) == "(*proxy/lib.tokens_t).ret"
}

// pathEventCounts enumerates entry->return paths of fn (loops cut at revisits)
// and returns a path whose event count differs from want, if any. Events are
// block-internal instructions satisfying ev and traversals of the given edges.
func pathEventCounts(fn *ssa.Function, ev func(ssa.Instruction) bool, evEdges []Edge, want int) (bad []*ssa.BasicBlock, got int, nPaths int) {
	return pathEventCountsDeep(fn, ev, func(f *ssa.Function) []Edge {
		if f == fn {
			return evEdges
		}
		return nil
	}, want, 0)
}

// pathEventCountsDeep is pathEventCounts with helper calls accounted for: a
// static call to a same-package repository function contributes the set of
// event counts of that function's own entry->return paths (computed the same
// way, to the given depth), so that moving the tail of a function into a
// helper does not change the count.
func pathEventCountsDeep(fn *ssa.Function, ev func(ssa.Instruction) bool, mkEdges func(*ssa.Function) []Edge, want int, depth int) (bad []*ssa.BasicBlock, got int, nPaths int) {
	memo := map[*ssa.Function]map[int]bool{}
	var summarize func(h *ssa.Function, d int) map[int]bool
	// walk enumerates the paths of f; at each return it calls atReturn with the set of counts
	var walk func(f *ssa.Function, d int, atReturn func(path []*ssa.BasicBlock, cnts map[int]bool) bool)
	walk = func(f *ssa.Function, d int, atReturn func(path []*ssa.BasicBlock, cnts map[int]bool) bool) {
		multi := multiConds(f)
		isEv := map[Edge]bool{}
		for _, e := range mkEdges(f) {
			isEv[e] = true
		}
		var path []*ssa.BasicBlock
		onPath := map[*ssa.BasicBlock]bool{}
		stop := false
		paths := 0
		var dfs func(b *ssa.BasicBlock, cnts map[int]bool, known map[ssa.Value]bool)
		dfs = func(b *ssa.BasicBlock, cnts map[int]bool, known map[ssa.Value]bool) {
			if stop || onPath[b] || paths > 20000 {
				return
			}
			onPath[b] = true
			path = append(path, b)
			defer func() { onPath[b] = false; path = path[:len(path)-1] }()
			for _, in := range b.Instrs {
				if ev(in) {
					cnts = shiftCounts(cnts, map[int]bool{1: true})
					continue
				}
				if d > 0 {
					if ci, ok := in.(*ssa.Call); ok {
						if h := staticCallee(ci); h != nil && h.Blocks != nil && h != fn && h != f && theProg != nil && theProg.IsRepoFn(h) && samePkg(h, fn) {
							s := summarize(h, d-1)
							if len(s) == 0 {
								return // the helper never returns
							}
							cnts = shiftCounts(cnts, s)
						}
					}
				}
			}
			if len(b.Instrs) > 0 {
				switch b.Instrs[len(b.Instrs)-1].(type) {
				case *ssa.Return:
					paths++
					if f == fn {
						nPaths++
					}
					if atReturn(path, cnts) {
						stop = true
					}
					return
				case *ssa.Panic:
					return
				}
			}
			// blocks ending in a call that never returns (log.Fatal*, os.Exit)
			for _, in := range b.Instrs {
				if ci, ok := in.(ssa.CallInstruction); ok && exitCallees[calleeName(ci)] {
					return
				}
			}
			var ck ssa.Value
			var cpos, isIf bool
			if ifi, ok := b.Instrs[len(b.Instrs)-1].(*ssa.If); ok {
				isIf = true
				ck, cpos = condKey(ifi.Cond)
			}
			for i, s := range b.Succs {
				nk := known
				if isIf {
					out := (i == 0) == cpos
					if isNilOut, okn := nilTestOutcome(ck, known); okn && isNilOut != out {
						continue
					}
					// a condition that is a boolean constant (a flag that has one value on everything that reaches
					// this test) decides the branch
					if kc, okc := ck.(*ssa.Const); okc && kc.Value != nil && kc.Value.Kind() == constant.Bool && constant.BoolVal(kc.Value) != out {
						continue
					}
					if prev, ok := known[ck]; ok {
						if prev != out {
							continue
						}
					} else if multi[ck] {
						nk = copyKnown(known)
						nk[ck] = out
					}
				}
				nk = phiOutcomes(b, s, nk) // flag variables: the constant a boolean phi receives over this edge
				c2 := cnts
				if isEv[Edge{From: b, Idx: i}] {
					c2 = shiftCounts(cnts, map[int]bool{1: true})
				}
				dfs(s, c2, nk)
			}
		}
		dfs(f.Blocks[0], map[int]bool{0: true}, map[ssa.Value]bool{})
	}
	summarize = func(h *ssa.Function, d int) map[int]bool {
		if s, ok := memo[h]; ok {
			return s
		}
		memo[h] = map[int]bool{0: true} // recursion guard
		out := map[int]bool{}
		walk(h, d, func(_ []*ssa.BasicBlock, cnts map[int]bool) bool {
			for k := range cnts {
				out[k] = true
			}
			return false
		})
		memo[h] = out
		return out
	}
	var found []*ssa.BasicBlock
	foundCnt := 0
	walk(fn, depth, func(path []*ssa.BasicBlock, cnts map[int]bool) bool {
		for k := range cnts {
			if k != want {
				found = append([]*ssa.BasicBlock(nil), path...)
				foundCnt = k
				return true
			}
		}
		return false
	})
	return found, foundCnt, nPaths
}

// shiftCounts: the set {a+b | a in x, b in y}, capped to small values.
func shiftCounts(x, y map[int]bool) map[int]bool {
	if len(y) == 1 && y[0] {
		return x
	}
	out := map[int]bool{}
	for a := range x {
		for b := range y {
			if a+b <= 8 {
				out[a+b] = true
			} else {
				out[9] = true
			}
		}
	}
	return out
}

func runC16(c *Ctx) {
	p := c.P
	px := p.FnsIn("proxy/lib")
	for _, fn := range px {
		c.analysedFn(p.FnName(fn))
	}
	// a failed step releases what the earlier steps of the same function created (a peer connection that is
	// not closed keeps its ICE agent, sockets and callbacks - and with them a session's slot - alive)
	c.checkCleanupOnErrorPaths("O-9 failure returns release what was created", px)
	c.checkErrorBranchesLeaveMode("O-11 a failed step is not carried on with", px, true)
	// a mutex of the proxy that is left locked blocks the next callback that needs it - OnClose of a session among
	// them, and with it the release of that session's slot (C20's pairing rule)
	c.prefix = "O-10/C20:"
	c.checkLockPairing("O-2 lock pairing", px)
	c.prefix = ""
	// the wait for the client's data channel starts when the answer has been delivered: a timer created before
	// sendAnswer can have fired by the time the select is reached, and a select that finds both the timeout and the
	// opened channel ready may take the timeout - the slot is then returned twice (here and by the handler)
	if rs := p.Fn("proxy/lib", "(*SnowflakeProxy).runSession"); rs != nil {
		var send *ssa.Call
		for _, ci := range callsIn(rs) {
			if f := staticCallee(ci); f != nil && f.Name() == "sendAnswer" {
				send, _ = ci.(*ssa.Call)
			}
		}
		var timers []*ssa.Call
		for _, ci := range callsIn(rs) {
			switch calleeName(ci) {
			case "time.After", "time.NewTimer", "time.AfterFunc", "time.Tick", "time.NewTicker":
				if cc, ok := ci.(*ssa.Call); ok {
					timers = append(timers, cc)
				}
			}
		}
		ruleT := "O-7 the data-channel timeout starts after the answer was sent"
		if send != nil && len(timers) > 0 {
			for _, tc := range timers {
				after := (send.Block() == tc.Block() && instrIndex(send) < instrIndex(tc)) || (send.Block() != tc.Block() && send.Block().Dominates(tc.Block()))
				c.check(after, ruleT, "runSession creates its timer behind sendAnswer", p.instrPos(tc), "", "the timer is running while the answer is still being posted: when the broker acknowledges late, timeout and data channel are both ready at the select, and taking the timeout returns a slot that the data-channel handler returns again")
			}
		} else if send == nil {
			c.undecided(ruleT, "runSession creates its timer behind sendAnswer", p.Pos(rs.Pos()), "no sendAnswer call found")
		}
	}
	run := p.Fn("proxy/lib", "(*SnowflakeProxy).runSession")
	start := p.Fn("proxy/lib", "(*SnowflakeProxy).Start")
	mk := p.Fn("proxy/lib", "(*SnowflakeProxy).makePeerConnectionFromOffer")
	dch := p.Fn("proxy/lib", "(*SnowflakeProxy).datachannelHandler")
	if run == nil || start == nil || mk == nil || dch == nil {
		c.undecided("O-0 anchors", "runSession/Start/makePeerConnectionFromOffer/datachannelHandler", "-", "anchor does not resolve")
		return
	}
	rule1 := "O-1 slot pairing on every exit"
	// --- who calls get / ret ---
	for _, fn := range px {
		for _, ci := range callsIn(fn) {
			switch calleeName(ci) {
			case "(*proxy/lib.tokens_t).get":
				c.check(fn == start, rule1, p.FnName(fn)+" takes a slot", p.instrPos(ci), "only Start takes slots", "a slot is taken outside Start: the pairing with runSession's releases no longer holds")
				if fn == start {
					path := escapesOrLoopsWithout(ci, func(in ssa.Instruction) bool {
						c2, ok := in.(ssa.CallInstruction)
						return ok && staticCallee(c2) == run
					})
					c.check(path == nil, rule1, "Start: every slot taken reaches runSession", p.instrPos(ci), "", "after tokens.get() a path continues without calling runSession (slot leaked)", p.pathString(path)...)
				}
			case "(*proxy/lib.tokens_t).ret":
				okOwner := belongsTo(fn, run) || belongsTo(fn, dch)
				c.check(okOwner, rule1, p.FnName(fn)+" releases a slot", p.instrPos(ci), "", "a slot is released outside runSession/datachannelHandler: some session releases twice")
			}
		}
	}
	// --- runSession: exactly one release event per path ---
	// the hand-off channel: the channel runSession waits on next to its timeout. It is made in runSession and
	// handed to makePeerConnectionFromOffer, or made there and returned.
	var mkCall *ssa.Call
	for _, f := range helperFns(run, 2) {
		for _, ci := range callsIn(f) {
			if cc, ok := ci.(*ssa.Call); ok && staticCallee(ci) == mk {
				mkCall = cc
			}
		}
	}
	resolveChan := func(v ssa.Value) *ssa.MakeChan {
		var out *ssa.MakeChan
		xforms(v, func(x ssa.Value) bool {
			if m, ok := x.(*ssa.MakeChan); ok {
				out = m
				return true
			}
			return false
		})
		if out != nil {
			return out
		}
		// a result of makePeerConnectionFromOffer: the channel its returns carry
		if ex, ok := strip(v).(*ssa.Extract); ok && mkCall != nil && ex.Tuple == ssa.Value(mkCall) {
			var m *ssa.MakeChan
			for _, r := range returnsOf(mk) {
				rv := retVal(r, ex.Index)
				if isNilConst(rv) {
					continue
				}
				var m2 *ssa.MakeChan
				xforms(rv, func(x ssa.Value) bool {
					if mm, okm := x.(*ssa.MakeChan); okm {
						m2 = mm
						return true
					}
					return false
				})
				if m2 == nil || (m != nil && m != m2) {
					return nil
				}
				m = m2
			}
			return m
		}
		return nil
	}
	var dataChan *ssa.MakeChan
	for _, f := range helperFns(run, 2) {
		for _, op := range chanOpsIn(p, f) {
			if op.Dir == chRecv && op.Sel != nil && op.Class != "timer" && !isTimerChan(op.Chan) {
				// made by runSession itself or by makePeerConnectionFromOffer (not by something the handler calls)
				if m := resolveChan(op.Chan); m != nil && (m.Parent() == run || m.Parent() == mk || (m.Parent().Parent() == nil && uniqueSite(m.Parent()) != nil && uniqueSite(m.Parent()).Parent() == run && m.Parent() != dch)) {
					dataChan = m
				}
			}
		}
	}
	var handEdges []Edge
	handIn := func(f *ssa.Function) []Edge {
		var out []Edge
		for _, op := range chanOpsIn(p, f) {
			if op.Dir == chRecv && op.Sel != nil && dataChan != nil && resolveChan(op.Chan) == dataChan {
				if e, ok := selectCaseEdge(op.Sel, op.State); ok {
					out = append(out, e)
				}
			}
		}
		return out
	}
	if dataChan != nil {
		for _, f := range helperFns(run, 2) {
			handEdges = append(handEdges, handIn(f)...)
		}
	}
	// the handler parameter of makePeerConnectionFromOffer, by type
	hIdx := -1
	for i, par := range mk.Params {
		if sig, ok := par.Type().Underlying().(*types.Signature); ok && sig.Params().Len() == 2 && sig.Results().Len() == 0 {
			hIdx = i
		}
	}
	if dataChan == nil || len(handEdges) != 1 || mkCall == nil || hIdx < 0 {
		c.undecided(rule1, "runSession: hand-off select on the data-channel signal", p.Pos(run.Pos()), "no 'case <-dataChan' found on a channel made in runSession or returned by makePeerConnectionFromOffer")
	} else {
		bad, got, n := pathEventCountsDeep(run, isRetCall, handIn, 1, 2)
		c.count("runSession paths enumerated", n)
		c.check(bad == nil && n >= 3, rule1, "runSession releases its slot exactly once on every path", p.Pos(run.Pos()), fmt.Sprintf("%d entry-to-return paths, each with exactly one release event (tokens.ret() or the hand-off edge)", n),
			fmt.Sprintf("a path of runSession carries %d release events instead of 1 (paths enumerated: %d)", got, n), p.pathString(bad)...)
		// the handler is the adaptor
		target := resolveHandler(p, mkCall.Call.Args[hIdx])
		c.check(target == dch, rule1, "runSession's handler resolves to SnowflakeProxy.datachannelHandler", p.instrPos(mkCall), "", "the handler started on hand-off is not the function that releases the slot")
		// --- hand-off inside makePeerConnectionFromOffer: the channel closed by the OnDataChannel callback is the
		// one runSession awaits ---
		hPar := mk.Params[hIdx]
		isHandOff := func(v ssa.Value) bool {
			if resolveChan(v) == dataChan {
				return true
			}
			// the channel arrives as a parameter: the argument at the call is the awaited channel
			ok := false
			for i, par := range mk.Params {
				if sameValue(v, func(w ssa.Value) bool { return w == ssa.Value(par) }) && i < len(mkCall.Call.Args) && resolveChan(mkCall.Call.Args[i]) == dataChan {
					ok = true
				}
			}
			return ok
		}
		nClose := 0
		for _, fn := range withAnon(mk) {
			for _, op := range chanOpsIn(p, fn) {
				if op.Dir != chClose || !isHandOff(op.Chan) {
					continue
				}
				nClose++
				// fn must be the OnDataChannel callback
				isODC := false
				for _, mc := range p.closureSites[fn] {
					for _, r := range *mc.Referrers() {
						if ci, ok := r.(ssa.CallInstruction); ok && strings.HasSuffix(calleeName(ci), "PeerConnection).OnDataChannel") {
							isODC = true
						}
					}
				}
				c.check(isODC, rule1, p.FnName(fn)+" signals the hand-off", p.instrPos(op.Instr), "inside the OnDataChannel callback", "the hand-off channel is closed outside the OnDataChannel callback: runSession stops waiting although no handler will release the slot")
				// on every path of that callback the handler goroutine is started
				path := escapesWithout(fn.Blocks[0], func(in ssa.Instruction) bool {
					g, ok := in.(*ssa.Go)
					return ok && sameValue(g.Call.Value, func(v ssa.Value) bool { return v == ssa.Value(hPar) })
				})
				c.check(path == nil, rule1, p.FnName(fn)+" starts the handler whenever it signals the hand-off", p.instrPos(op.Instr), "", "a path of the callback closes the hand-off channel without starting the handler goroutine", p.pathString(path)...)
			}
		}
		if nClose != 1 {
			c.viol(rule1, "makePeerConnectionFromOffer closes the hand-off channel in one place", p.Pos(mk.Pos()), fmt.Sprintf("%d close sites of the channel runSession awaits", nClose))
		}
	}
	// --- datachannelHandler releases exactly once ---
	{
		nDefer, nDirect := 0, 0
		inEntry := false
		for _, ci := range callsIn(dch) {
			if calleeName(ci) != "(*proxy/lib.tokens_t).ret" {
				continue
			}
			if d, ok := ci.(*ssa.Defer); ok {
				nDefer++
				inEntry = d.Block() == dch.Blocks[0]
			} else {
				nDirect++
			}
		}
		c.check(nDefer == 1 && nDirect == 0 && inEntry, rule1, "datachannelHandler releases exactly once (one deferred ret at entry)", p.Pos(dch.Pos()), "",
			fmt.Sprintf("datachannelHandler has %d deferred and %d direct tokens.ret() calls (deferred at entry: %v): a session releases its slot twice or not at all", nDefer, nDirect, inEntry))
	}

	// ---------- O-2 counter and semaphore ----------
	c.checkTokens()
	c.checkRelayDialBounded()
	c.checkCopyLoopEnds()
	c.checkSessionEndSignals()

	// ---------- O-3 reported load ----------
	rule3 := "O-3 reported load"
	if poll := p.Fn("proxy/lib", "(*SignalingServer).pollOffer"); poll != nil {
		n := 0
		for _, ci := range callsTo(poll, "common/messages.EncodeProxyPollRequestWithRelayPrefix") {
			n++
			arg := ci.Common().Args[3]
			var cnt *ssa.Call
			shape := false
			if cv, ok := arg.(*ssa.Convert); ok {
				if mul, ok := cv.X.(*ssa.BinOp); ok && mul.Op == token.MUL {
					if quo, ok := mul.X.(*ssa.BinOp); ok && quo.Op == token.QUO {
						k1, _ := constInt(mul.Y)
						k2, _ := constInt(quo.Y)
						if cc, ok := quo.X.(*ssa.Call); ok && strings.HasSuffix(calleeName(cc), "proxy/lib.tokens_t).count") && k1 == 8 && k2 == 8 {
							shape = true
							cnt = cc
						}
					}
				}
			}
			c.check(shape, rule3, "pollOffer reports int((tokens.count()/8)*8)", p.instrPos(ci), "", "the reported load is not the slot count rounded down to a multiple of 8")
			if cnt != nil {
				// recomputed in the iteration of the poll
				var post ssa.Instruction
				for _, c2 := range callsIn(poll) {
					if strings.HasSuffix(calleeName(c2), "SignalingServer).Post") {
						post = c2
					}
				}
				fresh := post != nil && inCycle(cnt.Block()) && reachPath(post.Block(), cnt.Block(), nil) != nil
				c.check(fresh, rule3, "pollOffer recomputes the load for every poll", p.instrPos(cnt), "", "the load is computed outside the polling loop: later polls report a stale count that can exceed the slots in use")
			}
		}
		if n == 0 {
			c.undecided(rule3, "pollOffer encodes a poll request", p.Pos(poll.Pos()), "no EncodeProxyPollRequestWithRelayPrefix call")
		}
	} else {
		c.undecided(rule3, "pollOffer", "-", "anchor does not resolve")
	}

	// ---------- O-4 failed steps close the peer connection first ----------
	rule4 := "O-4 failed steps close what they opened"
	for _, ci := range callsIn(run) {
		cc, ok := ci.(*ssa.Call)
		if !ok || staticCallee(cc) != mk {
			continue
		}
		okE := errNilEdges(run, cc, errResultIndex(cc.Call.Signature()))
		n := 0
		for _, d := range deepInstrs(run, 2, isRetCall) {
			// only releases after the successful creation
			after := false
			for _, e := range okE {
				if reachPath(e.To(), d.Top.Block(), nil) != nil {
					after = true
				}
			}
			if !after {
				continue
			}
			n++
			var starts []*ssa.BasicBlock
			for _, e := range okE {
				starts = append(starts, e.To())
			}
			path := unblockedAlong(d, starts, func(b *ssa.BasicBlock) bool {
				for _, x := range b.Instrs {
					if c2, ok := x.(ssa.CallInstruction); ok && strings.HasSuffix(calleeName(c2), "PeerConnection).Close") && isResultOfCall(callArgs(c2)[0], cc, 0) {
						return true
					}
				}
				return false
			})
			c.check(path == nil, rule4, "runSession closes the peer connection before releasing the slot", p.instrPos(d.In), "", "a failure exit after the peer connection was created releases the slot without closing the connection", p.pathString(path)...)
		}
		if n < 1 {
			c.undecided(rule4, "runSession failure exits after the peer connection exists", p.instrPos(cc), fmt.Sprintf("found %d, expected the answer-failure and the timeout exits", n))
		}
	}
}

func isResultOfCall(v ssa.Value, call *ssa.Call, idx int) bool {
	c, i, ok := callResult(v)
	return ok && c == call && i == idx
}

// isResultOfCall1 is isResultOfCall without cross-function resolution: v itself
// (after local stripping) is result idx of call.
func isResultOfCall1(v ssa.Value, call *ssa.Call, idx int) bool {
	c, i, ok := callResult1(strip(v))
	return ok && c == call && i == idx
}

// resolveHandler follows a bound method value / closure to the repository
// function it ultimately calls (through one forwarding wrapper).
func resolveHandler(p *Prog, v ssa.Value) *ssa.Function {
	var f *ssa.Function
	switch x := strip(v).(type) {
	case *ssa.MakeClosure:
		f, _ = x.Fn.(*ssa.Function)
	case *ssa.Function:
		f = x
	}
	for depth := 0; f != nil && depth < 4; depth++ {
		// a forwarding function: exactly one call to a repository function
		var next *ssa.Function
		n := 0
		for _, ci := range callsIn(f) {
			if callee := staticCallee(ci); callee != nil && p.IsRepoFn(callee) {
				n++
				next = callee
			}
		}
		if f.Synthetic == "" && f.Name() == "datachannelHandler" && f.Signature.Recv() != nil {
			if nt := namedOf(f.Signature.Recv().Type()); nt != nil && nt.Obj().Name() == "SnowflakeProxy" {
				return f
			}
		}
		if n != 1 {
			return f
		}
		f = next
	}
	return f
}

// escapesOrLoopsWithout: after instruction `from`, is there a path that reaches
// a return, or comes back to from's block, without passing an instruction
// satisfying pass?
func escapesOrLoopsWithout(from ssa.Instruction, pass func(ssa.Instruction) bool) []*ssa.BasicBlock {
	b := from.Block()
	idx := instrIndex(from)
	for _, in := range b.Instrs[idx+1:] {
		if pass(in) {
			return nil
		}
	}
	if _, isRet := b.Instrs[len(b.Instrs)-1].(*ssa.Return); isRet {
		return []*ssa.BasicBlock{b}
	}
	blocked := func(x *ssa.BasicBlock) bool {
		for _, in := range x.Instrs {
			if pass(in) {
				return true
			}
		}
		return false
	}
	for _, s := range b.Succs {
		if path := psSearch(s, nil, blocked, func(x *ssa.BasicBlock) bool {
			if x == b {
				return true
			}
			if len(x.Instrs) == 0 {
				return false
			}
			_, ok := x.Instrs[len(x.Instrs)-1].(*ssa.Return)
			return ok
		}); path != nil {
			return append([]*ssa.BasicBlock{b}, path...)
		}
	}
	return nil
}

func (c *Ctx) checkTokens() {
	p := c.P
	rule := "O-2 counter and semaphore move together"
	get := p.Fn("proxy/lib", "(*tokens_t).get")
	ret := p.Fn("proxy/lib", "(*tokens_t).ret")
	newT := p.Fn("proxy/lib", "newTokens")
	if get == nil || ret == nil || newT == nil {
		c.undecided(rule, "tokens_t.get/ret/newTokens", "-", "anchor does not resolve")
		return
	}
	capF := p.Field("proxy/lib", "tokens_t", "capacity")
	chF := p.Field("proxy/lib", "tokens_t", "ch")
	clF := p.Field("proxy/lib", "tokens_t", "clients")
	for _, w := range []struct {
		fn    *ssa.Function
		delta int64
		dir   chanDir
	}{{get, 1, chSend}, {ret, -1, chRecv}} {
		okAdd, okCh := false, false
		for _, ci := range callsTo(w.fn, "sync/atomic.AddInt64") {
			d, _ := constInt(ci.Common().Args[1])
			_, f, ok := fieldOfAddr(ci.Common().Args[0])
			// on every path
			if ok && f == clF && d == w.delta && escapesWithout(w.fn.Blocks[0], func(in ssa.Instruction) bool { return in == ssa.Instruction(ci) }) == nil {
				okAdd = true
			}
		}
		nonZero := condEdges(w.fn, false, func(a Atom) bool {
			if a.Op != token.EQL {
				return false
			}
			k, ok := constInt(a.Y)
			return ok && k == 0 && isFieldLoadOf(a.X, capF)
		})
		nOps := 0
		for _, op := range chanOpsIn(p, w.fn) {
			if op.Class != "tokens_t.ch" {
				continue
			}
			nOps++
			if op.Dir == w.dir && op.Mode == "unconditional" && len(nonZero) > 0 && reachableWithout(w.fn, op.Instr, nonZero) == nil {
				// and it happens on every path where capacity != 0
				all := true
				for _, e := range nonZero {
					if escapesWithout(e.To(), func(in ssa.Instruction) bool { return in == op.Instr }) != nil {
						all = false
					}
				}
				okCh = all
			}
		}
		c.check(okAdd && okCh && nOps == 1, rule, fmt.Sprintf("tokens_t.%s: counter %+d and one %s on ch exactly when capacity != 0", p.RefName(w.fn), w.delta, w.dir), p.Pos(w.fn.Pos()), "",
			"the slot counter and the semaphore channel are not updated together: reported load and admitted sessions diverge, or capacity is not enforced")
	}
	// ch = make(chan struct{}, capacity)
	okMake := false
	for _, op := range chanOpsIn(p, newT) {
		if op.Dir == chMake {
			mc := op.Instr.(*ssa.MakeChan)
			if sameValue(mc.Size, func(v ssa.Value) bool { return v == ssa.Value(newT.Params[0]) }) {
				okMake = true
			}
		}
	}
	c.check(okMake, rule, "newTokens: ch = make(chan struct{}, capacity)", p.Pos(newT.Pos()), "", "the semaphore's capacity is not the configured capacity")
	// no other access to ch / clients
	px := p.FnsIn("proxy/lib")
	for _, f := range []*types.Var{chF, clF} {
		if f == nil {
			continue
		}
		bad := 0
		for _, a := range accessesOfField(px, f, false) {
			top := a.Fn
			for top.Parent() != nil {
				top = top.Parent()
			}
			n := p.RefName(top)
			owner := top.Signature.Recv() != nil && (n == "get" || n == "ret" || n == "count")
			if owner || a.Fn == newT {
				continue
			}
			bad++
			c.viol(rule, p.FnName(a.Fn)+" accesses tokens_t."+f.Name(), p.instrPos(a.Instr), "slot state touched outside get/ret/count")
		}
		if bad == 0 {
			c.ok(rule, "tokens_t."+f.Name()+" accessed only by get/ret/count/newTokens", p.Pos(f.Pos()), "")
		}
	}
}

// checkRelayDialBounded: the session's slot is released by datachannelHandler's
// deferred ret, i.e. only when the handler returns; the one blocking step before
// the copy loop is the WebSocket dial, so the dialer must bound its handshake:
// websocket.DefaultDialer (HandshakeTimeout 45 s) or a Dialer whose
// HandshakeTimeout is set to a positive constant.
func (c *Ctx) checkRelayDialBounded() {
	p := c.P
	rule := "O-5 the relay dial is bounded"
	n := 0
	for _, fn := range p.FnsIn("proxy/lib") {
		for _, ci := range callsIn(fn) {
			nm := calleeName(ci)
			if !strings.HasSuffix(nm, "websocket.Dialer).Dial") && !strings.HasSuffix(nm, "websocket.Dialer).DialContext") {
				continue
			}
			n++
			recv := callArgs(ci)[0]
			good, why := false, ""
			// a load of the library's default dialer
			if addr, ok := loadAddr(strip(recv)); ok {
				if g, okg := addr.(*ssa.Global); okg && g.Name() == "DefaultDialer" && g.Pkg != nil && strings.HasSuffix(g.Pkg.Pkg.Path(), "gorilla/websocket") {
					good, why = true, "websocket.DefaultDialer (45 s handshake timeout)"
				}
			}
			if !good {
				// a dialer of the repository: some store of a positive constant to its HandshakeTimeout, on the object used
				var obj ssa.Value = strip(recv)
				if a, ok := loadAddr(obj); ok {
					obj = a
				}
				for _, f := range append(p.FnsIn("proxy/lib"), p.PkgInits()...) {
					allInstrs(f, func(in ssa.Instruction) {
						st, ok := in.(*ssa.Store)
						if !ok {
							return
						}
						base, fld, okf := fieldOfAddr(st.Addr)
						if !okf || fld.Name() != "HandshakeTimeout" {
							return
						}
						if k, okk := constInt(st.Val); okk && k > 0 && (base == obj || strip(base) == obj) {
							good, why = true, "HandshakeTimeout set"
						}
					})
				}
			}
			c.check(good, rule, p.FnName(fn)+" dials the relay with a bounded handshake", p.instrPos(ci), why, "the relay is dialled through a Dialer without a handshake timeout: a relay that accepts the TCP connection and never answers parks the handler for ever, its deferred tokens.ret() never runs and the slot is lost")
		}
	}
	if n == 0 {
		c.undecided(rule, "WebSocket dial in proxy/lib", "-", "none found")
	}
}

// checkCopyLoopEnds: copyLoop returns - and with it datachannelHandler, whose
// deferred tokens.ret() frees the slot - only when one of its two copying
// goroutines signals the local done channel. Every returning path of those
// goroutine bodies performs the signal (close or send, directly or through
// sync.Once.Do), whatever io.Copy returned.
func (c *Ctx) checkCopyLoopEnds() {
	p := c.P
	rule := "O-6 a session that ended releases its slot"
	cl := p.Fn("proxy/lib", "copyLoop")
	if cl == nil {
		c.undecided(rule, "proxy/lib.copyLoop", "-", "anchor does not resolve")
		return
	}
	doneCls := ""
	for _, fn := range helperFns(cl, 1) {
		for _, op := range chanOpsIn(p, fn) {
			if op.Dir == chRecv && op.Sel != nil && strings.HasPrefix(op.Class, "local:") {
				doneCls = op.Class
			}
		}
	}
	if doneCls == "" {
		c.okTrivial(rule, "copyLoop waits for its copying goroutines", p.Pos(cl.Pos()), "no wait on a local channel: obligation not evaluated")
		return
	}
	mkIsSignal := func(accepted map[string]bool) func(ssa.Instruction) bool {
		signalsIn := func(fn *ssa.Function) bool {
			for _, op := range chanOpsIn(p, fn) {
				if (op.Dir == chClose || op.Dir == chSend) && accepted[op.Class] {
					return true
				}
			}
			return false
		}
		return func(in ssa.Instruction) bool {
			for _, op := range chanOpsIn(p, in.Parent()) {
				if op.Instr == in && (op.Dir == chClose || op.Dir == chSend) && accepted[op.Class] {
					return true
				}
			}
			ci, ok := in.(ssa.CallInstruction)
			if !ok || calleeName(ci) != "(*sync.Once).Do" {
				return false
			}
			switch v := strip(ci.Common().Args[1]).(type) {
			case *ssa.MakeClosure:
				if f, okf := v.Fn.(*ssa.Function); okf {
					return signalsIn(f)
				}
			case *ssa.Function:
				return signalsIn(v)
			}
			return false
		}
	}
	n := 0
	for _, fn := range helperFns(cl, 1) {
		for _, ci := range callsIn(fn) {
			g, ok := ci.(*ssa.Go)
			if !ok {
				continue
			}
			body := staticCallee(g)
			if body == nil || body.Blocks == nil {
				continue
			}
			n++
			// the done channel may reach the body as a captured variable or as a parameter
			accepted := map[string]bool{doneCls: true}
			for i, a := range g.Call.Args {
				if i < len(body.Params) && chanClass(p, a) == doneCls {
					accepted["param:"+body.Params[i].Name()] = true
				}
			}
			path := escapesWithout(body.Blocks[0], mkIsSignal(accepted))
			c.check(path == nil, rule, "each copying goroutine of copyLoop signals its end on every return", p.instrPos(g), "signal on "+doneCls, "a copying goroutine can return without signalling (for example after a copy error): when both directions end that way copyLoop never returns, datachannelHandler never runs its deferred tokens.ret() and the slot is held for ever", p.pathString(path)...)
		}
	}
	if n == 0 {
		c.undecided(rule, "copyLoop's copying goroutines", p.Pos(cl.Pos()), "no go statement found although copyLoop waits on "+doneCls)
	}
}

// checkSessionEndSignals: (a) the data channel's OnClose callback closes the pipe
// writer on every path: the handler's copy loop reads from that pipe and ends -
// and datachannelHandler releases the slot - only at its EOF; (b) Start creates
// the token pool from its own Capacity on every path before the first slot is
// taken (a pool kept from a previous Start has the old capacity); (c) Close of
// the WebSocket adapter writes its Close frame under a deadline taken from the
// clock (with no deadline WriteControl waits for a write loop that is stuck in a
// blocked socket write, and teardown - with it the slot - hangs).
func (c *Ctx) checkSessionEndSignals() {
	p := c.P
	rule := "O-6 a session that ended releases its slot"
	if mk := p.Fn("proxy/lib", "(*SnowflakeProxy).makePeerConnectionFromOffer"); mk != nil {
		n := 0
		for _, fn := range withAnon(mk) {
			for _, ci := range callsIn(fn) {
				if !strings.HasSuffix(calleeName(ci), "DataChannel).OnClose") {
					continue
				}
				var body *ssa.Function
				switch v := strip(ci.Common().Args[1]).(type) {
				case *ssa.MakeClosure:
					body, _ = v.Fn.(*ssa.Function)
				case *ssa.Function:
					body = v
				}
				if body == nil || body.Blocks == nil {
					continue
				}
				n++
				path := escapesWithout(body.Blocks[0], func(in ssa.Instruction) bool {
					c2, ok := in.(ssa.CallInstruction)
					return ok && (calleeName(c2) == "(*io.PipeWriter).Close" || calleeName(c2) == "(*io.PipeWriter).CloseWithError")
				})
				c.check(path == nil, rule, "the data channel's OnClose callback closes the pipe the handler reads from, on every path", p.instrPos(ci), "", "the callback can return without closing the pipe writer (an early return for unused connections): the copy loop never sees EOF and the session's slot is never released", p.pathString(path)...)
			}
		}
		if n == 0 {
			c.undecided(rule, "OnClose callback of the proxy's data channel", p.Pos(mk.Pos()), "not found")
		}
	}
	if start := p.Fn("proxy/lib", "(*SnowflakeProxy).Start"); start != nil {
		var store *ssa.Store
		allInstrs(start, func(in ssa.Instruction) {
			if st, ok := in.(*ssa.Store); ok {
				if g, isG := st.Addr.(*ssa.Global); isG && g.Name() == "tokens" {
					store = st
				}
			}
		})
		var firstGet ssa.Instruction
		for _, d := range deepCalls(start, 2, "(*proxy/lib.tokens_t).get") {
			if firstGet == nil {
				firstGet, _ = d.Top.(ssa.Instruction)
			}
		}
		if store == nil || firstGet == nil {
			c.undecided(rule, "Start creates the token pool", p.Pos(start.Pos()), "store to tokens or tokens.get() not found")
		} else {
			fromCap := flows(store.Val, func(v ssa.Value) bool {
				cc, _, ok := callResult(v)
				if !ok || calleeName(cc) != "proxy/lib.newTokens" {
					return false
				}
				_, f, okf := fieldLoad(cc.Call.Args[0])
				return okf && f.Name() == "Capacity"
			})
			path := psSearch(start.Blocks[0], nil, func(b *ssa.BasicBlock) bool { return b == store.Block() }, func(b *ssa.BasicBlock) bool { return b == firstGet.Block() })
			c.check(fromCap && path == nil, rule, "Start creates the token pool from its Capacity before any slot is taken", p.instrPos(store), "on every path", "the pool is not (always) re-created from this Start's Capacity: a proxy restarted with another capacity keeps honouring the old one", p.pathString(path)...)
		}
	}
	if cl := p.Fn("common/websocketconn", "(*Conn).Close"); cl != nil {
		n := 0
		for _, ci := range callsIn(cl) {
			if !strings.HasSuffix(calleeName(ci), "websocket.Conn).WriteControl") {
				continue
			}
			n++
			args := ci.Common().Args
			dl := args[len(args)-1]
			fromClock := flows(dl, func(v ssa.Value) bool {
				cc, _, ok := callResult(v)
				return ok && calleeName(cc) == "time.Now"
			})
			c.check(fromClock, rule, "websocketconn.Close writes its Close frame under a deadline", p.instrPos(ci), "time.Now().Add(...)", "the Close control frame is written with no deadline (a zero time): WriteControl waits for the connection's write lock, which a write loop blocked in a socket write never gives up, and Close - with it the session's teardown - hangs")
		}
		if n == 0 {
			c.okTrivial(rule, "websocketconn.Close writes a Close frame", p.Pos(cl.Pos()), "no WriteControl call: obligation not evaluated")
		}
	}
}
