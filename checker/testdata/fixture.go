// Seeded-fault fixture for the analyser self-test. It is parsed and
// type-checked, never executed. Every xxxBad function violates the rule its
// engine checks; the xxxGood twin is the repaired shape.
package fixture

import (
	"errors"
	"fmt"
	"os"
	"strings"
	"sync"
)

func sink(*int)              {}
func produce() (*int, error) { return nil, errors.New("x") }
func first()                 {}
func second()                {}
func release()               {}
func cond() bool             { return false }

// ---- E-PANIC ----
func panicBad(x int) {
	if x > 3 {
		panic("seeded")
	}
}

func assertBad(v interface{}) string { return v.(string) }

func assertGood(v interface{}) string {
	if _, ok := v.(string); !ok {
		return ""
	}
	return v.(string)
}

// ---- E-GUARD ----
func guardBad() {
	p, err := produce()
	sink(p)
	if err != nil {
		return
	}
}

func guardGood() {
	p, err := produce()
	if err != nil {
		return
	}
	sink(p)
}

func guardFatal() {
	p, err := produce()
	if err != nil {
		os.Exit(1)
	}
	sink(p)
}

// ---- path-sensitive search ----
func twiceTested() {
	c := cond()
	if c {
		first()
	}
	if c {
		second()
	}
}

// ---- E-CHAN ----
func chanModes(a, b chan int) {
	a <- 1   // unconditional
	select { // polling
	case v := <-b:
		_ = v
	default:
	}
	select { // blocking select over two channels
	case a <- 2:
	case <-b:
	}
}

// ---- E-LOCK ----
type box struct {
	mu sync.Mutex
	n  int
}

func lockedWrite(b *box) {
	b.mu.Lock()
	b.n = 1
	b.mu.Unlock()
}

func unlockedWrite(b *box) {
	b.mu.Lock()
	b.mu.Unlock()
	b.n = 2
}

func deferLockedWrite(b *box) {
	b.mu.Lock()
	defer b.mu.Unlock()
	if cond() {
		return
	}
	b.n = 3
}

func helperUnderLock(b *box) { b.n = 4 }

func callsHelperLocked(b *box) {
	b.mu.Lock()
	helperUnderLock(b)
	b.mu.Unlock()
}

func helperMixedCallers(b *box) { b.n = 5 }

func callsMixedA(b *box) {
	b.mu.Lock()
	helperMixedCallers(b)
	b.mu.Unlock()
}

func callsMixedB(b *box) { helperMixedCallers(b) }

func goroutineBody(b *box) { b.n = 6 }

func startsGoroutine(b *box) {
	b.mu.Lock()
	go goroutineBody(b)
	b.mu.Unlock()
}

// callback handed to a helper that calls it under the lock / outside the lock
func withBoxLock(b *box, f func(*box)) {
	b.mu.Lock()
	f(b)
	b.mu.Unlock()
}

func withBoxLockLate(b *box, f func(*box)) {
	f(b)
	b.mu.Lock()
	b.mu.Unlock()
}

func callbackUnderLock(b *box) {
	withBoxLock(b, func(x *box) { x.n = 7 })
}

func callbackOutsideLock(b *box) {
	withBoxLockLate(b, func(x *box) { x.n = 8 })
}

// ---- nil-after-error field summary ----
type holder struct{ p *int }

func (h *holder) prepare() error {
	var err error
	h.p, err = produce()
	if err != nil {
		return err
	}
	return nil
}

// ---- E-PAIR ----
func releaseTwice(x int) {
	if x > 0 {
		release()
	}
	release()
}

func releaseOnce(x int) {
	if x > 0 {
		release()
		return
	}
	release()
}

func usesHolder() error {
	h := &holder{}
	return h.prepare()
}

// ---- cross-function resolution (helper extraction must not change a verdict) ----

// guardViaHelperGood: the err == nil test lives in a boolean helper.
func produced(err error) bool { return err == nil }

func guardViaHelperGood() {
	p, err := produce()
	if !produced(err) {
		return
	}
	sink(p)
}

// guardViaHelperBad: the helper says yes without testing.
func producedAnyway(err error) bool {
	if cond() {
		return true
	}
	return err == nil
}

func guardViaHelperBad() {
	p, err := produce()
	if !producedAnyway(err) {
		return
	}
	sink(p)
}

// sinkInHelper: the guarded action moved into a helper with one call site.
func doSink(p *int) { sink(p) }

func sinkInHelper() {
	p, err := produce()
	if err != nil {
		return
	}
	doSink(p)
}

// releaseInHelper: the tail that releases moved into a helper (once on every path).
func tailRelease(x int) {
	if x > 1 {
		release()
		return
	}
	release()
}

func releaseViaHelperOnce(x int) {
	if x > 0 {
		release()
		return
	}
	tailRelease(x)
}

func releaseViaHelperTwice(x int) {
	release()
	tailRelease(x)
}

// claimedHelper: "returns false only after release()" - the false edge of a test
// of its result counts as a release for a must-pass rule.
func claimedHelper(x int) bool {
	claimed := x == -1
	if !claimed {
		release()
	}
	return claimed
}

func passViaBoolHelperGood(x int) {
	if claimedHelper(x) {
		release()
	}
}

func passViaBoolHelperBad(x int) {
	if !claimedHelper(x) {
		release()
	}
}

// ---- decode destination reused across iterations ----
type rec struct{ A, B string }

func decode(dst *rec) {}

// ---- flag variables (phi of constants) ----
func flagGuard() {
	p, err := produce()
	ok := true
	if err != nil {
		ok = false
	}
	if ok {
		sink(p)
	}
}

func flagGuardBad() {
	p, err := produce()
	ok := true
	if err != nil {
		ok = cond()
	}
	if ok {
		sink(p)
	}
}

// ---- length rule for constant indexes into Split results ----
func splitIndexBad(v string) string {
	parts := strings.Split(v, ".")
	if parts[0] != "1" {
		return ""
	}
	return parts[1]
}

func splitIndexGood(v string) string {
	parts := strings.Split(v, ".")
	if len(parts) < 2 {
		return ""
	}
	return parts[1]
}

func splitIndexGood2(v string) string {
	parts := strings.Split(v, ".")
	if 1 < len(parts) && parts[1] != "" {
		return parts[1]
	}
	return ""
}

func splitIndexWeak(v string) string {
	parts := strings.Split(v, ".")
	if len(parts) >= 1 {
		return parts[1]
	}
	return ""
}

// ---- E-CLEANUP: release on failure returns ----
type res struct{}

func (r *res) Close() error { return nil }
func open1() (*res, error)  { return &res{}, nil }
func step() error           { return nil }

func cleanupBad() (*res, error) {
	r, err := open1()
	if err != nil {
		return nil, err
	}
	if err := step(); err != nil {
		r.Close()
		return nil, err
	}
	if err := step(); err != nil {
		return nil, err // leaks r although the earlier failure return closes it
	}
	return r, nil
}

func cleanupGood() (*res, error) {
	r, err := open1()
	if err != nil {
		return nil, err
	}
	if err := step(); err != nil {
		return nil, err // earlier than any releasing return: states nothing
	}
	if err := step(); err != nil {
		r.Close()
		return nil, err
	}
	if err := step(); err != nil {
		r.Close()
		return nil, err
	}
	return r, nil
}

// ---- data as format ----
func formatBad(s string) string  { return fmt.Sprintf(s) }
func formatGood(s string) string { return fmt.Sprintf("%s", s) }

// ---- lock never released ----
func lockLeakHelper(b *box) {
	b.mu.Lock()
	b.n++
}

func lockLeakLoop(b *box) {
	for i := 0; i < 3; i++ {
		lockLeakHelper(b)
	}
}
