package main

import (
	"fmt"
	"go/token"
	"go/types"
	"regexp"
	"regexp/syntax"
	"strconv"
	"strings"
	"unicode"

	"golang.org/x/tools/go/ssa"
)

func init() {
	register("C07", propMeta{
		Explanation: "E-GUARD + E-PROV + E-TAINT + E-CONST. O-1 sink wiring: in each of the five main packages every log.SetOutput(x) whose x is not directly a *safelog.LogScrubber is reachable only through the true edge of the unsafe-logging flag, and a SetOutput(&LogScrubber{...}) exists on the complementary edge; every log.New in non-test code is one of two listed rows (broker metrics logger, proxy periodic summary) whose use is confined to functions that print counts and units. O-2 the writer emits only scrubbed complete lines: in LogScrubber.Write every Output.Write argument is Scrub(buffer[:LastIndexByte(buffer, '\\n')+1]), reachable only when a newline was found; the remainder kept is the suffix after that index; the buffer is accessed only under the scrubber's mutex. O-3 events are scrubbed before leaving through the PT log: in package event every error.Error() value used by a String() method flows only into safelog.Scrub; the client's PT log receives only e.String(). O-4 delimiter consumption: the address pattern (constant-folded by the type checker, parsed with regexp/syntax) has delimiter groups on both sides; if some rune can be consumed by the right delimiter and is required by the left one, a driver that replaces non-overlapping matches in a single pass necessarily skips the second of two addresses separated by that rune, so such a driver must iterate to a fixpoint (call inside a loop whose exit is the equality of input and output). O-5 address-form table (E-CONST): the address pattern constant, compiled by the checker itself, matches each entry of a table of address spellings (every form class Go's net package prints or accepts: dotted IPv4, full, compressed and IPv4-embedded IPv6, bracketed and with ports) placed between delimiters. O-5 evaluates a constant of the source against a table; no repository code is executed. Added after the third seeding round: loggers and writers obtained in package initialisers (log.New(log.Writer(), ...)) are enumerated as well, since they are taken before main installs the scrubber; the lazily compiled pattern table falls under the shared-state rule. Added after the fifth seeding round: the variable behind -unsafe-logging is set by no flag of another name; the address-form table is also tried directly after '/', '-', '@' and a quote; the metrics logger may be used by any function all of whose callers belong to the periodic report. Added after the sixth seeding round and the mutation audit: in each main no path reaches the first go statement or a return without having called log.SetOutput (or ends the process): the default output of package log is the raw standard error stream.",
		NotDecided:  "coverage of the address grammar beyond the table's form classes (language inclusion is not decided), addresses adjacent to ':' or word characters (excluded by the statement), interleaving of concurrent writers beyond mutual exclusion.",
		Assumptions: []string{"regexp.ReplaceAll* replace non-overlapping matches left to right", "log output of the standard logger is one Write per message"},
	}, runC07)
}

func runC07(c *Ctx) {
	p := c.P
	// ---------- O-1 sink wiring ----------
	rule1 := "O-1 sink wiring"
	isScrubber := func(v ssa.Value) bool {
		bt := boxedType(v)
		return bt != nil && strings.HasSuffix(typeString(bt), "safelog.LogScrubber")
	}
	for _, rel := range []string{"broker", "client", "proxy", "server", "probetest"} {
		mainFn := p.Fn(rel, "main")
		if mainFn == nil {
			c.undecided(rule1, rel+".main", "-", "anchor does not resolve")
			continue
		}
		c.analysedFn(p.FnName(mainFn))
		unsafeEdges := boolEdges(mainFn, true, func(v ssa.Value) bool { return isFlagValue(v, "unsafe-logging") })
		// the variable behind -unsafe-logging is set by no other flag (a deprecated spelling of another option
		// registered on it with BoolVar switches the scrubber off for users who never asked for it)
		for _, fn := range withAnon(mainFn) {
			for _, ci := range callsTo(fn, "flag.BoolVar") {
				ptr := ci.Common().Args[0]
				name, _ := constString(ci.Common().Args[1])
				isUnsafeVar := false
				if cc, _, okc := callResult(ptr); okc && calleeName(cc) == "flag.Bool" {
					if s0, _ := constString(cc.Call.Args[0]); s0 == "unsafe-logging" {
						isUnsafeVar = true
					}
				}
				if refs := ptr.Referrers(); refs != nil && !isUnsafeVar {
					for _, r := range *refs {
						if c2, okc := r.(ssa.CallInstruction); okc && calleeName(c2) == "flag.BoolVar" && c2.Common().Args[0] == ptr {
							if s0, _ := constString(c2.Common().Args[1]); s0 == "unsafe-logging" {
								isUnsafeVar = true
							}
						}
					}
				}
				if isUnsafeVar && !strings.Contains(strings.ToLower(name), "unsafe") {
					c.viol(rule1, rel+": flag -"+name+" sets the unsafe-logging variable", p.instrPos(ci), "an option that has nothing to do with logging is registered on the variable that disables the scrubber: giving that option writes the log unscrubbed")
				}
			}
		}
		nSafe := 0
		n := 0
		for _, fn := range withAnon(mainFn) {
			for _, ci := range callsTo(fn, "log.SetOutput") {
				n++
				x := ci.Common().Args[0]
				key := fmt.Sprintf("%s log.SetOutput #%d", rel, n)
				if isScrubber(x) {
					nSafe++
					c.ok(rule1, key, p.instrPos(ci), "output is a *safelog.LogScrubber")
					continue
				}
				path := reachableWithout(mainFn, ci, unsafeEdges)
				c.check(fn == mainFn && len(unsafeEdges) > 0 && path == nil, rule1, key, p.instrPos(ci), "unscrubbed output only behind -unsafe-logging",
					"the standard logger is given a writer that is not (directly) the log scrubber on a path that does not require -unsafe-logging: log lines reach a sink unscrubbed", p.pathString(path)...)
			}
		}
		c.check(nSafe >= 1, rule1, rel+" installs the scrubber", p.Pos(mainFn.Pos()), "", "no log.SetOutput(&safelog.LogScrubber{...}) in main")
		// and no path leaves the set-up without having installed an output: the default output of package log
		// is the raw standard error stream
		{
			setBlocks := map[*ssa.BasicBlock]bool{}
			for _, ci := range callsTo(mainFn, "log.SetOutput") {
				setBlocks[ci.Block()] = true
			}
			var escape ssa.Instruction
			seen := map[*ssa.BasicBlock]bool{}
			var walk func(b *ssa.BasicBlock)
			walk = func(b *ssa.BasicBlock) {
				if seen[b] || setBlocks[b] || escape != nil {
					return
				}
				seen[b] = true
				for _, in := range b.Instrs {
					switch x := in.(type) {
					case *ssa.Go:
						escape = in
					case *ssa.Return:
						escape = in
					case *ssa.Call:
						if exitCallees[calleeName(x)] {
							return // log.Fatal, os.Exit: the process ends here
						}
					}
					if escape != nil {
						return
					}
				}
				for _, sb := range b.Succs {
					walk(sb)
				}
			}
			if len(mainFn.Blocks) > 0 && len(setBlocks) > 0 {
				walk(mainFn.Blocks[0])
				if escape != nil {
					c.viol(rule1, rel+" installs a log output on every path", p.instrPos(escape), "main goes on (starts a goroutine or returns) on a path that called log.SetOutput nowhere: on that path the log is written, unscrubbed, to the default output (standard error, which tor copies into its own log)")
				} else {
					c.ok(rule1, rel+" installs a log output on every path", p.Pos(mainFn.Pos()), "every path to the first go statement or return passes log.SetOutput or ends the process")
				}
			}
		}
	}
	// log.New rows
	rows := map[string]string{
		"broker.main":                   "metrics logger: used only by printMetrics, which prints counts, country codes and sizes",
		"proxy/lib.NewProxyEventLogger": "periodic summary: prints a connection count and traffic volumes",
	}
	nNew := 0
	for _, fn := range append(p.FnsIn(), p.PkgInits()...) {
		for _, ci := range callsTo(fn, "log.New") {
			nNew++
			why, ok := rows[p.FnName(fn)]
			c.check(ok, rule1, p.FnName(fn)+" creates a separate logger", p.instrPos(ci), "table row: "+why, "a logger that bypasses the scrubbed standard logger is created outside the two listed rows")
		}
	}
	if nNew != 2 {
		c.info(rule1, fmt.Sprintf("%d log.New sites", nNew))
	}
	// rows verified: the loggers are used only where listed
	if f := p.Field("broker", "Metrics", "logger"); f != nil {
		bad := 0
		// the functions that make up the periodic report: printMetrics, the loop that calls it, and every function
		// all of whose static callers are among them (a locked/unlocked split of printMetrics, a line helper)
		report := map[*ssa.Function]bool{}
		for _, n := range []string{"(*Metrics).printMetrics", "(*Metrics).logMetrics"} {
			if fn := p.Fn("broker", n); fn != nil {
				report[fn] = true
			}
		}
		for changed := true; changed; {
			changed = false
			for _, fn := range p.FnsIn("broker") {
				if report[fn] || fn.Parent() != nil {
					continue
				}
				callers := p.realCallers(fn)
				if len(callers) == 0 || fnValueUses(fn) > 0 {
					continue
				}
				all := true
				for _, ci := range callers {
					root := ci.Parent()
					for root.Parent() != nil {
						root = root.Parent()
					}
					if !report[root] {
						all = false
					}
				}
				if all {
					report[fn] = true
					changed = true
				}
			}
		}
		inReport := func(fn *ssa.Function) bool {
			for fn.Parent() != nil {
				fn = fn.Parent()
			}
			return report[fn]
		}
		for _, a := range accessesOfField(p.FnsIn("broker"), f, false) {
			pm := p.Fn("broker", "(*Metrics).printMetrics")
			if a.Kind == accRead && (pm == nil || (!belongsTo(a.Fn, pm) && !inReport(a.Fn))) {
				bad++
				c.viol(rule1, p.FnName(a.Fn)+" uses the metrics logger", p.instrPos(a.Instr), "the unscrubbed metrics logger is used outside printMetrics")
			}
		}
		if bad == 0 {
			c.ok(rule1, "metrics logger used only by printMetrics", p.Pos(f.Pos()), "")
		}
	}
	if f := p.Field("proxy/lib", "logEventLogger", "logger"); f != nil {
		bad := 0
		for _, a := range accessesOfField(p.FnsIn("proxy/lib"), f, false) {
			if a.Kind == accRead && a.Fn.Name() != "logTick" {
				bad++
				c.viol(rule1, p.FnName(a.Fn)+" uses the summary logger", p.instrPos(a.Instr), "the unscrubbed summary logger is used outside logTick")
			}
		}
		if bad == 0 {
			c.ok(rule1, "summary logger used only by logTick", p.Pos(f.Pos()), "")
		}
	}

	// ---------- O-2 complete scrubbed lines ----------
	c.checkScrubberWrite()

	// the scrubber's patterns are fixed at package initialisation: nothing in safelog writes a
	// package-level variable at run time (a lazily published pattern list lets a concurrent first
	// use scrub with no pattern at all)
	c.checkNoSharedState("O-2b the scrubber keeps no mutable package-level state", "common/safelog", p.FnsIn("common/safelog"))
	// ---------- O-3 events ----------
	rule3 := "O-3 events are scrubbed before the PT log"
	nErr := 0
	for _, fn := range p.FnsIn("common/event") {
		if fn.Name() != "String" {
			continue
		}
		c.analysedFn(p.FnName(fn))
		for _, ci := range callsIn(fn) {
			cc, ok := ci.(*ssa.Call)
			if !ok || calleeName(cc) != "(error).Error" {
				continue
			}
			nErr++
			good := true
			if cc.Referrers() != nil {
				for _, r := range *cc.Referrers() {
					switch x := r.(type) {
					case *ssa.DebugRef:
					case *ssa.Convert:
						for _, rr := range *x.Referrers() {
							if c2, ok := rr.(ssa.CallInstruction); !ok || calleeName(c2) != "common/safelog.Scrub" {
								good = false
							}
						}
					default:
						good = false
					}
				}
			}
			c.check(good, rule3, p.FnName(fn)+" scrubs the error text", p.instrPos(cc), "Error() flows only into safelog.Scrub", "an error string (which may contain peer addresses) reaches the event text without passing safelog.Scrub")
		}
	}
	if nErr < 3 {
		c.undecided(rule3, "event String methods using Error()", "-", fmt.Sprintf("%d found", nErr))
	}
	// nothing of error type, and nothing derived from an Error field other than
	// through Scrub, is formatted into the event text (fmt calls Error() itself)
	errIface := types.Universe.Lookup("error").Type().Underlying().(*types.Interface)
	for _, fn := range p.FnsIn("common/event") {
		if fn.Name() != "String" {
			continue
		}
		bad := ""
		for _, ci := range callsIn(fn) {
			n := calleeName(ci)
			if !strings.HasPrefix(n, "fmt.") {
				continue
			}
			for _, a := range ci.Common().Args {
				sl, ok := a.(*ssa.Slice)
				if !ok {
					continue
				}
				for _, el := range subStores(sl.X) {
					bt := boxedType(el)
					if bt != nil && types.Implements(bt, errIface) {
						bad = "a value of error type (" + shortType(bt) + ") is formatted directly"
					}
					if mi, okm := el.(*ssa.MakeInterface); okm {
						if _, isIface := mi.X.Type().Underlying().(*types.Interface); isIface && types.Implements(mi.X.Type(), errIface) {
							bad = "an error value is formatted directly"
						}
					}
					if ct, okc := el.(*ssa.ChangeInterface); okc && types.Implements(ct.X.Type(), errIface) {
						bad = "an error value is formatted directly"
					}
					raw := !sanitisedOnly(el, func(v ssa.Value) bool {
						_, f, okf := fieldLoad(v)
						return okf && f.Name() == "Error"
					}, func(v ssa.Value) bool {
						cc, _, okc := callResult(v)
						return okc && calleeName(cc) == "common/safelog.Scrub"
					})
					if raw {
						bad = "text derived from the event's Error field reaches the format call without passing safelog.Scrub"
					}
				}
			}
		}
		c.check(bad == "", rule3, p.FnName(fn)+" formats no unscrubbed error", p.Pos(fn.Pos()), "", bad+": fmt calls Error() on it, so peer addresses in the error text reach the PT log, which is outside the LogScrubber")
	}
	nPT := 0
	for _, fn := range p.FnsIn("client") {
		for _, ci := range callsIn(fn) {
			if n := calleeName(ci); !strings.Contains(n, "goptlib") || !strings.HasSuffix(n, ".Log") {
				continue
			}
			nPT++
			cc, _, ok := callResult(ci.Common().Args[1])
			c.check(ok && strings.HasSuffix(calleeName(cc), "SnowflakeEvent).String"), rule3, p.FnName(fn)+" writes event text to the PT log", p.instrPos(ci), "e.String()", "the PT log receives text that is not an event's (scrubbed) String()")
		}
	}
	if nPT == 0 {
		c.undecided(rule3, "pt.Log calls in client", "-", "none found")
	}

	// ---------- O-4 / O-5 pattern ----------
	c.checkAddressPattern()
}

// isFlagValue: v is a load of the value of the boolean flag with the given name
// (flag.Bool(name) result dereferenced, or a variable registered with flag.BoolVar).
func isFlagValue(v ssa.Value, name string) bool {
	addr, ok := loadAddr(v)
	if !ok {
		return false
	}
	// *flag.Bool("name", ...)
	if cc, _, okc := callResult(addr); okc && calleeName(cc) == "flag.Bool" {
		s, _ := constString(cc.Call.Args[0])
		return s == name
	}
	// flag.BoolVar(&x, "name", ...)
	if refs := addr.Referrers(); refs != nil {
		for _, r := range *refs {
			if ci, okc := r.(ssa.CallInstruction); okc && calleeName(ci) == "flag.BoolVar" && ci.Common().Args[0] == addr {
				s, _ := constString(ci.Common().Args[1])
				return s == name
			}
		}
	}
	return false
}

func (c *Ctx) checkScrubberWrite() {
	p := c.P
	rule := "O-2 only scrubbed complete lines are emitted"
	w := p.Fn("common/safelog", "(*LogScrubber).Write")
	if w == nil {
		c.undecided(rule, "LogScrubber.Write", "-", "anchor does not resolve")
		return
	}
	c.analysedFn(p.FnName(w))
	bufF := p.Field("common/safelog", "LogScrubber", "buffer")
	var rows []guardRow
	for _, r := range guardTable {
		if r.Type == "LogScrubber" {
			rows = append(rows, r)
		}
	}
	c.checkGuardRows(rule, rows, p.FnsIn("common/safelog"))
	isNL := func(v ssa.Value) bool { k, ok := constInt(v); return ok && k == '\n' }
	var idx *ssa.Call
	for _, ci := range callsTo(w, "bytes.LastIndexByte", "bytes.IndexByte") {
		if isFieldLoadOf(ci.Common().Args[0], bufF) && isNL(ci.Common().Args[1]) {
			idx, _ = ci.(*ssa.Call)
		}
	}
	if idx == nil {
		c.viol(rule, "Write locates the last newline of the buffer", p.Pos(w.Pos()), "no bytes.LastIndexByte(buffer, '\\n')")
		return
	}
	// the index: the call itself, or a loop variable every alternative of which is such a call (a three-clause for)
	isIdxCall := func(v ssa.Value) bool {
		cc, ok := v.(*ssa.Call)
		if !ok {
			return false
		}
		n := calleeName(cc)
		return (n == "bytes.LastIndexByte" || n == "bytes.IndexByte") && isFieldLoadOf(cc.Call.Args[0], bufF) && isNL(cc.Call.Args[1])
	}
	isIdx := func(v ssa.Value) bool {
		if v == ssa.Value(idx) {
			return true
		}
		ph, ok := v.(*ssa.Phi)
		if !ok {
			return false
		}
		for _, lf := range valueLeaves(ph, nil) {
			if !isIdxCall(lf.V) {
				return false
			}
		}
		return true
	}
	found := condEdges(w, false, func(a Atom) bool {
		k, ok := constInt(a.Y)
		return a.Op == token.EQL && ok && k == -1 && isIdx(a.X)
	})
	endIdx := func(v ssa.Value) bool { // idx + 1
		bo, ok := v.(*ssa.BinOp)
		if !ok || bo.Op != token.ADD {
			return false
		}
		k, okk := constInt(bo.Y)
		return okk && k == 1 && isIdx(bo.X)
	}
	nOut := 0
	for _, ci := range callsIn(w) {
		if calleeName(ci) != "(io.Writer).Write" {
			continue
		}
		nOut++
		arg := ci.Common().Args[0]
		cc, _, ok := callResult(arg)
		good := ok && calleeName(cc) == "common/safelog.Scrub"
		if good {
			sl, oks := cc.Call.Args[0].(*ssa.Slice)
			good = oks && isFieldLoadOf(sl.X, bufF) && sl.Low == nil && sl.High != nil && endIdx(sl.High)
		}
		c.check(good, rule, "Write emits Scrub(buffer[:lastNewline+1])", p.instrPos(ci), "", "what is written to the sink is not the scrubbed prefix of the buffer ending at its last newline (an incomplete line, or unscrubbed bytes, can be emitted and an address split across the cut escapes)")
		path := reachableWithout(w, ci, found)
		c.check(len(found) > 0 && path == nil, rule, "Write emits only when a newline was found", p.instrPos(ci), "", "output is produced although the buffer holds no complete line", p.pathString(path)...)
	}
	if nOut != 1 {
		c.undecided(rule, "Output.Write calls in Write", p.Pos(w.Pos()), fmt.Sprintf("%d", nOut))
	}
	// remainder = buffer[idx+1:]; and appends of the input
	okRem, okApp := false, false
	for _, s := range storesToField([]*ssa.Function{w}, bufF) {
		if sl, ok := s.Val.(*ssa.Slice); ok && isFieldLoadOf(sl.X, bufF) && sl.High == nil && sl.Low != nil && endIdx(sl.Low) {
			okRem = true
			continue
		}
		if cc, _, ok := callResult(s.Val); ok && calleeName(cc) == "builtin.append" && isFieldLoadOf(cc.Call.Args[0], bufF) && cc.Call.Args[1] == ssa.Value(w.Params[1]) {
			okApp = true
			continue
		}
		c.viol(rule, "Write assigns the buffer", p.instrPos(s), "the pending buffer is assigned something other than buffer+input or the suffix after the last newline")
	}
	c.check(okRem && okApp, rule, "Write keeps exactly the bytes after the last newline", p.Pos(w.Pos()), "buffer = append(buffer, b...); buffer = buffer[i+1:]", "bytes are dropped from or left in the pending buffer")
}

// addressForms is the table of O-5: spellings of addresses that Go's net
// package prints (net.IP.String, netip) or accepts (net.ParseIP), by form class.
var addressForms = []string{
	// dotted IPv4
	"1.2.3.4", "10.0.0.1", "192.168.100.200", "255.255.255.255", "0.0.0.0", "127.0.0.1", "8.8.8.8",
	// IPv4 with port
	"1.2.3.4:443", "203.0.113.9:65535", "10.0.0.1:1",
	// full IPv6 (8 groups)
	"2001:db8:85a3:8d3:1319:8a2e:370:7348", "2001:0db8:0000:0000:0000:ff00:0042:8329", "fe80:0:0:0:202:b3ff:fe1e:8329",
	// compressed IPv6
	"::", "::1", "1::", "2001:db8::1", "2001:db8::", "fe80::202:b3ff:fe1e:8329", "2001:db8:0:1::2", "2001:db8::8a2e:370:7334", "1::2:3:4:5:6", "1:2:3:4:5:6::", "::2:3:4:5:6:7:8",
	// IPv4-embedded, compressed
	"::ffff:1.2.3.4", "::1.2.3.4", "64:ff9b::192.0.2.33", "2001:db8::203.0.113.9", "::ffff:0:1.2.3.4",
	// IPv4-embedded, uncompressed (accepted by net.ParseIP)
	"1:2:3:4:5:6:1.2.3.4", "64:ff9b:0:0:0:0:198.51.100.7", "0:0:0:0:0:ffff:1.2.3.4",
	// bracketed, with and without port
	"[2001:db8::1]", "[2001:db8::1]:443", "[::1]:9050", "[::]:1", "[1:2:3:4:5:6:7:8]:65535", "[::ffff:1.2.3.4]:80", "[2001:db8:1:2:3:4:203.0.113.9]:443",
	// upper case hex
	"2001:DB8::1", "FE80::202:B3FF:FE1E:8329",
}

func (c *Ctx) checkAddressPattern() {
	p := c.P
	rule4 := "O-4 delimiter consumption"
	rule5 := "O-5 address-form table"
	k := p.Const("common/safelog", "fullAddrPattern")
	if k == nil {
		c.undecided(rule4, "safelog.fullAddrPattern", "-", "constant does not resolve")
		return
	}
	pat := strings.Trim(k.Val().ExactString(), "")
	// ExactString of a string constant is a quoted Go literal
	if s, err := unquoteGo(pat); err == nil {
		pat = s
	}
	re, err := syntax.Parse(pat, syntax.Perl)
	if err != nil {
		c.viol(rule4, "safelog.fullAddrPattern parses", p.Pos(k.Pos()), "the pattern is not a valid regular expression: "+err.Error())
		return
	}
	re = re.Simplify()
	if re.Op != syntax.OpConcat || len(re.Sub) < 3 {
		c.undecided(rule4, "safelog.fullAddrPattern has the shape L·A·R", p.Pos(k.Pos()), "top level is not a concatenation of left delimiter, address and right delimiter")
		return
	}
	L, R := re.Sub[0], re.Sub[len(re.Sub)-1]
	lReq, lAnchor := firstRunes(L)
	rCons, rAnchor := firstRunes(R)
	_ = rAnchor
	overlap := ""
	for _, r := range []rune{' ', '\t', ',', ';', '(', ')', '"', '\'', '=', '/', '[', ']', '<', '>', '|'} {
		if lReq(r) && rCons(r) {
			overlap += string(r)
		}
	}
	c.check(lAnchor, rule4, "left delimiter accepts the line start", p.Pos(k.Pos()), "", "an address at the start of a line is not matched")
	// the driver
	scrub := p.Fn("common/safelog", "Scrub")
	if scrub == nil {
		c.undecided(rule4, "safelog.Scrub", "-", "anchor does not resolve")
		return
	}
	c.analysedFn(p.FnName(scrub))
	nDrv := 0
	for _, ci := range callsIn(scrub) {
		n := calleeName(ci)
		if !strings.HasPrefix(n, "(*regexp.Regexp).ReplaceAll") {
			continue
		}
		nDrv++
		cc, _ := ci.(*ssa.Call)
		key := "Scrub driver " + strings.TrimPrefix(n, "(*regexp.Regexp).")
		if overlap == "" {
			c.ok(rule4, key, p.instrPos(ci), "left and right delimiter share no consumable rune: a single pass suffices")
			continue
		}
		// fixpoint: call inside a loop left only on bytes.Equal(result, previous)
		fix := false
		if cc != nil && inCycle(cc.Block()) {
			for _, e := range callsTo(scrub, "bytes.Equal") {
				ec, _ := e.(*ssa.Call)
				if ec == nil {
					continue
				}
				usesRes := ec.Call.Args[0] == ssa.Value(cc) || ec.Call.Args[1] == ssa.Value(cc)
				exits := boolEdges(scrub, true, func(v ssa.Value) bool { return v == ssa.Value(ec) })
				notEq := boolEdges(scrub, false, func(v ssa.Value) bool { return v == ssa.Value(ec) })
				// on the not-equal outcome the same pattern is applied again: from the branch that tests the
				// comparison, with the equal edges cut, no path reaches a return or the place where the next
				// pattern is taken without passing through the replacement call first
				var patDef *ssa.BasicBlock
				if in, okI := strip(cc.Call.Args[0]).(ssa.Instruction); okI && in.Block() != cc.Block() && inCycle(in.Block()) {
					patDef = in.Block()
				}
				again := len(notEq) > 0
				for _, ed := range notEq {
					esc := psSearch(ed.From, exits, func(b *ssa.BasicBlock) bool { return b == cc.Block() && b != ed.From }, func(b *ssa.BasicBlock) bool {
						if b == ed.From {
							return false
						}
						if b == patDef {
							return true
						}
						_, isRet := b.Instrs[len(b.Instrs)-1].(*ssa.Return)
						return isRet
					})
					if esc != nil {
						again = false
					}
				}
				if usesRes && len(exits) > 0 && again {
					fix = true
				}
			}
		}
		c.check(fix, rule4, key, p.instrPos(ci), fmt.Sprintf("delimiters overlap on %q; the replacement is iterated until it changes nothing", overlap),
			fmt.Sprintf("the right delimiter consumes a rune (%q) that the left delimiter of the next address needs, and the replacement is a single non-overlapping pass: of two addresses separated by one such rune the second reaches the log unscrubbed", overlap))
	}
	if nDrv == 0 {
		c.undecided(rule4, "Scrub driver", p.Pos(scrub.Pos()), "no ReplaceAll* call found")
	}
	// ---------- O-5 ----------
	cre, err := regexp.Compile(pat)
	if err != nil {
		c.viol(rule5, "fullAddrPattern compiles", p.Pos(k.Pos()), err.Error())
		return
	}
	miss := 0
	for _, a := range addressForms {
		ok := true
		for _, ctx := range [][2]string{{" ", " "}, {"", ""}, {"(", ")"}, {"=", ","}, {"/", "/"}, {"-", " "}, {"@", " "}, {"\"", "\""}} {
			line := ctx[0] + a + ctx[1]
			loc := cre.FindStringIndex(line)
			// the match must cover the whole address
			if loc == nil || loc[0] > len(ctx[0]) || loc[1] < len(ctx[0])+len(a) {
				ok = false
			}
		}
		if !ok {
			miss++
			c.viol(rule5, "pattern matches the address form "+a, p.Pos(k.Pos()), "the address pattern constant does not match this spelling (which Go's net package prints or accepts) between delimiters: such an address survives the scrubber")
		}
	}
	if miss == 0 {
		c.ok(rule5, fmt.Sprintf("pattern matches all %d address forms of the table", len(addressForms)), p.Pos(k.Pos()), "each between {space, line boundary, parentheses, '=' ','}")
	}
	c.count("address forms in table", len(addressForms))
}

func unquoteGo(s string) (string, error) {
	if len(s) >= 2 && (s[0] == '"' || s[0] == '`') {
		return strconvUnquote(s)
	}
	return s, nil
}

// firstRunes describes a delimiter group: which runes it can consume as its
// (single) rune, and whether it has a zero-width (anchor) alternative.
func firstRunes(re *syntax.Regexp) (consumes func(rune) bool, anchor bool) {
	var preds []func(rune) bool
	var walk func(r *syntax.Regexp)
	walk = func(r *syntax.Regexp) {
		switch r.Op {
		case syntax.OpCapture:
			walk(r.Sub[0])
		case syntax.OpAlternate:
			for _, s := range r.Sub {
				walk(s)
			}
		case syntax.OpBeginLine, syntax.OpBeginText, syntax.OpEndLine, syntax.OpEndText, syntax.OpEmptyMatch:
			anchor = true
		case syntax.OpLiteral:
			if len(r.Rune) > 0 {
				first := r.Rune[0]
				preds = append(preds, func(x rune) bool { return x == first })
			}
		case syntax.OpCharClass:
			cls := r.Rune
			preds = append(preds, func(x rune) bool {
				for i := 0; i+1 < len(cls); i += 2 {
					if x >= cls[i] && x <= cls[i+1] {
						return true
					}
				}
				return false
			})
		case syntax.OpAnyChar, syntax.OpAnyCharNotNL:
			preds = append(preds, func(x rune) bool { return true })
		case syntax.OpConcat:
			if len(r.Sub) > 0 {
				walk(r.Sub[0])
			}
		case syntax.OpQuest, syntax.OpStar:
			anchor = true
			walk(r.Sub[0])
		case syntax.OpPlus:
			walk(r.Sub[0])
		}
	}
	walk(re)
	return func(x rune) bool {
		if !unicode.IsPrint(x) && x != '\t' {
			return false
		}
		for _, f := range preds {
			if f(x) {
				return true
			}
		}
		return false
	}, anchor
}

func strconvUnquote(s string) (string, error) { return strconv.Unquote(s) }
