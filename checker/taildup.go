package main

// Tail duplication in the helper-inlined view (second-chance view).
//
// Flattening an inlined helper leaves "store the results in temporaries; goto done" at each of its exits, and
// after the label the caller's continuation reads the temporaries. When the continuation tests a result (a
// flag, an error) the rules see values merged from constants. If the continuation is short and ends the
// function (or the loop iteration), it can be copied to each exit: every copy then runs with the constants of
// its own exit, as the code did before the helper was extracted. The copy is made only when no name the
// continuation uses is declared inside the flattened block (no capture), and the result is type-checked by the
// caller like every other step of the view.

import (
	"go/ast"
	"go/format"
	"go/token"
	"regexp"
	"sort"
	"strings"
)

var iifeLabelRE = regexp.MustCompile(`^iife\d+done$`)

func tailDupOverlay(overlay map[string][]byte) int {
	total := 0
	for name := range overlay {
		for iter := 0; iter < 20; iter++ {
			src := overlay[name]
			out, ok := tailDupOne(name, src)
			if !ok {
				break
			}
			fm, err := format.Source(out)
			if err != nil {
				break
			}
			overlay[name] = fm
			total++
		}
	}
	return total
}

func tailDupOne(name string, src []byte) ([]byte, bool) {
	fset := token.NewFileSet()
	f, err := parserParse(fset, name, src)
	if err != nil {
		return nil, false
	}
	off := func(p token.Pos) int { return fset.Position(p).Offset }
	var result []byte
	done := false
	var visit func(list []ast.Stmt, isFuncBody bool)
	tryAt := func(list []ast.Stmt, i int, isFuncBody bool) bool {
		ls, ok := list[i].(*ast.LabeledStmt)
		if !ok || !iifeLabelRE.MatchString(ls.Label.Name) || i == 0 {
			return false
		}
		blk, ok := list[i-1].(*ast.BlockStmt)
		if !ok {
			return false
		}
		last := list[len(list)-1]
		switch x := last.(type) {
		case *ast.ReturnStmt:
		case *ast.BranchStmt:
			if x.Tok != token.CONTINUE && x.Tok != token.BREAK {
				return false
			}
		default:
			if !isFuncBody {
				return false
			}
		}
		tailA, tailB := off(ls.Stmt.Pos()), off(last.End())
		if strings.Count(string(src[tailA:tailB]), "\n") > 40 {
			return false
		}
		// the tail: no labels, no gotos; names used
		bad := false
		used := map[string]bool{}
		declared := map[string]bool{}
		for k := i; k < len(list); k++ {
			var st ast.Stmt = list[k]
			if k == i {
				st = ls.Stmt
			}
			ast.Inspect(st, func(n ast.Node) bool {
				switch x := n.(type) {
				case *ast.LabeledStmt:
					bad = true
				case *ast.BranchStmt:
					if x.Tok == token.GOTO || x.Label != nil {
						bad = true
					}
				case *ast.Ident:
					used[x.Name] = true
				}
				return true
			})
		}
		if bad {
			return false
		}
		// names declared inside the flattened block
		ast.Inspect(blk, func(n ast.Node) bool {
			switch x := n.(type) {
			case *ast.AssignStmt:
				if x.Tok == token.DEFINE {
					for _, l := range x.Lhs {
						if id, ok := l.(*ast.Ident); ok {
							declared[id.Name] = true
						}
					}
				}
			case *ast.ValueSpec:
				for _, id := range x.Names {
					declared[id.Name] = true
				}
			case *ast.RangeStmt:
				if x.Tok == token.DEFINE {
					for _, e := range []ast.Expr{x.Key, x.Value} {
						if id, ok := e.(*ast.Ident); ok {
							declared[id.Name] = true
						}
					}
				}
			case *ast.FuncLit:
				return false
			}
			return true
		})
		// names the tail declares itself are not captured
		tailDecl := map[string]bool{}
		for k := i; k < len(list); k++ {
			var st ast.Stmt = list[k]
			if k == i {
				st = ls.Stmt
			}
			switch x := st.(type) {
			case *ast.AssignStmt:
				if x.Tok == token.DEFINE {
					for _, l := range x.Lhs {
						if id, ok := l.(*ast.Ident); ok {
							tailDecl[id.Name] = true
						}
					}
				}
			case *ast.DeclStmt:
				if gd, ok := x.Decl.(*ast.GenDecl); ok {
					for _, sp := range gd.Specs {
						if vs, ok := sp.(*ast.ValueSpec); ok {
							for _, id := range vs.Names {
								tailDecl[id.Name] = true
							}
						}
					}
				}
			}
		}
		for n := range used {
			if declared[n] && !tailDecl[n] && n != "_" {
				return false
			}
		}
		// the goto sites
		var gotos []*ast.BranchStmt
		ast.Inspect(blk, func(n ast.Node) bool {
			switch x := n.(type) {
			case *ast.FuncLit:
				return false
			case *ast.BranchStmt:
				if x.Tok == token.GOTO && x.Label != nil && x.Label.Name == ls.Label.Name {
					gotos = append(gotos, x)
				}
			}
			return true
		})
		if len(gotos) == 0 || len(gotos) > 8 {
			return false
		}
		tail := string(src[tailA:tailB])
		type edit struct {
			a, b int
			txt  string
		}
		var edits []edit
		for _, g := range gotos {
			edits = append(edits, edit{off(g.Pos()), off(g.End()), "{\n" + tail + "\n}"})
		}
		// drop the label itself (the fall-through path keeps the original tail)
		edits = append(edits, edit{off(ls.Pos()), off(ls.Stmt.Pos()), ""})
		sort.Slice(edits, func(a, b int) bool { return edits[a].a > edits[b].a })
		out := append([]byte{}, src...)
		for _, e := range edits {
			out = append(append(append([]byte{}, out[:e.a]...), e.txt...), out[e.b:]...)
		}
		result = out
		return true
	}
	visit = func(list []ast.Stmt, isFuncBody bool) {
		for i := range list {
			if done {
				return
			}
			if tryAt(list, i, isFuncBody) {
				done = true
				return
			}
		}
		for _, s := range list {
			if done {
				return
			}
			ast.Inspect(s, func(n ast.Node) bool {
				if done {
					return false
				}
				switch x := n.(type) {
				case *ast.FuncLit:
					visit(x.Body.List, true)
					return false
				case *ast.BlockStmt:
					visit(x.List, false)
					return false
				case *ast.CaseClause:
					visit(x.Body, false)
					return false
				case *ast.CommClause:
					visit(x.Body, false)
					return false
				}
				return true
			})
		}
	}
	for _, d := range f.Decls {
		if fd, ok := d.(*ast.FuncDecl); ok && fd.Body != nil && !done {
			visit(fd.Body.List, true)
		}
	}
	if !done {
		return nil, false
	}
	return result, true
}
