package main

// Unrolling of loops over a local table of functions in the helper-inlined view.
//
// A refactoring that turns "do a step, return its error; do the next step, ..."
// into a table of func values run by one loop leaves the same calls in the same
// order, but behind an indirect call inside a loop, where the ordering and
// error rules cannot identify them. This pass turns
//
//	steps := [...]func() error{a.Close, b.Close, f}
//	for _, step := range steps { BODY(step) }
//
// into
//
//	steps_0 := a; steps_1 := b          (receivers evaluated where the table was built)
//	{ BODY(steps_0.Close) } { BODY(steps_1.Close) } { BODY(f) }
//
// when the table is a local composite literal of at most 8 unkeyed elements of a
// function type, used by nothing but that one range statement, and BODY has no
// break/continue/goto/label and does not assign the loop variable. Method-value
// elements keep the evaluation time of their receiver (x.M binds x when the
// table is built). The result is type-checked by the caller and undone if it
// does not type-check.

import (
	"fmt"
	"go/ast"
	"go/token"
	"go/types"
	"os"
	"sort"
	"strings"

	"golang.org/x/tools/go/packages"
)

func unrollOverlay(abs string, overlay map[string][]byte) (int, error) {
	cfg := &packages.Config{
		Mode:    packages.NeedName | packages.NeedFiles | packages.NeedCompiledGoFiles | packages.NeedSyntax | packages.NeedTypes | packages.NeedTypesInfo | packages.NeedImports | packages.NeedDeps,
		Dir:     abs,
		Env:     loadEnv(),
		Tests:   false,
		Overlay: overlay,
	}
	pkgs, err := packages.Load(cfg, "./...")
	if err != nil {
		return 0, err
	}
	total := 0
	for _, pkg := range pkgs {
		if !strings.HasPrefix(pkg.PkgPath, modPath) || len(pkg.Errors) > 0 {
			continue
		}
		for _, f := range pkg.Syntax {
			name := pkg.Fset.Position(f.Pos()).Filename
			if !strings.HasSuffix(name, ".go") || strings.HasSuffix(name, "_test.go") {
				continue
			}
			src, ok := overlay[name]
			if !ok {
				var rerr error
				src, rerr = os.ReadFile(name)
				if rerr != nil {
					continue
				}
			}
			out, n := unrollFile(pkg, f, src)
			if n > 0 {
				overlay[name] = out
				total += n
			}
		}
	}
	return total, nil
}

func unrollFile(pkg *packages.Package, f *ast.File, src []byte) ([]byte, int) {
	info := pkg.TypesInfo
	fset := pkg.Fset
	off := func(p token.Pos) int { return fset.Position(p).Offset }
	text := func(n ast.Node) string { return string(src[off(n.Pos()):off(n.End())]) }
	type edit struct {
		a, b int
		txt  string
	}
	var edits []edit
	count := 0

	// uses of each object in this file
	uses := map[types.Object][]*ast.Ident{}
	for id, o := range info.Uses {
		if id.Pos() >= f.Pos() && id.End() <= f.End() {
			uses[o] = append(uses[o], id)
		}
	}

	// the table declarations: stmt, variable object, literal
	type tableDecl struct {
		stmt ast.Stmt
		obj  types.Object
		lit  *ast.CompositeLit
	}
	var tables []tableDecl
	ast.Inspect(f, func(n ast.Node) bool {
		switch s := n.(type) {
		case *ast.AssignStmt:
			if s.Tok == token.DEFINE && len(s.Lhs) == 1 && len(s.Rhs) == 1 {
				if id, ok := s.Lhs[0].(*ast.Ident); ok {
					if cl, ok := s.Rhs[0].(*ast.CompositeLit); ok && info.Defs[id] != nil {
						tables = append(tables, tableDecl{s, info.Defs[id], cl})
					}
				}
			}
		case *ast.DeclStmt:
			if gd, ok := s.Decl.(*ast.GenDecl); ok && gd.Tok == token.VAR && len(gd.Specs) == 1 {
				if vs, ok := gd.Specs[0].(*ast.ValueSpec); ok && len(vs.Names) == 1 && len(vs.Values) == 1 {
					if cl, ok := vs.Values[0].(*ast.CompositeLit); ok && info.Defs[vs.Names[0]] != nil {
						tables = append(tables, tableDecl{s, info.Defs[vs.Names[0]], cl})
					}
				}
			}
		}
		return true
	})
	// package-level tables of this file: var t = []T{...}, never assigned, addressed or indexed anywhere in the
	// package - only ranged over
	pkgLevel := map[types.Object]bool{}
	for _, d := range f.Decls {
		gd, ok := d.(*ast.GenDecl)
		if !ok || gd.Tok != token.VAR {
			continue
		}
		for _, sp := range gd.Specs {
			vs, ok := sp.(*ast.ValueSpec)
			if !ok || len(vs.Names) != 1 || len(vs.Values) != 1 {
				continue
			}
			cl, ok := vs.Values[0].(*ast.CompositeLit)
			obj := info.Defs[vs.Names[0]]
			if !ok || obj == nil {
				continue
			}
			onlyRanged := true
			for _, pf := range pkg.Syntax {
				ast.Inspect(pf, func(n ast.Node) bool {
					switch x := n.(type) {
					case *ast.RangeStmt:
						if id, isId := x.X.(*ast.Ident); isId && info.Uses[id] == obj {
							// fine: visit key/value/body but not X again
							if x.Key != nil {
								ast.Inspect(x.Key, func(ast.Node) bool { return true })
							}
							ast.Inspect(x.Body, func(m ast.Node) bool {
								if id2, isId2 := m.(*ast.Ident); isId2 && info.Uses[id2] == obj {
									onlyRanged = false
								}
								return true
							})
							return false
						}
					case *ast.Ident:
						if info.Uses[x] == obj {
							onlyRanged = false
						}
					}
					return true
				})
			}
			if onlyRanged {
				tables = append(tables, tableDecl{nil, obj, cl})
				pkgLevel[obj] = true
			}
		}
	}
	// range statements over a composite literal written in place
	type inPlace struct {
		r  *ast.RangeStmt
		cl *ast.CompositeLit
	}
	var inPlaces []inPlace
	ast.Inspect(f, func(n ast.Node) bool {
		if r, ok := n.(*ast.RangeStmt); ok {
			if cl, ok := r.X.(*ast.CompositeLit); ok {
				inPlaces = append(inPlaces, inPlace{r, cl})
			}
		}
		return true
	})
	if len(tables) == 0 && len(inPlaces) == 0 {
		return nil, 0
	}
	// the range statements by the identifier they range over
	ranges := map[*ast.Ident]*ast.RangeStmt{}
	ast.Inspect(f, func(n ast.Node) bool {
		if r, ok := n.(*ast.RangeStmt); ok {
			if id, ok := r.X.(*ast.Ident); ok {
				ranges[id] = r
			}
		}
		return true
	})

	simpleExpr := func(e ast.Expr) bool { return simpleTableElem(e) }
	_ = simpleExpr
	for _, ip := range inPlaces {
		tables = append(tables, tableDecl{nil, nil, ip.cl})
	}
	inPlaceRange := map[*ast.CompositeLit]*ast.RangeStmt{}
	for _, ip := range inPlaces {
		inPlaceRange[ip.cl] = ip.r
	}
	for _, t := range tables {
		var elem types.Type
		switch tt := info.TypeOf(t.lit).Underlying().(type) {
		case *types.Array:
			elem = tt.Elem()
		case *types.Slice:
			elem = tt.Elem()
		default:
			continue
		}
		_, isFuncTable := elem.Underlying().(*types.Signature)
		if !isFuncTable {
			// a table of data: only elements that are plain names, constants and slices of them
			okData := true
			for _, e := range t.lit.Elts {
				if !simpleTableElem(e) {
					okData = false
				}
			}
			if !okData {
				continue
			}
		}
		n := len(t.lit.Elts)
		if n == 0 || n > 8 {
			continue
		}
		keyed := false
		for _, e := range t.lit.Elts {
			if _, isKV := e.(*ast.KeyValueExpr); isKV {
				keyed = true
			}
		}
		if keyed {
			continue
		}
		var r *ast.RangeStmt
		if t.obj == nil {
			r = inPlaceRange[t.lit]
		} else {
			us := uses[t.obj]
			if len(us) != 1 {
				continue // (a package-level table ranged over in several places is left alone)
			}
			r = ranges[us[0]]
		}
		if r == nil || r.Tok != token.DEFINE || r.Value == nil {
			continue
		}
		if r.Key != nil {
			if k, ok := r.Key.(*ast.Ident); !ok || k.Name != "_" {
				continue
			}
		}
		vid, ok := r.Value.(*ast.Ident)
		if !ok || vid.Name == "_" || info.Defs[vid] == nil {
			continue
		}
		vobj := info.Defs[vid]
		// the body: no branch statements or labels (function literals excluded), loop variable never assigned or
		// addressed
		bad := false
		ast.Inspect(r.Body, func(m ast.Node) bool {
			switch x := m.(type) {
			case *ast.FuncLit:
				// a literal that captures the loop variable would see one variable per iteration either way
				return true
			case *ast.BranchStmt, *ast.LabeledStmt:
				bad = true
			case *ast.AssignStmt:
				for _, l := range x.Lhs {
					if id, ok := l.(*ast.Ident); ok && info.Uses[id] == vobj {
						bad = true
					}
				}
			case *ast.IncDecStmt:
				if id, ok := x.X.(*ast.Ident); ok && info.Uses[id] == vobj {
					bad = true
				}
			case *ast.UnaryExpr:
				if id, ok := x.X.(*ast.Ident); ok && x.Op == token.AND && info.Uses[id] == vobj {
					bad = true
				}
			}
			return !bad
		})
		if bad {
			continue
		}
		// elements
		base := fmt.Sprintf("tbl%d", off(t.lit.Pos()))
		if t.obj != nil {
			base = t.obj.Name()
		}
		var temps []string   // statements that replace the table declaration
		var callees []string // what the loop variable stands for in iteration i
		okAll := true
		for i, e := range t.lit.Elts {
			tmp := fmt.Sprintf("%s_%d", base, i)
			for {
				pe, isP := e.(*ast.ParenExpr)
				if !isP {
					break
				}
				e = pe.X
			}
			switch x := e.(type) {
			case *ast.SelectorExpr:
				if sel, isSel := info.Selections[x]; isSel {
					if sel.Kind() != types.MethodVal || len(sel.Index()) != 1 || !pureExpr(x.X) {
						okAll = false
						break
					}
					m, _ := sel.Obj().(*types.Func)
					if m == nil {
						okAll = false
						break
					}
					recvT := m.Type().(*types.Signature).Recv().Type()
					xT := info.TypeOf(x.X)
					_, mPtr := recvT.(*types.Pointer)
					_, xPtr := xT.Underlying().(*types.Pointer)
					init := text(x.X)
					if _, isIface := xT.Underlying().(*types.Interface); !isIface {
						switch {
						case mPtr && !xPtr:
							init = "&" + init
						case !mPtr && xPtr:
							init = "*(" + init + ")"
						}
					}
					temps = append(temps, tmp+" := "+init)
					callees = append(callees, tmp+"."+x.Sel.Name)
				} else if _, isFn := info.Uses[x.Sel].(*types.Func); isFn {
					// a function of another package
					callees = append(callees, text(x))
				} else {
					okAll = false
				}
			case *ast.Ident:
				if _, isFn := info.Uses[x].(*types.Func); isFn {
					callees = append(callees, x.Name)
				} else if pureExpr(x) {
					temps = append(temps, tmp+" := "+x.Name)
					callees = append(callees, tmp)
				} else {
					okAll = false
				}
			case *ast.FuncLit:
				temps = append(temps, tmp+" := "+text(x))
				callees = append(callees, tmp)
			default:
				if !isFuncTable && simpleTableElem(e) {
					temps = append(temps, tmp+" := "+text(e))
					callees = append(callees, tmp)
				} else {
					okAll = false
				}
			}
			if !okAll {
				break
			}
		}
		if !okAll {
			continue
		}
		// occurrences of the loop variable in the body
		var occ []*ast.Ident
		ast.Inspect(r.Body, func(m ast.Node) bool {
			if id, ok := m.(*ast.Ident); ok && info.Uses[id] == vobj {
				occ = append(occ, id)
			}
			return true
		})
		sort.Slice(occ, func(i, j int) bool { return occ[i].Pos() < occ[j].Pos() })
		bodyA, bodyB := off(r.Body.Lbrace), off(r.Body.Rbrace)+1
		var unrolled strings.Builder
		for i := range callees {
			// the body text with the loop variable replaced
			var b strings.Builder
			at := bodyA
			for _, id := range occ {
				b.Write(src[at:off(id.Pos())])
				b.WriteString(callees[i])
				at = off(id.End())
			}
			b.Write(src[at:bodyB])
			unrolled.WriteString(b.String())
			unrolled.WriteString("\n")
		}
		declTxt := ""
		for _, tmpStmt := range temps {
			name := strings.SplitN(tmpStmt, " := ", 2)[0]
			declTxt += tmpStmt + "\n_ = " + name + "\n"
		}
		if t.stmt != nil {
			edits = append(edits, edit{off(t.stmt.Pos()), off(t.stmt.End()), declTxt})
			edits = append(edits, edit{off(r.Pos()), off(r.End()), unrolled.String()})
		} else {
			// the elements of a package-level or in-place table are names and constants: evaluating them at
			// the loop is the same
			edits = append(edits, edit{off(r.Pos()), off(r.End()), "{\n" + declTxt + unrolled.String() + "}\n"})
		}
		count++
	}
	if count == 0 {
		return nil, 0
	}
	// edits must not overlap (a table declared inside another table's loop body): keep it simple and refuse
	sort.Slice(edits, func(i, j int) bool { return edits[i].a < edits[j].a })
	for i := 1; i < len(edits); i++ {
		if edits[i].a < edits[i-1].b {
			return nil, 0
		}
	}
	out := append([]byte{}, src...)
	for i := len(edits) - 1; i >= 0; i-- {
		e := edits[i]
		out = append(append(append([]byte{}, out[:e.a]...), e.txt...), out[e.b:]...)
	}
	return out, count
}

// simpleTableElem: a name, a selector of names, a constant, or a slice/index/address of those.
func simpleTableElem(e ast.Expr) bool {
	switch x := e.(type) {
	case *ast.Ident, *ast.BasicLit:
		return true
	case *ast.SelectorExpr:
		return simpleTableElem(x.X)
	case *ast.ParenExpr:
		return simpleTableElem(x.X)
	case *ast.SliceExpr:
		return simpleTableElem(x.X) && (x.Low == nil || simpleTableElem(x.Low)) && (x.High == nil || simpleTableElem(x.High)) && x.Max == nil
	case *ast.IndexExpr:
		return simpleTableElem(x.X) && simpleTableElem(x.Index)
	case *ast.UnaryExpr:
		return x.Op == token.AND && simpleTableElem(x.X)
	}
	return false
}
