package main

import (
	"fmt"
	"go/token"
	"go/types"
	"strings"

	"golang.org/x/tools/go/ssa"
)

func init() {
	register("C20", propMeta{
		Explanation: "E-LOCK. A flow-sensitive must-lockset is computed over the SSA of every repository function (entry lockset = intersection over call sites, container/heap and sync.Once callbacks modelled as calls, goroutine bodies/callbacks/interface-exposed methods start empty). O-1: every read and write of every field in the explicit guarded-by table (built by reading the anchors; ~60 rows: matching state, metrics, client map, session maps, traffic counters) happens under its protection - the named mutex (write mode for writes), sync/atomic only, or immutable after publication (writes only to a not-yet-published fresh object or in a listed start-up function); for 'deep' rows the map/slice/list behind the field as well. O-2: every Lock/RLock is released on all paths, no Unlock of a lock not held, no self-deadlock, and the acquired-while-holding graph is acyclic. O-3: a field accessed through sync/atomic is never accessed plainly, including by copying the struct through a value receiver. O-4: a byte slice sent through a turbotunnel packet queue (and so handed to another goroutine) is a private copy made by the sender, never the caller's buffer, which the caller goes on writing. An access outside its protection is a pair of conflicting accesses with no ordering synchronisation for some schedule, i.e. a data race; each rule is therefore a necessary condition of race freedom for the listed state. Added after the second seeding round: O-5 no store through a package-level variable of another module or the standard library outside package initialisation and main's direct start-up assignments (D20, D21: http.DefaultTransport configured in place); O-6 a goroutine body (go target plus its single-call-site helpers) stores to, or slices an array field of, a non-fresh object only if the field has a row in the table or some repository lock is held there (D22). Added after the third seeding round: O-1b no method of a struct that carries its own mutex has a value receiver; deep accesses (map, slice, pointee) through a local copy of a struct are judged like accesses through the original. Added after the fourth seeding round: O-7 a local variable captured by reference is not assigned by one goroutine body and used by another without a common mutex; a start-up write must precede every go statement of that function that receives the object; rows for Peers; a function value handed to a helper that only calls it synchronously inherits the helper's lockset; freshness is followed through a captured local pointer variable. Added after the fifth seeding round: O-8 no send races with a close (thorough tier: every package); O-9 NewSnowflakeClient and its literals store into no element of a slice that comes from the config parameter (the backing array is shared with every other copy of the configuration). Added after the sixth seeding round and the mutation audit: O-2 a function that returns holding a lock must have a caller that continues after the call, and a lock acquired directly or through such a helper may not be acquired again by the next iteration; O-6 functions taking an http.ResponseWriter, and what they call in their package, count as goroutine bodies; O-10 no field is stored after a go statement that received the object if code reachable from the goroutine reads that field.",
		NotDecided:  "races on state outside the table (third-party objects, local variables captured by several closures), happens-before through channels other than the immutable-after-publication class, instance confusion (locks are named by type and field, not by object).",
		Assumptions: []string{"lock identity is (type, field): two instances of one struct are not distinguished", "start-up writes listed in the table happen before any concurrent reader exists (single-goroutine initialisation in main)", "dynamic calls neither acquire nor release repository locks"},
	}, runC20)
}

func runC20(c *Ctx) {
	p := c.P
	scope := p.FnsIn()
	le := p.Locks()
	c.count("functions with computed locksets", len(le.fns))
	for _, fn := range scope {
		c.analysedFn(p.FnName(fn))
	}
	c.checkGuardRows("O-1 guarded-by table", guardTable, scope)
	c.checkNoLockCopies("O-1b no by-value methods on self-locking structs", guardTable)
	c.checkGlobalRows("O-1 guarded-by table", globalGuardTable)
	c.checkLockPairing("O-2 lock pairing", scope)
	c.checkLockOrder("O-2b lock order")
	c.checkAtomicDiscipline("O-3 atomic discipline", scope)
	// O-4: byte slices handed to another goroutine through a packet queue are private copies
	var senders []*ssa.Function
	for _, n := range []string{"(*QueuePacketConn).QueueIncoming", "(*QueuePacketConn).WriteTo", "(*RedialPacketConn).WriteTo"} {
		if fn := p.Fn("common/turbotunnel", n); fn != nil {
			senders = append(senders, fn)
		} else {
			c.undecided("O-4 buffers crossing goroutines are private copies", "common/turbotunnel."+n, "-", "anchor does not resolve")
		}
	}
	c.checkCopyOnEnqueueFor("O-4 buffers crossing goroutines are private copies", senders)
	c.checkForeignGlobalWrites("O-5 process-wide library objects are not modified", scope)
	c.checkGoroutineFieldWrites("O-6 goroutine bodies modify only state with a protection row", scope)
	c.checkNoSendRacesClose("O-8 no send races with a close", scope)
	c.checkWriteAfterSpawn("O-10 no field is published after the goroutine that reads it was started", scope)
	c.checkConfigSlicesNotModified("O-9 a configuration slice is not reordered in place")
	c.checkCapturedCellRaces("O-7 a local variable is not written by one goroutine and used by another", scope)
	if c.Thorough {
		c.inferGuardCandidates(scope)
	}
}

// checkAtomicDiscipline: every struct field whose address is passed to a
// sync/atomic function anywhere must never be accessed plainly.
func (c *Ctx) checkAtomicDiscipline(rule string, scope []*ssa.Function) {
	p := c.P
	atomicFields := map[string]*ssa.FieldAddr{}
	for _, fn := range scope {
		allInstrs(fn, func(in ssa.Instruction) {
			ci, ok := in.(ssa.CallInstruction)
			if !ok {
				return
			}
			n := calleeName(ci)
			if len(n) < 12 || n[:12] != "sync/atomic." {
				return
			}
			for _, a := range ci.Common().Args {
				if fa, ok := a.(*ssa.FieldAddr); ok {
					if base, f, ok := fieldOfAddr(fa); ok {
						atomicFields[fieldKey(base, f)] = fa
					}
				}
			}
		})
	}
	for _, key := range sortedKeysFA(atomicFields) {
		fa := atomicFields[key]
		_, f, _ := fieldOfAddr(fa)
		bad := 0
		for _, a := range accessesOfField(scope, f, false) {
			if a.Kind == accAtomic || isFreshBase(a.Fn, a.Base, a.Instr) {
				continue
			}
			bad++
			c.viol(rule, p.FnName(a.Fn)+" plain "+a.Kind.String()+" of atomically-updated "+key+" ("+a.What+")", p.instrPos(a.Instr),
				"field is updated with sync/atomic elsewhere; a plain access (or a struct copy through a value receiver) races with it")
		}
		if bad == 0 {
			c.ok(rule, "field "+key+" accessed only through sync/atomic", p.Pos(f.Pos()), "")
		}
	}
	if len(atomicFields) == 0 {
		c.okTrivial(rule, "no field is accessed through sync/atomic functions", "-", "")
	}
}

func sortedKeysFA(m map[string]*ssa.FieldAddr) []string {
	s := map[string]bool{}
	for k := range m {
		s[k] = true
	}
	return sortedKeys(s)
}

// inferGuardCandidates (thorough, informational only): struct fields written
// outside constructors that are not in the table.
func (c *Ctx) inferGuardCandidates(scope []*ssa.Function) {
	p := c.P
	inTable := map[string]bool{}
	for _, r := range guardTable {
		inTable[r.key()] = true
	}
	type stat struct{ writes, lockedWrites int }
	stats := map[string]*stat{}
	le := p.Locks()
	for _, fn := range scope {
		allInstrs(fn, func(in ssa.Instruction) {
			st, ok := in.(*ssa.Store)
			if !ok {
				return
			}
			base, f, ok := fieldOfAddr(st.Addr)
			if !ok || isFreshBase(fn, base, in) || f.Pkg() == nil || !strings.HasPrefix(f.Pkg().Path(), modPath) {
				return
			}
			k := fieldKey(base, f)
			if inTable[k] {
				return
			}
			s := stats[k]
			if s == nil {
				s = &stat{}
				stats[k] = s
			}
			s.writes++
			if stx, ok := le.at[in]; ok && !stx.top && len(stx.m) > 0 {
				s.lockedWrites++
			}
		})
	}
	keys := map[string]bool{}
	for k := range stats {
		keys[k] = true
	}
	for _, k := range sortedKeys(keys) {
		s := stats[k]
		c.info("O-1 candidates (informational, not armed)", k+": "+itoa(s.writes)+" post-publication write(s), "+itoa(s.lockedWrites)+" under some lock")
	}
}

func itoa(n int) string {
	if n == 0 {
		return "0"
	}
	neg := n < 0
	if neg {
		n = -n
	}
	var b []byte
	for n > 0 {
		b = append([]byte{byte('0' + n%10)}, b...)
		n /= 10
	}
	if neg {
		b = append([]byte{'-'}, b...)
	}
	return string(b)
}

// checkForeignGlobalWrites: no repository function (package initialisers
// excepted) stores through a package-level variable of another module or of
// the standard library (http.DefaultTransport, http.DefaultClient, ...): such an
// object is shared by every goroutine of the process and carries no lock the
// repository could take, so a field write races with every concurrent use.
func (c *Ctx) checkForeignGlobalWrites(rule string, scope []*ssa.Function) {
	p := c.P
	var foreign func(v ssa.Value, depth int) *ssa.Global
	foreign = func(v ssa.Value, depth int) *ssa.Global {
		if depth > 12 || v == nil {
			return nil
		}
		switch x := v.(type) {
		case *ssa.Global:
			if x.Pkg != nil {
				if _, isRepo := p.pkgRel[x.Pkg]; !isRepo {
					return x
				}
			}
			return nil
		case *ssa.FieldAddr:
			return foreign(x.X, depth+1)
		case *ssa.IndexAddr:
			return foreign(x.X, depth+1)
		case *ssa.TypeAssert:
			return foreign(x.X, depth+1)
		case *ssa.ChangeInterface:
			return foreign(x.X, depth+1)
		case *ssa.ChangeType:
			return foreign(x.X, depth+1)
		case *ssa.MakeInterface:
			return foreign(x.X, depth+1)
		case *ssa.Extract:
			return foreign(x.Tuple, depth+1)
		case *ssa.UnOp:
			if x.Op == token.MUL {
				if g, ok := x.X.(*ssa.Global); ok {
					// the pointer/interface held by the variable: what it points to is the shared object
					return foreign(g, depth+1)
				}
				if al, ok := x.X.(*ssa.Alloc); ok {
					if sv := singleStore(al); sv != nil {
						return foreign(sv, depth+1)
					}
				}
				// a field of a local object, read back right after it was assigned
				// (s.transport = http.DefaultTransport...; s.transport.(...).X = ...)
				if fa, ok := x.X.(*ssa.FieldAddr); ok {
					b := x.Block()
					for k := instrIndex(x) - 1; k >= 0; k-- {
						if st, ok := b.Instrs[k].(*ssa.Store); ok {
							if fb, ok := st.Addr.(*ssa.FieldAddr); ok && fb.Field == fa.Field && strip(fb.X) == strip(fa.X) {
								return foreign(st.Val, depth+1)
							}
						}
					}
				}
			}
		case *ssa.Phi:
			for _, e := range x.Edges {
				if g := foreign(e, depth+1); g != nil {
					return g
				}
			}
		}
		return nil
	}
	bad := 0
	nStores := 0
	for _, fn := range scope {
		if fn.Name() == "init" || strings.HasPrefix(fn.Name(), "init#") {
			continue
		}
		allInstrs(fn, func(in ssa.Instruction) {
			st, ok := in.(*ssa.Store)
			if !ok {
				return
			}
			nStores++
			// a store through the variable, or (outside main's start-up code) to the variable itself
			if _, direct := st.Addr.(*ssa.Global); direct && fn.Name() == "main" && fn.Parent() == nil {
				return // start-up configuration by the only goroutine (flag.Usage = ...)
			}
			if g := foreign(st.Addr, 0); g != nil {
				bad++
				c.viol(rule, p.FnName(fn)+" writes through "+g.Pkg.Pkg.Path()+"."+g.Name(), p.instrPos(st), "a field of a process-wide library object is assigned outside package initialisation: every goroutine using that object (for example a concurrent RoundTrip on http.DefaultTransport) reads the field without synchronisation; copy the object (Clone) before configuring it")
			}
		})
	}
	if bad == 0 {
		c.ok(rule, "no store through a package-level variable of another module", "-", fmt.Sprintf("%d stores examined", nStores))
	}
}

// checkGoroutineFieldWrites: a function that runs as a goroutine body (the
// target of a go statement, with the unexported helpers it alone calls) stores
// to - or hands the memory of - a field of an object it did not create only if
// that field has a row in the guarded-by table. The table rows are then
// checked by O-1; a field without a row that a goroutine body modifies is
// shared state nobody decided how to protect (for example a scratch buffer
// moved from a local variable into the connection struct).
func (c *Ctx) checkGoroutineFieldWrites(rule string, scope []*ssa.Function) {
	p := c.P
	inTable := map[string]bool{}
	for _, r := range guardTable {
		inTable[r.key()] = true
	}
	le := p.Locks()
	bodies := map[*ssa.Function]ssa.Instruction{}
	for _, fn := range scope {
		for _, ci := range callsIn(fn) {
			g, ok := ci.(*ssa.Go)
			if !ok {
				continue
			}
			if t := staticCallee(g); t != nil && t.Blocks != nil && p.IsRepoFn(t) {
				for _, h := range helperFns(t, 2) {
					if _, seen := bodies[h]; !seen {
						bodies[h] = g
					}
				}
			}
		}
	}
	// HTTP handlers run one goroutine per request: a function that takes an http.ResponseWriter, and what it
	// calls in its own package, is a goroutine body too (net/http's go statement is outside the repository)
	for _, fn := range scope {
		if fn.Blocks == nil || fn.Parent() != nil {
			continue
		}
		isHandler := false
		for _, par := range fn.Params {
			if typeString(par.Type()) == "net/http.ResponseWriter" {
				isHandler = true
			}
		}
		if !isHandler {
			continue
		}
		var visit func(f *ssa.Function, d int)
		visit = func(f *ssa.Function, d int) {
			if f == nil || f.Blocks == nil || !p.IsRepoFn(f) || f.Pkg != fn.Pkg {
				return
			}
			if _, seen := bodies[f]; seen {
				return
			}
			var at ssa.Instruction
			if len(fn.Blocks) > 0 && len(fn.Blocks[0].Instrs) > 0 {
				at = fn.Blocks[0].Instrs[0]
			}
			bodies[f] = at
			if d == 0 {
				return
			}
			for _, ci := range callsIn(f) {
				if _, isGo := ci.(*ssa.Go); isGo {
					continue
				}
				visit(staticCallee(ci), d-1)
			}
		}
		visit(fn, 4)
	}
	bad := 0
	nAcc := 0
	repoField := func(f *types.Var) bool {
		return f.Pkg() != nil && strings.HasPrefix(f.Pkg().Path(), modPath)
	}
	for body, g := range bodies {
		allInstrs(body, func(in ssa.Instruction) {
			var addr ssa.Value
			what := ""
			switch x := in.(type) {
			case *ssa.Store:
				addr, what = x.Addr, "stores to"
			case *ssa.Slice:
				// c.buf[:] of an array field: the memory is handed to whoever gets the slice
				addr, what = x.X, "slices"
			default:
				return
			}
			// element of an array field counts as the field
			for {
				if ia, ok := addr.(*ssa.IndexAddr); ok {
					addr = ia.X
					continue
				}
				break
			}
			base, f, ok := fieldOfAddr(addr)
			if !ok || !repoField(f) {
				return
			}
			if what == "slices" {
				if _, isArr := f.Type().Underlying().(*types.Array); !isArr {
					return
				}
			}
			if isFreshBase(body, base, in) {
				return
			}
			nAcc++
			k := fieldKey(base, f)
			if inTable[k] {
				return
			}
			// under some lock of the repository: protected by construction of this access
			if stx, ok := le.at[in]; ok && !stx.top && len(stx.m) > 0 {
				return
			}
			bad++
			c.viol(rule, p.FnName(body)+" "+what+" "+k, p.instrPos(in), "the goroutine started at "+p.instrPos(g)+" modifies (or hands out the memory of) a field that has no row in the guarded-by table and holds no lock here: two goroutines of successive or concurrent calls share it without synchronisation")
		})
	}
	if bad == 0 {
		c.ok(rule, "goroutine bodies store only to tabled fields, fresh objects, or under a lock", "-", fmt.Sprintf("%d goroutine-body functions, %d field stores/slices of non-fresh objects", len(bodies), nAcc))
	}
}

// checkCapturedCellRaces: a local variable that closures capture by reference is
// shared memory once two of those closures run as goroutines. If one goroutine
// body (its nested literals included) assigns the variable and another goroutine
// body started by the same function reads or assigns it - or the assigning body
// is started in a loop - the accesses race unless one mutex is held at all of
// them. (The starting function's own accesses are not judged: they are usually
// ordered by a WaitGroup or a channel, which this rule does not model.)
func (c *Ctx) checkCapturedCellRaces(rule string, scope []*ssa.Function) {
	p := c.P
	le := p.Locks()
	nCells, bad := 0, 0
	resolveCell := func(fv *ssa.FreeVar) *ssa.Alloc {
		var cell ssa.Value = fv
		for i := 0; i < 6; i++ {
			f2, isFV := cell.(*ssa.FreeVar)
			if !isFV {
				break
			}
			b := freeVarBinding(f2)
			if b == nil {
				return nil
			}
			cell = b
		}
		al, _ := cell.(*ssa.Alloc)
		return al
	}
	type acc struct {
		in    ssa.Instruction
		write bool
	}
	for _, fn := range scope {
		if fn.Parent() != nil {
			continue
		}
		// goroutine bodies started (anywhere below fn) from closures
		type gbody struct {
			g    *ssa.Go
			body *ssa.Function
		}
		var bodies []gbody
		var all []*ssa.Function
		var collect func(f *ssa.Function)
		collect = func(f *ssa.Function) {
			all = append(all, f)
			for _, a := range f.AnonFuncs {
				collect(a)
			}
		}
		collect(fn)
		for _, f := range all {
			for _, ci := range callsIn(f) {
				if g, ok := ci.(*ssa.Go); ok {
					if b := staticCallee(g); b != nil && b.Parent() != nil {
						bodies = append(bodies, gbody{g, b})
					}
				}
			}
		}
		if len(bodies) == 0 {
			continue
		}
		// accesses per (cell, goroutine body)
		type key struct {
			cell *ssa.Alloc
			b    int
		}
		accs := map[key][]acc{}
		cells := map[*ssa.Alloc]bool{}
		for bi, gb := range bodies {
			var inBody []*ssa.Function
			var coll func(f *ssa.Function)
			coll = func(f *ssa.Function) {
				inBody = append(inBody, f)
				for _, a := range f.AnonFuncs {
					// a nested literal that is itself started as a goroutine is a body of its own
					isOwn := false
					for _, o := range bodies {
						if o.body == a {
							isOwn = true
						}
					}
					if !isOwn {
						coll(a)
					}
				}
			}
			coll(gb.body)
			for _, f := range inBody {
				for _, fv := range f.FreeVars {
					cell := resolveCell(fv)
					if cell == nil || cell.Parent() == nil || fv.Referrers() == nil {
						continue
					}
					// the cell must belong to fn or a literal enclosing the body (not to the body itself)
					owner := cell.Parent()
					inside := false
					for _, x := range inBody {
						if x == owner {
							inside = true
						}
					}
					if inside {
						continue
					}
					for _, r := range *fv.Referrers() {
						switch x := r.(type) {
						case *ssa.Store:
							if x.Addr == ssa.Value(fv) {
								accs[key{cell, bi}] = append(accs[key{cell, bi}], acc{x, true})
								cells[cell] = true
							}
						case *ssa.UnOp:
							if x.Op == token.MUL {
								accs[key{cell, bi}] = append(accs[key{cell, bi}], acc{x, false})
								cells[cell] = true
							}
						}
					}
				}
			}
		}
		for cell := range cells {
			nCells++
			var writers, users []int
			for bi := range bodies {
				as := accs[key{cell, bi}]
				if len(as) == 0 {
					continue
				}
				users = append(users, bi)
				for _, a := range as {
					if a.write {
						writers = append(writers, bi)
						break
					}
				}
			}
			if len(writers) == 0 {
				continue
			}
			race := false
			var w, u int
			for _, wi := range writers {
				for _, ui := range users {
					if ui != wi {
						race, w, u = true, wi, ui
					}
				}
				if inCycle(bodies[wi].g.Block()) {
					race, w, u = true, wi, wi
				}
			}
			if !race {
				continue
			}
			// one mutex held at every access of the two bodies?
			common := map[string]bool{}
			first := true
			for _, bi := range []int{w, u} {
				for _, a := range accs[key{cell, bi}] {
					held := map[string]bool{}
					for _, k := range le.HeldKeys(a.in) {
						held[k] = true
					}
					if first {
						common, first = held, false
						continue
					}
					for k := range common {
						if !held[k] {
							delete(common, k)
						}
					}
				}
			}
			if len(common) > 0 {
				continue
			}
			bad++
			wa := accs[key{cell, w}][0]
			for _, a := range accs[key{cell, w}] {
				if a.write {
					wa = a
				}
			}
			c.viol(rule, fmt.Sprintf("%s: variable %s is assigned in the goroutine started at %s", p.FnName(fn), cell.Comment, p.instrPos(bodies[w].g)), p.instrPos(wa.in),
				fmt.Sprintf("the variable is captured by reference; the goroutine started at %s also uses it, with no common mutex: a data race (for example two loops both assigning the enclosing function's err)", p.instrPos(bodies[u].g)))
		}
	}
	if bad == 0 {
		c.ok(rule, "variables captured by goroutine bodies", "-", fmt.Sprintf("%d captured variable(s) used by goroutine bodies; none assigned by one and used by another", nCells))
	}
}

// checkConfigSlicesNotModified: NewSnowflakeClient receives its ClientConfig by
// value, but the slices in it share their backing arrays with the caller's copy
// (and with the copies other connections were given). It, and the literals it
// creates (the shuffle callback), store into no element of a slice that comes
// from the config parameter.
func (c *Ctx) checkConfigSlicesNotModified(rule string) {
	p := c.P
	fn := p.Fn("client/lib", "NewSnowflakeClient")
	if fn == nil || len(fn.Params) == 0 {
		c.undecided(rule, "client/lib.NewSnowflakeClient", "-", "anchor does not resolve")
		return
	}
	cfg := fn.Params[0]
	// the same backing array: the config's field itself, re-sliced or merged - not something a call made from it
	var fromConfig func(v ssa.Value) bool
	seenFC := map[ssa.Value]bool{}
	fromConfig = func(v ssa.Value) bool {
		v = strip(v)
		if seenFC[v] {
			return false
		}
		seenFC[v] = true
		defer delete(seenFC, v)
		switch x := v.(type) {
		case *ssa.Slice:
			return fromConfig(x.X)
		case *ssa.Phi:
			for _, e := range x.Edges {
				if fromConfig(e) {
					return true
				}
			}
			return false
		case *ssa.Field:
			return strip(x.X) == ssa.Value(cfg)
		case *ssa.Call, *ssa.MakeSlice:
			return false
		}
		if base, _, ok := fieldLoad(v); ok {
			b := strip(base)
			if b == ssa.Value(cfg) {
				return true
			}
			// the parameter spilled to a local copy
			if al, isAl := b.(*ssa.Alloc); isAl && al.Referrers() != nil {
				for _, r := range *al.Referrers() {
					if st, isSt := r.(*ssa.Store); isSt && st.Addr == ssa.Value(al) && st.Val == ssa.Value(cfg) {
						return true
					}
				}
			}
		}
		return false
	}
	n, bad := 0, 0
	for _, f := range withAnon(fn) {
		allInstrs(f, func(in ssa.Instruction) {
			st, ok := in.(*ssa.Store)
			if !ok {
				return
			}
			ia, ok := st.Addr.(*ssa.IndexAddr)
			if !ok {
				return
			}
			n++
			base := ia.X
			// resolve a captured slice variable to what the enclosing function stored in it
			if ld, isLd := base.(*ssa.UnOp); isLd {
				if fv, isFV := ld.X.(*ssa.FreeVar); isFV {
					if b := freeVarBinding(fv); b != nil {
						if al, isAl := b.(*ssa.Alloc); isAl && al.Referrers() != nil {
							for _, r := range *al.Referrers() {
								if s2, isSt := r.(*ssa.Store); isSt && s2.Addr == ssa.Value(al) && fromConfig(s2.Val) {
									bad++
									c.viol(rule, p.FnName(f)+" stores into an element of a slice of the config parameter", p.instrPos(st), "the slice shares its backing array with every other copy of the configuration: shuffling or editing it in place races with the other connections that read it and changes their configuration")
									return
								}
							}
						}
					}
				}
			}
			if fromConfig(base) {
				bad++
				c.viol(rule, p.FnName(f)+" stores into an element of a slice of the config parameter", p.instrPos(st), "the slice shares its backing array with every other copy of the configuration: editing it in place races with the other connections that read it")
			}
		})
	}
	if bad == 0 {
		c.ok(rule, "NewSnowflakeClient modifies no element of a slice it was configured with", p.Pos(fn.Pos()), fmt.Sprintf("%d element store(s) examined", n))
	}
}
