package main

import (
	"fmt"
	"go/token"
	"go/types"
	"sort"
	"strings"

	"golang.org/x/tools/go/ssa"
)

func init() {
	register("C09", propMeta{
		Explanation: "Reader-contract rule + E-CONST + E-GUARD + E-PANIC on common/encapsulation and its stream feeders. O-1 reader contract: every call of a Read([]byte) (int, error) method must use its count result (or return the pair unchanged), or the read must go through io.ReadFull/ReadAtLeast/CopyN/Copy, which implement the contract for zero-length reads, short reads and data returned together with io.EOF; quick scope: encapsulation and the two packet adapters, thorough: every package. O-1b one reader per stream: the reader handed to encapsulation.ReadData is a pre-existing stream object, not a buffering reader constructed for the single call (its read-ahead would be discarded between packets). O-2 allocation bounded by the announced length: in ReadData the length is built from one byte masked with 0x3f and at most K further bytes masked with 0x7f shifted by 7, the continuation loop leaving with ErrTooLong on the edge i >= K; the bound 2^(6+7K)-1 equals the encoder's limit and the 2^20-1 of the statement. O-3 writer's and reader's tables agree: flag, mask and shift literals of dataPrefixForLength versus ReadData; the padding writer's 3-byte branch (which carries a 0x3f where 0x7f is expected) is dead while the padding buffer is at most 8193 bytes - the checker verifies that precondition. O-4 EOF classes: only the first read of a chunk may return io.EOF unchanged; every later read maps it to io.ErrUnexpectedEOF. O-5 no termination construct on the decode path; the two documented panics (WritePadding(n<0), MaxDataForSize(0)) have no non-test caller. O-6 the codec keeps no shared mutable state: nothing returned or written by the package's functions derives from a package-level variable (concurrent streams would overwrite each other's prefixes). Added after the second seeding round: O-1c at every ReadData call site the call is re-executed only over the err == nil edge of the previous call (no resynchronisation after ErrTooLong or a truncated chunk) and every path from err == nil returns or hands the chunk on before the next ReadData (an empty chunk is delivered, not skipped); O-2 also requires the prefix-length bound to be tested before the continuation byte is read; O-4 accepts the io.EOF mapping inline or in a same-package helper that returns its argument only behind argument != io.EOF; O-6 also counts append/copy into, and method calls on, package-level objects. Added after the third seeding round: the continuation-byte counter restarts for every chunk; the data-channel message handler writes into the receive pipe synchronously (no goroutine per message). Added after the fourth seeding round: O-7/C17 packets queued for encapsulation are private copies of the sender's buffer (C17's copy-on-enqueue obligation). Added after the fifth seeding round: O-8 websocketconn.readLoop copies the message reader itself (no LimitReader/CopyN), and a buffer given to io.CopyBuffer is allocated by the copying function (the two directions of a relay do not share one). Added after the sixth seeding round and the mutation audit: O-1e ReadData reads from its reader parameter itself (a reader type of the repository put in between changes the contract); O-8 websocketconn.readLoop passes over a message only when its type was found to be neither text nor binary. O-9/O-10 in encapsulation and websocketconn a read's error is used and a failure branch never runs on.",
		NotDecided:  "round-trip equality over all chunk sequences, MaxDataForSize arithmetic, padding length arithmetic (value-level).",
		Assumptions: []string{"io.ReadFull/io.CopyN implement the io.Reader contract"},
	}, runC09)
}

func isReadSig(sig *types.Signature) bool {
	if sig.Params().Len() != 1 || sig.Results().Len() != 2 {
		return false
	}
	sl, ok := sig.Params().At(0).Type().Underlying().(*types.Slice)
	if !ok {
		return false
	}
	if b, ok := sl.Elem().Underlying().(*types.Basic); !ok || b.Kind() != types.Byte {
		return false
	}
	if b, ok := sig.Results().At(0).Type().Underlying().(*types.Basic); !ok || b.Kind() != types.Int {
		return false
	}
	return errResultIndex(sig) == 1
}

func runC09(c *Ctx) {
	p := c.P
	enc := p.FnsIn("common/encapsulation")
	for _, fn := range enc {
		c.analysedFn(p.FnName(fn))
	}
	rd := p.Fn("common/encapsulation", "ReadData")
	if rd == nil {
		c.undecided("O-0 anchors", "encapsulation.ReadData", "-", "anchor does not resolve")
		return
	}
	c.checkDecodeErrorsConsumed("O-9 a read's error is part of the verdict", p.FnsIn("common/encapsulation"))
	c.checkErrorBranchesLeave("O-10 a failed step ends the function", p.FnsIn("common/encapsulation", "common/websocketconn"))
	// ReadData reads the caller's reader itself: a reader of the repository's own put in between changes what the
	// io.Reader contract promises (a wrapper that turns a (0, nil) read into an error rejects a valid stream as soon
	// as the transport delivers an empty message)
	{
		ruleW := "O-1e ReadData reads the caller's reader itself"
		n := 0
		for _, d := range deepCalls(rd, 2, "io.ReadFull", "io.ReadAtLeast", "io.CopyN", "io.Copy", "(io.Reader).Read") {
			ci, ok := d.In.(ssa.CallInstruction)
			if !ok {
				continue
			}
			var src ssa.Value
			switch calleeName(ci) {
			case "io.ReadFull", "io.ReadAtLeast":
				src = ci.Common().Args[0]
			case "io.CopyN", "io.Copy":
				src = ci.Common().Args[1]
			default:
				src = ci.Common().Value
			}
			n++
			isParam := xforms(src, func(v ssa.Value) bool {
				par, isPar := v.(*ssa.Parameter)
				return isPar && par.Parent() == rd && len(rd.Params) > 0 && par == rd.Params[0]
			})
			wrapper := ""
			if !isParam {
				if mi, isMI := strip(src).(*ssa.MakeInterface); isMI {
					wrapper = typeString(mi.X.Type())
				} else if mi, isMI := src.(*ssa.MakeInterface); isMI {
					wrapper = typeString(mi.X.Type())
				}
			}
			if wrapper != "" && !strings.Contains(wrapper, modPath) {
				continue // a reader of the standard library (io.LimitedReader, io.SectionReader) keeps the contract
			}
			c.check(isParam, ruleW, "ReadData reads from its reader parameter", p.instrPos(ci), "", "the bytes are read through "+map[bool]string{true: "a value of the repository's type " + wrapper, false: "something other than the reader parameter"}[wrapper != ""]+": what its Read does with short, empty or final reads is then part of the decoder")
		}
		if n == 0 {
			c.undecided(ruleW, "ReadData reads from its reader parameter", p.Pos(rd.Pos()), "no read call found")
		}
	}
	// the chunks the server encapsulates are what the queue holds: a queued packet must be a private copy of the
	// sender's buffer, or correctly framed chunks carry bytes the sender has since overwritten (C17's obligation)
	c.prefix = "O-7/C17:"
	c.checkCopyOnEnqueue(p.FnsIn("common/turbotunnel"))
	c.prefix = ""
	c.checkCarrierCopies()
	// ---------- O-1 ----------
	rule1 := "O-1 reader contract"
	scope := append(append([]*ssa.Function{}, enc...), p.FnsIn("client/lib", "server/lib", "common/websocketconn")...)
	if c.Thorough {
		scope = p.FnsIn()
	}
	// exceptions: one row, verified in C10 (the armor decoder's pipe)
	nRead := 0
	for _, fn := range scope {
		c.analysedFn(p.FnName(fn))
		for _, ci := range callsIn(fn) {
			cc, ok := ci.(*ssa.Call)
			if !ok {
				continue
			}
			name := ""
			if cc.Call.IsInvoke() {
				name = cc.Call.Method.Name()
			} else if f := staticCallee(cc); f != nil {
				name = f.Name()
			}
			if name != "Read" || !isReadSig(cc.Call.Signature()) {
				continue
			}
			if !cc.Call.IsInvoke() && cc.Call.Signature().Recv() == nil {
				continue // package-level function (crypto/rand.Read fills the buffer or fails), not an io.Reader
			}
			nRead++
			key := fmt.Sprintf("%s calls %s", p.FnName(fn), calleeName(cc))
			if p.FnName(fn) == "common/amp.NewArmorDecoder" && calleeName(cc) == "(*io.PipeReader).Read" {
				// table row: the pipe's only writer is decodeToWriter, which writes non-empty scanner tokens
				// (verified by C10 O-7); an io.Pipe read returns n > 0 or an error for a non-empty write
				okRow := false
				if dec := p.Fn("common/amp", "decodeToWriter"); dec != nil {
					okRow = true
					for _, w := range callsIn(dec) {
						if calleeName(w) == "(io.Writer).Write" {
							if wc, _, ok := callResult(w.Common().Args[0]); !ok || calleeName(wc) != "(*bufio.Scanner).Bytes" {
								okRow = false
							}
						}
					}
				}
				c.check(okRow, rule1, key, p.instrPos(cc), "table row: one-byte read from an io.Pipe fed only with non-empty scanner tokens", "the exception row no longer holds: the pipe can receive an empty write")
				continue
			}
			used, forwarded := false, false
			if cc.Referrers() != nil {
				for _, r := range *cc.Referrers() {
					switch x := r.(type) {
					case *ssa.Extract:
						if x.Index == 0 && x.Referrers() != nil {
							for _, rr := range *x.Referrers() {
								if _, dbg := rr.(*ssa.DebugRef); !dbg {
									used = true
								}
							}
						}
					case *ssa.Return:
						forwarded = true
					}
				}
			}
			c.check(used || forwarded, rule1, key, p.instrPos(cc), "count used or the (n, err) pair returned unchanged",
				"the count returned by Read is discarded: a reader that returns (0, nil), a short read, or the last byte together with io.EOF - all permitted by the io.Reader contract - makes the caller interpret stale or missing bytes")
		}
	}
	c.count("Read calls examined", nRead)
	// the length prefix and payload reads of ReadData go through the helpers
	nHelper := 0
	for _, ci := range callsIn(rd) {
		if isCallTo(ci, "io.ReadFull", "io.ReadAtLeast", "io.CopyN", "io.Copy") {
			nHelper++
		}
	}
	c.check(nHelper >= 4, rule1, "ReadData reads prefix bytes, payload and padding through io.ReadFull/io.CopyN", p.Pos(rd.Pos()), fmt.Sprintf("%d helper reads", nHelper), fmt.Sprintf("only %d reads of ReadData go through the contract-implementing helpers (expected prefix byte, continuation byte, payload, padding)", nHelper))

	// ---------- O-1b ----------
	rule1b := "O-1b one reader per stream"
	nRD := 0
	for _, fn := range p.FnsIn() {
		for _, ci := range callsIn(fn) {
			if staticCallee(ci) != rd {
				continue
			}
			nRD++
			arg := ci.Common().Args[0]
			var ctor *ssa.Call
			flows(arg, func(v ssa.Value) bool {
				if cc, _, ok := callResult(v); ok {
					n := calleeName(cc)
					if strings.HasPrefix(n, "bufio.NewReader") || n == "io.LimitReader" || n == "io.TeeReader" || n == "io.MultiReader" {
						if cc.Parent() == ci.Parent() {
							ctor = cc
						}
						return true
					}
				}
				return false
			})
			good := ctor == nil
			if ctor != nil {
				// acceptable only if the constructor is outside the loop that calls ReadData
				good = inCycle(ci.Block()) && reachPath(ci.Block(), ctor.Block(), nil) == nil
			}
			c.check(good, rule1b, p.FnName(fn)+" reads packets from a stream-lifetime reader", p.instrPos(ci), "", "ReadData is given a buffering reader constructed for this one call: bytes it read ahead beyond the current chunk are thrown away, so when one underlying read carries more than one chunk later packets are lost or the stream ends with unexpected EOF")
		}
	}
	if nRD < 2 {
		c.undecided(rule1b, "ReadData call sites", "-", fmt.Sprintf("%d found, expected client and server", nRD))
	}
	// ---------- O-1d bytes enter the stream in arrival order ----------
	// a write into an io.Pipe that feeds ReadData is issued by the data-channel callback itself, never
	// from a goroutine spawned per message (the scheduler would then decide the order of the bytes)
	{
		rule1d := "O-1d bytes enter the receive pipe in arrival order"
		nW := 0
		for _, fn := range p.FnsIn("client/lib", "proxy/lib") {
			for _, ci := range callsTo(fn, "(*io.PipeWriter).Write") {
				nW++
				spawned := false
				for f := fn; f != nil && !spawned; f = f.Parent() {
					for _, mc := range p.closureSites[f] {
						if mc.Referrers() == nil {
							continue
						}
						for _, r := range *mc.Referrers() {
							if g, isGo := r.(*ssa.Go); isGo && g.Call.Value == ssa.Value(mc) {
								// a goroutine started from inside another closure (a callback): per event
								if g.Parent().Parent() != nil {
									spawned = true
								}
							}
						}
					}
				}
				c.check(!spawned, rule1d, p.FnName(fn)+" writes received bytes into the pipe synchronously", p.instrPos(ci), "", "the pipe write runs in a goroutine started per callback invocation: two messages that arrive back to back can enter the byte stream in either order, and ReadData decodes garbage")
			}
		}
		if nW == 0 {
			c.okTrivial(rule1d, "PipeWriter.Write sites in client/lib and proxy/lib", "-", "none")
		}
	}
	// ---------- O-1c every chunk is delivered; a failed decode ends the stream ----------
	rule1c := "O-1c one chunk per delivery, no resynchronisation"
	for _, fn := range p.FnsIn() {
		for _, ci := range callsIn(fn) {
			cc, ok := ci.(*ssa.Call)
			if !ok || staticCallee(ci) != rd {
				continue
			}
			// after an error the stream position is unknown: no path from the err != nil edge may call ReadData again
			okE := errNilEdges(fn, cc, 1)
			isCut := map[Edge]bool{}
			for _, e := range okE {
				isCut[e] = true
			}
			okErr := len(okE) > 0
			var wpath []*ssa.BasicBlock
			for i, sb := range cc.Block().Succs {
				if isCut[Edge{From: cc.Block(), Idx: i}] {
					continue
				}
				if pth := psSearch(sb, okE, nil, func(b *ssa.BasicBlock) bool { return b == cc.Block() }); pth != nil {
					okErr = false
					wpath = pth
				}
			}
			c.check(okErr, rule1c, p.FnName(fn)+" abandons the stream after a ReadData error", p.instrPos(cc), "ReadData is called again only over the err == nil edge of the previous call",
				"after ReadData failed (ErrTooLong, truncated chunk) the caller reads on from an undefined stream position: the following bytes are interpreted as chunk prefixes and garbage is delivered as packets", p.pathString(wpath)...)
			// a successfully decoded chunk (also an empty one) is handed on before the next ReadData
			good := errNilEdges(fn, cc, 1)
			isUse := func(in ssa.Instruction) bool {
				switch x := in.(type) {
				case *ssa.Return:
					return true
				case ssa.CallInstruction:
					if x == ssa.CallInstruction(cc) {
						return false
					}
					for _, a := range callArgs(x) {
						if isResultOfCall1(a, cc, 0) {
							// handing the data to a consumer (QueueIncoming, a channel wrapper); copy() into the caller's buffer counts only with the return that follows
							return calleeName(x) != "builtin.copy" && calleeName(x) != "builtin.len"
						}
					}
				case *ssa.Send:
					return isResultOfCall1(x.X, cc, 0)
				}
				return false
			}
			okUse := len(good) > 0
			for _, e := range good {
				if pth := psSearch(e.To(), nil, func(b *ssa.BasicBlock) bool {
					for _, in := range b.Instrs {
						if isUse(in) {
							return true
						}
					}
					return false
				}, func(b *ssa.BasicBlock) bool { return b == cc.Block() }); pth != nil {
					okUse = false
					wpath = pth
				}
			}
			c.check(okUse, rule1c, p.FnName(fn)+" delivers every decoded chunk before reading the next", p.instrPos(cc), "every path from err == nil returns or hands the data on before the next ReadData",
				"a decoded chunk can be dropped (for example an empty one) and the next chunk read in its place: an empty payload is no longer delivered as an empty packet", p.pathString(wpath)...)
		}
	}

	// ---------- O-2 / O-3 ----------
	c.checkPrefixTables(rd)

	// ---------- O-4 EOF classes ----------
	rule4 := "O-4 EOF classes"
	eofG, ueofG := globalOf(p, "io", "EOF"), globalOf(p, "io", "ErrUnexpectedEOF")
	var reads []*ssa.Call
	for _, ci := range callsIn(rd) {
		if cc, ok := ci.(*ssa.Call); ok && isCallTo(cc, "io.ReadFull", "io.ReadAtLeast", "io.CopyN", "io.Copy") {
			reads = append(reads, cc)
		} else if ok && (cc.Call.IsInvoke() && cc.Call.Method.Name() == "Read") {
			reads = append(reads, cc)
		}
	}
	sort.Slice(reads, func(i, j int) bool { return reads[i].Pos() < reads[j].Pos() })
	nRaw := 0
	isGlobalLoad := func(v ssa.Value, g *ssa.Global) bool {
		addr, ok := loadAddr(v)
		return ok && g != nil && addr == ssa.Value(g)
	}
	// eofEdges: the edges of fn on which "raw == io.EOF" holds (want) or fails
	eofEdges := func(fn *ssa.Function, isRaw func(ssa.Value) bool, want bool) []Edge {
		return condEdges(fn, want, func(a Atom) bool {
			if a.Op != token.EQL {
				return false
			}
			return (isRaw(a.X) && isGlobalLoad(a.Y, eofG)) || (isRaw(a.Y) && isGlobalLoad(a.X, eofG))
		})
	}
	// mayBeRawEOF: can value v, arriving at block `at` of fn, be the raw error
	// (identified by isRaw) while that error is io.EOF? Not when the block lies
	// behind the "raw != io.EOF" edge, nor when the raw error was passed through
	// a same-package helper that returns its argument only behind such an edge.
	var mayBeRawEOF func(fn *ssa.Function, v ssa.Value, at *ssa.BasicBlock, isRaw func(ssa.Value) bool, depth int) bool
	// mapsToUnexpected: does the value (again at a block) become io.ErrUnexpectedEOF exactly on the "raw == io.EOF" edge?
	var sanitiser func(h *ssa.Function, idx int, depth int) (clean bool, maps bool)
	sanitiser = func(h *ssa.Function, idx int, depth int) (bool, bool) {
		if depth <= 0 || idx >= len(h.Params) || h.Signature.Results().Len() != 1 {
			return false, false
		}
		par := h.Params[idx]
		isPar := func(v ssa.Value) bool { return strip(v) == ssa.Value(par) }
		clean, maps := true, false
		eq := eofEdges(h, isPar, true)
		for _, r := range returnsOf(h) {
			if mayBeRawEOF(h, retVal(r, 0), r.Block(), isPar, depth-1) {
				clean = false
			}
			if isGlobalLoad(retVal(r, 0), ueofG) && len(eq) > 0 && reachableWithout(h, r, eq) == nil {
				maps = true
			}
		}
		return clean, maps
	}
	mayBeRawEOF = func(fn *ssa.Function, v ssa.Value, at *ssa.BasicBlock, isRaw func(ssa.Value) bool, depth int) bool {
		seen := map[ssa.Value]bool{}
		var rec func(v ssa.Value, at, to *ssa.BasicBlock) bool
		rec = func(v ssa.Value, at, to *ssa.BasicBlock) bool {
			if isRaw(v) {
				ne := eofEdges(fn, isRaw, false)
				if len(ne) == 0 {
					return true
				}
				// a phi operand arrives over the edge at->to: that edge itself may be the certifying one
				if to != nil {
					for _, e := range ne {
						if e.From == at && e.To() == to {
							return false
						}
					}
				}
				return psSearch(fn.Blocks[0], ne, nil, func(b *ssa.BasicBlock) bool { return b == at }) != nil
			}
			if ph, ok := v.(*ssa.Phi); ok {
				if seen[v] {
					return false
				}
				seen[v] = true
				for i, e := range ph.Edges {
					if rec(e, ph.Block().Preds[i], ph.Block()) {
						return true
					}
				}
				return false
			}
			if cc, ok := v.(*ssa.Call); ok {
				if h := staticCallee(cc); h != nil && h.Blocks != nil && samePkg(h, fn) {
					for i, a := range callArgs(cc) {
						if isRaw(a) || flowsLocal(a, isRaw) {
							if clean, _ := sanitiser(h, i, depth); !clean {
								return true
							}
						}
					}
					return false
				}
			}
			return false
		}
		return rec(v, at, nil)
	}
	for i, cc := range reads {
		ei := errResultIndex(cc.Call.Signature())
		isRaw := func(v ssa.Value) bool { return isResultOfCall1(v, cc, ei) }
		rawReturned := false
		mapped := false
		for _, r := range returnsOf(rd) {
			v := retVal(r, 1)
			if mayBeRawEOF(rd, v, r.Block(), isRaw, 2) {
				rawReturned = true
			}
		}
		// the mapping itself: inline (a phi merging the raw error with io.ErrUnexpectedEOF
		// behind a raw == io.EOF test) or through a helper that does the same
		if len(eofEdges(rd, isRaw, true)) > 0 {
			allInstrs(rd, func(in ssa.Instruction) {
				if ph, ok := in.(*ssa.Phi); ok {
					hasRaw, hasU := false, false
					for _, e := range ph.Edges {
						if isRaw(e) {
							hasRaw = true
						}
						if isGlobalLoad(e, ueofG) {
							hasU = true
						}
					}
					if hasRaw && hasU {
						mapped = true
					}
				}
			})
		}
		for _, ci := range callsIn(rd) {
			hc, ok := ci.(*ssa.Call)
			if !ok {
				continue
			}
			if h := staticCallee(hc); h != nil && h.Blocks != nil && samePkg(h, rd) {
				for k, a := range callArgs(hc) {
					if isRaw(a) {
						if clean, maps := sanitiser(h, k, 2); clean && maps {
							mapped = true
						}
					}
				}
			}
		}
		key := fmt.Sprintf("ReadData read #%d (%s)", i+1, calleeName(cc))
		if i == 0 {
			c.check(rawReturned, rule4, key+" may return io.EOF unchanged (chunk boundary)", p.instrPos(cc), "", "the first read of a chunk does not return its error unchanged: a clean end of stream is no longer reported as io.EOF")
			continue
		}
		if rawReturned {
			nRaw++
		}
		c.check(mapped && !rawReturned, rule4, key+" maps io.EOF to io.ErrUnexpectedEOF", p.instrPos(cc), "", "an end of stream inside a chunk can be returned as plain io.EOF: a truncated stream looks like a clean end")
	}
	if len(reads) < 4 {
		c.undecided(rule4, "reads of ReadData", p.Pos(rd.Pos()), fmt.Sprintf("%d found, expected 4", len(reads)))
	}

	// ---------- O-5 ----------
	rule5 := "O-5 no termination construct on the decode path"
	reached := c.checkTerminators(rule5, []*ssa.Function{rd}, nil)
	c.okTrivial(rule5, fmt.Sprintf("%d function(s) reachable from ReadData examined", len(reached)), "-", "")
	for _, name := range []string{"WritePadding", "MaxDataForSize"} {
		fn := p.Fn("common/encapsulation", name)
		if fn == nil {
			continue
		}
		n := len(p.realCallers(fn))
		c.check(n == 0, rule5, "encapsulation."+name+" (documented precondition panic) has no non-test caller", p.Pos(fn.Pos()), "", fmt.Sprintf("%d non-test call sites: each must establish the precondition (n >= 0 / n != 0)", n))
	}

	// ---------- O-6 no shared mutable state ----------
	c.checkNoSharedState("O-6 the codec keeps no shared mutable state", "common/encapsulation", enc)
}

func globalOf(p *Prog, pkgPath, name string) *ssa.Global {
	for _, pkg := range p.SSA.AllPackages() {
		if pkg.Pkg.Path() == pkgPath {
			g, _ := pkg.Members[name].(*ssa.Global)
			return g
		}
	}
	return nil
}

func (c *Ctx) checkPrefixTables(rd *ssa.Function) {
	p := c.P
	rule2 := "O-2 allocation bounded by the announced length"
	rule3 := "O-3 writer's and reader's tables agree"
	// --- reader constants ---
	var andConsts, shlConsts []int64
	allInstrs(rd, func(in ssa.Instruction) {
		if bo, ok := in.(*ssa.BinOp); ok {
			if k, okk := constInt(bo.Y); okk {
				switch bo.Op {
				case token.AND:
					andConsts = append(andConsts, k)
				case token.SHL:
					shlConsts = append(shlConsts, k)
				}
			}
		}
	})
	sort.Slice(andConsts, func(i, j int) bool { return andConsts[i] < andConsts[j] })
	// loop bound K: ErrTooLong returned on  K <= i
	K := int64(-1)
	tooLong := p.Global("common/encapsulation", "ErrTooLong")
	// every place where ErrTooLong is produced (returned directly, or handed to the return through a
	// temporary) lies behind the bound test
	var tlUses []ssa.Instruction
	allInstrs(rd, func(in ssa.Instruction) {
		if u, ok := in.(*ssa.UnOp); ok && u.Op == token.MUL && tooLong != nil && u.X == ssa.Value(tooLong) {
			tlUses = append(tlUses, in)
		}
	})
	for _, r := range tlUses {
		// the edge on which K <= i holds, however the source spells it
		// (i >= K, !(i < K), K <= i, i > K-1, ...)
		isCtr := func(v ssa.Value) bool { _, isPhi := v.(*ssa.Phi); return isPhi }
		isK := func(v ssa.Value) bool { _, okk := constInt(v); return okk }
		boundOf := func(es []Edge, strict bool) {
			for _, e := range es {
				iff := e.From.Instrs[len(e.From.Instrs)-1].(*ssa.If)
				a, _ := normCond(iff.Cond)
				k, okk := constInt(a.X)
				if !okk {
					k, okk = constInt(a.Y)
				}
				if okk {
					K = k
					if strict {
						K = k + 1
					}
				}
			}
		}
		edges := cmpEdges(rd, "<=", isK, isCtr)
		boundOf(edges, false)
		if len(edges) == 0 {
			edges = cmpEdges(rd, "<", isK, isCtr)
			boundOf(edges, true)
		}
		if len(edges) == 0 || reachableWithout(rd, r, edges) != nil {
			K = -1
		}
		// the counter starts at 0 for every chunk: its initialisation lies inside the per-chunk loop
		// (hoisted out of it, prefix bytes are counted across the padding chunks one call skips)
		for _, e := range edges {
			iff := e.From.Instrs[len(e.From.Instrs)-1].(*ssa.If)
			a, _ := normCond(iff.Cond)
			for _, v := range []ssa.Value{a.X, a.Y} {
				ph, ok := v.(*ssa.Phi)
				if !ok {
					continue
				}
				seenP := map[*ssa.Phi]bool{}
				perChunk, found := true, false
				var walk func(ph *ssa.Phi)
				walk = func(ph *ssa.Phi) {
					if seenP[ph] {
						return
					}
					seenP[ph] = true
					for i, in := range ph.Edges {
						if k, okk := constInt(in); okk && k == 0 {
							found = true
							if !inCycle(ph.Block().Preds[i]) {
								perChunk = false
							}
						}
						if p2, okp := in.(*ssa.Phi); okp {
							walk(p2)
						}
					}
				}
				walk(ph)
				c.check(found && perChunk, rule2, "the prefix-length counter restarts at 0 for every chunk", p.instrPos(iff), "initialised inside the chunk loop", "the counter of continuation bytes is initialised outside the per-chunk loop: the limit of three prefix bytes is counted across skipped padding chunks and a valid stream is rejected with ErrTooLong")
			}
		}
		// the bound is tested before the next prefix byte is consumed: from the
		// counter's loop header the continuation read is reachable only over the
		// "i < K" edge (a test placed after the read consumes a fourth prefix byte
		// before rejecting, and accepts a 3-byte prefix only if a further byte follows)
		if K >= 0 {
			var reads []*ssa.Call
			for _, ci := range callsIn(rd) {
				if cc, ok := ci.(*ssa.Call); ok && isCallTo(cc, "io.ReadFull", "io.ReadAtLeast") {
					reads = append(reads, cc)
				}
			}
			sort.Slice(reads, func(i, j int) bool { return reads[i].Pos() < reads[j].Pos() })
			if len(reads) >= 2 {
				var under []Edge
				var hdr *ssa.BasicBlock
				for _, e := range edges {
					under = append(under, Edge{From: e.From, Idx: 1 - e.Idx})
					iff := e.From.Instrs[len(e.From.Instrs)-1].(*ssa.If)
					a, _ := normCond(iff.Cond)
					for _, v := range []ssa.Value{a.X, a.Y} {
						if ph, ok := v.(*ssa.Phi); ok {
							hdr = ph.Block()
						}
					}
				}
				if hdr != nil {
					pth := psSearch(hdr, under, nil, func(b *ssa.BasicBlock) bool { return b == reads[1].Block() })
					c.check(pth == nil, rule2, "ReadData tests the prefix length before consuming the next prefix byte", p.instrPos(reads[1]), "continuation read only behind i < K",
						"a continuation byte is read before the length of the prefix is tested: the decoder consumes (and waits for) a byte beyond the longest legal prefix", p.pathString(pth)...)
				}
			}
		}
	}
	// the make operand
	var mk ssa.Instruction
	var lenVal ssa.Value
	allInstrs(rd, func(in ssa.Instruction) {
		if ms, ok := in.(*ssa.MakeSlice); ok {
			mk, lenVal = in, ms.Len
		}
	})
	shapeOK := false
	// the value fed to make is the prefix accumulator, possibly merged with small constants on the
	// way (a helper's error results): find the accumulator phi among the leaves
	if lenVal != nil {
		var acc *ssa.Phi
		okLeaves := true
		seenL := map[ssa.Value]bool{}
		var leaves func(v ssa.Value)
		leaves = func(v ssa.Value) {
			if seenL[v] {
				return
			}
			seenL[v] = true
			if ph, ok := v.(*ssa.Phi); ok {
				// the accumulator refers to itself through its update
				self := false
				for _, e := range ph.Edges {
					if bo, okb := e.(*ssa.BinOp); okb && bo.Op == token.OR {
						if shl, ok1 := bo.X.(*ssa.BinOp); ok1 && shl.Op == token.SHL && shl.X == ssa.Value(ph) {
							self = true
						}
					}
				}
				if self {
					if acc != nil && acc != ph {
						okLeaves = false
					}
					acc = ph
					return
				}
				for _, e := range ph.Edges {
					leaves(e)
				}
				return
			}
			if k, ok := constInt(v); ok && k >= 0 && k < 1<<20 {
				return
			}
			okLeaves = false
		}
		leaves(lenVal)
		if okLeaves && acc != nil {
			lenVal = acc
		}
	}
	if ph, ok := lenVal.(*ssa.Phi); ok {
		// edges: int(b0 & 0x3f)  and  (n << 7) | int(b & 0x7f)
		first, upd := false, false
		for _, e := range ph.Edges {
			if cv, okc := e.(*ssa.Convert); okc {
				if bo, okb := cv.X.(*ssa.BinOp); okb && bo.Op == token.AND {
					if k, _ := constInt(bo.Y); k == 0x3f {
						first = true
					}
				}
			}
			if bo, okb := e.(*ssa.BinOp); okb && bo.Op == token.OR {
				shl, ok1 := bo.X.(*ssa.BinOp)
				cv, ok2 := bo.Y.(*ssa.Convert)
				if ok1 && ok2 && shl.Op == token.SHL && shl.X == ssa.Value(ph) {
					if s, _ := constInt(shl.Y); s == 7 {
						if and, ok3 := cv.X.(*ssa.BinOp); ok3 && and.Op == token.AND {
							if k, _ := constInt(and.Y); k == 0x7f {
								upd = true
							}
						}
					}
				}
			}
		}
		shapeOK = first && upd && len(ph.Edges) == 2
	}
	bits := int64(-1)
	if shapeOK && K >= 0 {
		bits = 6 + 7*K
	}
	pos := p.Pos(rd.Pos())
	if mk != nil {
		pos = p.instrPos(mk)
	}
	c.check(bits == 20, rule2, "ReadData allocates at most 2^20-1 bytes for a chunk", pos, fmt.Sprintf("6 bits + %d continuation bytes x 7 bits", K),
		fmt.Sprintf("the length fed to make([]byte, n) is not bounded by 2^20-1 (shape recognised: %v, continuation bytes allowed: %d): a peer can make the decoder allocate more than the format's maximum, or legal 3-byte prefixes are rejected", shapeOK, K))
	// --- writer constants ---
	wr := p.Fn("common/encapsulation", "dataPrefixForLength")
	if wr == nil {
		c.undecided(rule3, "encapsulation.dataPrefixForLength", "-", "anchor does not resolve")
		return
	}
	var wOr, wAnd, wShr []int64
	allInstrs(wr, func(in ssa.Instruction) {
		if bo, ok := in.(*ssa.BinOp); ok {
			k, okk := constInt(bo.Y)
			if !okk {
				if k2, ok2 := constInt(bo.X); ok2 {
					k, okk = k2, true
				}
			}
			if !okk {
				return
			}
			switch bo.Op {
			case token.OR:
				wOr = append(wOr, k)
			case token.AND:
				wAnd = append(wAnd, k)
			case token.SHR:
				wShr = append(wShr, k)
			}
		}
	})
	set := func(xs []int64) string {
		m := map[int64]bool{}
		for _, x := range xs {
			m[x] = true
		}
		var ks []int64
		for k := range m {
			ks = append(ks, k)
		}
		sort.Slice(ks, func(i, j int) bool { return ks[i] < ks[j] })
		var ss []string
		for _, k := range ks {
			ss = append(ss, fmt.Sprintf("%#x", k))
		}
		return strings.Join(ss, ",")
	}
	rAnd, rShl := set(andConsts), set(shlConsts)
	c.check(rAnd == "0x3f,0x40,0x7f,0x80" && rShl == "0x7", rule3, "ReadData masks {0x80 data, 0x40 more, 0x3f, 0x7f} and shift 7", p.Pos(rd.Pos()), "", "reader masks are {"+rAnd+"} shift {"+rShl+"}")
	c.check(set(wOr) == "0x80,0xc0" && set(wAnd) == "0x3f,0x7f" && set(wShr) == "0x0,0x7,0xe", rule3, "dataPrefixForLength flags {0x80, 0xc0}, masks {0x3f, 0x7f}, shifts {0, 7, 14}", p.Pos(wr.Pos()), "",
		"writer flags {"+set(wOr)+"} masks {"+set(wAnd)+"} shifts {"+set(wShr)+"}: the encoder's prefix layout no longer matches the decoder's (data bit 0x80, continuation 0x40/0x80, 6+7+7 value bits)")
	// writer's maximum = reader's maximum: last accepted case shifts by 14 with a 6-bit mask
	maxShift := int64(0)
	for _, s := range wShr {
		if s > maxShift {
			maxShift = s
		}
	}
	c.check(maxShift+6 == bits, rule3, "encoder limit equals decoder limit (2^20-1)", p.Pos(wr.Pos()), "", fmt.Sprintf("encoder accepts up to %d bits, decoder %d", maxShift+6, bits))
	// --- padding buffer precondition ---
	pb := p.Global("common/encapsulation", "paddingBuffer")
	if pb == nil {
		c.undecided(rule3, "encapsulation.paddingBuffer", "-", "variable does not resolve")
		return
	}
	size := int64(-1)
	nStore := 0
	encFns := p.FnsIn("common/encapsulation")
	if init := pb.Pkg.Func("init"); init != nil {
		encFns = append(encFns, init)
	}
	for _, fn := range encFns {
		allInstrs(fn, func(in ssa.Instruction) {
			st, ok := in.(*ssa.Store)
			if !ok || st.Addr != ssa.Value(pb) {
				return
			}
			nStore++
			switch x := st.Val.(type) {
			case *ssa.MakeSlice:
				size, _ = constInt(x.Len)
			case *ssa.Slice:
				if al, ok := x.X.(*ssa.Alloc); ok {
					if at, ok := al.Type().(*types.Pointer).Elem().Underlying().(*types.Array); ok {
						size = at.Len()
					}
				}
			}
		})
	}
	c.check(nStore == 1 && size > 0 && size <= 8193, rule3, "padding chunks never need a 3-byte prefix (paddingBuffer <= 8193 bytes, assigned once)", p.Pos(pb.Pos()), fmt.Sprintf("len %d", size),
		fmt.Sprintf("paddingBuffer has %d bytes / %d assignments: WritePadding's 3-byte prefix branch becomes live and writes a 0x3f-masked continuation byte the decoder reads with 0x7f", size, nStore))
}

// checkNoSharedState: no function of the package returns, stores to, or
// appends/copies into memory of a package-level variable (init excepted).
func (c *Ctx) checkNoSharedState(rule6, rel string, fns []*ssa.Function) {
	p := c.P
	bad := 0
	isPkgGlobal := func(v ssa.Value) bool {
		g, ok := v.(*ssa.Global)
		return ok && g.Pkg != nil && p.pkgRel[g.Pkg] == rel
	}
	// memory derivation (not value taint): follow only address-forming operations
	var isGlobal func(v ssa.Value) bool
	seenG := map[ssa.Value]bool{}
	isGlobal = func(v ssa.Value) bool {
		if v == nil || seenG[v] {
			return false
		}
		seenG[v] = true
		defer delete(seenG, v)
		switch x := v.(type) {
		case *ssa.Global:
			return isPkgGlobal(x)
		case *ssa.IndexAddr:
			return isGlobal(x.X)
		case *ssa.FieldAddr:
			return isGlobal(x.X)
		case *ssa.Slice:
			return isGlobal(x.X)
		case *ssa.UnOp:
			if x.Op == token.MUL {
				return isPkgGlobal(x.X) // slice header loaded from a package-level variable
			}
		case *ssa.Phi:
			for _, e := range x.Edges {
				if isGlobal(e) {
					return true
				}
			}
		case *ssa.Call:
			if calleeName(x) == "builtin.append" {
				return isGlobal(x.Call.Args[0])
			}
		case *ssa.ChangeType:
			return isGlobal(x.X)
		case *ssa.Convert:
			return isGlobal(x.X)
		}
		return false
	}
	for _, fn := range fns {
		if fn.Name() == "init" {
			continue
		}
		for _, r := range returnsOf(fn) {
			for _, res := range r.Results {
				if _, isSlice := res.Type().Underlying().(*types.Slice); !isSlice {
					continue
				}
				if isGlobal(res) {
					bad++
					c.viol(rule6, p.FnName(fn)+" returns memory of a package-level variable", p.instrPos(r), "the returned slice aliases package-level scratch space: concurrent calls on unrelated streams overwrite each other's bytes between computing and writing them")
				}
			}
		}
		allInstrs(fn, func(in ssa.Instruction) {
			if st, ok := in.(*ssa.Store); ok && isGlobal(st.Addr) {
				bad++
				c.viol(rule6, p.FnName(fn)+" writes a package-level variable", p.instrPos(in), "the codec mutates package-level state while encoding/decoding")
			}
			// a method call on a package-level object (a shared bytes.Buffer, encoder, map wrapper)
			if ci, ok := in.(ssa.CallInstruction); ok {
				args := callArgs(ci)
				if len(args) > 0 && ci.Common().Signature().Recv() != nil {
					var g *ssa.Global
					switch x := args[0].(type) {
					case *ssa.Global:
						g = x
					case *ssa.UnOp:
						if gg, okg := x.X.(*ssa.Global); okg && x.Op == token.MUL {
							g = gg
						}
					}
					if g != nil && isPkgGlobal(g) && !immutableShared(g.Type()) {
						bad++
						c.viol(rule6, p.FnName(fn)+" calls a method on the package-level variable "+g.Name(), p.instrPos(in), "a package-level object is used while encoding/decoding: concurrent calls share its state (buffer contents, encoder position)")
					}
				}
			}
			// append/copy into memory of a package-level variable writes it as well
			if ci, ok := in.(*ssa.Call); ok && (calleeName(ci) == "builtin.append" || calleeName(ci) == "builtin.copy") && isGlobal(ci.Call.Args[0]) {
				bad++
				c.viol(rule6, p.FnName(fn)+" appends or copies into a package-level variable", p.instrPos(in), "package-level scratch space is filled while encoding/decoding: concurrent encoders or decoders overwrite each other's bytes")
			}
		})
	}
	if bad == 0 {
		c.ok(rule6, "no function of "+rel+" returns or writes package-level memory", "-", fmt.Sprintf("%d functions", len(fns)))
	}
}

// immutableShared: package-level objects whose methods are safe for concurrent
// use and do not change them (compiled regular expressions, base64/base32
// alphabets, sync primitives, error values).
func immutableShared(t types.Type) bool {
	for i := 0; i < 3; i++ {
		if pt, ok := t.(*types.Pointer); ok {
			t = pt.Elem()
		}
	}
	s := typeString(t)
	switch s {
	case "regexp.Regexp", "encoding/base64.Encoding", "encoding/base32.Encoding", "sync.Mutex", "sync.RWMutex", "sync.Once", "error":
		return true
	}
	if _, isIface := t.Underlying().(*types.Interface); isIface && s == "error" {
		return true
	}
	return false
}

// checkCarrierCopies: the byte stream the framing rides on is carried whole and
// unmixed: (a) websocketconn.readLoop copies each message's reader itself into
// the pipe (a limited or partial copy drops the tail of a large message and the
// next chunk is decoded from the middle of a packet); (b) a buffer handed to
// io.CopyBuffer is allocated by the goroutine that uses it (one buffer shared by
// the two directions of a relay lets one direction overwrite bytes the other has
// read but not yet written).
func (c *Ctx) checkCarrierCopies() {
	p := c.P
	rule := "O-8 the carrier copies every byte, each direction in its own buffer"
	if rl := p.Fn("common/websocketconn", "readLoop"); rl != nil {
		n := 0
		for _, ci := range callsTo(rl, "io.Copy", "io.CopyBuffer", "io.CopyN") {
			n++
			src := ci.Common().Args[1]
			cc, idx, ok := callResult(src)
			good := ok && strings.HasSuffix(calleeName(cc), "websocket.Conn).NextReader") && idx == 1 && calleeName(ci) != "io.CopyN"
			c.check(good, rule, "websocketconn.readLoop copies the whole message", p.instrPos(ci), "io.Copy(w, r) with r the message reader", "what is copied into the stream is not the message reader itself (a LimitReader, CopyN): the rest of a larger message is discarded")
		}
		if n == 0 {
			c.undecided(rule, "websocketconn.readLoop copies the message", p.Pos(rl.Pos()), "no io.Copy found")
		}
		// every data message is copied: a message can be passed over (the next NextReader reached without the
		// copy) only when its type was found to be neither text (1) nor binary (2) - the peer chooses the frame
		// type, and a skipped frame leaves a hole in the byte stream
		var nr *ssa.Call
		for _, ci := range callsIn(rl) {
			if strings.HasSuffix(calleeName(ci), "websocket.Conn).NextReader") {
				nr, _ = ci.(*ssa.Call)
			}
		}
		copyBlocks := map[*ssa.BasicBlock]bool{}
		for _, ci := range callsTo(rl, "io.Copy", "io.CopyBuffer") {
			copyBlocks[ci.Block()] = true
		}
		if nr != nil && len(copyBlocks) > 0 {
			for _, k := range []int64{1, 2} {
				// edges on which "type != k" has been established
				ne := condEdges(rl, false, func(a Atom) bool {
					if a.Op != token.EQL {
						return false
					}
					isT := func(v ssa.Value) bool { cc, i, ok := callResult(v); return ok && cc == nr && i == 0 }
					kv, okk := constInt(a.Y)
					if okk && kv == k && isT(a.X) {
						return true
					}
					kv, okk = constInt(a.X)
					return okk && kv == k && isT(a.Y)
				})
				isNE := func(b *ssa.BasicBlock, idx int) bool {
					for _, e := range ne {
						if e.From == b && e.Idx == idx {
							return true
						}
					}
					return false
				}
				// a path from the successful NextReader back to NextReader that avoids the copy and never
				// establishes type != k
				skipped := false
				for _, e := range errNilEdges(rl, nr, 2) {
					seen := map[*ssa.BasicBlock]bool{}
					var walk func(b *ssa.BasicBlock)
					walk = func(b *ssa.BasicBlock) {
						if seen[b] || copyBlocks[b] || skipped {
							return
						}
						seen[b] = true
						if b == nr.Block() {
							skipped = true
							return
						}
						for idx, sb := range b.Succs {
							if isNE(b, idx) {
								continue
							}
							walk(sb)
						}
					}
					walk(e.To())
				}
				name := map[int64]string{1: "text", 2: "binary"}[k]
				c.check(!skipped, rule, "websocketconn.readLoop never passes over a "+name+" message", p.instrPos(nr), "", "the next message can be read without this one having been copied although its type was not found to differ from "+name+": a "+name+" frame is dropped from the stream and the chunk framing above resumes in the middle of a chunk")
			}
		}
	} else {
		c.undecided(rule, "common/websocketconn.readLoop", "-", "anchor does not resolve")
	}
	nB := 0
	for _, fn := range p.FnsIn("proxy/lib", "server", "server/lib", "client/lib", "common/websocketconn") {
		for _, ci := range callsTo(fn, "io.CopyBuffer") {
			nB++
			buf := ci.Common().Args[2]
			if isNilConst(buf) {
				continue
			}
			local := false
			xforms(buf, func(v ssa.Value) bool {
				if ms, ok := v.(*ssa.MakeSlice); ok {
					local = ms.Parent() == fn
					return true
				}
				if al, ok := v.(*ssa.Alloc); ok {
					local = al.Parent() == fn
					return true
				}
				return false
			})
			c.check(local, rule, p.FnName(fn)+" copies through a buffer of its own", p.instrPos(ci), "", "the buffer given to io.CopyBuffer is not allocated by the function that copies (it is captured or passed in): concurrent copies share it and corrupt each other's data")
		}
	}
	if nB == 0 {
		c.okTrivial(rule, "no io.CopyBuffer with a caller-supplied buffer", "-", "every relay direction uses io.Copy's own buffer")
	}
}
