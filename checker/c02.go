package main

import (
	"fmt"
	"go/types"
	"strings"

	"golang.org/x/tools/go/ssa"
)

func init() {
	register("C02", propMeta{
		Explanation: "E-OWN + E-LOCK + E-PROV + E-GUARD on the broker's rendezvous. O-1 channel privacy: every store to Snowflake.{offerChannel,answerChannel,id} and ProxyPoll.{offerChannel,id} targets a not-yet-published object of the storing function and channel fields only ever receive a fresh MakeChan. O-2 unique holder: the heaps, the id map and Snowflake.index are touched only under snowflakeLock (must-lockset, heap callbacks included) and the heap slices only inside the heap.Interface methods. O-3 same match end to end: in ClientOffers the snowflake returned by matchSnowflake is the base of the channel the offer is sent on, of the channel the answer is received from and of the id deregistered; the answer returned is the value received; the offer carries the request's SDP and the validated fingerprint. In Broker the per-poll goroutine forwards from the snowflake registered for *that* poll (request passed as a parameter, snowflake a per-iteration value built from request.id). ProxyAnswers sends the decoded answer on the answerChannel of the map entry looked up with the decoded id. ProxyPolls returns the offer received for the decoded session id and derives the relay URL from that offer's fingerprint. O-4: registration key = own id. O-5: one matching path for POST/legacy/AMP. O-6: matching is reachable only through the err == nil edges of hex decoding, fingerprint construction and bridge lookup. With private channels and a unique holder the only values that can travel between a client handler and a proxy handler are that client's offer and that proxy's answer; each obligation is also necessary (break it and some history cross-wires). Added after the second seeding round: O-6c every JSON record decoded inside a loop goes into a record created (or wholly overwritten) in that iteration; O-7/C14 the request body is read only through MaxBytesReader (C14's obligation, evaluated here for the broker handlers). Added after the third seeding round: O-9 (no package-level scratch state on the match path) covers method calls on package-level objects, for example a shared response buffer whose bytes are handed to the poll; O-6b GetBridgeInfo succeeds only with the entry looked up for its own parameter. Added after the fourth seeding round: O-1b AddSnowflake returns only the Snowflake it allocated in this call; O-3 a request reaches matchSnowflake at most once per execution (no second chance with the same offer); O-10/C04 the deregistration obligations of C04 for the poll goroutine's timeout branch. Added after the fifth seeding round: O-3e ClientPollResponse.Answer is the empty string or the value received from the matched snowflake's answerChannel; O-3d every alternative of the fingerprint whose relay URL is looked up is the received offer's; O-6b BrokerContext.GetBridgeInfo succeeds only if the bridge list's lookup did; one request reaches ClientOffers once (several call sites on alternative paths are allowed). Added after the sixth seeding round and the mutation audit: O-9 the format argument of every printf-style call in the broker is a constant (an answer written with Fprintf(w, answer) has its '%' sequences rewritten).",
		NotDecided:  "byte-for-byte fidelity through JSON (C12), uniqueness of proxy-chosen session ids (outside the quantifier), liveness (C04), container/heap correctness.",
		Assumptions: []string{"Go channel semantics", "lock identity is (type, field)", "container/heap calls only the heap.Interface methods of the value it is given"},
	}, runC02)
}

func runC02(c *Ctx) {
	p := c.P
	broker := p.FnsIn("broker")
	for _, fn := range broker {
		c.analysedFn(p.FnName(fn))
	}
	all := p.FnsIn()
	// offers, answers and error texts are passed on as they are, never interpreted as a format
	c.checkNoDataAsFormat("O-9 relayed text is never a format string", broker)
	// the poll and the offer are read whole or refused (C14's body-cap obligation): a silently truncated offer is matched and delivered to the proxy as if it were the client's
	c.prefix = "O-7/C14:"
	c.checkBodyCap(broker)
	c.prefix = ""

	// ---------- O-1 channel privacy ----------
	for _, fk := range [][2]string{{"Snowflake", "offerChannel"}, {"Snowflake", "answerChannel"}, {"Snowflake", "id"}, {"ProxyPoll", "offerChannel"}, {"ProxyPoll", "id"}} {
		f := p.Field("broker", fk[0], fk[1])
		if f == nil {
			c.undecided("O-1 channel privacy", fk[0]+"."+fk[1], "-", "field does not resolve")
			continue
		}
		stores := storesToField(all, f)
		if len(stores) == 0 {
			c.undecided("O-1 channel privacy", fk[0]+"."+fk[1], p.Pos(f.Pos()), "no store to the field found")
			continue
		}
		for _, s := range stores {
			key := fmt.Sprintf("%s stores %s.%s", p.FnName(s.Parent()), fk[0], fk[1])
			base, _, _ := fieldOfAddr(s.Addr)
			fresh := isFreshBase(s.Parent(), base, s)
			_, isChan := f.Type().Underlying().(*types.Chan)
			_, isMake := s.Val.(*ssa.MakeChan)
			switch {
			case !fresh:
				c.viol("O-1 channel privacy", key, p.instrPos(s), "field of an already published object is overwritten: a poll's private channel/id can be redirected")
			case isChan && !isMake:
				c.viol("O-1 channel privacy", key, p.instrPos(s), "channel field receives a value that is not a fresh make(chan) of this invocation: two objects may share a channel")
			default:
				c.ok("O-1 channel privacy", key, p.instrPos(s), "fresh object; channel created by this invocation")
			}
		}
	}

	// ---------- O-2 unique holder ----------
	c.checkBrokerMatchingRows()
	// responses and lookups are built from per-request memory: nothing on the match path hands out, or
	// fills, a package-level buffer or cache (one client's response bytes overwritten by another's)
	c.checkAnswerProvenance()
	c.checkNoSharedState("O-9 no package-level scratch state on the match path", "broker", broker)
	c.checkNoSharedState("O-9 no package-level scratch state on the match path", "common/messages", p.FnsIn("common/messages"))
	// the timeout branch of the poll goroutine hands a claimed snowflake's offer on and deregisters an unclaimed
	// one, each exactly once (C04's obligation): an offer drained and dropped there leaves the client waiting for
	// an answer to an offer no proxy ever received
	c.prefix = "O-10/C04:"
	c.checkDeregistration(p.Locks())
	c.prefix = ""
	// heap slices only inside heap.Interface methods
	heapT := p.Type("broker", "SnowflakeHeap")
	if heapT == nil {
		c.undecided("O-2b heap slice confined to its methods", "broker.SnowflakeHeap", "-", "type does not resolve")
	} else {
		bad := 0
		for _, fn := range broker {
			if fn.Signature.Recv() != nil && namedOf(fn.Signature.Recv().Type()) == heapT {
				continue
			}
			allInstrs(fn, func(in ssa.Instruction) {
				touch := false
				switch x := in.(type) {
				case *ssa.IndexAddr:
					touch = namedOf(x.X.Type()) == heapT
				case *ssa.Index:
					touch = namedOf(x.X.Type()) == heapT
				case *ssa.Slice:
					touch = namedOf(x.X.Type()) == heapT
				case *ssa.Range:
					touch = namedOf(x.X.Type()) == heapT
				case *ssa.Store:
					if pt, ok := x.Addr.Type().(*types.Pointer); ok && pt.Elem() == types.Type(heapT) {
						if _, isAlloc := x.Addr.(*ssa.Alloc); !isAlloc {
							touch = true
						}
					}
				case ssa.CallInstruction:
					if calleeName(x) == "builtin.append" && namedOf(x.Common().Args[0].Type()) == heapT {
						touch = true
					}
				}
				if touch {
					bad++
					c.viol("O-2b heap slice confined to its methods", p.FnName(fn)+" manipulates a SnowflakeHeap slice directly", p.instrPos(in), "the heap order and the index fields are maintained only by container/heap through the heap.Interface methods")
				}
			})
		}
		if bad == 0 {
			c.ok("O-2b heap slice confined to its methods", "SnowflakeHeap elements touched only by its own methods", p.Pos(heapT.Obj().Pos()), "")
		}
	}

	c.checkClientOffersProvenance()
	c.checkBrokerLoopProvenance()
	c.checkProxyAnswersProvenance()
	c.checkProxyPollsProvenance()
	c.checkRegistration()
	c.checkBridgeListReplaced()
	c.checkBridgeLookup()
	c.verbatimResult("O-8 session ids and answers are used verbatim", "common/messages", "DecodeProxyPollRequestWithRelayPrefix", 0, "Sid")
	c.verbatimResult("O-8 session ids and answers are used verbatim", "common/messages", "DecodeAnswerRequest", 1, "Sid")
	c.verbatimResult("O-8 session ids and answers are used verbatim", "common/messages", "DecodeAnswerRequest", 0, "Answer")

	// ---------- O-5 one matching path ----------
	match := p.Fn("broker", "(*IPC).matchSnowflake")
	co := p.Fn("broker", "(*IPC).ClientOffers")
	if match == nil || co == nil {
		c.undecided("O-5 one matching path", "matchSnowflake/ClientOffers", "-", "anchor does not resolve")
	} else {
		// every function that pops from a BrokerContext heap
		var poppers []string
		for _, fn := range broker {
			if len(callsTo(fn, "container/heap.Pop")) > 0 {
				poppers = append(poppers, p.FnName(fn))
			}
		}
		c.check(len(poppers) == 1 && poppers[0] == p.FnName(match), "O-5 one matching path", "heap.Pop on a broker heap only in matchSnowflake", p.Pos(match.Pos()), "single popper", fmt.Sprintf("heaps are popped in %v", poppers))
		callers := map[string]bool{}
		for _, ci := range p.realCallers(match) {
			callers[p.FnName(ci.Parent())] = true
		}
		c.check(len(callers) == 1 && callers[p.FnName(co)], "O-5 one matching path", "matchSnowflake called only from ClientOffers", p.Pos(match.Pos()), "single caller", fmt.Sprintf("callers: %v", sortedKeys(callers)))
		for _, h := range []string{"clientOffers", "ampClientOffers"} {
			fn := p.Fn("broker", h)
			if fn == nil {
				c.undecided("O-5 one matching path", "broker."+h, "-", "anchor does not resolve")
				continue
			}
			var sites []ssa.CallInstruction
			for _, d := range deepCalls(fn, 2, funcFullName(co)) {
				if ci, ok := d.Top.(ssa.CallInstruction); ok {
					sites = append(sites, ci)
				}
			}
			twice := false
			for _, a := range sites {
				for _, b := range sites {
					if canFollow(a, b) {
						twice = true
					}
				}
			}
			c.check(len(sites) >= 1 && !twice, "O-5 one matching path", "broker."+h+" reaches matching through (*IPC).ClientOffers", p.Pos(fn.Pos()), "one call per request", fmt.Sprintf("%d calls of ClientOffers (twice on one path: %v)", len(sites), twice))
		}
	}
}

// matchResult finds the call of matchSnowflake in ClientOffers.
func (c *Ctx) checkClientOffersProvenance() {
	p := c.P
	rule := "O-3 same match end to end"
	co := p.Fn("broker", "(*IPC).ClientOffers")
	match := p.Fn("broker", "(*IPC).matchSnowflake")
	if co == nil || match == nil {
		c.undecided(rule, "ClientOffers", "-", "anchor does not resolve")
		return
	}
	// one request claims at most one proxy: no matchSnowflake call can be followed by another (or by itself
	// round a loop) in the same execution of ClientOffers
	{
		var sites []ssa.CallInstruction
		for _, d := range deepCalls(co, 2, funcFullName(match)) {
			if ci, ok := d.Top.(ssa.CallInstruction); ok {
				sites = append(sites, ci)
			}
		}
		for _, a := range sites {
			for _, b := range sites {
				if canFollow(a, b) {
					c.viol(rule, "ClientOffers claims one proxy per request", p.instrPos(b), "after one matchSnowflake call another can execute in the same request (retry loop, second chance): the client's single offer is handed to two proxy polls, and the first proxy, which may still answer, holds an offer whose client has moved on")
					return
				}
			}
		}
	}
	var X *ssa.Call
	for _, ci := range callsIn(co) {
		if staticCallee(ci) == match {
			if X != nil {
				c.undecided(rule, "ClientOffers: single matchSnowflake call", p.instrPos(ci), "several calls of matchSnowflake")
				return
			}
			X, _ = ci.(*ssa.Call)
		}
	}
	if X == nil {
		c.undecided(rule, "ClientOffers: single matchSnowflake call", p.Pos(co.Pos()), "no call of matchSnowflake")
		return
	}
	isX := func(v ssa.Value) bool { return sameValue(v, func(w ssa.Value) bool { return w == ssa.Value(X) }) }
	onX := func(ch ssa.Value, field string) bool {
		base, f, ok := fieldLoad(ch)
		return ok && f.Name() == field && isX(base)
	}
	ops := chanOpsIn(p, co)
	var sendOffer, recvAnswer *chanOp
	for i := range ops {
		op := &ops[i]
		switch {
		case op.Dir == chSend && op.Class == "Snowflake.offerChannel":
			c.check(onX(op.Chan, "offerChannel"), rule, "ClientOffers sends the offer on the matched snowflake's offerChannel", p.instrPos(op.Instr), "channel base is the matchSnowflake result", "the offer is sent on the offerChannel of an object other than the one matchSnowflake returned")
			sendOffer = op
		case op.Dir == chRecv && op.Class == "Snowflake.answerChannel":
			c.check(onX(op.Chan, "answerChannel"), rule, "ClientOffers receives the answer from the matched snowflake's answerChannel", p.instrPos(op.Instr), "channel base is the matchSnowflake result", "the answer is received from another object's answerChannel")
			recvAnswer = op
		}
	}
	if sendOffer == nil {
		c.missingOrMoved(rule, "ClientOffers sends the offer on the matched snowflake's offerChannel", co, func(in ssa.Instruction) bool { return opOn(p, in, "Snowflake.offerChannel", chSend) }, "a send on Snowflake.offerChannel", "the matched proxy never receives the client's offer")
	}
	if recvAnswer == nil {
		c.missingOrMoved(rule, "ClientOffers receives the answer from the matched snowflake's answerChannel", co, func(in ssa.Instruction) bool { return opOn(p, in, "Snowflake.answerChannel", chRecv) }, "a receive on Snowflake.answerChannel", "the client never gets the proxy's answer")
	}
	// deregistration key
	nDel := 0
	for _, ci := range callsTo(co, "builtin.delete") {
		nDel++
		key := ci.Common().Args[1]
		base, f, ok := fieldLoad(key)
		c.check(ok && f.Name() == "id" && isX(base), rule, "ClientOffers deregisters the matched snowflake's own id", p.instrPos(ci), "delete key is X.id", "the id removed from idToSnowflake is not the matched snowflake's id")
	}
	if nDel == 0 {
		c.missingOrMoved(rule, "ClientOffers deregisters the matched snowflake's own id", co, func(in ssa.Instruction) bool {
			ci, ok := in.(ssa.CallInstruction)
			return ok && calleeName(ci) == "builtin.delete"
		}, "a delete from idToSnowflake", "the matched snowflake's id stays registered")
	}
	// the answer returned is the value received
	if recvAnswer != nil && recvAnswer.Val != nil {
		okAns := false
		respT := p.Field("common/messages", "ClientPollResponse", "Answer")
		for _, s := range storesToField([]*ssa.Function{co}, respT) {
			if strip(s.Val) == recvAnswer.Val {
				okAns = true
			} else if _, isConst := s.Val.(*ssa.Const); !isConst {
				okAns = false
				c.viol(rule, "ClientOffers returns the received answer", p.instrPos(s), "ClientPollResponse.Answer is assigned a value other than the one received from the matched snowflake")
			}
		}
		c.check(okAns, rule, "ClientOffers returns the received answer", p.instrPos(recvAnswer.Instr), "Answer field = value received on answerChannel", "the received answer is not what is put into the response")
	}
	// the offer sent carries the request's SDP and the validated fingerprint
	if sendOffer != nil {
		offerAlloc := strip(sendOffer.Val)
		sdp := structLitField(offerAlloc, "sdp")
		fpv := structLitField(offerAlloc, "fingerprint")
		okSDP := sdp != nil && flows(sdp, func(v ssa.Value) bool {
			_, f, ok := fieldLoad(v)
			return ok && f.Name() == "Offer"
		}) && flows(sdp, func(v ssa.Value) bool { return isResultOf(v, 0, "common/messages.DecodeClientPollRequest") })
		c.check(okSDP, rule, "offer.sdp = decoded request's Offer", p.instrPos(sendOffer.Instr), "", "the SDP handed to the proxy does not derive from this request's Offer field")
		okFP := fpv != nil && flows(fpv, func(v ssa.Value) bool { return isResultOf(v, 0, "common/bridgefingerprint.FingerprintFromBytes") })
		c.check(okFP, rule, "offer.fingerprint = validated fingerprint", p.instrPos(sendOffer.Instr), "", "the fingerprint handed to the proxy is not the one validated against the bridge list")
	}

	// ---------- O-6 unknown bridge is never matched ----------
	rule6 := "O-6 unknown bridge is never matched"
	var gbi, ffb, hexd *ssa.Call
	for _, ci := range callsIn(co) {
		cc, ok := ci.(*ssa.Call)
		if !ok {
			continue
		}
		switch calleeName(cc) {
		case "(*broker.BrokerContext).GetBridgeInfo", "(broker.BridgeListHolder).GetBridgeInfo", "(broker.BridgeListHolderFileBased).GetBridgeInfo":
			gbi = cc
		case "common/bridgefingerprint.FingerprintFromBytes":
			ffb = cc
		case "encoding/hex.DecodeString":
			hexd = cc
		}
	}
	if gbi == nil || ffb == nil || hexd == nil {
		c.undecided(rule6, "ClientOffers validates the fingerprint", p.Pos(co.Pos()), "hex.DecodeString / FingerprintFromBytes / GetBridgeInfo call not found")
		return
	}
	for _, g := range []struct {
		call *ssa.Call
		what string
	}{{hexd, "hex.DecodeString"}, {ffb, "FingerprintFromBytes"}, {gbi, "GetBridgeInfo"}} {
		cut := errNilEdges(co, g.call, 1)
		path := reachableWithout(co, X, cut)
		c.check(len(cut) > 0 && path == nil, rule6, "matchSnowflake only behind err == nil of "+g.what, p.instrPos(g.call), "", "matching is reachable although "+g.what+" failed", p.pathString(path)...)
	}
	// chain: GetBridgeInfo(FingerprintFromBytes(hex.DecodeString(req.Fingerprint)))
	arg := gbi.Call.Args[len(gbi.Call.Args)-1]
	c.check(flows(arg, func(v ssa.Value) bool { cc, i, ok := callResult(v); return ok && cc == ffb && i == 0 }), rule6, "GetBridgeInfo is asked about the request's fingerprint", p.instrPos(gbi), "", "the fingerprint looked up in the bridge list is not the one built from the request")
	c.check(flows(ffb.Call.Args[0], func(v ssa.Value) bool { cc, i, ok := callResult(v); return ok && cc == hexd && i == 0 }) &&
		flows(hexd.Call.Args[0], func(v ssa.Value) bool { _, f, ok := fieldLoad(v); return ok && f.Name() == "Fingerprint" }),
		rule6, "fingerprint chain request.Fingerprint -> hex -> FingerprintFromBytes", p.instrPos(ffb), "", "the validated fingerprint does not derive from the request's Fingerprint field")
}

func (c *Ctx) checkBrokerLoopProvenance() {
	p := c.P
	rule := "O-3b poll goroutine forwards its own snowflake's offer to its own poller"
	loop := p.Fn("broker", "(*BrokerContext).Broker")
	add := p.Fn("broker", "(*BrokerContext).AddSnowflake")
	if loop == nil || add == nil {
		c.undecided(rule, "Broker loop", "-", "anchor does not resolve")
		return
	}
	// every poll gets a registration of its own: what AddSnowflake returns is the object it allocated in
	// this call (an existing entry handed out again is shared by two waiter goroutines: one offer
	// channel, one heap index, the second waiter never completes)
	{
		ruleR := "O-1b one registration per poll"
		nRet, bad := 0, ""
		for _, r := range returnsOf(add) {
			if len(r.Results) != 1 {
				continue
			}
			nRet++
			var leaves []ssa.Value
			var walk func(v ssa.Value, d int)
			walk = func(v ssa.Value, d int) {
				if ph, ok := v.(*ssa.Phi); ok && d < 6 {
					for _, e := range ph.Edges {
						walk(e, d+1)
					}
					return
				}
				leaves = append(leaves, v)
			}
			walk(r.Results[0], 0)
			for _, lf := range leaves {
				al, ok := xstrip(lf).(*ssa.Alloc)
				if !ok || !al.Heap || !belongsTo(al.Parent(), add) {
					bad = p.instrPos(r)
				}
			}
		}
		c.check(nRet > 0 && bad == "", ruleR, "AddSnowflake returns the Snowflake allocated by this call", p.Pos(add.Pos()), fmt.Sprintf("%d return(s)", nRet), "AddSnowflake can return an object it did not create in this call (an entry looked up in the map, a pooled record): two polls share one registration ("+bad+")")
	}
	// the go statement(s) in the loop
	n := 0
	for _, ci := range callsIn(loop) {
		g, ok := ci.(*ssa.Go)
		if !ok {
			continue
		}
		clo := staticCallee(g)
		if clo == nil {
			continue
		}
		n++
		c.analysedFn(p.FnName(clo))
		ops := chanOpsIn(p, clo)
		// resolve a value inside the closure to the parent-side value
		toParent := func(v ssa.Value) (ssa.Value, string) {
			v = strip(v)
			switch x := v.(type) {
			case *ssa.Parameter:
				for i, par := range clo.Params {
					if par == x {
						return strip(g.Call.Args[i]), ""
					}
				}
			case *ssa.FreeVar:
				b := freeVarBinding(x)
				if b == nil {
					return nil, "captured variable with no unique binding"
				}
				if al, ok := b.(*ssa.Alloc); ok {
					s := singleStore(al)
					if s == nil || sharedAcrossIterations(al, g) {
						return nil, "captured variable " + x.Name() + " is shared between loop iterations (and so between the goroutines they start)"
					}
					return strip(s), ""
				}
				return strip(b), ""
			case *ssa.UnOp:
				if fv, ok := x.X.(*ssa.FreeVar); ok {
					b := freeVarBinding(fv)
					if al, ok := b.(*ssa.Alloc); ok {
						s := singleStore(al)
						if s == nil || sharedAcrossIterations(al, g) {
							return nil, "captured variable " + fv.Name() + " is shared between loop iterations (and so between the goroutines they start)"
						}
						return strip(s), ""
					}
				}
			}
			return v, ""
		}
		var snowP, reqP ssa.Value
		var recvd ssa.Value
		for i := range ops {
			op := &ops[i]
			base, _, ok := fieldLoad(op.Chan)
			if !ok {
				continue
			}
			switch {
			case op.Dir == chRecv && op.Class == "Snowflake.offerChannel":
				pv, why := toParent(base)
				if pv == nil {
					c.viol(rule, "Broker$: snowflake whose offerChannel is received from", p.instrPos(op.Instr), why)
					return
				}
				if snowP != nil && snowP != pv {
					c.viol(rule, "Broker$: snowflake whose offerChannel is received from", p.instrPos(op.Instr), "offers are received from the channels of different snowflakes")
				}
				snowP = pv
				if op.Val != nil {
					recvd = op.Val
				}
			case (op.Dir == chSend || op.Dir == chClose) && op.Class == "ProxyPoll.offerChannel":
				pv, why := toParent(base)
				if pv == nil {
					c.viol(rule, "Broker$: poll whose offerChannel is answered", p.instrPos(op.Instr), why)
					return
				}
				if reqP != nil && reqP != pv {
					c.viol(rule, "Broker$: poll whose offerChannel is answered", p.instrPos(op.Instr), "different polls are answered by one goroutine")
				}
				reqP = pv
				if op.Dir == chSend {
					// the value forwarded is a value received from the snowflake's channel
					okFwd := flows(op.Val, func(v ssa.Value) bool {
						for j := range ops {
							if ops[j].Dir == chRecv && ops[j].Class == "Snowflake.offerChannel" && ops[j].Val != nil && v == ops[j].Val {
								return true
							}
						}
						return false
					})
					c.check(okFwd, rule, "Broker$: value forwarded to the poller", p.instrPos(op.Instr), "is the offer received from the snowflake's offerChannel", "the poller is sent something other than the offer received from its snowflake")
				}
			}
		}
		_ = recvd
		if snowP == nil || reqP == nil {
			c.undecided(rule, "Broker$: forwarder shape", p.Pos(clo.Pos()), "no receive on Snowflake.offerChannel or no send on ProxyPoll.offerChannel in the goroutine")
			continue
		}
		// snowflake = AddSnowflake(request.id, ...) with request the goroutine's poll
		call, _, ok := callResult(snowP)
		if !ok || staticCallee(call) != add {
			c.viol(rule, "Broker: goroutine's snowflake is the AddSnowflake result of this iteration", p.instrPos(g), "the snowflake the goroutine listens on is not the value returned by AddSnowflake for this poll")
			continue
		}
		idArg := call.Call.Args[1]
		base, f, ok := fieldLoad(idArg)
		good := ok && f.Name() == "id" && strip(base) == reqP
		c.check(good, rule, "Broker: snowflake registered with request.id of the poll the goroutine answers", p.instrPos(call), "AddSnowflake(request.id, ...) and go func(request)", "the snowflake was registered under the id of a different poll than the one this goroutine answers")
	}
	if n == 0 {
		c.undecided(rule, "Broker loop", p.Pos(loop.Pos()), "no goroutine started in Broker")
	}
}

func (c *Ctx) checkProxyAnswersProvenance() {
	p := c.P
	rule := "O-3c answer routed by decoded session id"
	pa := p.Fn("broker", "(*IPC).ProxyAnswers")
	if pa == nil {
		c.undecided(rule, "ProxyAnswers", "-", "anchor does not resolve")
		return
	}
	n := 0
	for _, op := range chanOpsIn(p, pa) {
		if op.Dir != chSend || op.Class != "Snowflake.answerChannel" {
			continue
		}
		n++
		base, _, _ := fieldLoad(op.Chan)
		// base = idToSnowflake[id]
		okBase := false
		var lk *ssa.Lookup
		if e, ok := strip(base).(*ssa.Extract); ok {
			lk, _ = e.Tuple.(*ssa.Lookup)
		} else if l, ok := strip(base).(*ssa.Lookup); ok {
			lk = l
		}
		if lk != nil {
			_, mf, okm := fieldLoad(lk.X)
			okBase = okm && mf.Name() == "idToSnowflake" && isResultOf(lk.Index, 1, "common/messages.DecodeAnswerRequest")
		}
		c.check(okBase, rule, "ProxyAnswers sends on the answerChannel of idToSnowflake[decoded id]", p.instrPos(op.Instr), "", "the answer is sent on a channel that is not the entry looked up with the decoded session id")
		c.check(isResultOf(op.Val, 0, "common/messages.DecodeAnswerRequest"), rule, "ProxyAnswers sends the decoded answer", p.instrPos(op.Instr), "", "the value sent to the client is not the decoded answer of this request")
	}
	if n == 0 {
		c.missingOrMoved(rule, "ProxyAnswers hands the answer to the waiting client", pa, func(in ssa.Instruction) bool { return opOn(p, in, "Snowflake.answerChannel", chSend) }, "a send on Snowflake.answerChannel", "the proxy's answer never reaches the client")
	}
}

func (c *Ctx) checkProxyPollsProvenance() {
	p := c.P
	rule := "O-3d proxy is handed the offer matched to its own session and that offer's bridge"
	pp := p.Fn("broker", "(*IPC).ProxyPolls")
	ro := p.Fn("broker", "(*BrokerContext).RequestOffer")
	if pp == nil || ro == nil {
		c.undecided(rule, "ProxyPolls/RequestOffer", "-", "anchor does not resolve")
		return
	}
	var roCall *ssa.Call
	for _, ci := range callsIn(pp) {
		if staticCallee(ci) == ro {
			roCall, _ = ci.(*ssa.Call)
		}
	}
	if roCall == nil {
		c.undecided(rule, "ProxyPolls calls RequestOffer", p.Pos(pp.Pos()), "no call")
		return
	}
	c.check(isResultOf(roCall.Call.Args[1], 0, "common/messages.DecodeProxyPollRequestWithRelayPrefix"), rule, "RequestOffer is called with the decoded session id", p.instrPos(roCall), "", "the poll is registered under an id other than the decoded Sid")
	isOffer := func(v ssa.Value) bool { return strip(v) == ssa.Value(roCall) }
	offerField := func(v ssa.Value, name string) bool {
		return flows(v, func(w ssa.Value) bool {
			base, f, ok := fieldLoad(w)
			return ok && f.Name() == name && isOffer(base)
		})
	}
	n := 0
	for _, ci := range callsTo(pp, "common/messages.EncodePollResponseWithRelayURL") {
		args := ci.Common().Args
		if s, ok := constString(args[0]); ok && s == "" {
			continue // the rejection / idle response
		}
		n++
		c.check(offerField(args[0], "sdp"), rule, "poll response carries the received offer's SDP", p.instrPos(ci), "", "the SDP returned to the proxy is not that of the offer received for this poll")
		c.check(offerField(args[2], "natType"), rule, "poll response carries the received offer's NAT type", p.instrPos(ci), "", "the NAT type returned to the proxy is not that of the received offer")
		// relay URL <- GetBridgeInfo(FingerprintFromBytes(offer.fingerprint)).WebSocketAddress
		okRelay := flows(args[3], func(w ssa.Value) bool {
			_, f, ok := fieldLoad(w)
			if ok && f.Name() == "WebSocketAddress" {
				return true
			}
			if fl, ok := w.(*ssa.Field); ok {
				if st, ok := fl.X.Type().Underlying().(*types.Struct); ok && st.Field(fl.Field).Name() == "WebSocketAddress" {
					return true
				}
			}
			return false
		})
		var gbi *ssa.Call
		for _, c2 := range callsIn(pp) {
			if cc, ok := c2.(*ssa.Call); ok && (calleeName(cc) == "(broker.BridgeListHolderFileBased).GetBridgeInfo" || calleeName(cc) == "(*broker.BrokerContext).GetBridgeInfo" || calleeName(cc) == "(broker.BridgeListHolder).GetBridgeInfo") {
				gbi = cc
			}
		}
		okChain := false
		if gbi != nil {
			arg := gbi.Call.Args[len(gbi.Call.Args)-1]
			// every value the looked-up fingerprint can take (all merged alternatives) is the received offer's
			okAll := true
			var walk func(v ssa.Value, d int)
			walk = func(v ssa.Value, d int) {
				if ph, isPhi := v.(*ssa.Phi); isPhi && d < 6 {
					for _, e := range ph.Edges {
						walk(e, d+1)
					}
					return
				}
				if !flows(v, func(w ssa.Value) bool {
					cc, i, ok := callResult(w)
					return ok && i == 0 && isCallTo(cc, "common/bridgefingerprint.FingerprintFromBytes") && offerField(cc.Call.Args[0], "fingerprint")
				}) {
					okAll = false
				}
			}
			walk(arg, 0)
			okChain = okAll && flows(args[3], func(w ssa.Value) bool { cc, _, ok := callResult(w); return ok && cc == gbi })
		}
		c.check(okRelay && okChain, rule, "relay URL = bridge info of the received offer's fingerprint", p.instrPos(ci), "GetBridgeInfo(FingerprintFromBytes(offer.fingerprint)).WebSocketAddress", "the relay URL does not derive from the bridge named by the received offer's fingerprint")
	}
	if n == 0 {
		c.undecided(rule, "ProxyPolls encodes a match response", p.Pos(pp.Pos()), "no EncodePollResponseWithRelayURL call with an offer")
	}
	// RequestOffer: returns what it receives on the channel of the poll it sent
	c.analysedFn(p.FnName(ro))
	var sent, recvBase ssa.Value
	var recvVal ssa.Value
	for _, op := range chanOpsIn(p, ro) {
		if op.Dir == chSend && op.Class == "BrokerContext.proxyPolls" {
			sent = strip(op.Val)
		}
		if op.Dir == chRecv && op.Class == "ProxyPoll.offerChannel" {
			b, _, _ := fieldLoad(op.Chan)
			recvBase = strip(b)
			recvVal = op.Val
		}
	}
	okRO := sent != nil && recvBase == sent && recvVal != nil
	if okRO {
		for _, r := range returnsOf(ro) {
			if strip(r.Results[0]) != recvVal {
				okRO = false
			}
		}
	}
	c.check(okRO, rule, "RequestOffer returns the value received on the offerChannel of the poll it registered", p.Pos(ro.Pos()), "", "RequestOffer does not wait on (or return from) the private channel of the poll it sent to the matcher")
	// the registered poll carries the id parameter
	idF := p.Field("broker", "ProxyPoll", "id")
	okID := false
	for _, s := range storesToField([]*ssa.Function{ro}, idF) {
		if len(ro.Params) > 1 && strip(s.Val) == ssa.Value(ro.Params[1]) {
			okID = true
		}
	}
	c.check(okID, rule, "RequestOffer registers the poll under its id parameter", p.Pos(ro.Pos()), "", "ProxyPoll.id is not the id argument")
}

func (c *Ctx) checkRegistration() {
	p := c.P
	rule := "O-4 registration key = own id"
	n := 0
	for _, fn := range p.FnsIn("broker") {
		allInstrs(fn, func(in ssa.Instruction) {
			mu, ok := in.(*ssa.MapUpdate)
			if !ok {
				return
			}
			_, mf, ok := fieldLoad(mu.Map)
			if !ok || mf.Name() != "idToSnowflake" {
				return
			}
			n++
			// value's id field store in this function uses the same key value
			val := strip(mu.Value)
			idVal := structLitField(val, "id")
			good := idVal != nil && fwdStrip(idVal) == fwdStrip(mu.Key)
			c.check(good, rule, p.FnName(fn)+" inserts idToSnowflake[k] = v with v.id == k", p.instrPos(in), "", "a snowflake is registered under a key that is not the id stored in it: answers for that id reach another snowflake")
		})
	}
	if n == 0 {
		c.undecided(rule, "idToSnowflake insertions", "-", "no insertion found")
	}
}

// sharedAcrossIterations: the local cell `al` captured by the closure created at
// `site` lives outside a loop that contains the site, i.e. all iterations (and
// the goroutines they start) share one variable.
func sharedAcrossIterations(al *ssa.Alloc, site ssa.Instruction) bool {
	sb := site.Block()
	if al.Block() == sb && instrIndex(al) < instrIndex(site) {
		return false
	}
	// can the site's block reach itself without passing the alloc's block?
	seen := map[*ssa.BasicBlock]bool{}
	var q []*ssa.BasicBlock
	for _, s := range sb.Succs {
		q = append(q, s)
	}
	for len(q) > 0 {
		b := q[0]
		q = q[1:]
		if seen[b] || b == al.Block() {
			continue
		}
		seen[b] = true
		if b == sb {
			return true
		}
		q = append(q, b.Succs...)
	}
	return false
}

// verbatimResult: result idx of decoder fn is, on every return, a constant or
// the unmodified field `field` of the decoded message, and the decoder never
// assigns that field itself.
func (c *Ctx) verbatimResult(rule, rel, fnName string, idx int, field string) {
	p := c.P
	fn := p.Fn(rel, fnName)
	key := fmt.Sprintf("%s.%s result %d is the decoded %s verbatim", rel, fnName, idx, field)
	if fn == nil {
		c.undecided(rule, key, "-", "anchor does not resolve")
		return
	}
	c.analysedFn(p.FnName(fn))
	for _, b := range fn.Blocks {
		for _, in := range b.Instrs {
			if st, ok := in.(*ssa.Store); ok {
				if _, f, ok := fieldOfAddr(st.Addr); ok && f.Name() == field {
					c.viol(rule, key, p.instrPos(in), "the decoder rewrites the "+field+" field after unmarshalling: distinct values can collapse to one")
					return
				}
			}
		}
	}
	sawField := false
	for _, r := range returnsOf(fn) {
		if idx >= len(r.Results) {
			continue
		}
		okRes := sameValue(r.Results[idx], func(v ssa.Value) bool {
			if _, isConst := v.(*ssa.Const); isConst {
				return true
			}
			if _, f, ok := fieldLoad(v); ok && f.Name() == field {
				sawField = true
				return true
			}
			return false
		})
		if !okRes {
			c.viol(rule, key, p.instrPos(r), "the returned value is computed from, rather than equal to, the decoded "+field)
			return
		}
	}
	c.check(sawField, rule, key, p.Pos(fn.Pos()), "", "no return carries the decoded "+field)
}

func (c *Ctx) checkBridgeListReplaced() {
	p := c.P
	rule := "O-7 installing a bridge list replaces the previous one"
	fn := p.Fn("broker", "(*bridgeListHolder).LoadBridgeInfo")
	f := p.Field("broker", "bridgeListHolder", "bridgeInfo")
	if fn == nil || f == nil {
		c.undecided(rule, "bridgeListHolder.LoadBridgeInfo", "-", "anchor does not resolve")
		return
	}
	c.analysedFn(p.FnName(fn))
	nStore, bad := 0, false
	for _, a := range accessesOfField(p.FnsIn("broker"), f, true) {
		switch {
		case a.Kind == accWrite && a.What == "field":
			nStore++
			st := a.Instr.(*ssa.Store)
			// a map made by this invocation (possibly in a helper or closure of it, possibly merged with
			// the nil of an error path that never reaches the store)
			seenV := map[ssa.Value]bool{}
			var builtHere func(v ssa.Value) bool
			builtHere = func(v ssa.Value) bool {
				v = xstrip(v)
				if seenV[v] {
					return true
				}
				seenV[v] = true
				switch x := v.(type) {
				case *ssa.MakeMap:
					return rootOf(x.Parent()) == rootOf(a.Fn)
				case *ssa.Phi:
					any := false
					for _, e := range x.Edges {
						if isNilConst(e) {
							continue
						}
						if !builtHere(e) {
							return false
						}
						any = true
					}
					return any
				case *ssa.FreeVar:
					if b := freeVarBinding(x); b != nil {
						return builtHere(b)
					}
				}
				return false
			}
			ok := builtHere(st.Val)
			if !ok {
				bad = true
				c.viol(rule, p.FnName(a.Fn)+" assigns bridgeInfo", p.instrPos(a.Instr), "the bridge map is assigned something other than a map built by this invocation")
			} else if path := conditionalStore(a.Fn, st); path != nil && a.Fn == fn {
				bad = true
				c.viol(rule, p.FnName(a.Fn)+" assigns bridgeInfo", p.instrPos(a.Instr), "a successful load can return without replacing the bridge map", p.pathString(path)...)
			}
		case a.Kind == accWrite:
			bad = true
			c.viol(rule, p.FnName(a.Fn)+" mutates the installed bridge map in place ("+a.What+")", p.instrPos(a.Instr), "entries of an earlier list (including the built-in default bridge) survive the installation of a new list, so a fingerprint absent from the new list can still be matched")
		}
	}
	if !bad {
		c.check(nStore >= 1, rule, "LoadBridgeInfo swaps in a map built from the reader", p.Pos(fn.Pos()), fmt.Sprintf("%d assignment(s), no in-place mutation", nStore), "bridgeInfo is never assigned")
	}
}

// conditionalStore: is there a path from entry to a `return nil`-error exit
// of fn that does not execute st? Returns such a path.
func conditionalStore(fn *ssa.Function, st *ssa.Store) []*ssa.BasicBlock {
	ei := errResultIndex(fn.Signature)
	for _, r := range returnsOf(fn) {
		if ei >= 0 && !isNilConst(r.Results[ei]) {
			continue
		}
		// path entry -> r avoiding st's block
		if r.Block() == st.Block() {
			continue
		}
		blocked := st.Block()
		prev := map[*ssa.BasicBlock]*ssa.BasicBlock{fn.Blocks[0]: nil}
		q := []*ssa.BasicBlock{fn.Blocks[0]}
		for len(q) > 0 {
			b := q[0]
			q = q[1:]
			if b == blocked {
				continue
			}
			if b == r.Block() {
				var path []*ssa.BasicBlock
				for x := b; x != nil; x = prev[x] {
					path = append([]*ssa.BasicBlock{x}, path...)
				}
				return path
			}
			for _, s := range b.Succs {
				if _, ok := prev[s]; !ok {
					prev[s] = b
					q = append(q, s)
				}
			}
		}
	}
	return nil
}

// checkBridgeLookup: GetBridgeInfo succeeds only for a fingerprint present in
// the map, looked up by its parameter.
func (c *Ctx) checkBridgeLookup() {
	p := c.P
	rule := "O-6b bridge lookup succeeds only for listed fingerprints"
	fn := p.Fn("broker", "(*bridgeListHolder).GetBridgeInfo")
	if fn == nil {
		c.undecided(rule, "bridgeListHolder.GetBridgeInfo", "-", "anchor does not resolve")
		return
	}
	c.analysedFn(p.FnName(fn))
	// every line of the bridge list is decoded into a record of its own
	{
		ruleF := "O-6c one record per bridge-list line"
		scopeD := p.FnsIn("broker")
		if c.Thorough {
			scopeD = p.FnsIn() // thorough: every JSON/gob decode inside a loop, anywhere in the repository
		}
		sites, stale := staleDecodeDests(scopeD)
		for _, ci := range stale {
			c.viol(ruleF, p.FnName(ci.Parent())+" decodes each line into a fresh record", p.instrPos(ci), "a JSON record is decoded inside a loop into a variable that lives across iterations: fields absent from a line keep the values of the previous line, so a bridge is registered with another bridge's address")
		}
		if len(stale) == 0 {
			c.okTrivial(ruleF, "broker JSON decodes inside loops use a per-iteration record", "-", fmt.Sprintf("%d decode site(s) inside loops", len(sites)))
		}
	}
	var lk *ssa.Lookup
	allInstrs(fn, func(in ssa.Instruction) {
		if l, ok := in.(*ssa.Lookup); ok && l.CommaOk && l.Index == ssa.Value(fn.Params[1]) {
			if _, f, okf := fieldLoad(l.X); okf && f.Name() == "bridgeInfo" {
				lk = l
			}
		}
	})
	if lk == nil {
		c.viol(rule, "GetBridgeInfo looks its parameter up in bridgeInfo", p.Pos(fn.Pos()), "no comma-ok lookup of the fingerprint parameter in the bridge map")
		return
	}
	found := boolEdges(fn, true, func(v ssa.Value) bool {
		e, ok := v.(*ssa.Extract)
		return ok && e.Tuple == ssa.Value(lk) && e.Index == 1
	})
	n := 0
	for _, r := range returnsOf(fn) {
		if !retMayBeNil(r, 1) {
			continue
		}
		n++
		path := successReachableWithout(fn, r, 1, found)
		okVal := flows(retVal(r, 0), func(v ssa.Value) bool {
			e, ok := v.(*ssa.Extract)
			return ok && e.Tuple == ssa.Value(lk) && e.Index == 0
		})
		c.check(len(found) > 0 && path == nil && okVal, rule, "GetBridgeInfo returns success only with the entry found for its parameter", p.instrPos(r), "",
			"a nil-error return does not depend on the fingerprint having been found (or returns another entry): a client naming an unlisted bridge is matched", p.pathString(path)...)
	}
	if n == 0 {
		c.undecided(rule, "GetBridgeInfo success return", p.Pos(fn.Pos()), "none found")
	}
	// BrokerContext.GetBridgeInfo forwards
	if fw := p.Fn("broker", "(*BrokerContext).GetBridgeInfo"); fw != nil {
		ok := false
		for _, r := range returnsOf(fw) {
			if cc, _, okc := callResult(retVal(r, 0)); okc && strings.HasSuffix(calleeName(cc), ").GetBridgeInfo") && cc.Call.Args[len(cc.Call.Args)-1] == ssa.Value(fw.Params[1]) {
				ok = true
			}
		}
		c.check(ok, rule, "BrokerContext.GetBridgeInfo forwards to the bridge list with its parameter", p.Pos(fw.Pos()), "", "the context's lookup is not a plain forward")
	}
}

// checkBrokerMatchingRows: the heaps, the id map and Snowflake.index are touched
// only under snowflakeLock (rows of the guarded-by table).
func (c *Ctx) checkBrokerMatchingRows() {
	var rows []guardRow
	for _, r := range guardTable {
		if (r.Type == "BrokerContext" && (r.Field == "idToSnowflake" || r.Field == "snowflakes" || r.Field == "restrictedSnowflakes")) || (r.Type == "Snowflake" && r.Field == "index") {
			rows = append(rows, r)
		}
	}
	c.checkGuardRows("O-2 unique holder", rows, c.P.FnsIn("broker"))
}

// checkAnswerProvenance: (a) the Answer field of every ClientPollResponse built
// in the broker is the empty string or the value received from the matched
// snowflake's answerChannel - never an error text or anything else (a client
// must not take for an answer something no proxy sent); (b) the context's
// GetBridgeInfo wrapper succeeds only when the bridge list's lookup did.
func (c *Ctx) checkAnswerProvenance() {
	p := c.P
	rule := "O-3e an answer is a proxy's answer"
	f := p.Field("common/messages", "ClientPollResponse", "Answer")
	if f == nil {
		c.undecided(rule, "ClientPollResponse.Answer", "-", "field does not resolve")
	} else {
		n, bad := 0, 0
		for _, st := range storesToField(p.FnsIn("broker"), f) {
			n++
			if sv, ok := constString(st.Val); ok && sv == "" {
				continue
			}
			fromChan := flows(st.Val, func(w ssa.Value) bool {
				for _, op := range chanOpsIn(p, st.Parent()) {
					if op.Dir == chRecv && op.Class == "Snowflake.answerChannel" && op.Val != nil && (w == op.Val || strip(w) == strip(op.Val)) {
						return true
					}
				}
				return false
			})
			if !fromChan {
				bad++
				c.viol(rule, p.FnName(st.Parent())+" fills ClientPollResponse.Answer", p.instrPos(st), "the answer field receives a value that was not received from the matched proxy's answerChannel (an error text in a positional literal, a cached value): the client treats it as the proxy's answer although no proxy was handed its offer")
			}
		}
		if bad == 0 {
			c.ok(rule, "ClientPollResponse.Answer is empty or the value received from answerChannel", p.Pos(f.Pos()), fmt.Sprintf("%d store(s) in the broker", n))
		}
	}
	ruleB := "O-6b bridge lookup succeeds only for listed fingerprints"
	if w := p.Fn("broker", "(*BrokerContext).GetBridgeInfo"); w != nil {
		var call *ssa.Call
		for _, ci := range callsIn(w) {
			if cc, ok := ci.(*ssa.Call); ok && strings.HasSuffix(calleeName(ci), ").GetBridgeInfo") {
				call = cc
			}
		}
		if call == nil {
			c.undecided(ruleB, "BrokerContext.GetBridgeInfo consults the bridge list", p.Pos(w.Pos()), "no lookup call found")
		} else {
			okE := errNilEdges(w, call, 1)
			good := true
			var wp []*ssa.BasicBlock
			for _, r := range returnsOf(w) {
				if len(r.Results) != 2 {
					continue
				}
				if isResultOfCall1(retVal(r, 1), call, 1) && isResultOfCall1(retVal(r, 0), call, 0) {
					continue // hands on the lookup's verdict
				}
				if path := successReachableWithout(w, r, 1, okE); path != nil || (len(okE) == 0 && retMayBeNil(r, 1)) {
					good, wp = false, path
				}
			}
			c.check(good, ruleB, "BrokerContext.GetBridgeInfo succeeds only if the bridge list's lookup did", p.Pos(w.Pos()), "", "the wrapper can return a nil error although the lookup failed (a shadowed err, a bare return of named results): a client naming a bridge that is not in the list is matched to a proxy", p.pathString(wp)...)
		}
	}
}
