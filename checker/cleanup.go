package main

// E-CLEANUP: consistency of release on failure paths (a contradiction rule in
// the sense of Engler et al.: the function itself states the belief).
//
// If a function creates a closable resource and closes it on one of its failure
// returns, it believes it owns the resource when it fails; a failure return that
// is reachable after the creation succeeded and passes no release of the
// resource then leaks it. The rule needs no table: the instances are the
// functions that already release on some failure path. A function that never
// releases the resource on failure (it hands it to an owner) states no belief
// and produces no obligation.
//
// A release is: a call or deferred call of Close on the resource; a deferred
// call or a registered function literal (one that is appended to a cleanup list
// or deferred) whose body calls Close on the captured resource; a return that
// hands the resource to the caller.

import (
	"fmt"
	"go/token"
	"go/types"
	"strings"

	"golang.org/x/tools/go/ssa"
)

// releaseMethod: the names under which this repository's types give up what they hold.
func releaseMethod(name string) bool { return name == "Close" || name == "End" }

// hasCloseMethod: the method set of t has a release method.
func hasCloseMethod(t types.Type) bool {
	if t == nil {
		return false
	}
	ms := types.NewMethodSet(t)
	for i := 0; i < ms.Len(); i++ {
		if releaseMethod(ms.At(i).Obj().Name()) {
			return true
		}
	}
	return false
}

// sameResource: r denotes the resource v - the value itself, or a load of the field v was stored into.
func sameResource(r, v ssa.Value) bool {
	r = strip(r)
	if r == v {
		return true
	}
	u, ok := r.(*ssa.UnOp)
	if !ok {
		return false
	}
	fa, ok := u.X.(*ssa.FieldAddr)
	if !ok || v.Referrers() == nil {
		return false
	}
	for _, ref := range *v.Referrers() {
		// through conversions (MakeInterface, ChangeType) of v
		vals := []ssa.Value{v}
		if mi, isMI := ref.(*ssa.MakeInterface); isMI {
			vals = append(vals, mi)
		}
		for _, vv := range vals {
			if vv.Referrers() == nil {
				continue
			}
			for _, r2 := range *vv.Referrers() {
				st, isSt := r2.(*ssa.Store)
				if !isSt || st.Val != vv {
					continue
				}
				fa2, isFA := st.Addr.(*ssa.FieldAddr)
				if isFA && fa2.Field == fa.Field && strip(fa2.X) == strip(fa.X) {
					return true
				}
			}
		}
	}
	return false
}

// closesValue: ci calls Close with receiver v.
func closesValue(ci ssa.CallInstruction, v ssa.Value) bool {
	cm := ci.Common()
	if cm.IsInvoke() {
		return releaseMethod(cm.Method.Name()) && sameResource(cm.Value, v)
	}
	callee := staticCallee(ci)
	if callee == nil || !releaseMethod(callee.Name()) || callee.Signature.Recv() == nil || len(cm.Args) == 0 {
		return false
	}
	return sameResource(cm.Args[0], v)
}

// literalClosesCaptured: the function literal mc (a closure) calls Close on its capture of v.
func literalClosesCaptured(mc *ssa.MakeClosure, v ssa.Value) bool {
	lit, ok := mc.Fn.(*ssa.Function)
	if !ok {
		return false
	}
	for i, b := range mc.Bindings {
		// captured by value (the value itself) or by reference (the cell the value was stored into)
		isV := strip(b) == v
		if !isV {
			if al, isAl := b.(*ssa.Alloc); isAl && al.Referrers() != nil {
				for _, r := range *al.Referrers() {
					if st, isSt := r.(*ssa.Store); isSt && st.Addr == al && strip(st.Val) == v {
						isV = true
					}
				}
			}
		}
		if !isV || i >= len(lit.FreeVars) {
			continue
		}
		fv := lit.FreeVars[i]
		found := false
		allInstrs(lit, func(in ssa.Instruction) {
			ci, isCall := in.(ssa.CallInstruction)
			if !isCall {
				return
			}
			cm := ci.Common()
			var recv ssa.Value
			if cm.IsInvoke() && releaseMethod(cm.Method.Name()) {
				recv = cm.Value
			} else if callee := staticCallee(ci); callee != nil && releaseMethod(callee.Name()) && callee.Signature.Recv() != nil && len(cm.Args) > 0 {
				recv = cm.Args[0]
			}
			if recv == nil {
				return
			}
			r := strip(recv)
			if r == ssa.Value(fv) {
				found = true
			}
			if u, isU := r.(*ssa.UnOp); isU && u.X == ssa.Value(fv) {
				found = true
			}
		})
		if found {
			return true
		}
	}
	return false
}

type cleanupSite struct {
	In     ssa.Instruction
	OnFail bool // lies on a path to a failure return (not only on the success path)
}

// checkCleanupOnErrorPaths adds one obligation per (function, resource) pair for which the function releases
// the resource on some failure return.
func (c *Ctx) checkCleanupOnErrorPaths(rule string, fns []*ssa.Function) {
	p := c.P
	n := 0
	for _, fn := range fns {
		if fn.Blocks == nil || fn.Signature.Results().Len() == 0 {
			continue
		}
		res := fn.Signature.Results()
		errIdx := res.Len() - 1
		if !isErrorType(res.At(errIdx).Type()) {
			continue
		}
		// failure returns: the error operand is certainly not nil
		var failRets []*ssa.Return
		for _, r := range returnsOf(fn) {
			if len(r.Results) <= errIdx {
				continue
			}
			ev := strip(retVal(r, errIdx))
			if isNilConst(ev) {
				continue
			}
			if ph, isPhi := ev.(*ssa.Phi); isPhi {
				mayNil := false
				for _, e := range ph.Edges {
					if isNilConst(strip(e)) {
						mayNil = true
					}
				}
				if mayNil {
					continue
				}
			}
			// "return x, y, err" after "if err != nil { return ... }": err is nil here
			if ne := nilCheckEdges(fn, true, func(x ssa.Value) bool { return strip(x) == ev }); len(ne) > 0 && reachableWithout(fn, r, ne) == nil {
				continue
			}
			failRets = append(failRets, r)
		}
		if len(failRets) == 0 {
			continue
		}
		// candidate resources
		allInstrs(fn, func(in ssa.Instruction) {
			var v ssa.Value
			var call *ssa.Call
			switch x := in.(type) {
			case *ssa.Call:
				if x.Call.Signature().Results().Len() == 1 {
					v, call = x, x
				}
			case *ssa.Extract:
				if cc, ok := x.Tuple.(*ssa.Call); ok && x.Index == 0 {
					v, call = x, cc
				}
			case *ssa.Alloc:
				// new(T) / &T{...} of a type of this repository that must be closed
				if x.Heap {
					v = x
				}
			}
			if v == nil || !hasCloseMethod(v.Type()) {
				return
			}
			// a resource placed into a longer-lived object (a field, a map, a channel) is that object's to
			// release: the function's own failure returns state nothing about it
			if escapesToObject(v) {
				return
			}
			// releases of v in fn
			var rel []ssa.Instruction
			allInstrs(fn, func(in2 ssa.Instruction) {
				switch y := in2.(type) {
				case ssa.CallInstruction:
					if _, isGo := y.(*ssa.Go); isGo {
						return
					}
					if closesValue(y, v) {
						rel = append(rel, in2)
						return
					}
					// a helper of the repository that closes the parameter it receives v for
					if callee := staticCallee(y); callee != nil && callee.Blocks != nil && p.IsRepoFn(callee) {
						for i, a := range y.Common().Args {
							if !sameResource(a, v) || i >= len(callee.Params) {
								continue
							}
							par := callee.Params[i]
							closes := false
							for _, c2 := range callsIn(callee) {
								if closesValue(c2, ssa.Value(par)) {
									closes = true
								}
							}
							if closes {
								rel = append(rel, in2)
								return
							}
						}
					}
					// defer func() { v.Close() }()
					if d, isDefer := y.(*ssa.Defer); isDefer {
						if mc, isMC := d.Call.Value.(*ssa.MakeClosure); isMC && literalClosesCaptured(mc, v) {
							rel = append(rel, in2)
						}
					}
				case *ssa.MakeClosure:
					// cleanup = append(cleanup, func() { v.Close() })
					if literalClosesCaptured(y, v) {
						rel = append(rel, in2)
					}
				}
			})
			if len(rel) == 0 {
				return
			}
			relSet := map[ssa.Instruction]bool{}
			for _, r := range rel {
				relSet[r] = true
			}
			// paths on which the creation failed are not paths on which v exists
			var cut []Edge
			if call != nil && call.Call.Signature().Results().Len() >= 2 {
				ei := call.Call.Signature().Results().Len() - 1
				if isErrorType(call.Call.Signature().Results().At(ei).Type()) {
					for _, e := range errNilEdges(fn, call, ei) {
						// the opposite edge of the same test
						cut = append(cut, Edge{From: e.From, Idx: 1 - e.Idx})
					}
				}
			}
			// a nil test of v itself: the == nil edge carries no resource
			cut = append(cut, nilCheckEdges(fn, true, func(x ssa.Value) bool { return strip(x) == v })...)
			isCut := func(b *ssa.BasicBlock, idx int) bool {
				for _, e := range cut {
					if e.From == b && e.Idx == idx {
						return true
					}
				}
				return false
			}
			// which failure returns are reached from the creation without a release?
			released, leaking := 0, []*ssa.Return{}
			var releasedRets []*ssa.Return
			for _, r := range failRets {
				// the resource handed to the caller together with the error is the caller's
				handed := false
				for i := range r.Results {
					if strip(retVal(r, i)) == v {
						handed = true
					}
				}
				if handed {
					continue
				}
				// only returns that lie behind the creation on every path belong to this resource's life (the
				// read that fails at the top of the next iteration does not)
				if !in.Block().Dominates(r.Block()) {
					continue
				}
				reach, viaRelease := false, false
				// a path that comes round to the creation again continues with the next iteration's resource
				seen := map[*ssa.BasicBlock]bool{in.Block(): true}
				var dfs func(b *ssa.BasicBlock, start int)
				dfs = func(b *ssa.BasicBlock, start int) {
					for j := start; j < len(b.Instrs); j++ {
						if relSet[b.Instrs[j]] {
							viaRelease = true
							return
						}
						if b.Instrs[j] == ssa.Instruction(r) {
							reach = true
							return
						}
					}
					for idx, s := range b.Succs {
						if seen[s] || isCut(b, idx) {
							continue
						}
						seen[s] = true
						dfs(s, 0)
					}
				}
				defBlock := in.Block()
				dfs(defBlock, instrIndex(in)+1)
				if reach {
					leaking = append(leaking, r)
				} else if viaRelease && reachesInstrAvoiding(in, r, in.Block()) {
					// a return that reports the failure of the closing call itself (w.Close() that flushes) is
					// not a clean-up of an earlier failure
					ev := strip(retVal(r, errIdx))
					own := false
					for _, rs := range rel {
						if rv, isV := rs.(ssa.Value); isV && flowsLocal(ev, func(x ssa.Value) bool { return x == rv }) {
							own = true
						}
					}
					if !own {
						released++
						releasedRets = append(releasedRets, r)
					}
				}
			}
			if released == 0 {
				return // the function releases v only on its success path or elsewhere: no stated belief about failures
			}
			// Only failure returns that come after a releasing one are held to it: what a resource holds grows as
			// the function proceeds (a server that is not listening yet, a connection nothing was started on), so
			// an earlier failure return that does not release states no contradiction.
			later := map[*ssa.BasicBlock]bool{}
			for _, r1 := range releasedRets {
				for _, rs := range rel {
					if !reachesInstrAvoiding(rs, r1, in.Block()) {
						continue
					}
					avoid := rs.Block()
					test := avoid.Idom()
					if test == nil {
						continue
					}
					seenB := map[*ssa.BasicBlock]bool{avoid: true, in.Block(): true}
					var walk func(b *ssa.BasicBlock)
					walk = func(b *ssa.BasicBlock) {
						for _, sb := range b.Succs {
							if seenB[sb] {
								continue
							}
							seenB[sb] = true
							later[sb] = true
							walk(sb)
						}
					}
					walk(test)
				}
			}
			var held []*ssa.Return
			for _, r2 := range leaking {
				if later[r2.Block()] {
					held = append(held, r2)
				}
			}
			leaking = held
			n++
			key := fmt.Sprintf("%s releases %s on every failure return", p.FnName(fn), describeValue(p, v))
			if len(leaking) > 0 {
				c.viol(rule, key, p.instrPos(leaking[0]), fmt.Sprintf("the resource created at %s is closed on %d other failure return(s) of this function but this one is reached without closing it: it (and the goroutines and sockets behind it) is leaked whenever this failure occurs", p.instrPos(in), released))
			} else {
				c.ok(rule, key, p.instrPos(in), fmt.Sprintf("closed before each of the %d failure return(s) reachable after its creation", released))
			}
		})
	}
	c.count("resources released on failure paths", n)
}

// reachesInstrAvoiding: target is reachable from the instruction from (ignoring conditions) without re-entering
// the block avoid.
func reachesInstrAvoiding(from, target ssa.Instruction, avoid *ssa.BasicBlock) bool {
	fb, tb := from.Block(), target.Block()
	if fb == tb && instrIndex(from) < instrIndex(target) {
		return true
	}
	seen := map[*ssa.BasicBlock]bool{avoid: true}
	var dfs func(b *ssa.BasicBlock) bool
	dfs = func(b *ssa.BasicBlock) bool {
		for _, s := range b.Succs {
			if s == tb && s != avoid {
				return true
			}
			if seen[s] {
				continue
			}
			seen[s] = true
			if dfs(s) {
				return true
			}
		}
		return false
	}
	return dfs(fb)
}

func describeValue(p *Prog, v ssa.Value) string {
	if c, _, ok := callResult(v); ok {
		return "the result of " + calleeName(c)
	}
	if al, ok := v.(*ssa.Alloc); ok {
		return "the new " + types.TypeString(al.Type().Underlying().(*types.Pointer).Elem(), func(pk *types.Package) string { return pk.Name() })
	}
	return v.Name()
}

func isErrorType(t types.Type) bool {
	return types.Identical(t, types.Universe.Lookup("error").Type())
}

// escapesToObject: v (possibly boxed in an interface) is stored through a field, element or global
// address, put into a map or sent on a channel.
func escapesToObject(v ssa.Value) bool {
	vals := []ssa.Value{v}
	if v.Referrers() != nil {
		for _, r := range *v.Referrers() {
			switch x := r.(type) {
			case *ssa.MakeInterface:
				vals = append(vals, x)
			case *ssa.ChangeInterface:
				vals = append(vals, x)
			case *ssa.ChangeType:
				vals = append(vals, x)
			}
		}
	}
	for _, vv := range vals {
		if vv.Referrers() == nil {
			continue
		}
		for _, r := range *vv.Referrers() {
			switch x := r.(type) {
			case *ssa.Store:
				if x.Val != vv {
					continue
				}
				if al, isAl := x.Addr.(*ssa.Alloc); isAl && !al.Heap {
					continue
				}
				if al, isAl := x.Addr.(*ssa.Alloc); isAl && al.Heap {
					// a captured local variable is still a local variable
					continue
				}
				return true
			case *ssa.MapUpdate:
				if x.Value == vv {
					return true
				}
			case *ssa.Send:
				if x.X == vv {
					return true
				}
			}
		}
	}
	return false
}

// ---------- data used as a format string ----------

// printfLike: the index of the format argument of the printf-style functions of fmt and log.
var printfLike = map[string]int{
	"fmt.Sprintf": 0, "fmt.Printf": 0, "fmt.Errorf": 0, "fmt.Fprintf": 1,
	"log.Printf": 0, "log.Fatalf": 0, "log.Panicf": 0,
	"(*log.Logger).Printf": 1, "(*log.Logger).Fatalf": 1, "(*log.Logger).Panicf": 1,
}

// checkNoDataAsFormat: the format argument of every printf-style call in fns is a constant. A format that is a
// value of the program (a message from the peer, an answer, an error text) has every '%' in it interpreted:
// the text is altered ("%!e(MISSING)") instead of being passed on as it is.
func (c *Ctx) checkNoDataAsFormat(rule string, fns []*ssa.Function) {
	p := c.P
	n := 0
	for _, fn := range fns {
		for _, ci := range callsIn(fn) {
			idx, ok := printfLike[calleeName(ci)]
			if !ok || len(ci.Common().Args) <= idx {
				continue
			}
			n++
			f := ci.Common().Args[idx]
			if _, isConst := constStrings(f); isConst {
				continue
			}
			// a format assembled from constants only ("prefix: " + constFormat)
			onlyConst := true
			var rec func(v ssa.Value, d int)
			rec = func(v ssa.Value, d int) {
				if !onlyConst || d > 6 {
					onlyConst = d <= 6 && onlyConst
					return
				}
				v = strip(v)
				if _, isC := constStrings(v); isC {
					return
				}
				if b, isB := v.(*ssa.BinOp); isB && b.Op == token.ADD {
					rec(b.X, d+1)
					rec(b.Y, d+1)
					return
				}
				onlyConst = false
			}
			rec(f, 0)
			if onlyConst {
				continue
			}
			c.viol(rule, fmt.Sprintf("%s: format of %s is a constant", p.FnName(fn), calleeName(ci)), p.instrPos(ci), "the format string is a value of the program, not a constant: every '%' in the data is interpreted as a verb and the text comes out altered")
		}
	}
	c.count("printf-style calls", n)
	if n > 0 {
		c.ok(rule, "formats of printf-style calls are constants", "-", fmt.Sprintf("%d call(s) examined", n))
	} else {
		c.okTrivial(rule, "formats of printf-style calls are constants", "-", "no printf-style call in scope")
	}
}

// ---------- a field written after the object was handed to a goroutine that reads it ----------

// checkWriteAfterSpawn: a function that starts a goroutine with an object and afterwards stores into a field of
// that object, while code reachable from the goroutine's body loads that field, has a store and a load that
// nothing orders (the go statement orders only what precedes it). Stores made with a mutex held are left to
// the guarded-by rows.
func (c *Ctx) checkWriteAfterSpawn(rule string, scope []*ssa.Function) {
	p := c.P
	le := p.Locks()
	n := 0
	for _, fn := range scope {
		if fn.Blocks == nil {
			continue
		}
		allInstrs(fn, func(in ssa.Instruction) {
			st, ok := in.(*ssa.Store)
			if !ok {
				return
			}
			fa, ok := st.Addr.(*ssa.FieldAddr)
			if !ok {
				return
			}
			if ls := le.at[in]; !ls.top && len(ls.m) > 0 {
				return
			}
			a := access{Fn: fn, Instr: in, Base: fa}
			g := handedToGoroutineBefore(a)
			if g == nil {
				return
			}
			gi, ok := g.(*ssa.Go)
			if !ok {
				return
			}
			stt := derefStruct(fa.X.Type())
			if stt == nil {
				return
			}
			field := stt.Field(fa.Field)
			// the goroutine's body and what it calls (statically, same module, three levels)
			var roots []*ssa.Function
			if callee := staticCallee(gi); callee != nil {
				roots = append(roots, callee)
			}
			var reader ssa.Instruction
			seen := map[*ssa.Function]bool{}
			var visit func(f *ssa.Function, d int)
			visit = func(f *ssa.Function, d int) {
				if f == nil || seen[f] || f.Blocks == nil || !p.IsRepoFn(f) || reader != nil {
					return
				}
				seen[f] = true
				allInstrs(f, func(in2 ssa.Instruction) {
					if reader != nil {
						return
					}
					if u, isU := in2.(*ssa.UnOp); isU {
						if fa2, isFA := u.X.(*ssa.FieldAddr); isFA {
							if st2 := derefStruct(fa2.X.Type()); st2 != nil && st2.Field(fa2.Field) == field {
								reader = in2
							}
						}
					}
					if ci, isC := in2.(ssa.CallInstruction); isC && d > 0 {
						visit(staticCallee(ci), d-1)
					}
				})
			}
			for _, r := range roots {
				visit(r, 3)
			}
			n++
			key := fmt.Sprintf("%s stores %s.%s after starting the goroutine that received the object", p.FnName(fn), typeNameOfStruct(fa.X.Type()), field.Name())
			if reader != nil {
				c.viol(rule, key, p.instrPos(in), fmt.Sprintf("the goroutine started at %s reads this field at %s: the store and the read are not ordered (a go statement orders only what precedes it) - a data race, and the goroutine can see the field's zero value", p.instrPos(g), p.instrPos(reader)))
			} else {
				c.ok(rule, key, p.instrPos(in), "nothing reachable from the goroutine's body reads the field")
			}
		})
	}
	if n == 0 {
		c.okTrivial(rule, "stores after a go statement that received the object", "-", "none in scope")
	}
}

func typeNameOfStruct(t types.Type) string {
	if pt, ok := t.Underlying().(*types.Pointer); ok {
		t = pt.Elem()
	}
	if n, ok := t.(*types.Named); ok {
		return n.Obj().Name()
	}
	return t.String()
}

func fieldOwnerName(f *types.Var) string {
	if tn := fieldOwner(f); tn != nil {
		return tn.Name()
	}
	return ""
}

// ---------- a decoder's verdict is not thrown away ----------

// checkDecodeErrorsConsumed: in fns, every call of a function outside the repository that returns (value, error)
// and whose value is used has its error result used as well (tested, returned, wrapped). A decoding step whose
// error is discarded accepts whatever prefix of the input the library managed to decode.
func (c *Ctx) checkDecodeErrorsConsumed(rule string, fns []*ssa.Function) {
	p := c.P
	n := 0
	for _, fn := range fns {
		for _, ci := range callsIn(fn) {
			call, ok := ci.(*ssa.Call)
			if !ok {
				continue
			}
			res := call.Call.Signature().Results()
			if res.Len() < 2 || !isErrorType(res.At(res.Len()-1).Type()) {
				continue
			}
			name := calleeName(call)
			if name == "" || strings.HasPrefix(name, "fmt.") || strings.HasPrefix(name, "(io.Writer)") {
				continue
			}
			valueUsed, errUsed := false, false
			if call.Referrers() != nil {
				for _, r := range *call.Referrers() {
					ex, isEx := r.(*ssa.Extract)
					if !isEx {
						continue
					}
					used := false
					if ex.Referrers() != nil {
						for _, rr := range *ex.Referrers() {
							if _, isDbg := rr.(*ssa.DebugRef); !isDbg {
								used = true
							}
						}
					}
					if ex.Index == res.Len()-1 {
						errUsed = errUsed || used
					} else {
						valueUsed = valueUsed || used
					}
				}
			}
			if !valueUsed {
				continue
			}
			// a call whose arguments are all constants fails or succeeds independently of any input
			allConst := len(call.Call.Args) > 0
			for _, a := range call.Call.Args {
				if _, isK := strip(a).(*ssa.Const); !isK {
					allConst = false
				}
			}
			if allConst {
				continue
			}
			n++
			c.check(errUsed, rule, fmt.Sprintf("%s uses the error of %s", p.FnName(fn), name), p.instrPos(call), "", "the value is used and the error discarded: an input the library rejects part-way (a bad digit after a valid prefix, trailing garbage) is accepted with whatever was decoded up to there")
		}
	}
	if n == 0 {
		c.okTrivial(rule, "errors of (value, error) calls", "-", "no such call in scope")
	}
}

// ---------- a method invoked on an interface result that the callee may return as nil ----------

// checkNilInterfaceResults: when a repository function with an interface result has a return that yields the nil
// constant for it, every caller in fns invokes methods on that result only behind its != nil edge.
func (c *Ctx) checkNilInterfaceResults(rule string, fns []*ssa.Function) {
	p := c.P
	mayReturnNil := func(f *ssa.Function, idx int) bool {
		if f == nil || f.Blocks == nil || !p.IsRepoFn(f) {
			return false
		}
		res := f.Signature.Results()
		hasErr := res.Len() > 0 && isErrorType(res.At(res.Len()-1).Type())
		for _, r := range returnsOf(f) {
			if idx < len(r.Results) && isNilConst(strip(retVal(r, idx))) {
				// a nil result next to a non-nil error is the failure convention, covered by the error rules
				if hasErr && idx != res.Len()-1 && !isNilConst(strip(retVal(r, res.Len()-1))) {
					continue
				}
				return true
			}
		}
		return false
	}
	n := 0
	for _, fn := range fns {
		allInstrs(fn, func(in ssa.Instruction) {
			ci, ok := in.(ssa.CallInstruction)
			if !ok || !ci.Common().IsInvoke() {
				return
			}
			recv := strip(ci.Common().Value)
			if _, isIface := recv.Type().Underlying().(*types.Interface); !isIface {
				return
			}
			if isErrorType(recv.Type()) {
				return // errors have their own rule
			}
			var callee *ssa.Function
			if par, isPar := recv.(*ssa.Parameter); isPar {
				// what the callers - through function values and method-value wrappers too - pass for it
				for _, leaf := range p.paramSources(par, 5, map[*ssa.Parameter]bool{}) {
					if c2, i2, ok2 := callResult1(leaf); ok2 {
						if f2 := staticCallee(c2); mayReturnNil(f2, i2) {
							callee = f2
						}
					}
				}
				if callee == nil {
					return
				}
			} else {
				cc, idx, isRes := callResult1(recv)
				if !isRes {
					return
				}
				callee = staticCallee(cc)
				if !mayReturnNil(callee, idx) {
					return
				}
			}
			n++
			edges := nilCheckEdges(fn, false, func(v ssa.Value) bool { return strip(v) == recv })
			path := reachableWithout(fn, in, edges)
			c.check(len(edges) > 0 && path == nil, rule, fmt.Sprintf("%s calls %s on the result of %s only behind a nil test", p.FnName(fn), ci.Common().Method.Name(), p.FnName(callee)), p.instrPos(in), "", p.FnName(callee)+" has a return that yields nil for this result, and the method is invoked on a path without result != nil: a nil interface value is dereferenced and the goroutine - here the process - panics", p.pathString(path)...)
		})
	}
	if n == 0 {
		c.okTrivial(rule, "methods invoked on interface results that may be nil", "-", "none in scope")
	}
}

// paramSources: the values that callers pass for the parameter par, followed upwards through parameters of the
// callers (VTA call graph, so calls of function values and of method-value wrappers are included).
func (p *Prog) paramSources(par *ssa.Parameter, depth int, seen map[*ssa.Parameter]bool) []ssa.Value {
	if seen[par] || depth < 0 {
		return nil
	}
	seen[par] = true
	fn := par.Parent()
	idx := -1
	for i, fp := range fn.Params {
		if fp == par {
			idx = i
		}
	}
	cg := p.CallGraph()
	node := cg.Nodes[fn]
	if idx < 0 || node == nil {
		return nil
	}
	var out []ssa.Value
	for _, e := range node.In {
		if e.Site == nil {
			continue
		}
		cm := e.Site.Common()
		var arg ssa.Value
		if cm.IsInvoke() {
			if idx == 0 {
				arg = cm.Value
			} else if idx-1 < len(cm.Args) {
				arg = cm.Args[idx-1]
			}
		} else if idx < len(cm.Args) {
			arg = cm.Args[idx]
		}
		if arg == nil {
			continue
		}
		a := strip(arg)
		if up, isPar := a.(*ssa.Parameter); isPar {
			out = append(out, p.paramSources(up, depth-1, seen)...)
			continue
		}
		out = append(out, a)
	}
	return out
}

// ---------- in a codec, a failed step ends the function ----------

// checkErrorBranchesLeave: in fns (pure encoding/decoding code: nothing there logs an error and carries on), the
// branch taken when an error value is non-nil never flows back into the code that runs when it is nil - it returns,
// continues the enclosing loop or panics. A failure branch that falls through hands the half-decoded value on as
// if the step had succeeded.
func (c *Ctx) checkErrorBranchesLeave(rule string, fns []*ssa.Function) {
	c.checkErrorBranchesLeaveMode(rule, fns, false)
}

// checkErrorBranchesLeaveMode with errFuncsOnly: for code that is not a pure codec. Only functions that themselves
// return an error are examined (a goroutine body or a callback has nobody to report to and logs), and a failure
// branch may run on into code that can only end in a failure return (logging the error of a clean-up step inside
// a failure path).
func (c *Ctx) checkErrorBranchesLeaveMode(rule string, fns []*ssa.Function, errFuncsOnly bool) {
	p := c.P
	n := 0
	nth := map[*ssa.Function]int{}
	for _, fn := range fns {
		if fn.Blocks == nil {
			continue
		}
		if errFuncsOnly {
			res := fn.Signature.Results()
			if res.Len() == 0 || !isErrorType(res.At(res.Len()-1).Type()) {
				continue
			}
		}
		for _, b := range fn.Blocks {
			if len(b.Instrs) == 0 {
				continue
			}
			ifi, ok := b.Instrs[len(b.Instrs)-1].(*ssa.If)
			if !ok {
				continue
			}
			a, pos := normCond(ifi.Cond)
			if a.Op != token.EQL {
				continue
			}
			var ev ssa.Value
			if isNilConst(a.Y) && isErrorType(a.X.Type()) {
				ev = a.X
			} else if isNilConst(a.X) && isErrorType(a.Y.Type()) {
				ev = a.Y
			}
			if ev == nil {
				continue
			}
			if errFuncsOnly {
				// an error variable that closures share is loaded afresh at every use: what a later "return err"
				// yields cannot be tied to this test
				if u, isU := strip(ev).(*ssa.UnOp); isU && u.Op == token.MUL {
					continue
				}
			}
			// successor taken when ev != nil
			failIdx := 0
			if pos {
				failIdx = 1
			}
			fail, okb := b.Succs[failIdx], b.Succs[1-failIdx]
			if fail == okb {
				continue
			}
			n++
			// does the failure branch reach the success successor without passing the test block again?
			seen := map[*ssa.BasicBlock]bool{b: true}
			reaches := false
			var walk func(x *ssa.BasicBlock)
			walk = func(x *ssa.BasicBlock) {
				if seen[x] || reaches {
					return
				}
				seen[x] = true
				if x == okb {
					reaches = true
					return
				}
				for _, in := range x.Instrs {
					if cc, isC := in.(*ssa.Call); isC && exitCallees[calleeName(cc)] {
						return
					}
					if _, isP := in.(*ssa.Panic); isP {
						return
					}
				}
				for _, sb := range x.Succs {
					walk(sb)
				}
			}
			walk(fail)
			if reaches {
				// Nothing is "carried on with" when the code after the test only returns: no call, store or send
				// before the return, and the return yields no success - the function reports no error at all (a
				// deferred logger), or it returns the tested error itself ("if err != nil { cleanup }; return err")
				// or a fresh one.
				res := fn.Signature.Results()
				hasErr := res.Len() > 0 && isErrorType(res.At(res.Len()-1).Type())
				harmless := true
				seen3 := map[*ssa.BasicBlock]bool{}
				var walk3 func(x *ssa.BasicBlock)
				walk3 = func(x *ssa.BasicBlock) {
					if seen3[x] || !harmless {
						return
					}
					seen3[x] = true
					for _, in := range x.Instrs {
						switch y := in.(type) {
						case *ssa.Call, *ssa.Go, *ssa.Defer, *ssa.Send, *ssa.MapUpdate, *ssa.Panic:
							harmless = false
							return
						case *ssa.Store:
							if al, isAl := y.Addr.(*ssa.Alloc); !isAl || al.Heap {
								harmless = false
								return
							}
						case *ssa.Return:
							if hasErr {
								ev2 := strip(retVal(y, len(y.Results)-1))
								same := ev2 == strip(ev)
								if ph, isPhi := ev2.(*ssa.Phi); isPhi {
									for _, e := range ph.Edges {
										if strip(e) == strip(ev) {
											same = true
										}
									}
								}
								if !same && !definitelyNonNil(ev2) {
									harmless = false
								}
							}
							return
						case *ssa.RunDefers:
							// deferred calls run whichever branch was taken
						}
					}
					for _, sb := range x.Succs {
						walk3(sb)
					}
				}
				walk3(okb)
				if harmless {
					reaches = false
				}
			}
			if reaches && errFuncsOnly {
				// can the code after the test still end in success?
				success := false
				seen2 := map[*ssa.BasicBlock]bool{}
				var walk2 func(x *ssa.BasicBlock)
				walk2 = func(x *ssa.BasicBlock) {
					if seen2[x] || success {
						return
					}
					seen2[x] = true
					if len(x.Instrs) > 0 {
						if r, isR := x.Instrs[len(x.Instrs)-1].(*ssa.Return); isR {
							ev2 := strip(retVal(r, len(r.Results)-1))
							if ph, isPhi := ev2.(*ssa.Phi); isPhi {
								for _, e := range ph.Edges {
									if !definitelyNonNil(strip(e)) {
										success = true
									}
								}
							} else if u, isU := ev2.(*ssa.UnOp); isU && u.Op == token.MUL {
								// a shared error variable loaded afresh: not decidable here; not counted as success
							} else if !definitelyNonNil(ev2) {
								// nil, or whatever a later step returns; "return err" behind its own err != nil test
								// is a failure return
								ne := nilCheckEdges(fn, false, func(v ssa.Value) bool { return strip(v) == ev2 })
								if len(ne) == 0 || reachableWithout(fn, r, ne) != nil {
									success = true
								}
							}
							return
						}
					}
					for _, sb := range x.Succs {
						walk2(sb)
					}
				}
				walk2(okb)
				if !success {
					reaches = false
				}
			}
			nth[fn]++
			where := p.blockPos(b)
			if ifi.Cond.Pos().IsValid() {
				where = p.Pos(ifi.Cond.Pos())
			}
			c.check(!reaches, rule, fmt.Sprintf("%s leaves on a failure (error test #%d)", p.FnName(fn), nth[fn]), where, "", "the branch taken when the error is non-nil runs on into the code for the successful case: what the failed step left behind (a partly decoded message, a short write count) is used as if it were good")
		}
	}
	if n == 0 {
		c.okTrivial(rule, "error tests in scope", "-", "none")
	}
}
