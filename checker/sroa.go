package main

// Scalar replacement of local struct variables in the helper-inlined view.
//
// A refactoring that groups a few locals into a small new struct type (a result
// struct instead of a tuple, an adapter type instead of a closure's captured
// variables) leaves, after its helpers have been inlined, a local variable of
// that type which is only ever built from a composite literal and read or
// written field by field. go/ssa keeps such a variable in memory; the rules,
// written for the locals the struct replaced, want registers. This pass turns
//
//	var v T = T{a: x, b: y}; ... v.a ... v.b = z ...
//
// into one variable per field. It applies only to struct types that are not on
// the reference type list (types the refactoring introduced), and only when
// every use of the variable in its function is a field selection, the
// definition, or a whole assignment from a composite literal or from another
// such variable. The result is type-checked by the caller; if it does not
// type-check the pass is undone.

import (
	"fmt"
	"go/ast"
	"go/token"
	"go/types"
	"os"
	"sort"
	"strings"

	"golang.org/x/tools/go/packages"
)

func sroaOverlay(abs string, overlay map[string][]byte, knownTypes map[string]bool) (int, error) {
	cfg := &packages.Config{
		Mode:    packages.NeedName | packages.NeedFiles | packages.NeedCompiledGoFiles | packages.NeedSyntax | packages.NeedTypes | packages.NeedTypesInfo | packages.NeedImports | packages.NeedDeps,
		Dir:     abs,
		Env:     loadEnv(),
		Tests:   false,
		Overlay: overlay,
	}
	pkgs, err := packages.Load(cfg, "./...")
	if err != nil {
		return 0, err
	}
	total := 0
	for _, pkg := range pkgs {
		if !strings.HasPrefix(pkg.PkgPath, modPath) || len(pkg.Errors) > 0 {
			continue
		}
		rel := strings.TrimPrefix(strings.TrimPrefix(pkg.PkgPath, modPath), "/")
		for _, f := range pkg.Syntax {
			name := pkg.Fset.Position(f.Pos()).Filename
			src, ok := overlay[name]
			if !ok {
				// only files the view already rewrote can contain the temporaries this pass is for
				continue
			}
			out, n := sroaFile(pkg, f, src, rel, knownTypes)
			if n > 0 {
				overlay[name] = out
				total += n
			}
		}
	}
	return total, nil
}

type sroaEdit struct {
	a, b int
	txt  string
}

func sroaFile(pkg *packages.Package, f *ast.File, src []byte, rel string, knownTypes map[string]bool) ([]byte, int) {
	info := pkg.TypesInfo
	fset := pkg.Fset
	off := func(p token.Pos) int { return fset.Position(p).Offset }
	text := func(n ast.Node) string { return string(src[off(n.Pos()):off(n.End())]) }
	// import names of this file, for printing field types
	importName := map[string]string{}
	for _, im := range f.Imports {
		path := strings.Trim(im.Path.Value, "\"")
		if im.Name != nil {
			importName[path] = im.Name.Name
		} else if p := pkg.Imports[path]; p != nil {
			importName[path] = p.Name
		}
	}
	typeOK := true
	qual := func(p *types.Package) string {
		if p == pkg.Types {
			return ""
		}
		if n, ok := importName[p.Path()]; ok && n != "_" && n != "." {
			return n
		}
		typeOK = false
		return p.Name()
	}
	newStruct := func(t types.Type) (*types.Named, *types.Struct) {
		n, ok := t.(*types.Named)
		if !ok || n.Obj().Pkg() != pkg.Types {
			return nil, nil
		}
		st, ok := n.Underlying().(*types.Struct)
		if !ok || knownTypes[rel+"."+n.Obj().Name()] {
			return nil, nil
		}
		return n, st
	}
	var edits []sroaEdit
	count := 0
	for _, d := range f.Decls {
		fd, ok := d.(*ast.FuncDecl)
		if !ok || fd.Body == nil {
			continue
		}
		// candidate variables: objects of new struct type defined in this function
		cands := map[*types.Var]*types.Struct{}
		ptrCand := map[*types.Var]bool{}
		ast.Inspect(fd.Body, func(n ast.Node) bool {
			id, ok := n.(*ast.Ident)
			if !ok {
				return true
			}
			if v, ok := info.Defs[id].(*types.Var); ok && !v.IsField() {
				if _, st := newStruct(v.Type()); st != nil {
					cands[v] = st
				} else if pt, isPtr := v.Type().(*types.Pointer); isPtr {
					// v := &T{...} that never escapes: used only through v.f
					if _, st := newStruct(pt.Elem()); st != nil {
						cands[v] = st
						ptrCand[v] = true
					}
				}
			}
			return true
		})
		if len(cands) == 0 {
			continue
		}
		// classify every use; parents are needed
		parent := map[ast.Node]ast.Node{}
		var stack []ast.Node
		ast.Inspect(fd, func(n ast.Node) bool {
			if n == nil {
				stack = stack[:len(stack)-1]
				return true
			}
			if len(stack) > 0 {
				parent[n] = stack[len(stack)-1]
			}
			stack = append(stack, n)
			return true
		})
		bad := map[*types.Var]bool{}
		isLitOf := func(e ast.Expr, v *types.Var) bool {
			if ptrCand[v] {
				u, ok := e.(*ast.UnaryExpr)
				if !ok || u.Op != token.AND {
					return false
				}
				cl, ok := u.X.(*ast.CompositeLit)
				return ok && types.Identical(types.NewPointer(info.TypeOf(cl)), v.Type())
			}
			cl, ok := e.(*ast.CompositeLit)
			if !ok {
				return false
			}
			return types.Identical(info.TypeOf(cl), v.Type())
		}
		isCandIdent := func(e ast.Expr) *types.Var {
			id, ok := e.(*ast.Ident)
			if !ok {
				return nil
			}
			v, _ := info.Uses[id].(*types.Var)
			if v == nil {
				v, _ = info.Defs[id].(*types.Var)
			}
			if v != nil && cands[v] != nil {
				return v
			}
			return nil
		}
		okRHS := func(e ast.Expr, v *types.Var) bool {
			if ptrCand[v] {
				return e != nil && isLitOf(e, v)
			}
			if e == nil {
				return true
			}
			if isLitOf(e, v) {
				return true
			}
			if w := isCandIdent(e); w != nil && !ptrCand[w] && types.Identical(w.Type(), v.Type()) {
				return true
			}
			return false
		}
		ast.Inspect(fd.Body, func(n ast.Node) bool {
			id, ok := n.(*ast.Ident)
			if !ok {
				return true
			}
			var v *types.Var
			if u, ok := info.Uses[id].(*types.Var); ok {
				v = u
			} else if dfn, ok := info.Defs[id].(*types.Var); ok {
				v = dfn
			}
			if v == nil || cands[v] == nil {
				return true
			}
			switch p := parent[id].(type) {
			case *ast.SelectorExpr:
				if p.X != ast.Expr(id) {
					bad[v] = true
					return true
				}
				sel := info.Selections[p]
				if sel == nil || sel.Kind() != types.FieldVal || len(sel.Index()) != 1 {
					bad[v] = true
					return true
				}
				if u, ok := parent[p].(*ast.UnaryExpr); ok && u.Op == token.AND {
					bad[v] = true
				}
			case *ast.ValueSpec:
				// var v T [= X] with a single name
				if len(p.Names) != 1 || len(p.Values) > 1 || p.Names[0] != id {
					// v may be the initialiser of another candidate: var w T = v
					isInit := false
					for _, val := range p.Values {
						if val == ast.Expr(id) && len(p.Names) == 1 {
							if w := isCandIdent(p.Names[0]); w != nil {
								isInit = true
							}
						}
					}
					if !isInit {
						bad[v] = true
					}
					return true
				}
				if len(p.Values) == 1 && !okRHS(p.Values[0], v) {
					bad[v] = true
				}
			case *ast.AssignStmt:
				// as LHS i: RHS i must be a literal of T or another candidate; as RHS i: LHS i must be a candidate
				if len(p.Lhs) != len(p.Rhs) {
					bad[v] = true
					return true
				}
				for i := range p.Lhs {
					if p.Lhs[i] == ast.Expr(id) {
						if !okRHS(p.Rhs[i], v) {
							bad[v] = true
						}
					}
					if p.Rhs[i] == ast.Expr(id) {
						if w := isCandIdent(p.Lhs[i]); w == nil || !types.Identical(w.Type(), v.Type()) {
							bad[v] = true
						}
					}
				}
				// tuple assignments are split: every RHS must then be a plain identifier or literal of a candidate
				if len(p.Lhs) > 1 {
					for i := range p.Rhs {
						if _, isId := p.Rhs[i].(*ast.Ident); !isId {
							if w := isCandIdent(p.Lhs[i]); w == nil || !isLitOf(p.Rhs[i], w) {
								bad[v] = true
							} else {
								bad[v] = true // keep it simple: literals only in single assignments
							}
						}
					}
				}
			default:
				bad[v] = true
			}
			return true
		})
		// a candidate that copies from or to a rejected candidate is rejected too
		for changed := true; changed; {
			changed = false
			ast.Inspect(fd.Body, func(n ast.Node) bool {
				as, ok := n.(*ast.AssignStmt)
				if ok && len(as.Lhs) == len(as.Rhs) {
					for i := range as.Lhs {
						l, r := isCandIdent(as.Lhs[i]), isCandIdent(as.Rhs[i])
						if l != nil && r != nil && bad[l] != bad[r] {
							bad[l], bad[r] = true, true
							changed = true
						}
					}
				}
				if vs, ok := n.(*ast.ValueSpec); ok && len(vs.Names) == 1 && len(vs.Values) == 1 {
					l, r := isCandIdent(vs.Names[0]), isCandIdent(vs.Values[0])
					if l != nil && r != nil && bad[l] != bad[r] {
						bad[l], bad[r] = true, true
						changed = true
					}
				}
				return true
			})
		}
		good := map[*types.Var]bool{}
		for v := range cands {
			if !bad[v] {
				good[v] = true
			}
		}
		if len(good) == 0 {
			continue
		}
		fname := func(v *types.Var, fld *types.Var) string { return "sroa_" + v.Name() + "_" + fld.Name() }
		typeStr := func(t types.Type) string { return types.TypeString(t, qual) }
		// assignments "prefix<field> op value" for all fields of v from expression e (literal, candidate or nil)
		fieldValues := func(v *types.Var, e ast.Expr) ([]string, bool) {
			st := cands[v]
			vals := make([]string, st.NumFields())
			for i := 0; i < st.NumFields(); i++ {
				vals[i] = zeroText(st.Field(i).Type(), typeStr)
			}
			if u, isU := e.(*ast.UnaryExpr); isU && u.Op == token.AND {
				e = u.X
			}
			switch x := e.(type) {
			case nil:
			case *ast.CompositeLit:
				for i, el := range x.Elts {
					if kv, ok := el.(*ast.KeyValueExpr); ok {
						key, _ := kv.Key.(*ast.Ident)
						if key == nil {
							return nil, false
						}
						found := false
						for j := 0; j < st.NumFields(); j++ {
							if st.Field(j).Name() == key.Name {
								vals[j] = text(kv.Value)
								found = true
							}
						}
						if !found {
							return nil, false
						}
					} else {
						if i >= st.NumFields() {
							return nil, false
						}
						vals[i] = text(el)
					}
				}
			case *ast.Ident:
				w := isCandIdent(x)
				if w == nil || !good[w] {
					return nil, false
				}
				for i := 0; i < st.NumFields(); i++ {
					vals[i] = fname(w, st.Field(i))
				}
			default:
				return nil, false
			}
			return vals, true
		}
		okFn := true
		var fnEdits []sroaEdit
		ast.Inspect(fd.Body, func(n ast.Node) bool {
			if !okFn {
				return false
			}
			switch x := n.(type) {
			case *ast.DeclStmt:
				gd, ok := x.Decl.(*ast.GenDecl)
				if !ok || gd.Tok != token.VAR || len(gd.Specs) != 1 {
					return true
				}
				vs, ok := gd.Specs[0].(*ast.ValueSpec)
				if !ok || len(vs.Names) != 1 {
					return true
				}
				v := isCandIdent(vs.Names[0])
				if v == nil || !good[v] {
					return true
				}
				var init ast.Expr
				if len(vs.Values) == 1 {
					init = vs.Values[0]
				}
				vals, ok := fieldValues(v, init)
				if !ok {
					okFn = false
					return false
				}
				var sb strings.Builder
				st := cands[v]
				for i := 0; i < st.NumFields(); i++ {
					fmt.Fprintf(&sb, "var %s %s = %s\n_ = %s\n", fname(v, st.Field(i)), typeStr(st.Field(i).Type()), vals[i], fname(v, st.Field(i)))
				}
				fnEdits = append(fnEdits, sroaEdit{off(x.Pos()), off(x.End()), sb.String()})
				return false
			case *ast.AssignStmt:
				touches := false
				for _, e := range append(append([]ast.Expr{}, x.Lhs...), x.Rhs...) {
					if v := isCandIdent(e); v != nil && good[v] {
						touches = true
					}
				}
				if !touches {
					return true
				}
				var sb strings.Builder
				for i := range x.Lhs {
					v := isCandIdent(x.Lhs[i])
					if v != nil && good[v] {
						vals, ok := fieldValues(v, x.Rhs[i])
						if !ok {
							okFn = false
							return false
						}
						st := cands[v]
						defines := false
						if id, isId := x.Lhs[i].(*ast.Ident); isId && info.Defs[id] != nil && x.Tok == token.DEFINE {
							defines = true
						}
						for j := 0; j < st.NumFields(); j++ {
							if defines {
								fmt.Fprintf(&sb, "var %s %s = %s\n_ = %s\n", fname(v, st.Field(j)), typeStr(st.Field(j).Type()), vals[j], fname(v, st.Field(j)))
							} else {
								fmt.Fprintf(&sb, "%s = %s\n", fname(v, st.Field(j)), vals[j])
							}
						}
						continue
					}
					// an ordinary component of a split tuple assignment
					op := "="
					if id, isId := x.Lhs[i].(*ast.Ident); isId && info.Defs[id] != nil && x.Tok == token.DEFINE {
						op = ":="
					}
					if id, isId := x.Lhs[i].(*ast.Ident); isId && id.Name == "_" {
						op = "="
					}
					fmt.Fprintf(&sb, "%s %s %s\n", text(x.Lhs[i]), op, text(x.Rhs[i]))
				}
				fnEdits = append(fnEdits, sroaEdit{off(x.Pos()), off(x.End()), sb.String()})
				return false
			case *ast.SelectorExpr:
				if v := isCandIdent(x.X); v != nil && good[v] {
					st := cands[v]
					for j := 0; j < st.NumFields(); j++ {
						if st.Field(j).Name() == x.Sel.Name {
							fnEdits = append(fnEdits, sroaEdit{off(x.Pos()), off(x.End()), fname(v, st.Field(j))})
						}
					}
					return false
				}
			}
			return true
		})
		if !okFn || !typeOK {
			typeOK = true
			continue
		}
		edits = append(edits, fnEdits...)
		count += len(good)
	}
	// parameters of function literals that are called or started on the spot with a composite literal of a
	// new struct type: func(r T) {... r.f ...}(T{f: x})  ->  func(r_f F) {... r_f ...}(x)
	if len(edits) == 0 {
		ast.Inspect(f, func(n ast.Node) bool {
			call, ok := n.(*ast.CallExpr)
			if !ok {
				return true
			}
			lit, ok := call.Fun.(*ast.FuncLit)
			if !ok || lit.Type.Params == nil || call.Ellipsis.IsValid() {
				return true
			}
			// flat list of parameter identifiers
			type par struct {
				id  *ast.Ident
				fld *ast.Field
			}
			var pars []par
			for _, fld := range lit.Type.Params.List {
				if len(fld.Names) == 0 {
					pars = append(pars, par{nil, fld})
				}
				for _, nm := range fld.Names {
					pars = append(pars, par{nm, fld})
				}
			}
			if len(pars) != len(call.Args) {
				return true
			}
			for i, pr := range pars {
				if pr.id == nil || len(pr.fld.Names) != 1 {
					continue
				}
				v, _ := info.Defs[pr.id].(*types.Var)
				if v == nil {
					continue
				}
				_, st := newStruct(v.Type())
				cl, isLit := call.Args[i].(*ast.CompositeLit)
				if st == nil || !isLit || !types.Identical(info.TypeOf(cl), v.Type()) {
					continue
				}
				// every use of the parameter is a plain field selection
				okUses := true
				var sels []*ast.SelectorExpr
				var walk func(n ast.Node, parent ast.Node, grand ast.Node)
				_ = walk
				parents := map[ast.Node]ast.Node{}
				var stk []ast.Node
				ast.Inspect(lit.Body, func(m ast.Node) bool {
					if m == nil {
						stk = stk[:len(stk)-1]
						return true
					}
					if len(stk) > 0 {
						parents[m] = stk[len(stk)-1]
					}
					stk = append(stk, m)
					return true
				})
				ast.Inspect(lit.Body, func(m ast.Node) bool {
					id, isId := m.(*ast.Ident)
					if !isId || info.Uses[id] != types.Object(v) {
						return true
					}
					se, isSel := parents[id].(*ast.SelectorExpr)
					if !isSel || se.X != ast.Expr(id) {
						okUses = false
						return true
					}
					sel := info.Selections[se]
					if sel == nil || sel.Kind() != types.FieldVal || len(sel.Index()) != 1 {
						okUses = false
						return true
					}
					if u, isU := parents[se].(*ast.UnaryExpr); isU && u.Op == token.AND {
						okUses = false
					}
					sels = append(sels, se)
					return true
				})
				if !okUses {
					continue
				}
				vals := make([]string, st.NumFields())
				for j := 0; j < st.NumFields(); j++ {
					vals[j] = zeroText(st.Field(j).Type(), func(t types.Type) string { return types.TypeString(t, qual) })
				}
				okLit := true
				for k, el := range cl.Elts {
					if kv, isKV := el.(*ast.KeyValueExpr); isKV {
						key, _ := kv.Key.(*ast.Ident)
						found := false
						for j := 0; key != nil && j < st.NumFields(); j++ {
							if st.Field(j).Name() == key.Name {
								vals[j] = text(kv.Value)
								found = true
							}
						}
						if !found {
							okLit = false
						}
					} else if k < st.NumFields() {
						vals[k] = text(el)
					} else {
						okLit = false
					}
				}
				if !okLit {
					continue
				}
				var ps []string
				for j := 0; j < st.NumFields(); j++ {
					ps = append(ps, "sroa_"+v.Name()+"_"+st.Field(j).Name()+" "+types.TypeString(st.Field(j).Type(), qual))
				}
				if !typeOK {
					typeOK = true
					continue
				}
				edits = append(edits, sroaEdit{off(pr.fld.Pos()), off(pr.fld.End()), strings.Join(ps, ", ")})
				edits = append(edits, sroaEdit{off(cl.Pos()), off(cl.End()), strings.Join(vals, ", ")})
				for _, se := range sels {
					edits = append(edits, sroaEdit{off(se.Pos()), off(se.End()), "sroa_" + v.Name() + "_" + se.Sel.Name})
				}
				count++
				return false // one parameter per call per pass
			}
			return true
		})
	}
	if len(edits) == 0 {
		return src, 0
	}
	sort.Slice(edits, func(i, j int) bool { return edits[i].a > edits[j].a })
	out := append([]byte{}, src...)
	last := len(out) + 1
	for _, e := range edits {
		if e.b > last {
			continue // nested inside an already replaced range
		}
		out = append(append(append([]byte{}, out[:e.a]...), e.txt...), out[e.b:]...)
		last = e.a
	}
	if os.Getenv("SFCHECK_DEBUG_SROA") != "" {
		fmt.Fprintf(os.Stderr, "sroa: %s: %d variable(s)\n", fset.Position(f.Pos()).Filename, count)
	}
	return out, count
}

func zeroText(t types.Type, typeStr func(types.Type) string) string {
	switch u := t.Underlying().(type) {
	case *types.Basic:
		switch {
		case u.Info()&types.IsString != 0:
			return typeStr(t) + "(\"\")"
		case u.Info()&types.IsBoolean != 0:
			return typeStr(t) + "(false)"
		case u.Info()&types.IsNumeric != 0:
			return typeStr(t) + "(0)"
		}
	case *types.Pointer, *types.Slice, *types.Map, *types.Chan, *types.Signature, *types.Interface:
		return "nil"
	}
	return "*new(" + typeStr(t) + ")"
}
