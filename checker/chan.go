package main

// E-CHAN: channel-operation classifier.

import (
	"fmt"
	"go/token"
	"go/types"
	"strings"

	"golang.org/x/tools/go/ssa"
)

type chanDir int

const (
	chSend chanDir = iota
	chRecv
	chClose
	chMake
)

func (d chanDir) String() string { return [...]string{"send", "recv", "close", "make"}[d] }

type chanOp struct {
	Fn    *ssa.Function
	Instr ssa.Instruction
	Dir   chanDir
	Chan  ssa.Value
	Class string // "Snowflake.offerChannel", "local:<fn>:<name>", "timer", "call:<callee>", "param:<name>", "?"
	Mode  string // unconditional | polling | timed | select (blocking select over several channels)
	Sel   *ssa.Select
	State int       // index of the select state
	Val   ssa.Value // value sent (send) / value received (recv; may be nil)
	Cap   int64     // make: constant capacity (-1 unknown)
}

// chanClass names the identity class of a channel value.
var chanClassDepth int

func chanClass(p *Prog, v ssa.Value) string {
	v0 := v
	// a channel variable captured by reference through nested closures: follow the bindings to the cell
	if ld, ok := v.(*ssa.UnOp); ok && ld.Op == token.MUL {
		if fv, okf := ld.X.(*ssa.FreeVar); okf {
			var cell ssa.Value = fv
			for i := 0; i < 6; i++ {
				f2, isFV := cell.(*ssa.FreeVar)
				if !isFV {
					break
				}
				b := freeVarBinding(f2)
				if b == nil {
					break
				}
				cell = b
			}
			if al, isAl := cell.(*ssa.Alloc); isAl {
				if sv := singleStore(al); sv != nil {
					return chanClass(p, sv)
				}
			}
		}
	}
	v = strip(v)
	if base, f, ok := fieldLoad(v); ok {
		return fieldKey(base, f)
	}
	switch x := v.(type) {
	case *ssa.MakeChan:
		return "local:" + p.FnName(x.Parent()) + ":" + localName(x)
	case *ssa.Call:
		n := calleeName(x)
		if n == "time.After" || n == "time.Tick" {
			return "timer"
		}
		// an accessor: a repository function all of whose returns hand out the same channel field
		if callee := staticCallee(x); callee != nil && callee.Blocks != nil && p.IsRepoFn(callee) && callee.Signature.Results().Len() == 1 && chanClassDepth < 3 {
			chanClassDepth++
			cls := ""
			same := true
			for _, r := range returnsOf(callee) {
				c2 := chanClass(p, r.Results[0])
				if strings.HasPrefix(c2, "call:") || strings.HasPrefix(c2, "param:") || strings.HasPrefix(c2, "local:") || c2 == "?" || c2 == "phi" || c2 == "extract" {
					same = false
				}
				if cls == "" {
					cls = c2
				} else if cls != c2 {
					same = false
				}
			}
			chanClassDepth--
			if same && cls != "" {
				return cls
			}
		}
		return "call:" + n
	case *ssa.Parameter:
		return "param:" + x.Name()
	case *ssa.FreeVar:
		if b := freeVarBinding(x); b != nil && b != v0 {
			return chanClass(p, b)
		}
		return "captured:" + x.Name()
	case *ssa.Phi:
		return "phi"
	case *ssa.Extract:
		return "extract"
	}
	// timer.C / ticker.C
	if base, f, ok := fieldLoad(v); ok && f.Name() == "C" {
		_ = base
		return "timer"
	}
	return "?"
}

func localName(mc *ssa.MakeChan) string {
	// name of the variable the channel is first bound to, if any
	if mc.Referrers() != nil {
		for _, r := range *mc.Referrers() {
			if st, ok := r.(*ssa.Store); ok {
				if a, ok := st.Addr.(*ssa.Alloc); ok {
					return a.Comment
				}
				if _, f, ok := fieldOfAddr(st.Addr); ok {
					return "field " + f.Name()
				}
			}
			if d, ok := r.(*ssa.DebugRef); ok && d.Expr != nil {
				return types.ExprString(d.Expr)
			}
		}
	}
	return mc.Name()
}

func isTimerChan(v ssa.Value) bool {
	v = strip(v)
	if c, ok := v.(*ssa.Call); ok {
		n := calleeName(c)
		return n == "time.After" || n == "time.Tick"
	}
	if _, f, ok := fieldLoad(v); ok && f.Name() == "C" && f.Pkg() != nil && f.Pkg().Path() == "time" {
		return true
	}
	return false
}

// timerDurationOf: the constant duration after which the timer channel v fires -
// time.After(d), or the C field of a timer made by time.NewTimer(d) in the same
// function (every Reset of that timer must carry the same constant). -1 if
// unknown.
func timerDurationOf(v ssa.Value) int64 {
	v = strip(v)
	if c, ok := v.(*ssa.Call); ok {
		if n := calleeName(c); n == "time.After" || n == "time.Tick" {
			if d, okd := constInt(c.Call.Args[0]); okd {
				return d
			}
		}
		return -1
	}
	base, f, ok := fieldLoad(v)
	if !ok || f.Name() != "C" {
		return -1
	}
	var d int64 = -1
	flows(base, func(w ssa.Value) bool {
		cc, _, okc := callResult(w)
		if !okc {
			return false
		}
		if n := calleeName(cc); n == "time.NewTimer" || n == "time.NewTicker" {
			if k, okk := constInt(cc.Call.Args[0]); okk {
				d = k
			}
			// a Reset with another duration changes the bound
			if cv, isV := interface{}(cc).(ssa.Value); isV && cv.Referrers() != nil {
				for _, r := range *cv.Referrers() {
					if rc, isCall := r.(ssa.CallInstruction); isCall && strings.HasSuffix(calleeName(rc), "time.Timer).Reset") {
						if k2, ok2 := constInt(rc.Common().Args[1]); !ok2 || k2 != d {
							d = -1
						}
					}
				}
			}
			return true
		}
		return false
	})
	return d
}

// chanOpsIn lists the channel operations of fn.
func chanOpsIn(p *Prog, fn *ssa.Function) []chanOp {
	var out []chanOp
	allInstrs(fn, func(in ssa.Instruction) {
		switch x := in.(type) {
		case *ssa.Send:
			out = append(out, chanOp{Fn: fn, Instr: in, Dir: chSend, Chan: x.Chan, Class: chanClass(p, x.Chan), Mode: "unconditional", Val: x.X, State: -1})
		case *ssa.UnOp:
			if x.Op == token.ARROW {
				out = append(out, chanOp{Fn: fn, Instr: in, Dir: chRecv, Chan: x.X, Class: chanClass(p, x.X), Mode: "unconditional", Val: x, State: -1})
			}
		case *ssa.Select:
			mode := "select"
			if !x.Blocking {
				mode = "polling"
			} else {
				for _, st := range x.States {
					if st.Dir == types.RecvOnly && isTimerChan(st.Chan) {
						mode = "timed"
					}
				}
			}
			recvIdx := 0
			for i, st := range x.States {
				op := chanOp{Fn: fn, Instr: in, Chan: st.Chan, Class: chanClass(p, st.Chan), Mode: mode, Sel: x, State: i}
				if st.Dir == types.SendOnly {
					op.Dir = chSend
					op.Val = st.Send
				} else {
					op.Dir = chRecv
					// received value: Extract(select, 2+recvIdx)
					if x.Referrers() != nil {
						for _, r := range *x.Referrers() {
							if e, ok := r.(*ssa.Extract); ok && e.Index == 2+recvIdx {
								op.Val = e
							}
						}
					}
					recvIdx++
				}
				out = append(out, op)
			}
		case *ssa.MakeChan:
			cp := int64(-1)
			if k, ok := constInt(x.Size); ok {
				cp = k
			}
			out = append(out, chanOp{Fn: fn, Instr: in, Dir: chMake, Chan: x, Class: chanClass(p, x), Cap: cp, State: -1})
		case ssa.CallInstruction:
			if calleeName(x) == "builtin.close" {
				ch := x.Common().Args[0]
				out = append(out, chanOp{Fn: fn, Instr: in, Dir: chClose, Chan: ch, Class: chanClass(p, ch), Mode: "unconditional", State: -1})
			}
		}
	})
	return out
}

// makeClass: for MakeChan stored into a struct field, the class is the field.
func makeChanFieldClass(mc *ssa.MakeChan) string {
	if mc.Referrers() == nil {
		return ""
	}
	for _, r := range *mc.Referrers() {
		if st, ok := r.(*ssa.Store); ok && st.Val == ssa.Value(mc) {
			if base, f, ok := fieldOfAddr(st.Addr); ok {
				return fieldKey(base, f)
			}
		}
	}
	return ""
}

// selectCaseEdge returns the CFG edge taken when state `idx` of sel fires.
// go/ssa lowers a select into a chain of `if index == k` tests.
func selectCaseEdge(sel *ssa.Select, idx int) (Edge, bool) {
	fn := sel.Parent()
	var idxVal ssa.Value
	if sel.Referrers() != nil {
		for _, r := range *sel.Referrers() {
			if e, ok := r.(*ssa.Extract); ok && e.Index == 0 {
				idxVal = e
			}
		}
	}
	if idxVal == nil {
		return Edge{}, false
	}
	edges := condEdges(fn, true, func(a Atom) bool {
		if a.Op != token.EQL {
			return false
		}
		if a.X == idxVal {
			k, ok := constInt(a.Y)
			return ok && int(k) == idx
		}
		if a.Y == idxVal {
			k, ok := constInt(a.X)
			return ok && int(k) == idx
		}
		return false
	})
	if len(edges) == 1 {
		return edges[0], true
	}
	return Edge{}, false
}

// selectDefaultEdge: the edge taken when no state of a polling select fires
// (index == -1): the false edge of the last `index == k` test.
func selectCaseBlock(sel *ssa.Select, idx int) *ssa.BasicBlock {
	if e, ok := selectCaseEdge(sel, idx); ok {
		return e.To()
	}
	return nil
}

func (op chanOp) String() string {
	return fmt.Sprintf("%s %s [%s]", op.Dir, op.Class, op.Mode)
}
