package main

import (
	"fmt"
	"go/token"
	"go/types"
	"strings"

	"golang.org/x/tools/go/ssa"
)

func init() {
	register("C12", propMeta{
		Explanation: "Types + E-GUARD + E-PROV + E-CONST + E-PANIC on common/messages and common/bridgefingerprint. O-1 one schema per message: for each of the six messages the Go type handed to json.Marshal by the encoder is the struct type the decoder unmarshals into (a *T of that T, not a pointer to a pointer, so JSON null cannot leave a nil message), and the client messages share the ClientVersion framing. O-2 success only through the validations: a nil-error return of each decoder is reachable only through the certifying edge of each validation - major version == \"1\" (proxy poll, answer), first line == ClientVersion and two parts present (client poll), Sid != \"\", Answer != \"\", Offer != \"\", NAT in the accepted set, FingerprintFromHexString err == nil, fingerprint length in {20, 32} with FingerprintFromHexString returning nothing but FingerprintFromBytes' verdict, Status != \"\", 'client match' implies Offer != \"\", not (Error == \"\" and Answer == \"\"). O-3 defaults: absent NAT maps to unknown, absent fingerprint to the default bridge fingerprint (same constant in encoder and decoder, equal to the fingerprint of the broker's built-in bridge line), unrecognised proxy type to ProxyUnknown, relay-pattern awareness is AcceptedRelayPattern != nil. O-4 no termination construct in the two packages (strings.Split(...)[0] is a table row). O-5 fields travel verbatim: every encoder stores its parameters unmodified into the message struct and every decoder returns the decoded fields unmodified apart from the documented defaults. Added after the second seeding round: O-3 DecodePollResponseWithRelayURL hands on \"unknown\" for an absent NAT type on every success return (the raw field may be returned only behind its != \"\" edge); the NAT vocabulary test may live in a same-package helper that receives the NAT field; success returns are identified by may-be-nil analysis of the error result rather than by a literal nil. Added after the third seeding round: a fixed-size buffer handed to hex.Decode is sized from the input (DecodedLen) or the input length is tested first. Added after the fourth seeding round: O-4 also covers constant indexes into strings and slices without a length-establishing edge and methods invoked on possibly-nil errors; O-6 no package-level state in the message codecs (a shared output buffer, a pooled record that is only half reset). Added after the fifth seeding round: O-1 the encoders produce their bytes with encoding/json only (no Sprintf/%q or strconv quoting); the two-parts validation may be an index test. Added after the sixth seeding round and the mutation audit: O-8 the format argument of every printf-style call in the message packages is a constant; O-9 a (value, error) call whose value is used has its error used too (hex.DecodeString returning a valid prefix). O-10 a failure branch never runs on into the code for the successful case.",
		NotDecided:  "JSON fidelity for arbitrary strings and integer ranges (encoding/json, trusted), round-trip equality as a value-level statement.",
		Assumptions: []string{"encoding/json round-trips exported fields of a struct type through the same struct type"},
	}, runC12)
}

type msgPair struct {
	name     string
	enc, dec string
	typ      string
}

var msgPairs = []msgPair{
	{"proxy poll request", "EncodeProxyPollRequestWithRelayPrefix", "DecodeProxyPollRequestWithRelayPrefix", "ProxyPollRequest"},
	{"proxy poll response", "EncodePollResponseWithRelayURL", "DecodePollResponseWithRelayURL", "ProxyPollResponse"},
	{"proxy answer request", "EncodeAnswerRequest", "DecodeAnswerRequest", "ProxyAnswerRequest"},
	{"proxy answer response", "EncodeAnswerResponse", "DecodeAnswerResponse", "ProxyAnswerResponse"},
	{"client poll request", "(*ClientPollRequest).EncodeClientPollRequest", "DecodeClientPollRequest", "ClientPollRequest"},
	{"client poll response", "(*ClientPollResponse).EncodePollResponse", "DecodeClientPollResponse", "ClientPollResponse"},
}

func runC12(c *Ctx) {
	p := c.P
	msgs := p.FnsIn("common/messages", "common/bridgefingerprint")
	for _, fn := range msgs {
		c.analysedFn(p.FnName(fn))
	}
	// the texts a message carries (status, error, answer) are passed on as they are
	c.checkNoDataAsFormat("O-8 message text is never a format string", msgs)
	c.checkDecodeErrorsConsumed("O-9 a decoding step's error is part of the verdict", msgs)
	c.checkErrorBranchesLeave("O-10 a failed step ends the function", msgs)
	// ---------- O-1 ----------
	rule1 := "O-1 one schema per message"
	for _, mp := range msgPairs {
		enc, dec := p.Fn("common/messages", mp.enc), p.Fn("common/messages", mp.dec)
		T := p.Type("common/messages", mp.typ)
		if enc == nil || dec == nil || T == nil {
			c.undecided(rule1, mp.name, "-", "encoder, decoder or message type does not resolve")
			continue
		}
		okEnc, okDec := false, true
		nM, nU := 0, 0
		for _, ci := range callsTo(enc, "encoding/json.Marshal") {
			nM++
			bt := boxedType(ci.Common().Args[0])
			if bt != nil {
				if pt, ok := bt.(*types.Pointer); ok {
					bt = pt.Elem()
				}
				okEnc = types.Identical(bt, T)
			}
		}
		for _, ci := range callsTo(dec, "encoding/json.Unmarshal") {
			nU++
			bt := boxedType(ci.Common().Args[1])
			pt, ok := bt.(*types.Pointer)
			if !ok || !types.Identical(pt.Elem(), T) {
				okDec = false
			}
		}
		c.check(okEnc && nM >= 1, rule1, mp.name+": encoder marshals "+mp.typ, p.Pos(enc.Pos()), "", "the encoder does not marshal the message struct the decoder expects")
		c.check(okDec && nU == 1, rule1, mp.name+": decoder unmarshals into a "+mp.typ+" value", p.Pos(dec.Pos()), "", "the decoder unmarshals into something other than a *"+mp.typ+" of a struct value (e.g. a pointer to a pointer, which JSON null leaves nil and the following field access dereferences)")
	}
	// framing
	cv := p.Const("common/messages", "ClientVersion")
	c.check(cv != nil && cv.Val().ExactString() == `"1.0"`, rule1, "ClientVersion == \"1.0\"", "-", "", "client framing version changed")

	// ---------- O-2 ----------
	c.checkDecoderValidations()

	// ---------- O-3 ----------
	c.checkMessageDefaults()
	// encoders and decoders build every message in memory of their own: bytes handed out do not share a
	// package-level buffer with the next message, and a decoded record does not come out of a pool half reset
	c.checkNoSharedState("O-6 no package-level state in the message codecs", "common/messages", msgs)
	// every encoder produces its bytes with encoding/json (Go's %q and strconv quoting are not JSON quoting: a
	// control character in a field yields bytes the decoder rejects)
	{
		ruleJ := "O-1 one schema per message"
		nEnc, bad := 0, 0
		for _, fn := range msgs {
			if !strings.Contains(fn.Name(), "Encode") {
				continue
			}
			nEnc++
			for _, ci := range callsIn(fn) {
				switch n := calleeName(ci); {
				case n == "fmt.Sprintf" || n == "fmt.Sprint" || n == "fmt.Fprintf" || strings.HasPrefix(n, "strconv.Quote") || strings.HasPrefix(n, "strconv.AppendQuote"):
					bad++
					c.viol(ruleJ, p.FnName(fn)+" builds its message with "+n, p.instrPos(ci), "the encoder formats JSON by hand: strings with control or non-printable characters are quoted in Go syntax, which encoding/json (the decoder) does not accept")
				}
			}
		}
		if bad == 0 {
			c.ok(ruleJ, "encoders build their bytes with encoding/json only", "-", fmt.Sprintf("%d encoder function(s), no hand-formatted JSON", nEnc))
		}
	}

	// ---------- O-4 ----------
	rule4 := "O-4 no termination construct in the message codecs"
	var entries []*ssa.Function
	for _, fn := range msgs {
		if fn.Parent() == nil {
			entries = append(entries, fn)
		}
	}
	reached := c.checkTerminators(rule4, entries, nil)
	c.checkConstIndexes(rule4+" (indexes)", reached)
	{
		var own []*ssa.Function
		for _, fn := range reached {
			if p.IsRepoFn(fn) && fn.Blocks != nil {
				own = append(own, fn)
			}
		}
		c.checkConstIndexGuardsOpt(rule4+" (constant indexes into strings and slices)", own, false)
		c.checkNilErrorInvokes(rule4+" (methods of possibly-nil errors)", own)
	}
	// Decode into a caller-supplied buffer panics (index out of range) when the buffer is shorter than the
	// decoded input: the buffer must be sized from the input (DecodedLen), or the allocating DecodeString used
	for _, fn := range reached {
		for _, ci := range callsIn(fn) {
			n := calleeName(ci)
			if n != "encoding/hex.Decode" && n != "(*encoding/base64.Encoding).Decode" && n != "(*encoding/base32.Encoding).Decode" {
				continue
			}
			args := ci.Common().Args
			dst := args[len(args)-2]
			sized := false
			flows(dst, func(v ssa.Value) bool {
				if ms, ok := v.(*ssa.MakeSlice); ok {
					sized = flows(ms.Len, func(w ssa.Value) bool {
						cc, _, okc := callResult1(w)
						return okc && strings.HasSuffix(calleeName(cc), "DecodedLen")
					})
					return true
				}
				return false
			})
			c.check(sized, rule4, p.FnName(fn)+" decodes into a buffer sized from the input", p.instrPos(ci), "", "the destination of Decode is not sized with DecodedLen of the input (a fixed-size buffer): a longer well-formed input makes the decoder index out of range and the request handler panics instead of returning an error")
		}
	}
	c.okTrivial(rule4, fmt.Sprintf("%d functions examined", len(reached)), "-", "")

	// ---------- O-5 ----------
	rule5 := "O-5 fields travel verbatim"
	c.verbatimResult(rule5, "common/messages", "DecodeProxyPollRequestWithRelayPrefix", 0, "Sid")
	c.verbatimResult(rule5, "common/messages", "DecodeProxyPollRequestWithRelayPrefix", 3, "Clients")
	c.verbatimResult(rule5, "common/messages", "DecodeAnswerRequest", 1, "Sid")
	c.verbatimResult(rule5, "common/messages", "DecodeAnswerRequest", 0, "Answer")
	c.verbatimResult(rule5, "common/messages", "DecodePollResponseWithRelayURL", 2, "RelayURL")
	// encoders store parameters unmodified
	for _, w := range []struct {
		fn     string
		fields map[string]int // field -> parameter index
	}{
		{"EncodeProxyPollRequestWithRelayPrefix", map[string]int{"Sid": 0, "Type": 1, "NAT": 2, "Clients": 3}},
		{"EncodeAnswerRequest", map[string]int{"Answer": 0, "Sid": 1}},
		{"EncodePollResponseWithRelayURL", map[string]int{"Offer": 0, "NAT": 2, "RelayURL": 3}},
	} {
		fn := p.Fn("common/messages", w.fn)
		if fn == nil {
			c.undecided(rule5, "common/messages."+w.fn, "-", "anchor does not resolve")
			continue
		}
		bad := ""
		seen := map[string]bool{}
		allInstrs(fn, func(in ssa.Instruction) {
			st, ok := in.(*ssa.Store)
			if !ok {
				return
			}
			_, f, okf := fieldOfAddr(st.Addr)
			if !okf {
				return
			}
			idx, want := w.fields[f.Name()]
			if !want {
				return
			}
			seen[f.Name()] = true
			if st.Val != ssa.Value(fn.Params[idx]) {
				bad += f.Name() + " "
			}
		})
		for f := range w.fields {
			if !seen[f] {
				bad += f + "(not set) "
			}
		}
		c.check(bad == "", rule5, "common/messages."+w.fn+" stores its parameters unmodified", p.Pos(fn.Pos()), "", "field(s) "+bad+"are computed from, rather than equal to, the encoder's arguments: decoding an encoded message does not return the original value")
	}
}

func (c *Ctx) checkDecoderValidations() {
	p := c.P
	rule := "O-2 success only through the validations"
	fieldEq := func(fn *ssa.Function, field, val string, want bool) []Edge {
		return condEdges(fn, want, func(a Atom) bool {
			if a.Op != token.EQL {
				return false
			}
			s, ok := constString(a.Y)
			_, f, okf := fieldLoad(a.X)
			if !ok || !okf {
				s, ok = constString(a.X)
				_, f, okf = fieldLoad(a.Y)
			}
			return ok && okf && s == val && f.Name() == field
		})
	}
	success := func(fn *ssa.Function) []*ssa.Return {
		var out []*ssa.Return
		ei := errResultIndex(fn.Signature)
		for _, r := range returnsOf(fn) {
			if retMayBeNil(r, ei) {
				out = append(out, r)
			}
		}
		return out
	}
	require := func(fn *ssa.Function, what string, edges []Edge) {
		rets := success(fn)
		if len(rets) == 0 {
			c.undecided(rule, p.FnName(fn)+": "+what, p.Pos(fn.Pos()), "no success return found")
			return
		}
		for _, r := range rets {
			path := successReachableWithout(fn, r, errResultIndex(fn.Signature), edges)
			c.check(len(edges) > 0 && path == nil, rule, p.FnName(fn)+": "+what, p.instrPos(r), "", "the decoder can succeed without this validation having held: a message the protocol forbids is accepted", p.pathString(path)...)
		}
	}
	majorV1 := func(fn *ssa.Function) []Edge {
		return condEdges(fn, true, func(a Atom) bool {
			if a.Op != token.EQL {
				return false
			}
			s, ok := constString(a.Y)
			if !ok || s != "1" {
				return false
			}
			// strings.Split(message.Version, ".")[0]
			return flows(a.X, func(v ssa.Value) bool {
				cc, _, okc := callResult(v)
				return okc && calleeName(cc) == "strings.Split"
			})
		})
	}
	if fn := p.Fn("common/messages", "DecodeProxyPollRequestWithRelayPrefix"); fn != nil {
		require(fn, "major version == 1", majorV1(fn))
		require(fn, "Sid != \"\"", fieldEq(fn, "Sid", "", false))
	} else {
		c.undecided(rule, "DecodeProxyPollRequestWithRelayPrefix", "-", "anchor does not resolve")
	}
	if fn := p.Fn("common/messages", "DecodeAnswerRequest"); fn != nil {
		require(fn, "major version == 1", majorV1(fn))
		require(fn, "Sid != \"\"", fieldEq(fn, "Sid", "", false))
		require(fn, "Answer != \"\"", fieldEq(fn, "Answer", "", false))
	} else {
		c.undecided(rule, "DecodeAnswerRequest", "-", "anchor does not resolve")
	}
	if fn := p.Fn("common/messages", "DecodeClientPollRequest"); fn != nil {
		require(fn, "Offer != \"\"", fieldEq(fn, "Offer", "", false))
		// version line
		ver := condEdges(fn, true, func(a Atom) bool {
			if a.Op != token.EQL {
				return false
			}
			s, ok := constString(a.Y)
			return ok && s == "1.0"
		})
		require(fn, "first line == ClientVersion", ver)
		two := condEdges(fn, false, func(a Atom) bool {
			if a.Op != token.LSS {
				return false
			}
			k, ok := constInt(a.Y)
			cc, _, okc := callResult(a.X)
			return ok && k == 2 && okc && calleeName(cc) == "builtin.len"
		})
		// or: the position of the first newline was found (IndexByte/Index >= 0, != -1), or Cut's found flag
		isIdx := func(v ssa.Value) bool {
			cc, _, okc := callResult(v)
			if !okc {
				return false
			}
			switch calleeName(cc) {
			case "bytes.IndexByte", "bytes.Index", "bytes.IndexRune", "strings.IndexByte", "strings.Index":
				return true
			}
			return false
		}
		two = append(two, cmpEdges(fn, ">=", isIdx, func(v ssa.Value) bool { k, ok := constInt(v); return ok && k == 0 })...)
		two = append(two, cmpEdges(fn, ">", isIdx, func(v ssa.Value) bool { k, ok := constInt(v); return ok && k == -1 })...)
		two = append(two, condEdges(fn, false, func(a Atom) bool {
			if a.Op != token.EQL {
				return false
			}
			k, ok := constInt(a.Y)
			return ok && k == -1 && isIdx(a.X)
		})...)
		two = append(two, boolEdges(fn, true, func(v ssa.Value) bool {
			cc, i, okc := callResult(v)
			return okc && (calleeName(cc) == "bytes.Cut" || calleeName(cc) == "strings.Cut") && i == 2
		})...)
		require(fn, "version line and body both present", two)
		var fh *ssa.Call
		for _, ci := range callsTo(fn, "common/bridgefingerprint.FingerprintFromHexString") {
			fh, _ = ci.(*ssa.Call)
		}
		if fh != nil {
			require(fn, "FingerprintFromHexString err == nil", errNilEdges(fn, fh, 1))
			_, f, okf := fieldLoad(fh.Call.Args[0])
			c.check(okf && f.Name() == "Fingerprint", rule, "DecodeClientPollRequest validates the message's own fingerprint", p.instrPos(fh), "", "the fingerprint validated is not the message's")
		} else {
			c.viol(rule, "DecodeClientPollRequest validates the fingerprint", p.Pos(fn.Pos()), "no FingerprintFromHexString call")
		}
	} else {
		c.undecided(rule, "DecodeClientPollRequest", "-", "anchor does not resolve")
	}
	if fn := p.Fn("common/messages", "DecodeClientPollResponse"); fn != nil {
		// !(Error == "" && Answer == ""): success needs Error != "" or Answer != ""
		e := append(fieldEq(fn, "Error", "", false), fieldEq(fn, "Answer", "", false)...)
		require(fn, "not (Error == \"\" and Answer == \"\")", e)
	}
	if fn := p.Fn("common/messages", "DecodePollResponseWithRelayURL"); fn != nil {
		require(fn, "Status != \"\"", fieldEq(fn, "Status", "", false))
		// client match => Offer != ""
		e := append(fieldEq(fn, "Status", "client match", false), fieldEq(fn, "Offer", "", false)...)
		require(fn, "'client match' implies Offer != \"\"", e)
	}
	if fn := p.Fn("common/messages", "DecodeAnswerResponse"); fn != nil {
		require(fn, "Status != \"\"", fieldEq(fn, "Status", "", false))
	}
	// fingerprints
	if fb := p.Fn("common/bridgefingerprint", "FingerprintFromBytes"); fb != nil {
		var lenCall ssa.Value
		for _, ci := range callsTo(fb, "builtin.len") {
			lenCall = ci.(*ssa.Call)
		}
		okLen := condEdges(fb, true, func(a Atom) bool {
			k, ok := constInt(a.Y)
			return a.Op == token.EQL && ok && (k == 20 || k == 32) && a.X == lenCall
		})
		set := map[int64]bool{}
		condEdges(fb, true, func(a Atom) bool {
			if k, ok := constInt(a.Y); ok && a.Op == token.EQL && a.X == lenCall {
				set[k] = true
			}
			return false
		})
		require(fb, "length is 20 or 32", okLen)
		c.check(len(set) == 2 && set[20] && set[32], rule, "FingerprintFromBytes accepts exactly the lengths {20, 32}", p.Pos(fb.Pos()), "", fmt.Sprintf("accepted lengths %v", set))
		if fh := p.Fn("common/bridgefingerprint", "FingerprintFromHexString"); fh != nil {
			bad := false
			n := 0
			for _, r := range returnsOf(fh) {
				// the forwarded verdict of FingerprintFromBytes (value and error of one call)
				if cc, i, ok := callResult(retVal(r, 1)); ok && staticCallee(cc) == fb && i == 1 && isResultOfCall(retVal(r, 0), cc, 0) {
					n++
					continue
				}
				if !retMayBeNil(r, 1) {
					// an error return (hex decoding failed)
					continue
				}
				bad = true
				c.viol(rule, "FingerprintFromHexString returns nothing but FingerprintFromBytes' verdict", p.instrPos(r), "a fingerprint is accepted without the exact 20-or-32-byte length check")
			}
			if !bad {
				c.check(n >= 1, rule, "FingerprintFromHexString returns nothing but FingerprintFromBytes' verdict", p.Pos(fh.Pos()), "", "the hex-string constructor does not go through FingerprintFromBytes")
			}
		}
	} else {
		c.undecided(rule, "FingerprintFromBytes", "-", "anchor does not resolve")
	}
}

func (c *Ctx) checkMessageDefaults() {
	p := c.P
	rule := "O-3 defaults"
	// the poll response decoder hands an absent NAT type on as "unknown" on every success path
	if fn := p.Fn("common/messages", "DecodePollResponseWithRelayURL"); fn != nil {
		isRawNAT := func(v ssa.Value) bool { _, f, ok := fieldLoad(v); return ok && f.Name() == "NAT" }
		ne := condEdges(fn, false, func(a Atom) bool {
			if a.Op != token.EQL {
				return false
			}
			if s, ok := constString(a.Y); ok && s == "" && isRawNAT(a.X) {
				return true
			}
			s, ok := constString(a.X)
			return ok && s == "" && isRawNAT(a.Y)
		})
		bad := 0
		n := 0
		ei := errResultIndex(fn.Signature)
		for _, r := range returnsOf(fn) {
			if ei < 0 || len(r.Results) < 2 || !retMayBeNil(r, ei) {
				continue
			}
			n++
			// result 1 is the NAT type: may it be the raw field while that field is ""?
			seen := map[ssa.Value]bool{}
			var may func(v ssa.Value, at, to *ssa.BasicBlock) bool
			may = func(v ssa.Value, at, to *ssa.BasicBlock) bool {
				if ph, ok := v.(*ssa.Phi); ok {
					if seen[v] {
						return false
					}
					seen[v] = true
					for i, e := range ph.Edges {
						if may(e, ph.Block().Preds[i], ph.Block()) {
							return true
						}
					}
					return false
				}
				if s, ok := constString(v); ok {
					return s == ""
				}
				if !isRawNAT(v) {
					return false
				}
				if to != nil {
					for _, e := range ne {
						if e.From == at && e.To() == to {
							return false
						}
					}
				}
				return len(ne) == 0 || psSearch(fn.Blocks[0], ne, nil, func(b *ssa.BasicBlock) bool { return b == at }) != nil
			}
			if may(retVal(r, 1), r.Block(), nil) {
				bad++
				c.viol(rule, "DecodePollResponseWithRelayURL maps an absent NAT type to unknown", p.instrPos(r), "a success return can hand on the raw NAT field while it is empty: the proxy is told \"\" instead of \"unknown\"")
			}
		}
		if bad == 0 {
			c.check(n > 0, rule, "DecodePollResponseWithRelayURL maps an absent NAT type to unknown", p.Pos(fn.Pos()), fmt.Sprintf("%d success return(s)", n), "no success return found")
		}
	} else {
		c.undecided(rule, "messages.DecodePollResponseWithRelayURL", "-", "anchor does not resolve")
	}
	// NAT -> unknown: C03's check on both decoders
	for _, d := range []string{"DecodeProxyPollRequestWithRelayPrefix", "DecodeClientPollRequest"} {
		c.checkNATSwitch(rule, "common/messages", d)
	}
	// default fingerprint
	dfp := p.Const("common/messages", "defaultBridgeFingerprint")
	if dfp == nil {
		c.undecided(rule, "messages.defaultBridgeFingerprint", "-", "constant does not resolve")
	} else {
		val := strings.Trim(dfp.Val().ExactString(), `"`)
		// broker's built-in bridge line contains the same fingerprint
		brokerOK := false
		if nb := p.Fn("broker", "NewBrokerContext"); nb != nil {
			allInstrs(nb, func(in ssa.Instruction) {
				for _, op := range in.Operands(nil) {
					if op != nil && *op != nil {
						if s, ok := constString(*op); ok && strings.Contains(s, `"fingerprint":"`+val+`"`) {
							brokerOK = true
						}
					}
				}
			})
		}
		c.check(brokerOK && len(val) == 40, rule, "default fingerprint equals the broker's built-in bridge", p.Pos(dfp.Pos()), val, "the default bridge fingerprint assumed for clients that name none is not the fingerprint of the broker's built-in bridge line")
		for _, fnName := range []string{"(*ClientPollRequest).EncodeClientPollRequest", "DecodeClientPollRequest"} {
			fn := p.Fn("common/messages", fnName)
			if fn == nil {
				c.undecided(rule, "common/messages."+fnName, "-", "anchor does not resolve")
				continue
			}
			emptyFP := condEdges(fn, true, func(a Atom) bool {
				s, ok := constString(a.Y)
				_, f, okf := fieldLoad(a.X)
				return a.Op == token.EQL && ok && s == "" && okf && f.Name() == "Fingerprint"
			})
			ok := false
			allInstrs(fn, func(in ssa.Instruction) {
				st, isSt := in.(*ssa.Store)
				if !isSt {
					return
				}
				if _, f, okf := fieldOfAddr(st.Addr); okf && f.Name() == "Fingerprint" {
					s, isC := constString(st.Val)
					ok = isC && s == val && len(emptyFP) > 0 && reachableWithout(fn, st, emptyFP) == nil
					if ph, isPhi := strip(st.Val).(*ssa.Phi); isPhi && len(emptyFP) > 0 {
						// value-selecting form: the default behind the empty edge, the field itself otherwise
						sawDefault, good := false, true
						for i, e := range ph.Edges {
							pred := ph.Block().Preds[i]
							last := pred.Instrs[len(pred.Instrs)-1]
							if s, isC := constString(strip(e)); isC {
								if s != val || reachableWithout(fn, last, emptyFP) != nil {
									good = false
								}
								sawDefault = true
							} else if _, f2, okf2 := fieldLoad(e); okf2 && f2.Name() == "Fingerprint" {
								for _, ed := range emptyFP {
									if ed.To() == pred || reachPath(ed.To(), pred, nil) != nil {
										good = false
									}
								}
							} else {
								good = false
							}
						}
						ok = good && sawDefault
					}
				}
			})
			c.check(ok, rule, "common/messages."+fnName+" defaults an absent fingerprint to the default bridge", p.Pos(fn.Pos()), "", "an absent fingerprint is not replaced by defaultBridgeFingerprint exactly on the empty edge")
		}
	}
	// proxy type, relay pattern awareness
	if fn := p.Fn("common/messages", "DecodeProxyPollRequestWithRelayPrefix"); fn != nil {
		okType := false
		known := boolEdges(fn, false, func(v ssa.Value) bool {
			lk, ok := v.(*ssa.Lookup)
			if !ok {
				return false
			}
			addr, okl := loadAddr(lk.X)
			g, okg := addr.(*ssa.Global)
			return okl && okg && g.Name() == "KnownProxyTypes"
		})
		isKnownLookup := func(v ssa.Value) bool {
			lk, ok := v.(*ssa.Lookup)
			if !ok {
				return false
			}
			addr, okl := loadAddr(lk.X)
			g, okg := addr.(*ssa.Global)
			return okl && okg && g.Name() == "KnownProxyTypes"
		}
		knownTrue := boolEdges(fn, true, isKnownLookup)
		allInstrs(fn, func(in ssa.Instruction) {
			if st, ok := in.(*ssa.Store); ok {
				if _, f, okf := fieldOfAddr(st.Addr); okf && f.Name() == "Type" {
					s, isC := constString(st.Val)
					okType = isC && s == "unknown" && len(known) > 0 && reachableWithout(fn, st, known) == nil
					if !okType && len(known) > 0 {
						// the new value chosen by a branch: "unknown" where the type is not known, the field's own
						// value where it is
						all, sawUnknown := true, false
						for _, leaf := range valueLeaves(strip(st.Val), st) {
							at := leaf.At
							if at == nil {
								at = st
							}
							if ls, isK := constString(leaf.V); isK {
								if ls != "unknown" || reachableWithout(fn, at, known) != nil {
									all = false
								}
								sawUnknown = true
								continue
							}
							if _, lf, okl := fieldLoad(leaf.V); okl && lf.Name() == "Type" && len(knownTrue) > 0 && reachableWithout(fn, at, knownTrue) == nil {
								continue
							}
							all = false
						}
						okType = all && sawUnknown
					}
				}
			}
		})
		c.check(okType, rule, "an unrecognised proxy type becomes ProxyUnknown", p.Pos(fn.Pos()), "", "the proxy type is rewritten other than 'not in KnownProxyTypes -> unknown'")
		// awareness flag = AcceptedRelayPattern != nil
		okAware := false
		for _, r := range returnsOf(fn) {
			if len(r.Results) < 7 || !retMayBeNil(r, 6) {
				continue
			}
			isARP := func(v ssa.Value) bool { _, f, okf := fieldLoad(v); return okf && f.Name() == "AcceptedRelayPattern" }
			a, pos := normCond(retVal(r, 5))
			if a.Op == token.EQL && !pos {
				okAware = isARP(a.X) && isNilConst(a.Y)
			} else if ph, isPhi := retVal(r, 5).(*ssa.Phi); isPhi && phiOfCompareAndErrorPaths(ph, func(v ssa.Value) bool {
				a2, pos2 := normCond(v)
				return a2.Op == token.EQL && !pos2 && isARP(a2.X) && isNilConst(a2.Y)
			}) {
				// the comparison itself on the success path, merged with placeholders of the error paths
				okAware = true
			} else if ph, isPhi := retVal(r, 5).(*ssa.Phi); isPhi {
				// a flag set on the two edges of the nil test: true exactly behind != nil, false exactly behind == nil
				present := nilCheckEdges(fn, false, isARP)
				absent := nilCheckEdges(fn, true, isARP)
				okAware = len(present) > 0 && len(absent) > 0
				for i, e := range ph.Edges {
					cst, isC := e.(*ssa.Const)
					if !isC || cst.Value == nil {
						okAware = false
						continue
					}
					cert := absent
					if cst.Value.String() == "true" {
						cert = present
					}
					pred := ph.Block().Preds[i]
					viaCert := false
					for _, ce := range cert {
						if ce.From == pred && ce.To() == ph.Block() {
							viaCert = true
						}
					}
					if !viaCert && psSearch(fn.Blocks[0], cert, nil, func(b *ssa.BasicBlock) bool { return b == pred }) != nil {
						okAware = false
					}
				}
			}
		}
		c.check(okAware, rule, "relay-pattern awareness is AcceptedRelayPattern != nil", p.Pos(fn.Pos()), "", "the 'supports relay pattern' flag is not derived from the presence of the field")
	}
}

// phiOfCompareAndErrorPaths: every incoming value of ph is either a value
// satisfying isCmp, or a constant that arrives over an edge on which an error
// phi of the same block receives a value that cannot be nil (the results of a
// flattened helper: placeholders on its error returns, the real value on its
// success return).
func phiOfCompareAndErrorPaths(ph *ssa.Phi, isCmp func(ssa.Value) bool) bool {
	var errPhis []*ssa.Phi
	for _, in := range ph.Block().Instrs {
		p2, ok := in.(*ssa.Phi)
		if !ok {
			break
		}
		if p2.Type().String() == "error" {
			errPhis = append(errPhis, p2)
		}
	}
	sawCmp := false
	for i, e := range ph.Edges {
		if isCmp(e) {
			sawCmp = true
			continue
		}
		if _, isC := e.(*ssa.Const); !isC {
			if p3, isPhi := e.(*ssa.Phi); isPhi && phiOfCompareAndErrorPaths(p3, isCmp) {
				sawCmp = true
				continue
			}
			return false
		}
		onErr := false
		for _, ep := range errPhis {
			if i >= len(ep.Edges) {
				continue
			}
			ev := ep.Edges[i]
			if definitelyNonNil(ev) {
				onErr = true
				continue
			}
			// an error value that was tested: the edge is taken only behind "ev != nil"
			fn := ph.Parent()
			nonNil := nilCheckEdges(fn, false, func(w ssa.Value) bool { return w == ev })
			pred := ph.Block().Preds[i]
			if len(nonNil) > 0 && len(pred.Instrs) > 0 && reachableWithout(fn, pred.Instrs[len(pred.Instrs)-1], nonNil) == nil {
				onErr = true
			}
		}
		if !onErr {
			return false
		}
	}
	return sawCmp
}
