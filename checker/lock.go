package main

// E-LOCK: flow-sensitive must-lockset over SSA with interprocedural entry
// locksets (intersection over call sites) and wrapper summaries.
//
// Locks are named by (owner type, field) of the mutex, e.g. "Metrics.lock".
// Instances are not distinguished (type-based naming; see DESIGN.md section 6).

import (
	"go/types"
	"sort"
	"strings"

	"golang.org/x/tools/go/ssa"
)

const (
	heldNone  = 0
	heldRead  = 1
	heldWrite = 2
)

// lockSet is a must-held set; top is the neutral element of intersection.
type lockSet struct {
	top bool
	m   map[string]int
}

func topSet() lockSet   { return lockSet{top: true} }
func emptySet() lockSet { return lockSet{m: map[string]int{}} }

func (s lockSet) clone() lockSet {
	if s.top {
		return topSet()
	}
	m := make(map[string]int, len(s.m))
	for k, v := range s.m {
		m[k] = v
	}
	return lockSet{m: m}
}

func (s lockSet) meet(o lockSet) lockSet {
	if s.top {
		return o.clone()
	}
	if o.top {
		return s.clone()
	}
	r := emptySet()
	for k, v := range s.m {
		if w, ok := o.m[k]; ok {
			if w < v {
				v = w
			}
			r.m[k] = v
		}
	}
	return r
}

func (s lockSet) equal(o lockSet) bool {
	if s.top != o.top {
		return false
	}
	if len(s.m) != len(o.m) {
		return false
	}
	for k, v := range s.m {
		if o.m[k] != v {
			return false
		}
	}
	return true
}

func (s lockSet) mode(key string) int {
	if s.top {
		return heldWrite
	}
	return s.m[key]
}

func (s lockSet) String() string {
	if s.top {
		return "{T}"
	}
	var ks []string
	for k, v := range s.m {
		if v == heldRead {
			k += "(r)"
		}
		ks = append(ks, k)
	}
	sort.Strings(ks)
	return "{" + strings.Join(ks, ",") + "}"
}

type lockOpKind int

const (
	opNone lockOpKind = iota
	opLock
	opRLock
	opUnlock
	opRUnlock
)

// lockKeyOf names the mutex denoted by pointer value v.
func lockKeyOf(v ssa.Value) string {
	v0 := v
	// pointer-typed mutex field: load of &x.f
	if addr, ok := loadAddr(v); ok {
		if base, f, ok := fieldOfAddr(addr); ok {
			return fieldKey(base, f)
		}
		if g, ok := addr.(*ssa.Global); ok {
			return "global:" + g.Pkg.Pkg.Name() + "." + g.Name()
		}
	}
	if base, f, ok := fieldOfAddr(v); ok {
		return fieldKey(base, f)
	}
	if g, ok := v.(*ssa.Global); ok {
		return "global:" + g.Pkg.Pkg.Name() + "." + g.Name()
	}
	if fv, ok := v.(*ssa.FreeVar); ok {
		if b := freeVarBinding(fv); b != nil && b != v0 {
			return lockKeyOf(b)
		}
	}
	if a, ok := v.(*ssa.Alloc); ok {
		return "local:" + a.Parent().Name() + "." + a.Comment
	}
	return ""
}

// lockOp classifies ci as a mutex operation.
func lockOp(ci ssa.CallInstruction) (key string, kind lockOpKind) {
	n := calleeName(ci)
	switch n {
	case "(*sync.Mutex).Lock", "(*sync.RWMutex).Lock":
		kind = opLock
	case "(*sync.Mutex).Unlock", "(*sync.RWMutex).Unlock":
		kind = opUnlock
	case "(*sync.RWMutex).RLock":
		kind = opRLock
	case "(*sync.RWMutex).RUnlock":
		kind = opRUnlock
	default:
		return "", opNone
	}
	key = lockKeyOf(ci.Common().Args[0])
	if key == "" {
		key = "?unknown"
	}
	return key, kind
}

var controlledHigherOrder = map[string][]string{
	"container/heap.Init":   {"Len", "Less", "Swap"},
	"container/heap.Push":   {"Len", "Less", "Swap", "Push"},
	"container/heap.Pop":    {"Len", "Less", "Swap", "Pop"},
	"container/heap.Remove": {"Len", "Less", "Swap", "Pop"},
	"container/heap.Fix":    {"Len", "Less", "Swap"},
	"sort.Sort":             {"Len", "Less", "Swap"},
	"sort.Stable":           {"Len", "Less", "Swap"},
	"sort.Reverse":          {},
}

// LockEngine holds the results.
type LockEngine struct {
	p       *Prog
	fns     []*ssa.Function
	entry   map[*ssa.Function]lockSet
	acq     map[*ssa.Function]lockSet
	rel     map[*ssa.Function]lockSet
	at      map[ssa.Instruction]lockSet // state before the instruction
	exit    map[*ssa.Function]lockSet   // state at returns (meet)
	root    map[*ssa.Function]string    // why the entry lockset is empty
	sitesOf map[*ssa.Function][]ssa.CallInstruction
	// calls of a function-typed parameter inside a repository helper -> the callbacks handed to
	// that helper by its callers (they run synchronously at that call)
	cbAt map[*ssa.Call][]*ssa.Function
	// lock-order edges: held -> acquired, with a witness position
	order map[[2]string]string
	// unlock of a lock that is not held, unbalanced paths
	pairing []pairingIssue
}

type pairingIssue struct {
	Fn     *ssa.Function
	Instr  ssa.Instruction
	Key    string
	Detail string
}

func (p *Prog) Locks() *LockEngine {
	if p.lockEngine != nil {
		return p.lockEngine
	}
	le := &LockEngine{p: p, entry: map[*ssa.Function]lockSet{}, acq: map[*ssa.Function]lockSet{}, rel: map[*ssa.Function]lockSet{},
		at: map[ssa.Instruction]lockSet{}, exit: map[*ssa.Function]lockSet{}, root: map[*ssa.Function]string{},
		sitesOf: map[*ssa.Function][]ssa.CallInstruction{}, cbAt: map[*ssa.Call][]*ssa.Function{}, order: map[[2]string]string{}}
	for _, fn := range p.fns {
		// Promotion wrappers ("wrapper for func (T).M") exist only for interface
		// method sets; interface dispatch is modelled by the exposure rule and
		// the controlled higher-order table, so they are not call sites.
		// Bound-method and thunk wrappers stay: they are how a method used as a
		// value gets called (with an empty lockset).
		if fn.Blocks != nil && !strings.HasPrefix(fn.Synthetic, "wrapper for") {
			le.fns = append(le.fns, fn)
		}
	}
	le.computeSummaries()
	le.computeSites()
	le.computeEntries()
	p.lockEngine = le
	return le
}

// callbackTargets: for a controlled higher-order call, the repository
// functions it invokes synchronously.
func (le *LockEngine) callbackTargets(ci ssa.CallInstruction) []*ssa.Function {
	n := calleeName(ci)
	var out []*ssa.Function
	if methods, ok := controlledHigherOrder[n]; ok {
		if freshHeapArg(ci) {
			return nil // container initialised before publication (constructor)
		}
		if ht := heapArgType(ci); ht != nil {
			for _, m := range methods {
				if f := le.p.methodOf(ht, m); f != nil && le.p.IsRepoFn(f) {
					out = append(out, f)
				}
			}
		}
		return out
	}
	if n == "(*sync.Once).Do" {
		if mc, ok := strip(ci.Common().Args[1]).(*ssa.MakeClosure); ok {
			out = append(out, mc.Fn.(*ssa.Function))
		} else if f, ok := strip(ci.Common().Args[1]).(*ssa.Function); ok {
			out = append(out, f)
		}
	}
	return out
}

// transfer applies one instruction to the state (in place).
func (le *LockEngine) transfer(fn *ssa.Function, in ssa.Instruction, st *lockSet, record bool) {
	switch x := in.(type) {
	case *ssa.Go, *ssa.Defer:
		return
	case *ssa.RunDefers:
		allInstrs(fn, func(d ssa.Instruction) {
			df, ok := d.(*ssa.Defer)
			if !ok {
				return
			}
			if key, kind := lockOp(df); kind == opUnlock || kind == opRUnlock {
				if !st.top {
					delete(st.m, key)
				}
				return
			}
			if callee := staticCallee(df); callee != nil {
				le.applySummary(callee, st)
			}
		})
		return
	case *ssa.Call:
		if key, kind := lockOp(x); kind != opNone {
			if st.top {
				return
			}
			switch kind {
			case opLock:
				if record {
					for held := range st.m {
						if held != key {
							k := [2]string{held, key}
							if _, ok := le.order[k]; !ok {
								le.order[k] = le.p.FnName(fn) + " @" + le.p.instrPos(in)
							}
						}
					}
					if st.m[key] != heldNone {
						le.pairing = append(le.pairing, pairingIssue{fn, in, key, "Lock while the same lock is already held (self-deadlock)"})
					}
				}
				st.m[key] = heldWrite
			case opRLock:
				if st.m[key] < heldRead {
					st.m[key] = heldRead
				}
			case opUnlock, opRUnlock:
				if record && st.m[key] == heldNone {
					if _, ok := le.rel[fn].m[key]; !ok {
						le.pairing = append(le.pairing, pairingIssue{fn, in, key, "Unlock of a lock that is not held on this path"})
					}
				}
				delete(st.m, key)
			}
			return
		}
		if callee := staticCallee(x); callee != nil && le.p.IsRepoFn(callee) {
			le.applySummary(callee, st)
			return
		}
		for _, cb := range le.callbackTargets(x) {
			le.applySummary(cb, st)
		}
	}
}

func (le *LockEngine) applySummary(callee *ssa.Function, st *lockSet) {
	if st.top {
		return
	}
	if a, ok := le.acq[callee]; ok && !a.top {
		for k, v := range a.m {
			st.m[k] = v
		}
	}
	if r, ok := le.rel[callee]; ok && !r.top {
		for k := range r.m {
			delete(st.m, k)
		}
	}
}

// flow runs the intraprocedural dataflow with the given entry set; visit is
// called with the state before each instruction on the final (stable) pass.
func (le *LockEngine) flow(fn *ssa.Function, entry lockSet, record bool, visit func(in ssa.Instruction, st lockSet)) (exit lockSet, released map[string]bool) {
	in := map[*ssa.BasicBlock]lockSet{}
	out := map[*ssa.BasicBlock]lockSet{}
	for _, b := range fn.Blocks {
		in[b] = topSet()
		out[b] = topSet()
	}
	released = map[string]bool{}
	work := []*ssa.BasicBlock{fn.Blocks[0]}
	inWork := map[*ssa.BasicBlock]bool{fn.Blocks[0]: true}
	first := map[*ssa.BasicBlock]bool{}
	for len(work) > 0 {
		b := work[0]
		work = work[1:]
		inWork[b] = false
		var st lockSet
		if b == fn.Blocks[0] {
			st = entry.clone()
		} else {
			st = topSet()
			for _, pr := range b.Preds {
				st = st.meet(out[pr])
			}
		}
		in[b] = st.clone()
		for _, ins := range b.Instrs {
			le.transfer(fn, ins, &st, false)
		}
		if !first[b] || !st.equal(out[b]) {
			first[b] = true
			out[b] = st
			for _, s := range b.Succs {
				if !inWork[s] {
					inWork[s] = true
					work = append(work, s)
				}
			}
		}
	}
	exit = topSet()
	for _, b := range fn.Blocks {
		st := in[b].clone()
		for _, ins := range b.Instrs {
			if visit != nil {
				visit(ins, st)
			}
			if c, ok := ins.(*ssa.Call); ok {
				if key, kind := lockOp(c); (kind == opUnlock || kind == opRUnlock) && !st.top && st.m[key] == heldNone {
					released[key] = true
				}
			}
			if _, ok := ins.(*ssa.RunDefers); ok && !st.top {
				allInstrs(fn, func(d ssa.Instruction) {
					if df, ok := d.(*ssa.Defer); ok {
						if key, kind := lockOp(df); (kind == opUnlock || kind == opRUnlock) && st.m[key] == heldNone {
							released[key] = true
						}
					}
				})
			}
			le.transfer(fn, ins, &st, record)
			if _, ok := ins.(*ssa.Return); ok {
				exit = exit.meet(st)
			}
		}
	}
	return exit, released
}

func (le *LockEngine) computeSummaries() {
	for _, fn := range le.fns {
		le.acq[fn] = emptySet()
		le.rel[fn] = emptySet()
	}
	for round := 0; round < 4; round++ {
		changed := false
		for _, fn := range le.fns {
			exit, released := le.flow(fn, emptySet(), false, nil)
			a := emptySet()
			if !exit.top {
				for k, v := range exit.m {
					a.m[k] = v
				}
			}
			r := emptySet()
			for k := range released {
				r.m[k] = heldWrite
			}
			if !a.equal(le.acq[fn]) || !r.equal(le.rel[fn]) {
				changed = true
				le.acq[fn] = a
				le.rel[fn] = r
			}
		}
		if !changed {
			break
		}
	}
}

// computeSites finds, for each function, the call sites whose lockset it
// inherits, and which functions start with an empty lockset and why.
func (le *LockEngine) computeSites() {
	p := le.p
	g := p.cgl()
	valueFn := map[*ssa.Function]bool{}
	for _, f := range g.valueFuncs {
		valueFn[f] = true
	}
	goTarget := map[*ssa.Function]bool{}
	controlledUse := map[*ssa.Function]int{} // closures only handed to Once.Do
	valueUse := map[*ssa.Function]int{}
	// interface exposure: type -> method names reachable through a
	// non-controlled interface conversion
	exposed := map[string]bool{} // "recvTypeString.method"
	for _, fn := range le.fns {
		allInstrs(fn, func(in ssa.Instruction) {
			switch x := in.(type) {
			case *ssa.Go:
				if f := staticCallee(x); f != nil {
					goTarget[f] = true
				}
			case *ssa.Defer:
				if f := staticCallee(x); f != nil {
					goTarget[f] = true // deferred: conservatively no inherited lockset
				}
			case *ssa.Call:
				if f := staticCallee(x); f != nil {
					le.sitesOf[f] = append(le.sitesOf[f], x)
				}
				if x.Call.IsInvoke() {
					// an interface invoke anywhere in the repository exposes that
					// method of every repository type implementing the interface
					if iface, ok := x.Call.Value.Type().Underlying().(*types.Interface); ok {
						for _, t := range g.repoTypes {
							if types.Implements(t, iface) {
								exposed[typeString(t)+"."+x.Call.Method.Name()] = true
								if pt, ok := t.(*types.Pointer); ok {
									exposed[typeString(pt.Elem())+"."+x.Call.Method.Name()] = true
								}
							}
						}
					}
				}
				for _, cb := range le.callbackTargets(x) {
					le.sitesOf[cb] = append(le.sitesOf[cb], x)
					controlledUse[cb]++
				}
				// a function handed to a repository helper that does nothing with it but call it
				// synchronously (withLock(func() {...})): the callback runs at the helper's call sites
				if h := staticCallee(x); h != nil && h.Blocks != nil && le.p.IsRepoFn(h) && len(h.Params) == len(x.Call.Args) {
					for i, a := range x.Call.Args {
						var cb *ssa.Function
						switch v := a.(type) {
						case *ssa.MakeClosure:
							cb, _ = v.Fn.(*ssa.Function)
						case *ssa.Function:
							cb = v
						}
						if cb == nil || !le.p.IsRepoFn(cb) {
							continue
						}
						var sites []*ssa.Call
						onlyCalled := h.Params[i].Referrers() != nil
						if onlyCalled {
							for _, r := range *h.Params[i].Referrers() {
								switch u := r.(type) {
								case *ssa.Call:
									if u.Call.Value == ssa.Value(h.Params[i]) && !u.Call.IsInvoke() {
										sites = append(sites, u)
										continue
									}
									onlyCalled = false
								case *ssa.DebugRef:
								default:
									onlyCalled = false
								}
							}
						}
						if onlyCalled && len(sites) > 0 {
							for _, cs := range sites {
								le.sitesOf[cb] = append(le.sitesOf[cb], cs)
								le.cbAt[cs] = append(le.cbAt[cs], cb)
							}
							controlledUse[cb]++
						}
					}
				}
			case *ssa.MakeInterface:
				iface, _ := x.Type().Underlying().(*types.Interface)
				if iface == nil || iface.NumMethods() == 0 {
					return
				}
				// controlled if its only use is as the heap argument of a controlled call
				controlled := x.Referrers() != nil && len(*x.Referrers()) > 0
				if x.Referrers() != nil {
					for _, r := range *x.Referrers() {
						ci, ok := r.(ssa.CallInstruction)
						if !ok {
							if _, dbg := r.(*ssa.DebugRef); dbg {
								continue
							}
							controlled = false
							continue
						}
						if _, ok := controlledHigherOrder[calleeName(ci)]; !ok || ci.Common().Args[0] != ssa.Value(x) {
							controlled = false
						}
					}
				}
				if controlled {
					return
				}
				for i := 0; i < iface.NumMethods(); i++ {
					exposed[typeString(x.X.Type())+"."+iface.Method(i).Name()] = true
					// pointer receiver methods are reachable through *T only; value
					// receiver methods through both
					if pt, ok := x.X.Type().(*types.Pointer); ok {
						exposed[typeString(pt.Elem())+"."+iface.Method(i).Name()] = true
					}
				}
			}
			// count uses of functions as values
			for _, op := range in.Operands(nil) {
				if op == nil || *op == nil {
					continue
				}
				var f *ssa.Function
				switch v := (*op).(type) {
				case *ssa.Function:
					f = v
				case *ssa.MakeClosure:
					f, _ = v.Fn.(*ssa.Function)
				}
				if f == nil {
					continue
				}
				if ci, ok := in.(ssa.CallInstruction); ok && ci.Common().Value == *op && !ci.Common().IsInvoke() {
					continue
				}
				if mc, ok := in.(*ssa.MakeClosure); ok && mc.Fn == *op {
					continue // the closure being made: its uses are the uses of the MakeClosure value
				}
				valueUse[f]++
			}
		})
	}
	for _, fn := range le.fns {
		switch {
		case fn.Name() == "main" && fn.Parent() == nil, fn.Name() == "init" && fn.Parent() == nil, strings.HasPrefix(fn.Name(), "init#"):
			le.root[fn] = "program entry"
		case goTarget[fn]:
			le.root[fn] = "started with go/defer"
		case valueUse[fn] > controlledUse[fn]:
			le.root[fn] = "used as a function value (callback, goroutine body)"
		case fn.Signature.Recv() != nil && (exposed[typeString(fn.Signature.Recv().Type())+"."+fn.Name()]):
			le.root[fn] = "method reachable through an interface conversion"
		case len(le.sitesOf[fn]) == 0:
			le.root[fn] = "no call site in the repository"
		}
	}
}

func (le *LockEngine) computeEntries() {
	for _, fn := range le.fns {
		if _, isRoot := le.root[fn]; isRoot {
			le.entry[fn] = emptySet()
		} else {
			le.entry[fn] = topSet()
		}
	}
	for round := 0; round < 12; round++ {
		next := map[*ssa.Function]lockSet{}
		for _, fn := range le.fns {
			if _, isRoot := le.root[fn]; isRoot {
				next[fn] = emptySet()
			} else {
				next[fn] = topSet()
			}
		}
		for _, fn := range le.fns {
			le.flow(fn, le.entry[fn], false, func(in ssa.Instruction, st lockSet) {
				c, ok := in.(*ssa.Call)
				if !ok {
					return
				}
				var targets []*ssa.Function
				if f := staticCallee(c); f != nil {
					targets = append(targets, f)
				}
				targets = append(targets, le.callbackTargets(c)...)
				targets = append(targets, le.cbAt[c]...)
				for _, t := range targets {
					if _, isRoot := le.root[t]; isRoot {
						continue
					}
					if cur, ok := next[t]; ok {
						next[t] = cur.meet(st)
					}
				}
			})
		}
		changed := false
		for _, fn := range le.fns {
			if !next[fn].equal(le.entry[fn]) {
				changed = true
			}
		}
		le.entry = next
		if !changed {
			break
		}
	}
	// final pass: record states, order edges, pairing issues
	for _, fn := range le.fns {
		e := le.entry[fn]
		if e.top {
			e = emptySet() // unreachable in the call structure
		}
		exit, _ := le.flow(fn, e, true, func(in ssa.Instruction, st lockSet) {
			le.at[in] = st.clone()
		})
		le.exit[fn] = exit
	}
}

// Held returns the mode in which key is held just before instruction in.
func (le *LockEngine) Held(in ssa.Instruction, key string) int {
	st, ok := le.at[in]
	if !ok {
		return heldNone
	}
	return st.mode(key)
}

func (le *LockEngine) StateAt(in ssa.Instruction) string {
	st, ok := le.at[in]
	if !ok {
		return "{?}"
	}
	return st.String()
}

// HeldKeys lists the locks held (in any mode) just before instruction in.
func (le *LockEngine) HeldKeys(in ssa.Instruction) []string {
	st, ok := le.at[in]
	if !ok || st.top {
		return nil
	}
	var out []string
	for k, m := range st.m {
		if m > heldNone {
			out = append(out, k)
		}
	}
	sort.Strings(out)
	return out
}

// Entry describes the entry lockset of fn.
func (le *LockEngine) Entry(fn *ssa.Function) string {
	s := le.entry[fn].String()
	if why, ok := le.root[fn]; ok {
		s += " (" + why + ")"
	}
	return s
}

// freshHeapArg: the container handed to a controlled higher-order call is an
// object allocated in the calling function that has not been published yet
// (e.g. heap.Init on a new heap in a constructor).
func freshHeapArg(ci ssa.CallInstruction) bool {
	args := ci.Common().Args
	if len(args) == 0 {
		return false
	}
	mi, ok := args[0].(*ssa.MakeInterface)
	if !ok {
		return false
	}
	al, ok := mi.X.(*ssa.Alloc)
	if !ok || al.Parent() != ci.Parent() || al.Referrers() == nil {
		return false
	}
	for _, r := range *al.Referrers() {
		switch x := r.(type) {
		case *ssa.FieldAddr, *ssa.IndexAddr, *ssa.DebugRef, *ssa.UnOp:
			continue
		case *ssa.MakeInterface:
			// boxing for a controlled call on the still-private object
			only := true
			if x.Referrers() != nil {
				for _, rr := range *x.Referrers() {
					c2, ok := rr.(ssa.CallInstruction)
					if !ok {
						only = false
						continue
					}
					if _, ok := controlledHigherOrder[calleeName(c2)]; !ok {
						only = false
					}
				}
			}
			if only {
				continue
			}
		case *ssa.Store:
			if x.Val != ssa.Value(al) {
				continue
			}
		}
		if r != ssa.Instruction(ci) && canFollow(r, ci) {
			return false
		}
	}
	return true
}

// DebugSites prints the inherited call sites of fn with their locksets.
func (le *LockEngine) DebugSites(name string) {
	for _, fn := range le.fns {
		if le.p.FnName(fn) != name {
			continue
		}
		println("fn", name, "entry", le.Entry(fn), "acq", le.acq[fn].String(), "rel", le.rel[fn].String())
		for _, s := range le.sitesOf[fn] {
			println("  site", le.p.FnName(s.Parent()), le.p.instrPos(s), calleeName(s), le.StateAt(s))
		}
	}
}
