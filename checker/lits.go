package main

// Helpers that read literal tables out of SSA: []string{...} literals,
// map[string]string{...} literal key sets, struct-literal field stores.

import (
	"go/types"
	"sort"

	"golang.org/x/tools/go/ssa"
)

// stringSliceLiteral: if v is a []string composite literal of constants
// (Slice of a local array filled by constant stores), return its elements.
func stringSliceLiteral(v ssa.Value) ([]string, bool) {
	sl, ok := v.(*ssa.Slice)
	if !ok {
		return nil, false
	}
	arr := sl.X
	if arr.Referrers() == nil {
		return nil, false
	}
	vals := map[int64]string{}
	for _, r := range *arr.Referrers() {
		ia, ok := r.(*ssa.IndexAddr)
		if !ok {
			continue
		}
		idx, ok := constInt(ia.Index)
		if !ok || ia.Referrers() == nil {
			return nil, false
		}
		for _, rr := range *ia.Referrers() {
			if st, ok := rr.(*ssa.Store); ok && st.Addr == ia {
				s, ok := constString(st.Val)
				if !ok {
					return nil, false
				}
				vals[idx] = s
			}
		}
	}
	out := make([]string, len(vals))
	for i := range out {
		s, ok := vals[int64(i)]
		if !ok {
			return nil, false
		}
		out[i] = s
	}
	return out, true
}

// mapLiteralKeys: if v is a map composite literal (MakeMap followed by
// MapUpdates with constant string keys, never updated with a non-constant
// key), return the key set.
func mapLiteralKeys(v ssa.Value) ([]string, bool) {
	v = strip(v)
	mm, ok := v.(*ssa.MakeMap)
	if !ok {
		return nil, false
	}
	keys := map[string]bool{}
	if mm.Referrers() == nil {
		return nil, false
	}
	var walk func(val ssa.Value) bool
	walk = func(val ssa.Value) bool {
		for _, r := range *val.Referrers() {
			switch x := r.(type) {
			case *ssa.MapUpdate:
				if x.Map != val {
					continue
				}
				k, ok := constString(x.Key)
				if !ok {
					return false
				}
				keys[k] = true
			case *ssa.ChangeType:
				if !walk(x) {
					return false
				}
			}
		}
		return true
	}
	if !walk(mm) {
		return nil, false
	}
	return sortedKeys(keys), true
}

func sameStringSet(a, b []string) bool {
	x := append([]string(nil), a...)
	y := append([]string(nil), b...)
	sort.Strings(x)
	sort.Strings(y)
	if len(x) != len(y) {
		return false
	}
	for i := range x {
		if x[i] != y[i] {
			return false
		}
	}
	return true
}

// storesToField returns all Store instructions in the given functions whose
// address is a FieldAddr of field f.
func storesToField(fns []*ssa.Function, f *types.Var) []*ssa.Store {
	var out []*ssa.Store
	for _, fn := range fns {
		allInstrs(fn, func(in ssa.Instruction) {
			if st, ok := in.(*ssa.Store); ok {
				if _, g, ok := fieldOfAddr(st.Addr); ok && g == f {
					out = append(out, st)
				}
			}
		})
	}
	return out
}

// fieldAddrsOf returns all FieldAddr instructions of field f in fns.
func fieldAddrsOf(fns []*ssa.Function, f *types.Var) []*ssa.FieldAddr {
	var out []*ssa.FieldAddr
	for _, fn := range fns {
		allInstrs(fn, func(in ssa.Instruction) {
			if fa, ok := in.(*ssa.FieldAddr); ok {
				if _, g, ok := fieldOfAddr(fa); ok && g == f {
					out = append(out, fa)
				}
			}
		})
	}
	return out
}

// structLitField: for a struct composite literal held in local cell `alloc`
// (or a pointer to a fresh struct), return the value stored to field `name`.
func structLitField(alloc ssa.Value, name string) ssa.Value {
	if alloc.Referrers() == nil {
		return nil
	}
	var val ssa.Value
	for _, r := range *alloc.Referrers() {
		fa, ok := r.(*ssa.FieldAddr)
		if !ok {
			continue
		}
		_, f, ok := fieldOfAddr(fa)
		if !ok || f.Name() != name || fa.Referrers() == nil {
			continue
		}
		for _, rr := range *fa.Referrers() {
			if st, ok := rr.(*ssa.Store); ok && st.Addr == fa {
				val = st.Val
			}
		}
	}
	return val
}

// mapLiteralConstValue: the constant string stored under key in the map
// composite literal v (prometheus.Labels{"status": "matched", ...}), if any.
func mapLiteralConstValue(v ssa.Value, key string) (string, bool) {
	v = strip(v)
	for i := 0; i < 4; i++ {
		if ct, ok := v.(*ssa.ChangeType); ok {
			v = strip(ct.X)
		}
	}
	mm, ok := v.(*ssa.MakeMap)
	if !ok || mm.Referrers() == nil {
		return "", false
	}
	out, found := "", false
	var walk func(val ssa.Value)
	walk = func(val ssa.Value) {
		if val.Referrers() == nil {
			return
		}
		for _, r := range *val.Referrers() {
			switch x := r.(type) {
			case *ssa.MapUpdate:
				if x.Map != val {
					continue
				}
				if k, ok := constString(x.Key); ok && k == key {
					if s, oks := constString(x.Value); oks {
						out, found = s, true
					}
				}
			case *ssa.ChangeType:
				walk(x)
			}
		}
	}
	walk(mm)
	return out, found
}

// mapLiteralValue: the value stored under the constant key in the map composite literal v, if any.
func mapLiteralValue(v ssa.Value, key string) ssa.Value {
	v = strip(v)
	for i := 0; i < 4; i++ {
		if ct, ok := v.(*ssa.ChangeType); ok {
			v = strip(ct.X)
		}
	}
	mm, ok := v.(*ssa.MakeMap)
	if !ok || mm.Referrers() == nil {
		return nil
	}
	var out ssa.Value
	var walk func(val ssa.Value)
	walk = func(val ssa.Value) {
		if val.Referrers() == nil {
			return
		}
		for _, r := range *val.Referrers() {
			switch x := r.(type) {
			case *ssa.MapUpdate:
				if x.Map != val {
					continue
				}
				if k, ok := constString(x.Key); ok && k == key {
					out = x.Value
				}
			case *ssa.ChangeType:
				walk(x)
			}
		}
	}
	walk(mm)
	return out
}
