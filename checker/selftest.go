package main

import "fmt"

// runSelfTest runs the rules on the seeded-fault fixtures (testdata/). Filled in
// by fixtures.go.
func runSelfTest(verif string) int {
	fmt.Println("selftest: no fixtures registered yet")
	return 0
}
