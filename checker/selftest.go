package main

// Analyser self-test: the shared engines are run on a small seeded-fault
// fixture (type-checked from source in memory, never executed) and must give
// the expected verdict on each numbered case - firing on the broken variant
// and staying silent on its repaired twin. A rule engine that silently stopped
// matching is caught here on every thorough run (and by the vacuity floors of
// expect.json on every run).

import (
	"fmt"
	"go/ast"
	"go/importer"
	"go/parser"
	"go/token"
	"go/types"
	"os"
	"path/filepath"
	"strings"

	"golang.org/x/tools/go/ssa"
	"golang.org/x/tools/go/ssa/ssautil"
)

func runSelfTest(verif string) int {
	src, err := os.ReadFile(filepath.Join(verif, "checker", "testdata", "fixture.go"))
	if err != nil {
		fmt.Println("SELFTEST-BROKEN: cannot read fixture:", err)
		return 2
	}
	fset := token.NewFileSet()
	f, err := parser.ParseFile(fset, "fixture.go", src, parser.ParseComments)
	if err != nil {
		fmt.Println("SELFTEST-BROKEN: parse:", err)
		return 2
	}
	pkg := types.NewPackage("fixture", "fixture")
	spkg, _, err := ssautil.BuildPackage(&types.Config{Importer: importer.ForCompiler(fset, "source", nil)}, fset, pkg, []*ast.File{f}, ssa.InstantiateGenerics)
	if err != nil {
		fmt.Println("SELFTEST-BROKEN: type-check/SSA:", err)
		return 2
	}
	p := &Prog{RepoDir: "/selftest", Fset: fset, SSA: spkg.Prog, byRel: map[string]*ssa.Package{"fixture": spkg}, pkgRel: map[*ssa.Package]string{spkg: "fixture"}}
	all := ssautil.AllFunctions(spkg.Prog)
	for fn := range all {
		if fn.Blocks != nil && (fn.Pkg == spkg || (fn.Parent() != nil && p.IsRepoFn(fn))) {
			p.fns = append(p.fns, fn)
		}
	}
	p.indexCalls()
	fn := func(name string) *ssa.Function {
		for _, f := range p.fns {
			if p.FnName(f) == "fixture."+name {
				return f
			}
		}
		return nil
	}
	fails := 0
	n := 0
	expect := func(name string, got, want bool) {
		n++
		if got != want {
			fails++
			fmt.Printf("SELFTEST-FAIL %s: got %v, want %v\n", name, got, want)
		} else {
			fmt.Printf("selftest ok   %s\n", name)
		}
	}
	need := func(name string) *ssa.Function {
		f := fn(name)
		if f == nil {
			fails++
			fmt.Printf("SELFTEST-FAIL fixture function %s not found\n", name)
		}
		return f
	}

	// --- E-PANIC: explicit panic and assertions ---
	if f := need("panicBad"); f != nil {
		expect("E-PANIC explicit panic is found", len(terminatorsIn(f)) == 1, true)
	}
	if f := need("assertBad"); f != nil {
		ts := terminatorsIn(f)
		expect("E-PANIC single-value assertion is found", len(ts) == 1 && ts[0].Kind == "assert", true)
		if len(ts) == 1 {
			expect("E-PANIC undominated assertion is not discharged", p.dischargeAssert(ts[0].Instr.(*ssa.TypeAssert)) == "", true)
		}
	}
	if f := need("assertGood"); f != nil {
		ts := terminatorsIn(f)
		if len(ts) == 1 {
			expect("E-PANIC assertion dominated by comma-ok is discharged", p.dischargeAssert(ts[0].Instr.(*ssa.TypeAssert)) != "", true)
		} else {
			expect("E-PANIC assertGood has one single-value assertion", false, true)
		}
	}
	// --- E-GUARD: edge-cut reachability ---
	guardCase := func(name string, want bool) {
		f := need(name)
		if f == nil {
			return
		}
		var target ssa.Instruction
		var call *ssa.Call
		for _, ci := range callsIn(f) {
			switch calleeName(ci) {
			case "fixture.sink":
				target = ci
			case "fixture.produce":
				call, _ = ci.(*ssa.Call)
			}
		}
		if target == nil || call == nil {
			expect("E-GUARD "+name+" shape", false, true)
			return
		}
		path := reachableWithout(f, target, errNilEdges(f, call, 1))
		expect("E-GUARD "+name+": sink reachable without err == nil", path != nil, want)
	}
	guardCase("guardBad", true)
	guardCase("guardGood", false)
	guardCase("guardFatal", false) // log.Fatal-like exit prunes the path
	// --- length rule for constant indexes into Split results ---
	splitCase := func(name string, wantUnguarded bool) {
		f := need(name)
		if f == nil {
			return
		}
		bad, n := false, 0
		for _, s := range constIndexSites(f) {
			if s.Src != "split" || s.Index == 0 {
				continue
			}
			n++
			edges := lenAtLeastEdges(f, s.X, s.Index+1)
			if len(edges) == 0 || reachableWithout(f, s.Instr, edges) != nil {
				bad = true
			}
		}
		expect("E-GUARD "+name+": Split element read without a length test", n > 0 && bad, wantUnguarded)
	}
	splitCase("splitIndexBad", true)
	splitCase("splitIndexGood", false)
	splitCase("splitIndexGood2", false)
	splitCase("splitIndexWeak", true) // the test does not imply the bound
	// --- E-CLEANUP, data-as-format, never-released lock (rules that report through a Ctx) ---
	violations := func(run func(c *Ctx)) (nViol, nOK int) {
		cx := newCtx(p, "SELF", "quick")
		run(cx)
		for _, o := range cx.obls {
			switch o.st {
			case Violation:
				nViol++
			case OK:
				nOK++
			}
		}
		return
	}
	if f := need("cleanupBad"); f != nil {
		v, _ := violations(func(c *Ctx) { c.checkCleanupOnErrorPaths("r", []*ssa.Function{f}) })
		expect("E-CLEANUP cleanupBad: a later failure return leaks what an earlier one closes", v == 1, true)
	}
	if f := need("cleanupGood"); f != nil {
		v, ok := violations(func(c *Ctx) { c.checkCleanupOnErrorPaths("r", []*ssa.Function{f}) })
		expect("E-CLEANUP cleanupGood: silent, with the obligation evaluated", v == 0 && ok == 1, true)
	}
	if f := need("formatBad"); f != nil {
		v, _ := violations(func(c *Ctx) { c.checkNoDataAsFormat("r", []*ssa.Function{f}) })
		expect("E-PROV formatBad: a parameter used as format string", v == 1, true)
	}
	if f := need("formatGood"); f != nil {
		v, _ := violations(func(c *Ctx) { c.checkNoDataAsFormat("r", []*ssa.Function{f}) })
		expect("E-PROV formatGood: constant format", v == 0, true)
	}
	if f := need("lockLeakLoop"); f != nil {
		expect("E-LOCK lockLeakLoop: a helper's lock is taken again by the next iteration", p.Locks().leakPath(f) != "", true)
	}
	// --- path-sensitive search: repeated test of one condition ---
	if f := need("twiceTested"); f != nil {
		var a, b ssa.Instruction
		for _, ci := range callsIn(f) {
			switch calleeName(ci) {
			case "fixture.first":
				a = ci
			case "fixture.second":
				b = ci
			}
		}
		// second() only after first() on feasible paths: the infeasible path (c true then c false) must be pruned
		path := psSearch(f.Blocks[0], nil, func(x *ssa.BasicBlock) bool { return x == a.Block() }, func(x *ssa.BasicBlock) bool { return x == b.Block() })
		expect("PS-SEARCH contradictory outcomes of one SSA condition are pruned", path == nil, true)
	}
	// --- E-CHAN classification ---
	if f := need("chanModes"); f != nil {
		modes := map[string]int{}
		for _, op := range chanOpsIn(p, f) {
			if op.Dir == chSend || op.Dir == chRecv {
				modes[op.Mode]++
			}
		}
		expect("E-CHAN unconditional/polling/select classification", modes["unconditional"] == 1 && modes["polling"] == 1 && modes["select"] == 2, true)
	}
	// --- E-LOCK ---
	le := p.Locks()
	lockCase := func(name string, want int) {
		f := need(name)
		if f == nil {
			return
		}
		var st *ssa.Store
		allInstrs(f, func(in ssa.Instruction) {
			if s, ok := in.(*ssa.Store); ok {
				if _, fld, okf := fieldOfAddr(s.Addr); okf && fld.Name() == "n" {
					st = s
				}
			}
		})
		if st == nil {
			expect("E-LOCK "+name+" shape", false, true)
			return
		}
		expect(fmt.Sprintf("E-LOCK %s: lock mode %d at the guarded write", name, want), le.Held(st, "box.mu") == want, true)
	}
	lockCase("lockedWrite", heldWrite)
	lockCase("unlockedWrite", heldNone)
	lockCase("deferLockedWrite", heldWrite)
	lockCase("helperUnderLock", heldWrite)     // entry lockset = intersection over call sites
	lockCase("helperMixedCallers", heldNone)   // one caller without the lock
	lockCase("goroutineBody", heldNone)        // go statement starts with an empty lockset
	lockCase("callbackUnderLock$1", heldWrite) // callback called synchronously by a helper that holds the lock
	lockCase("callbackOutsideLock$1", heldNone)
	// --- nil-after-error field summary (R-B) ---
	sums := p.nilFieldSummaries(p.fns)
	if os.Getenv("SFDEBUG") != "" {
		for _, f := range p.fns {
			fmt.Println("fn", p.FnName(f), f.Signature.Recv() != nil)
		}
	}
	okSum := false
	for _, s := range sums {
		if s.F.Name() == "p" && s.M.Name() == "prepare" {
			okSum = true
		}
	}
	expect(fmt.Sprintf("NIL-ERR summary for (*holder).prepare / field p (%d summaries)", len(sums)), okSum, true)
	// --- pathEventCounts (E-PAIR) ---
	if f := need("releaseTwice"); f != nil {
		bad, got, _ := pathEventCounts(f, func(in ssa.Instruction) bool {
			ci, ok := in.(*ssa.Call)
			return ok && calleeName(ci) == "fixture.release"
		}, nil, 1)
		expect("E-PAIR a path with two releases is found", bad != nil && got == 2, true)
	}
	if f := need("releaseOnce"); f != nil {
		bad, _, np := pathEventCounts(f, func(in ssa.Instruction) bool {
			ci, ok := in.(*ssa.Call)
			return ok && calleeName(ci) == "fixture.release"
		}, nil, 1)
		expect("E-PAIR exactly one release on every path", bad == nil && np >= 2, true)
	}
	// --- cross-function resolution ---
	theProgSaved := theProg
	theProg = p
	resetInterpMemo()
	guardDeep := func(name string, want bool) {
		f := need(name)
		if f == nil {
			return
		}
		var call *ssa.Call
		for _, ci := range callsIn(f) {
			if calleeName(ci) == "fixture.produce" {
				call, _ = ci.(*ssa.Call)
			}
		}
		sinks := deepCalls(f, 2, "fixture.sink")
		if call == nil || len(sinks) != 1 {
			expect("X-FN "+name+" shape", false, true)
			return
		}
		spec := sEq(true, func(v ssa.Value) bool { return isResultOfCall(v, call, 1) }, isNilConst)
		edges := predEdgesS(f, []condSpec{spec}, 2)
		path := reachableWithout(f, sinks[0].Top, edges)
		expect("X-FN "+name+": sink reachable without err == nil (boolean helper / helper call site)", path != nil, want)
	}
	guardDeep("guardViaHelperGood", false)
	guardDeep("guardViaHelperBad", true)
	guardDeep("sinkInHelper", false)
	isRel := func(in ssa.Instruction) bool {
		ci, ok := in.(*ssa.Call)
		return ok && calleeName(ci) == "fixture.release"
	}
	if f := need("releaseViaHelperOnce"); f != nil {
		bad, _, _ := pathEventCountsDeep(f, isRel, func(*ssa.Function) []Edge { return nil }, 1, 2)
		expect("X-FN path counts through a helper: exactly one release on every path", bad == nil, true)
	}
	if f := need("releaseViaHelperTwice"); f != nil {
		bad, got, _ := pathEventCountsDeep(f, isRel, func(*ssa.Function) []Edge { return nil }, 1, 2)
		expect("X-FN path counts through a helper: a path with two releases is found", bad != nil && got == 2, true)
	}
	if f := need("passViaBoolHelperGood"); f != nil {
		expect("X-FN must-pass through a boolean helper (returns false only after release)", escapesWithout(f.Blocks[0], isRel) == nil, true)
	}
	if f := need("passViaBoolHelperBad"); f != nil {
		expect("X-FN must-pass through a boolean helper: the claimed path without release is found", escapesWithout(f.Blocks[0], isRel) != nil, true)
	}
	// --- flag variables: a boolean phi of constants decides a later branch ---
	guardCase("flagGuard", false)
	guardCase("flagGuardBad", true)
	// --- flattening of immediately invoked literals (inlined view) ---
	{
		src := []byte("package q\n\nfunc g() (int, error) { return 1, nil }\n\nfunc f(c bool) (int, error) {\n\tx, err := func() (int, error) {\n\t\tif c {\n\t\t\treturn 0, nil\n\t\t}\n\t\treturn g()\n\t}()\n\tif func() bool { return x > 0 }() {\n\t\treturn x, err\n\t}\n\treturn 0, err\n}\n")
		ov := map[string][]byte{"/selftest/q.go": src}
		err := flattenIIFEs("/selftest", ov)
		out := string(ov["/selftest/q.go"])
		fs := token.NewFileSet()
		pf, perr := parser.ParseFile(fs, "q.go", out, 0)
		okTypes := false
		if perr == nil {
			_, terr := (&types.Config{Importer: importer.ForCompiler(fs, "source", nil)}).Check("q", fs, []*ast.File{pf}, nil)
			okTypes = terr == nil
		}
		nLit := 0
		if pf != nil {
			ast.Inspect(pf, func(nd ast.Node) bool {
				if c, ok := nd.(*ast.CallExpr); ok {
					if _, isLit := c.Fun.(*ast.FuncLit); isLit {
						nLit++
					}
				}
				return true
			})
		}
		expect("INLINE-VIEW literals in assignment and if-condition are flattened into type-correct statements", err == nil && okTypes && nLit == 0, true)
	}
	// --- a flag-guarded deferred clean-up made explicit (inlined view) ---
	{
		good := []byte("package q\n\nfunc rel() {}\n\nfunc f(a, b bool) {\n\tdone := false\n\tdefer func() {\n\t\tif !done {\n\t\t\trel()\n\t\t}\n\t}()\n\tif a {\n\t\treturn\n\t}\n\tswitch {\n\tcase b:\n\t\tdone = true\n\tdefault:\n\t}\n}\n")
		fs := token.NewFileSet()
		pf, _ := parser.ParseFile(fs, "q.go", good, parser.ParseComments)
		out, ok := undeferOne(fs, pf, good)
		nIf := strings.Count(string(out), "if !done")
		fs2 := token.NewFileSet()
		_, perr := parser.ParseFile(fs2, "q.go", out, 0)
		expect("INLINE-VIEW flag-guarded deferred clean-up is copied to the return and the end of the body", ok && perr == nil && nIf == 2 && !strings.Contains(string(out), "defer"), true)
		// not rewritten: the flag is stored from a computed value; the function has results; a second defer
		for _, bad := range []string{
			"package q\n\nfunc rel() {}\n\nfunc f(a bool) {\n\tdone := false\n\tdefer func() {\n\t\tif !done {\n\t\t\trel()\n\t\t}\n\t}()\n\tdone = a\n}\n",
			"package q\n\nfunc rel() {}\n\nfunc f(a bool) int {\n\tdone := false\n\tdefer func() {\n\t\tif !done {\n\t\t\trel()\n\t\t}\n\t}()\n\tdone = true\n\treturn 1\n}\n",
			"package q\n\nfunc rel() {}\n\nfunc f(a bool) {\n\tdone := false\n\tdefer rel()\n\tdefer func() {\n\t\tif !done {\n\t\t\trel()\n\t\t}\n\t}()\n\tdone = true\n}\n",
		} {
			fs3 := token.NewFileSet()
			pb, _ := parser.ParseFile(fs3, "q.go", bad, 0)
			_, okb := undeferOne(fs3, pb, []byte(bad))
			expect("INLINE-VIEW a deferred clean-up outside the narrow form is left alone", okb, false)
		}
	}
	theProg = theProgSaved
	resetInterpMemo()
	fmt.Printf("== selftest: %d cases, %d failed\n", n, fails)
	if fails > 0 {
		fmt.Println("CHECK-BROKEN: analyser self-test failed")
		return 2
	}
	return 0
}
