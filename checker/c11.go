package main

import (
	"fmt"
	"go/token"
	"strings"

	"golang.org/x/tools/go/ssa"
)

func init() {
	register("C11", propMeta{
		Explanation: "E-CONST + E-PROV + ordering rule + E-GUARD. O-1 path codec agreement: EncodePath and DecodePath use base64.RawURLEncoding and the same format byte '0'; DecodePath decodes the substring after strings.LastIndexByte(rest, '/') so that nothing before the last slash influences the result. O-2 one handler behind both endpoints: ampClientOffers hands the DecodePath result as Arg.Body to the same (*IPC).ClientOffers that clientOffers calls and writes the returned response bytes, unmodified, to the armor encoder, which it closes on every path after creating it. O-3 fronting shape: in both Exchange methods, exactly on the front != \"\" edge, the store req.Host <- req.URL.Host precedes the store req.URL.Host <- front, and neither field is written anywhere else. O-4 status and size are errors, never truncated data: the body is read only through the false edge of StatusCode != 200 (compared for equality with the constant 200); limitedRead wraps the body in LimitedReader{N: limit+1} and returns a non-nil error when limit+1 bytes arrived; the HTTP Exchange returns limitedRead(body, 100000); the AMP Exchange wraps the body in io.LimitReader(_, readLimit+1) before decoding and returns a non-nil error on the N == 0 edge. O-5 cache URL constants: domainPrefix accepts the basic algorithm's result only on err == nil and len(result) <= 63 (measured on the result, not the input), else uses the SHA-256/base32 fallback (lower-case alphabet, no padding); CacheURL appends \"s\" exactly for https, and rejects other schemes, userinfo, non-default ports and a cache query or fragment by error returns. Added after the second seeding round: O-3 requires the Host header value to be the Host of this very request's URL (req.URL.Host), not of another URL the rendezvous knows; O-2b/C14 the IPC error-mapping obligation of C14 on ampClientOffers and clientOffers (an IPC error answers 5xx on both endpoints). Stores and the LimitReader are also found in same-package helpers, with operands mapped back along the call chain. Added after the third seeding round: O-1b the endpoint paths resolved against the broker URL are relative references, so the broker URL's own path is kept. Added after the fourth seeding round: O-2 what DecodePath receives is the request path minus exactly the routing prefix the endpoint is registered under (TrimPrefix or a HasPrefix-guarded slice, not TrimLeft); O-5b the five steps of the AMP basic algorithm on one value chain, the 0-...-0 wrap tied to hyphens at indexes 2 and 3; O-5c no store through a *url.URL parameter or a URL field of a rendezvous object. Added after the fifth seeding round: O-3 with a front configured no path reaches the round trip without the Host/URL rewriting; O-2c/C14 the POST handler treats a body as legacy exactly when it starts with '{' (C14's legacy-shim obligations). Added after the sixth seeding round and the mutation audit: O-2 what DecodePath receives derives from URL.Path, not from EscapedPath/RawPath/RequestURI. O-6 the discarded-error rule on the rendezvous files. Added after the seventh seeding round: O-5d a store to url.URL.Path is allowed only on a URL built in place by a composite literal, or together with a store to RawPath (a parsed, resolved or copied URL keeps a stale RawPath and loses the escapes of the configured broker path).",
		NotDecided:  "conformance of the basic algorithm with the AMP specification on IDN inputs, URL escaping details, byte equality of AMP and POST responses (value-level).",
		Assumptions: []string{"net/http sends req.Host as the Host header and connects to req.URL.Host", "idna, base32, sha256 behave as documented"},
	}, runC11)
}

func runC11(c *Ctx) {
	p := c.P
	for _, fn := range p.FnsIn("common/amp") {
		c.analysedFn(p.FnName(fn))
	}
	raw := globalOf(p, "encoding/base64", "RawURLEncoding")
	isRaw := func(v ssa.Value) bool { addr, ok := loadAddr(v); return ok && raw != nil && addr == ssa.Value(raw) }
	// ---------- O-1 ----------
	rule1 := "O-1 path codec agreement"
	ep := p.Fn("common/amp", "EncodePath")
	dp := p.Fn("common/amp", "DecodePath")
	if ep == nil || dp == nil {
		c.undecided(rule1, "amp.EncodePath/DecodePath", "-", "anchor does not resolve")
	} else {
		// encoder: "0" + b64(breaker) + "/" + b64(data), b64 = RawURLEncoding.EncodeToString
		usesRaw := false
		allInstrs(ep, func(in ssa.Instruction) {
			for _, op := range in.Operands(nil) {
				if op != nil && *op != nil && isRaw(*op) {
					usesRaw = true
				}
			}
		})
		lits := map[string]bool{}
		allInstrs(ep, func(in ssa.Instruction) {
			if bo, ok := in.(*ssa.BinOp); ok && bo.Op == token.ADD {
				for _, v := range []ssa.Value{bo.X, bo.Y} {
					if s, ok := constString(v); ok {
						lits[s] = true
					}
				}
			}
		})
		dataEncoded := false
		for _, ci := range callsIn(ep) {
			for _, a := range ci.Common().Args {
				if a == ssa.Value(ep.Params[0]) {
					dataEncoded = true
				}
			}
		}
		c.check(usesRaw && lits["0"] && lits["/"] && dataEncoded, rule1, "EncodePath = \"0\" + padding + \"/\" + RawURLEncoding(data)", p.Pos(ep.Pos()), "", "the encoded path does not have the '0' + padding + '/' + base64url(data) layout")
		// decoder
		var dec *ssa.Call
		for _, ci := range callsIn(dp) {
			if calleeName(ci) == "(*encoding/base64.Encoding).DecodeString" {
				dec, _ = ci.(*ssa.Call)
			}
		}
		var li *ssa.Call
		for _, ci := range callsTo(dp, "strings.LastIndexByte") {
			li, _ = ci.(*ssa.Call)
		}
		good := dec != nil && li != nil && isRaw(dec.Call.Args[0])
		if good {
			k, _ := constInt(li.Call.Args[1])
			good = k == '/'
			sl, ok := dec.Call.Args[1].(*ssa.Slice)
			good = good && ok && sl.High == nil && sl.Low != nil
			if good {
				bo, okb := sl.Low.(*ssa.BinOp)
				one := int64(0)
				if okb {
					one, _ = constInt(bo.Y)
				}
				good = okb && bo.Op == token.ADD && bo.X == ssa.Value(li) && one == 1 && sl.X == li.Call.Args[0]
			}
		}
		c.check(good, rule1, "DecodePath decodes RawURLEncoding of what follows the last '/'", p.Pos(dp.Pos()), "", "the decoder does not take exactly the substring after the last slash, or uses another alphabet: cache-breaking padding can change the decoded poll")
		// format byte
		set := map[int64]bool{}
		acc := condEdges(dp, true, func(a Atom) bool {
			k, ok := constInt(a.Y)
			if a.Op != token.EQL || !ok {
				return false
			}
			switch strip(a.X).(type) {
			case *ssa.Lookup, *ssa.Index:
				set[k] = true
				return true
			}
			return false
		})
		c.check(len(set) == 1 && set['0'] && dec != nil && reachableWithout(dp, dec, acc) == nil, rule1, "DecodePath accepts exactly format '0'", p.Pos(dp.Pos()), "", "the accepted format indicator differs from the one EncodePath writes")
	}

	// ---------- O-2 ----------
	rule2 := "O-2 one handler behind both endpoints"
	aco := p.Fn("broker", "ampClientOffers")
	co := p.Fn("broker", "(*IPC).ClientOffers")
	if aco == nil || co == nil || dp == nil {
		c.undecided(rule2, "broker.ampClientOffers", "-", "anchor does not resolve")
	} else {
		c.analysedFn(p.FnName(aco))
		var call *ssa.Call
		for _, ci := range callsIn(aco) {
			if staticCallee(ci) == co {
				call, _ = ci.(*ssa.Call)
			}
		}
		if call == nil {
			c.viol(rule2, "ampClientOffers calls (*IPC).ClientOffers", p.Pos(aco.Pos()), "the AMP endpoint does not use the common client-offer handler")
		} else {
			// Arg.Body = DecodePath(...) result
			body := structLitFieldOfValue(call.Call.Args[1], "Body")
			okBody := body != nil && flows(body, func(v ssa.Value) bool {
				cc, i, ok := callResult(v)
				return ok && i == 0 && staticCallee(cc) == dp
			})
			c.check(okBody, rule2, "ampClientOffers passes the decoded path as the poll body", p.instrPos(call), "", "the body given to ClientOffers is not the DecodePath result")
			// what DecodePath receives is the request path minus exactly the routing prefix the endpoint is
			// registered under (TrimPrefix or a HasPrefix-guarded slice; not TrimLeft, which strips a character set)
			{
				route := ""
				if mainFn := p.Fn("broker", "main"); mainFn != nil {
					for _, hc := range callsTo(mainFn, "net/http.Handle", "net/http.HandleFunc") {
						if flows(hc.Common().Args[1], func(v ssa.Value) bool { f, ok := v.(*ssa.Function); return ok && f == aco }) {
							route, _ = constString(hc.Common().Args[0])
						}
					}
				}
				var dcall *ssa.Call
				for _, d := range deepCalls(aco, 2, funcFullName(dp)) {
					dcall, _ = d.In.(*ssa.Call)
				}
				okTrim := false
				how := ""
				if dcall != nil && route != "" {
					flows(dcall.Call.Args[0], func(v ssa.Value) bool {
						cc, _, ok := callResult(v)
						if !ok {
							return false
						}
						switch calleeName(cc) {
						case "strings.TrimPrefix":
							pre, okp := constString(cc.Call.Args[1])
							okTrim = okp && pre == route
							how = "strings.TrimPrefix(path, " + fmt.Sprintf("%q", pre) + ")"
							return true
						case "strings.CutPrefix":
							pre, okp := constString(cc.Call.Args[1])
							okTrim = okp && pre == route
							how = "strings.CutPrefix"
							return true
						case "strings.TrimLeft", "strings.Trim", "strings.TrimRight", "strings.TrimSuffix":
							how = calleeName(cc)
							return true
						}
						return false
					})
					if how == "" {
						// path[len(prefix):] behind HasPrefix(path, prefix)
						flows(dcall.Call.Args[0], func(v ssa.Value) bool {
							sl, ok := v.(*ssa.Slice)
							if !ok || sl.Low == nil || sl.High != nil {
								return false
							}
							lo, okl := constInt(sl.Low)
							if okl && lo == int64(len(route)) {
								hp := boolEdges(dcall.Parent(), true, func(w ssa.Value) bool {
									cc, _, okc := callResult(w)
									if !okc || calleeName(cc) != "strings.HasPrefix" {
										return false
									}
									pre, okp := constString(cc.Call.Args[1])
									return okp && pre == route
								})
								okTrim = len(hp) > 0 && reachableWithout(dcall.Parent(), dcall, hp) == nil
								how = "slice after HasPrefix"
								return true
							}
							return false
						})
					}
				}
				if dcall == nil || route == "" || how == "" {
					c.undecided(rule2, "ampClientOffers strips exactly its routing prefix", p.Pos(aco.Pos()), "route registration, DecodePath call or prefix removal not recognised")
				} else {
					c.check(okTrim, rule2, "ampClientOffers strips exactly its routing prefix", p.instrPos(dcall), how+" with the registered route "+fmt.Sprintf("%q", route), "the path handed to DecodePath is not the request path minus exactly the routing prefix ("+how+"): characters of a malformed path are silently dropped (TrimLeft strips a character set) or the prefix differs from the registered route, so ill-formed polls are answered as real ones or well-formed ones rejected")
				}
			}
			// ... and that request path is the decoded one (URL.Path), which is what the mux routed on: the escaped
			// spelling (EscapedPath, RawPath, RequestURI) of an equivalent path differs in its %XX sequences
			{
				var dcall *ssa.Call
				for _, d := range deepCalls(aco, 2, funcFullName(dp)) {
					dcall, _ = d.In.(*ssa.Call)
				}
				if dcall != nil {
					fromPath, fromRaw := false, ""
					flows(dcall.Call.Args[0], func(v ssa.Value) bool {
						if _, f, ok := fieldLoad(v); ok && f.Pkg() != nil && f.Pkg().Path() == "net/url" {
							switch f.Name() {
							case "Path":
								fromPath = true
							case "RawPath", "RawQuery", "Opaque":
								fromRaw = "URL." + f.Name()
							}
						}
						if _, f, ok := fieldLoad(v); ok && f.Name() == "RequestURI" {
							fromRaw = "Request.RequestURI"
						}
						if cc, _, ok := callResult(v); ok {
							switch calleeName(cc) {
							case "(*net/url.URL).EscapedPath", "(*net/url.URL).RequestURI", "(*net/url.URL).String", "(*net/url.URL).EscapedFragment":
								fromRaw = calleeName(cc)
							}
						}
						return false
					})
					if fromRaw != "" {
						c.viol(rule2, "ampClientOffers decodes the unescaped request path", p.instrPos(dcall), "what DecodePath receives derives from "+fromRaw+": a request whose path spells a character as %XX is routed to this handler (the mux matches the unescaped path) and then refused, while the same poll is answered on the POST endpoint")
					} else if fromPath {
						c.ok(rule2, "ampClientOffers decodes the unescaped request path", p.instrPos(dcall), "derives from URL.Path")
					} else {
						c.undecided(rule2, "ampClientOffers decodes the unescaped request path", p.instrPos(dcall), "the origin of the path is not recognised")
					}
				}
			}
			// response written unmodified to the encoder
			respCell := call.Call.Args[2]
			var enc *ssa.Call
			for _, d := range deepCalls(aco, 2, "common/amp.NewArmorEncoder") {
				enc, _ = d.In.(*ssa.Call)
			}
			okWrite := false
			nWrite := 0
			for _, d := range deepCalls(aco, 2, "(io.WriteCloser).Write") {
				ci := d.In.(ssa.CallInstruction)
				nWrite++
				arg := ci.Common().Args[0]
				// load of the response cell (possibly merged by a phi with the error-response bytes)
				okWrite = flows(arg, func(v ssa.Value) bool { return v == respCell }) || sameValue(arg, func(v ssa.Value) bool {
					addr, ok := loadAddr(v)
					return ok && addr == respCell
				})
				if _, isCall := strip(arg).(*ssa.Call); isCall {
					okWrite = false
				}
			}
			c.check(okWrite && nWrite == 1 && enc != nil, rule2, "ampClientOffers armors exactly the handler's response bytes", p.Pos(aco.Pos()), "", "what is written to the armor encoder is not the unmodified response of ClientOffers")
			if enc != nil {
				closed := false
				encFn := enc.Parent()
				for _, ci := range callsIn(encFn) {
					if d, ok := ci.(*ssa.Defer); ok && calleeName(d) == "(io.Closer).Close" || calleeName(ci) == "(io.WriteCloser).Close" {
						if _, isDefer := ci.(*ssa.Defer); isDefer && isResultOfCall(callArgs(ci)[0], enc, 0) {
							closed = reachableWithout(encFn, ci, errNilEdges(encFn, enc, 1)) == nil
						}
					}
				}
				if !closed {
					// or closed explicitly: from the edge on which the encoder exists no return is reached
					// without a Close call on it
					isClose := func(in ssa.Instruction) bool {
						ci, ok := in.(ssa.CallInstruction)
						if !ok {
							return false
						}
						n := calleeName(ci)
						if n != "(io.Closer).Close" && n != "(io.WriteCloser).Close" {
							return false
						}
						args := callArgs(ci)
						return len(args) > 0 && isResultOfCall(args[0], enc, 0)
					}
					okE := errNilEdges(encFn, enc, 1)
					closed = len(okE) > 0
					for _, e := range okE {
						if escapesWithout(e.To(), isClose) != nil {
							closed = false
						}
					}
				}
				c.check(closed, rule2, "ampClientOffers closes the armor encoder on every path after creating it", p.instrPos(enc), "Close (deferred or on every path) behind the err == nil edge", "the armored document can be left without its trailer")
			}
		}
	}

	// the AMP endpoint reports a failed poll the way the POST endpoint does (C14's
	// error-mapping obligation on the two client handlers): 200 with an empty
	// armored document for a poll that POST answers with 500 is not "exactly the
	// poll response the POST endpoint gives"
	{
		var hs []*ssa.Function
		for _, n := range []string{"ampClientOffers", "clientOffers"} {
			if f := p.Fn("broker", n); f != nil {
				hs = append(hs, f)
			}
		}
		c.prefix = "O-2b/C14:"
		c.checkIPCErrorMapping(hs)
		// POST and AMP give the same answer to the same poll only if the POST handler sends everything but
		// '{'-bodies to the versioned decoder (C14's legacy-shim obligations)
		c.prefix = "O-2c/C14:"
		c.checkLegacyShim("O-4 legacy shim is a wrapper around the same handler")
		c.prefix = ""
		c.prefix = ""
	}

	// the poll is resolved RELATIVE to the broker URL (a leading slash would discard the broker
	// URL's own path): the Path of every URL handed to ResolveReference on a broker URL is a
	// constant, or starts with a constant, from this table
	{
		ruleP := "O-1b endpoint paths are relative to the broker URL"
		wantPath := map[string]string{
			"client/lib.(*httpRendezvous).Exchange":     "client",
			"client/lib.(*ampCacheRendezvous).Exchange": "amp/client/",
			"proxy/lib.(*SignalingServer).pollOffer":    "proxy",
			"proxy/lib.(*SignalingServer).sendAnswer":   "answer",
		}
		nRef := 0
		for _, fn := range p.FnsIn("client/lib", "proxy/lib") {
			for _, d := range deepCalls(fn, 2, "(*net/url.URL).ResolveReference") {
				ci := d.In.(ssa.CallInstruction)
				root := fn
				want, known := wantPath[p.FnName(root)]
				if !known {
					continue
				}
				nRef++
				pathV := structLitField(ci.Common().Args[1], "Path")
				got := "?"
				if pathV != nil {
					if sv, ok := constString(pathV); ok {
						got = sv
					} else if bo, okb := strip(pathV).(*ssa.BinOp); okb && bo.Op == token.ADD {
						if sv, ok := constString(bo.X); ok {
							got = sv
						}
					}
				}
				c.check(got == want, ruleP, p.FnName(root)+" resolves \""+want+"\" against the broker URL", p.instrPos(ci), "", "the reference path is \""+got+"\", expected the relative \""+want+"\": an absolute reference drops the path of the broker URL, so the request (and the AMP-cache URL built from it) no longer keeps the broker's path")
			}
		}
		if nRef < 4 {
			c.okTrivial(ruleP, "ResolveReference sites on a broker URL", "-", fmt.Sprintf("%d (reference tree: 4)", nRef))
		}
	}

	// ---------- O-3 / O-4 ----------
	for _, w := range []struct{ typ string }{{"httpRendezvous"}, {"ampCacheRendezvous"}} {
		fn := p.Fn("client/lib", "(*"+w.typ+").Exchange")
		if fn == nil {
			c.undecided("O-3 fronting shape", "client/lib."+w.typ+".Exchange", "-", "anchor does not resolve")
			continue
		}
		c.analysedFn(p.FnName(fn))
		c.checkFronting(fn, w.typ)
		c.checkStatusAndLimit(fn, w.typ)
	}
	c.checkLimitedRead()
	{
		var rz []*ssa.Function
		for _, fn := range p.FnsIn("client/lib") {
			if pos := p.Pos(fn.Pos()); strings.Contains(pos, "rendezvous") {
				rz = append(rz, fn)
			}
		}
		c.checkDecodeErrorsConsumed("O-6 a decoding step's error is part of the verdict", rz)
	}

	// ---------- O-5 ----------
	c.checkCacheURL()
}

// structLitFieldOfValue: v is a struct value loaded from a local literal.
func structLitFieldOfValue(v ssa.Value, name string) ssa.Value {
	if u, ok := v.(*ssa.UnOp); ok {
		return structLitField(u.X, name)
	}
	return structLitField(v, name)
}

func (c *Ctx) checkFronting(fn *ssa.Function, typ string) {
	p := c.P
	rule := "O-3 fronting shape"
	// stores to Request.Host and URL.Host, in Exchange or a helper it calls
	var hostStores, urlHostStores []deepSite
	for _, d := range deepInstrs(fn, 2, func(in ssa.Instruction) bool {
		st, ok := in.(*ssa.Store)
		if !ok {
			return false
		}
		_, f, okf := fieldOfAddr(st.Addr)
		return okf && f.Name() == "Host" && f.Pkg() != nil && (f.Pkg().Path() == "net/http" || f.Pkg().Path() == "net/url")
	}) {
		_, f, _ := fieldOfAddr(d.In.(*ssa.Store).Addr)
		if f.Pkg().Path() == "net/http" {
			hostStores = append(hostStores, d)
		} else {
			urlHostStores = append(urlHostStores, d)
		}
	}
	isFront := func(v ssa.Value, chain []ssa.CallInstruction) bool {
		_, f, okf := fieldLoad(originAlong(v, chain))
		return okf && f.Name() == "front"
	}
	front := func(f *ssa.Function, chain []ssa.CallInstruction) []Edge {
		return condEdges(f, false, func(a Atom) bool {
			if a.Op != token.EQL {
				return false
			}
			if s, ok := constString(a.Y); ok && s == "" && isFront(a.X, chain) {
				return true
			}
			s, ok := constString(a.X)
			return ok && s == "" && isFront(a.Y, chain)
		})
	}
	key := typ + ".Exchange"
	if len(hostStores) != 1 || len(urlHostStores) != 1 {
		c.viol(rule, key+" writes req.Host and req.URL.Host once each", p.Pos(fn.Pos()), fmt.Sprintf("%d stores to Request.Host and %d to URL.Host", len(hostStores), len(urlHostStores)))
		return
	}
	hd, ud := hostStores[0], urlHostStores[0]
	hs, us := hd.In.(*ssa.Store), ud.In.(*ssa.Store)
	_, hf, okh := fieldLoad(hs.Val)
	okHostVal := okh && hf.Name() == "Host" && hf.Pkg() != nil && hf.Pkg().Path() == "net/url"
	if okHostVal {
		// ... of this very request's URL (req.URL.Host), not of some other URL the
		// rendezvous knows (with an AMP cache in between, req.URL is the cache URL and
		// the broker's own host would make the front route to a host that does not exist)
		hb, _, _ := fieldLoad(hs.Val)
		ub, uf2, oku2 := fieldLoad(hb)
		reqOfStore, _, _ := fieldOfAddr(hs.Addr)
		okHostVal = oku2 && uf2.Name() == "URL" && uf2.Pkg() != nil && uf2.Pkg().Path() == "net/http" && xstrip(ub) == xstrip(reqOfStore)
	}
	okURLVal := isFront(us.Val, ud.Chain)
	c.check(okHostVal && okURLVal, rule, key+" sets Host header = broker host and URL host = front", p.instrPos(hs), "", "the values stored into req.Host / req.URL.Host are not (the broker's host, the front)")
	okOrder := false
	if hs.Parent() == us.Parent() {
		okOrder = precedes(hs, us)
	} else {
		okOrder = hd.Top != ud.Top && precedes(hd.Top, ud.Top)
	}
	c.check(okOrder, rule, key+" saves the broker host before overwriting the URL host", p.instrPos(us), "", "req.URL.Host is overwritten with the front before it is copied into req.Host: the Host header names the front and the broker is never named")
	okH, _ := guardedAlong(hd, front)
	okU, _ := guardedAlong(ud, front)
	c.check(okH && okU, rule, key+" fronts exactly when a front domain is configured", p.Pos(fn.Pos()), "", "the Host/URL rewriting is not confined to the front != \"\" edge")
	// ... and always then: with a front configured no request leaves without the rewriting (a second condition on
	// the fronting branch sends the request straight to the broker's own host)
	if ud.In.Parent() == fn {
		fe := front(fn, nil)
		var rt ssa.CallInstruction
		for _, ci := range callsIn(fn) {
			if strings.HasSuffix(calleeName(ci), "RoundTripper).RoundTrip") {
				rt = ci
			}
		}
		if rt != nil && len(fe) > 0 {
			skipped := false
			for _, e := range fe {
				if psSearch(e.To(), nil, func(b *ssa.BasicBlock) bool { return b == ud.In.Block() }, func(b *ssa.BasicBlock) bool { return b == rt.Block() }) != nil && e.To() != ud.In.Block() {
					skipped = true
				}
			}
			c.check(!skipped, rule, key+" always fronts when a front domain is configured", p.instrPos(rt), "", "with a front domain configured a path reaches the round trip without the Host/URL rewriting (an extra condition on the fronting branch): the client connects to the broker's own host")
		}
	}
}

func (c *Ctx) checkStatusAndLimit(fn *ssa.Function, typ string) {
	p := c.P
	rule := "O-4 status and size are errors, never truncated data"
	key := typ + ".Exchange"
	// body reads
	isBodyUse := func(in ssa.Instruction) bool {
		ci, ok := in.(ssa.CallInstruction)
		if !ok {
			return false
		}
		if _, isDefer := ci.(*ssa.Defer); isDefer {
			return false
		}
		for _, a := range ci.Common().Args {
			if _, f, okf := fieldLoad(a); okf && f.Name() == "Body" {
				return true
			}
		}
		return false
	}
	// &io.LimitedReader{R: resp.Body, N: k}: the store of the body into R is a use as well
	isBodyStore := func(in ssa.Instruction) bool {
		st, ok := in.(*ssa.Store)
		if !ok {
			return false
		}
		if _, f, okf := fieldLoad(st.Val); okf && f.Name() == "Body" {
			return true
		}
		if mi, isMI := st.Val.(*ssa.MakeInterface); isMI {
			if _, f, okf := fieldLoad(mi.X); okf && f.Name() == "Body" {
				return true
			}
		}
		return false
	}
	isBodyUse0 := isBodyUse
	isBodyUse = func(in ssa.Instruction) bool { return isBodyUse0(in) || isBodyStore(in) }
	okStatus := condEdges(fn, true, func(a Atom) bool {
		if a.Op != token.EQL {
			return false
		}
		k, ok := constInt(a.Y)
		_, f, okf := fieldLoad(a.X)
		return ok && k == 200 && okf && f.Name() == "StatusCode"
	})
	n := 0
	for _, in := range instrsWhere(fn, isBodyUse) {
		n++
		path := reachableWithout(fn, in, okStatus)
		c.check(len(okStatus) > 0 && path == nil, rule, key+" reads the body only when StatusCode == 200", p.instrPos(in), "", "the response body is used although the status was not exactly 200 (a 206/203/204 answer of a front or cache would be returned as data)", p.pathString(path)...)
	}
	if n == 0 {
		c.undecided(rule, key+" body use", p.Pos(fn.Pos()), "no use of resp.Body found")
	}
	rl := p.Const("client/lib", "readLimit")
	c.check(rl != nil && rl.Val().ExactString() == "100000", rule, "client/lib.readLimit == 100000", "-", "", "the response size limit is not 100000")
	switch typ {
	case "httpRendezvous":
		ok := false
		for _, r := range returnsOf(fn) {
			if cc, _, okc := callResult(retVal(r, 0)); okc && calleeName(cc) == "client/lib.limitedRead" {
				k, _ := constInt(cc.Call.Args[1])
				ok = k == 100000
			}
		}
		c.check(ok, rule, key+" returns limitedRead(body, readLimit)", p.Pos(fn.Pos()), "", "the body is not read through limitedRead with the 100000-byte limit")
	case "ampCacheRendezvous":
		var lr *ssa.Call
		outer := fn
		for _, d := range deepCalls(fn, 2, "io.LimitReader") {
			lr, _ = d.In.(*ssa.Call)
			if lr != nil && lr.Parent() != fn {
				// the decoding lives in a helper: Exchange must return that helper's results as they are
				passes := false
				top, _ := d.Top.(*ssa.Call)
				for _, r := range returnsOf(fn) {
					if len(r.Results) == 2 && top != nil && len(d.Chain) == 1 {
						c0, i0, ok0 := callResult(retVal(r, 0))
						c1, i1, ok1 := callResult(retVal(r, 1))
						if ok0 && ok1 && c0 == top && c1 == top && i0 == 0 && i1 == 1 {
							passes = true
						}
					}
				}
				if !passes {
					lr = nil
				}
			}
		}
		if lr != nil {
			fn = lr.Parent()
		}
		_ = outer
		good := lr != nil
		if good {
			k, _ := constInt(lr.Call.Args[1])
			good = k == 100001
		}
		litForm := false
		if lr == nil {
			// the literal form &io.LimitedReader{R: body, N: readLimit+1} handed to the decoder
			allInstrs(fn, func(in ssa.Instruction) {
				al, ok := in.(*ssa.Alloc)
				if !ok || !strings.HasSuffix(al.Type().String(), "*io.LimitedReader") {
					return
				}
				nv, rv := structLitField(al, "N"), structLitField(al, "R")
				if nv == nil || rv == nil {
					return
				}
				k, _ := constInt(nv)
				body := false
				if mi, isMI := rv.(*ssa.MakeInterface); isMI {
					rv = mi.X
				}
				if _, f, okf := fieldLoad(rv); okf && f.Name() == "Body" {
					body = true
				}
				used := false
				for _, d := range deepCalls(fn, 1, "common/amp.NewArmorDecoder") {
					if ci, okc := d.In.(ssa.CallInstruction); okc && flows(ci.Common().Args[0], func(v ssa.Value) bool { return v == ssa.Value(al) }) {
						used = true
					}
				}
				if k == 100001 && body && used {
					good, litForm = true, true
				}
			})
		}
		c.check(good, rule, key+" decodes through io.LimitReader(body, readLimit+1)", p.Pos(fn.Pos()), "", "the body is not capped at readLimit+1 bytes (with a cap of exactly readLimit an over-long document cut at the limit can still be well-formed and is returned as data)")
		// N == 0 edge returns an error
		if lr != nil || litForm {
			hit := condEdges(fn, true, func(a Atom) bool {
				if a.Op != token.EQL {
					return false
				}
				k, ok := constInt(a.Y)
				_, f, okf := fieldLoad(a.X)
				return ok && k == 0 && okf && f.Name() == "N"
			})
			okErr := len(hit) > 0
			for _, e := range hit {
				// every path from the edge returns a non-nil error
				for _, r := range returnsOf(fn) {
					if reachPath(e.To(), r.Block(), nil) != nil && retMayBeNil(r, 1) {
						okErr = false
					}
				}
			}
			// success returns only on the N != 0 edge
			miss := condEdges(fn, false, func(a Atom) bool {
				k, ok := constInt(a.Y)
				_, f, okf := fieldLoad(a.X)
				return a.Op == token.EQL && ok && k == 0 && okf && f.Name() == "N"
			})
			for _, r := range returnsOf(fn) {
				// a return that carries data (first result not the nil constant)
				if _, isConstNil := retVal(r, 0).(*ssa.Const); !isConstNil && reachableWithout(fn, r, miss) != nil {
					okErr = false
				}
			}
			c.check(okErr, rule, key+" reports a document that reached the limit as an error", p.Pos(fn.Pos()), "N == 0 => error; data returned only behind N != 0", "a response beyond the limit can be returned as (truncated) data")
		}
	}
}

func (c *Ctx) checkLimitedRead() {
	p := c.P
	rule := "O-4 status and size are errors, never truncated data"
	fn := p.Fn("client/lib", "limitedRead")
	if fn == nil {
		c.undecided(rule, "client/lib.limitedRead", "-", "anchor does not resolve")
		return
	}
	c.analysedFn(p.FnName(fn))
	limit := fn.Params[1]
	plus1 := func(v ssa.Value) bool {
		bo, ok := v.(*ssa.BinOp)
		if !ok || bo.Op != token.ADD {
			return false
		}
		k, okk := constInt(bo.Y)
		return okk && k == 1 && bo.X == ssa.Value(limit)
	}
	okN := false
	allInstrs(fn, func(in ssa.Instruction) {
		if st, ok := in.(*ssa.Store); ok {
			if _, f, okf := fieldOfAddr(st.Addr); okf && f.Name() == "N" && plus1(st.Val) {
				okN = true
			}
		}
	})
	over := condEdges(fn, true, func(a Atom) bool {
		if a.Op != token.EQL {
			return false
		}
		return (plus1(a.Y) || plus1(a.X))
	})
	okErr := len(over) > 0
	for _, e := range over {
		for _, r := range returnsOf(fn) {
			if reachPath(e.To(), r.Block(), nil) != nil && retMayBeNil(r, 1) {
				okErr = false
			}
		}
	}
	c.check(okN && okErr, rule, "limitedRead reads limit+1 bytes and fails when they all arrive", p.Pos(fn.Pos()), "", "an over-long body is not detected (N is not limit+1, or the len == limit+1 edge can return a nil error)")
}

func (c *Ctx) checkCacheURL() {
	p := c.P
	rule := "O-5 cache URL constants"
	dpx := p.Fn("common/amp", "domainPrefix")
	basic := p.Fn("common/amp", "domainPrefixBasic")
	fb := p.Fn("common/amp", "domainPrefixFallback")
	cu := p.Fn("common/amp", "CacheURL")
	if dpx == nil || basic == nil || fb == nil || cu == nil {
		c.undecided(rule, "amp cache anchors", "-", "anchor does not resolve")
		return
	}
	c.checkBasicPrefixSteps(basic)
	c.checkURLParamsReadOnly()
	var bc *ssa.Call
	for _, ci := range callsIn(dpx) {
		if staticCallee(ci) == basic {
			bc, _ = ci.(*ssa.Call)
		}
	}
	if bc == nil {
		c.viol(rule, "domainPrefix tries the basic algorithm", p.Pos(dpx.Pos()), "no call of domainPrefixBasic")
	} else {
		isLen := func(v ssa.Value) bool {
			cc, _, okc := callResult(v)
			return okc && calleeName(cc) == "builtin.len" && isResultOfCall(cc.Call.Args[0], bc, 0)
		}
		is63 := func(v ssa.Value) bool { k, ok := constInt(v); return ok && k == 63 }
		is64 := func(v ssa.Value) bool { k, ok := constInt(v); return ok && k == 64 }
		short := append(cmpEdges(dpx, "<=", isLen, is63), cmpEdges(dpx, "<", isLen, is64)...)
		n := 0
		for _, r := range returnsOf(dpx) {
			if !isResultOfCall(r.Results[0], bc, 0) {
				continue
			}
			n++
			p1 := reachableWithout(dpx, r, errNilEdges(dpx, bc, 1))
			p2 := reachableWithout(dpx, r, short)
			c.check(p1 == nil && len(short) > 0 && p2 == nil, rule, "domainPrefix uses the basic result only if err == nil and len(result) <= 63", p.instrPos(r), "", "the basic-algorithm prefix can be returned although it failed or is longer than a 63-byte DNS label (length must be measured on the result, which hyphen doubling and the 0-...-0 wrap make longer than the domain)")
		}
		if n == 0 {
			c.undecided(rule, "domainPrefix returns the basic result", p.Pos(dpx.Pos()), "no such return")
		}
		okFb := false
		for _, r := range returnsOf(dpx) {
			if cc, _, ok := callResult(r.Results[0]); ok && staticCallee(cc) == fb && cc.Call.Args[0] == ssa.Value(dpx.Params[0]) {
				okFb = true
			}
		}
		c.check(okFb, rule, "domainPrefix otherwise returns the fallback of the domain", p.Pos(dpx.Pos()), "", "the fallback is not applied to the original domain")
	}
	// fallback: sha256 + base32 lower-case no padding
	okSha, okEnc := false, false
	for _, ci := range callsIn(fb) {
		if calleeName(ci) == "crypto/sha256.Sum256" {
			okSha = true
		}
		if calleeName(ci) == "(*encoding/base32.Encoding).EncodeToString" {
			if addr, ok := loadAddr(ci.Common().Args[0]); ok {
				if g, okg := addr.(*ssa.Global); okg && g.Name() == "fallbackBase32Encoding" {
					okEnc = true
				}
			}
		}
	}
	okAlpha := false
	if g := p.Global("common/amp", "fallbackBase32Encoding"); g != nil {
		if init := g.Pkg.Func("init"); init != nil {
			var alpha string
			noPad := false
			for _, ci := range callsIn(init) {
				switch calleeName(ci) {
				case "encoding/base32.NewEncoding":
					alpha, _ = constString(ci.Common().Args[0])
				case "(encoding/base32.Encoding).WithPadding":
					k, _ := constInt(ci.Common().Args[1])
					noPad = k == -1
				}
			}
			okAlpha = alpha == "abcdefghijklmnopqrstuvwxyz234567" && noPad
		}
	}
	c.check(okSha && okEnc && okAlpha, rule, "fallback prefix = lower-case unpadded base32 of SHA-256(domain)", p.Pos(fb.Pos()), "52 dot-free bytes", "the fallback prefix is not base32(sha256(domain)) with the lower-case alphabet and no padding")
	// CacheURL: "s" exactly for https; error returns for the rejections
	isScheme := func(v ssa.Value) bool { _, f, ok := fieldLoad(v); return ok && f.Name() == "Scheme" }
	https := eqEdges(cu, true, isScheme, func(v ssa.Value) bool { s, ok := constString(v); return ok && s == "https" })
	nS := 0
	allInstrs(cu, func(in ssa.Instruction) {
		st, ok := in.(*ssa.Store)
		if !ok {
			return
		}
		if s, oks := constString(st.Val); oks && s == "s" {
			nS++
			c.check(len(https) > 0 && reachableWithout(cu, st, https) == nil, rule, "CacheURL appends \"s\" exactly for https", p.instrPos(st), "", "the /s/ path component is not tied to the https scheme")
		}
	})
	if nS != 1 {
		c.undecided(rule, "CacheURL \"s\" component", p.Pos(cu.Pos()), fmt.Sprintf("%d stores of \"s\"", nS))
	}
	// success return requires: scheme in {http, https}, User == nil, RawQuery == "", Fragment == ""
	var succ *ssa.Return
	for _, r := range returnsOf(cu) {
		if isNilConst(r.Results[1]) {
			succ = r
		}
	}
	if succ == nil {
		c.undecided(rule, "CacheURL success return", p.Pos(cu.Pos()), "none")
		return
	}
	http := eqEdges(cu, true, isScheme, func(v ssa.Value) bool { s, ok := constString(v); return ok && s == "http" })
	field := func(name string) func(ssa.Value) bool {
		return func(v ssa.Value) bool { _, f, ok := fieldLoad(v); return ok && f.Name() == name }
	}
	emptyStr := func(v ssa.Value) bool { s, ok := constString(v); return ok && s == "" }
	guards := []struct {
		what  string
		edges []Edge
	}{
		{"scheme is http or https", append(append([]Edge{}, https...), http...)},
		{"no userinfo in the publisher URL", nilCheckEdges(cu, true, field("User"))},
		{"no query in the cache URL", eqEdges(cu, true, field("RawQuery"), emptyStr)},
		{"no fragment in the cache URL", eqEdges(cu, true, field("Fragment"), emptyStr)},
	}
	for _, g := range guards {
		path := reachableWithout(cu, succ, g.edges)
		c.check(len(g.edges) > 0 && path == nil, rule, "CacheURL succeeds only if "+g.what, p.instrPos(succ), "", "a cache URL is produced although the check '"+g.what+"' did not hold", p.pathString(path)...)
	}
	// result keeps the publisher's query
	if al, ok := succ.Results[0].(*ssa.Alloc); ok {
		rq := structLitField(al, "RawQuery")
		_, f, okf := fieldLoad(rq)
		c.check(okf && f.Name() == "RawQuery" && strings.Contains(describeOperand(p, rq), "RawQuery"), rule, "CacheURL keeps the publisher URL's query", p.instrPos(succ), "", "the broker URL's query is not carried into the cache URL")
	}
}

// retVal resolves result i of a return, looking through the result cells that
// go/ssa introduces when the function has deferred calls.
func retVal(r *ssa.Return, i int) ssa.Value {
	v := r.Results[i]
	if u, ok := v.(*ssa.UnOp); ok && u.Op == token.MUL {
		if _, isAlloc := u.X.(*ssa.Alloc); isAlloc {
			// closest preceding store in the block (before rundefers)
			b := u.Block()
			for k := instrIndex(u) - 1; k >= 0; k-- {
				if st, ok := b.Instrs[k].(*ssa.Store); ok && st.Addr == u.X {
					return st.Val
				}
			}
		}
	}
	return v
}

// checkBasicPrefixSteps: domainPrefixBasic performs the five steps of the AMP
// cache "basic algorithm" on one value chain: ToUnicode, every "-" doubled,
// every "." turned into "-", the 0-...-0 wrap exactly when the bytes at positions
// 3 and 4 (indexes 2 and 3) are both hyphens, ToASCII.
func (c *Ctx) checkBasicPrefixSteps(basic *ssa.Function) {
	p := c.P
	rule := "O-5b basic domain-prefix algorithm"
	var toU, toA, rep1, rep2 *ssa.Call
	for _, d := range deepCalls(basic, 2, "golang.org/x/net/idna.ToUnicode", "golang.org/x/net/idna.ToASCII", "strings.Replace", "strings.ReplaceAll") {
		cc, ok := d.In.(*ssa.Call)
		if !ok {
			continue
		}
		switch calleeName(cc) {
		case "golang.org/x/net/idna.ToUnicode":
			toU = cc
		case "golang.org/x/net/idna.ToASCII":
			toA = cc
		default:
			from, _ := constString(cc.Call.Args[1])
			to, _ := constString(cc.Call.Args[2])
			all := calleeName(cc) == "strings.ReplaceAll"
			if !all {
				if k, okk := constInt(cc.Call.Args[3]); okk && k < 0 {
					all = true
				}
			}
			switch {
			case from == "-" && to == "--" && all:
				rep1 = cc
			case from == "." && to == "-" && all:
				rep2 = cc
			}
		}
	}
	fromCall := func(v ssa.Value, cc *ssa.Call) bool {
		return cc != nil && flows(v, func(w ssa.Value) bool { c2, _, ok := callResult(w); return ok && c2 == cc })
	}
	c.check(toU != nil && rep1 != nil && fromCall(rep1.Call.Args[0], toU), rule, "step 2 doubles every hyphen of the ToUnicode result", p.Pos(basic.Pos()), "", "hyphens of the decoded domain are not all doubled (or not on the decoded domain): domains with hyphens collide with domains with dots")
	c.check(rep1 != nil && rep2 != nil && fromCall(rep2.Call.Args[0], rep1), rule, "step 3 turns every dot of the step-2 result into a hyphen", p.Pos(basic.Pos()), "", "dots are not replaced after the hyphens were doubled: the prefix is not a single label, or dots and hyphens are confused")
	c.check(toA != nil && rep2 != nil && fromCall(toA.Call.Args[0], rep2), rule, "step 5 Punycode-encodes the result of steps 3-4", p.Pos(basic.Pos()), "", "the value encoded at the end is not the transformed domain")
	if rep2 == nil {
		return
	}
	fn := rep2.Parent()
	// step 4: "0-" + x + "-0"
	var wrap *ssa.BinOp
	allInstrs(fn, func(in ssa.Instruction) {
		bo, ok := in.(*ssa.BinOp)
		if !ok || bo.Op != token.ADD {
			return
		}
		if s, oks := constString(bo.Y); !oks || s != "-0" {
			return
		}
		if in2, ok2 := bo.X.(*ssa.BinOp); ok2 && in2.Op == token.ADD {
			if s, oks := constString(in2.X); oks && s == "0-" && fromCall(in2.Y, rep2) {
				wrap = bo
			}
		}
	})
	if wrap == nil {
		c.viol(rule, "step 4 wraps the prefix in 0-...-0", p.Pos(basic.Pos()), "no \"0-\" + prefix + \"-0\" built from the step-3 result: a prefix with hyphens at positions 3 and 4 is mistaken for a Punycode label")
		return
	}
	isStep3 := func(v ssa.Value) bool { return fromCall(v, rep2) }
	byteAt := func(k int64) []Edge {
		return condEdges(fn, true, func(a Atom) bool {
			if a.Op != token.EQL {
				return false
			}
			for _, pr := range [][2]ssa.Value{{a.X, a.Y}, {a.Y, a.X}} {
				var idx ssa.Value
				var base ssa.Value
				switch x := strip(pr[0]).(type) {
				case *ssa.Lookup:
					idx, base = x.Index, x.X
				case *ssa.Index:
					idx, base = x.Index, x.X
				default:
					continue
				}
				i, oki := constInt(idx)
				ch, okc := constInt(pr[1])
				if oki && okc && i == k && ch == '-' && isStep3(base) {
					return true
				}
			}
			return false
		})
	}
	e2, e3 := byteAt(2), byteAt(3)
	// equivalent spellings: prefix[2:4] == "--", strings.HasPrefix(prefix[2:], "--")
	sliceForm := condEdges(fn, true, func(a Atom) bool {
		if a.Op != token.EQL {
			return false
		}
		for _, pr := range [][2]ssa.Value{{a.X, a.Y}, {a.Y, a.X}} {
			sl, ok := strip(pr[0]).(*ssa.Slice)
			if !ok || sl.Low == nil || sl.High == nil {
				continue
			}
			lo, ok1 := constInt(sl.Low)
			hi, ok2 := constInt(sl.High)
			s, ok3 := constString(pr[1])
			if ok1 && ok2 && ok3 && lo == 2 && hi == 4 && s == "--" && isStep3(sl.X) {
				return true
			}
		}
		return false
	})
	sliceForm = append(sliceForm, boolEdges(fn, true, func(v ssa.Value) bool {
		cc, _, ok := callResult(v)
		if !ok || calleeName(cc) != "strings.HasPrefix" {
			return false
		}
		sl, oks := strip(cc.Call.Args[0]).(*ssa.Slice)
		if !oks || sl.Low == nil || sl.High != nil {
			return false
		}
		lo, ok1 := constInt(sl.Low)
		s, ok3 := constString(cc.Call.Args[1])
		return ok1 && ok3 && lo == 2 && s == "--" && isStep3(sl.X)
	})...)
	good := false
	if len(e2) > 0 && len(e3) > 0 {
		ok2, _ := consumedOnlyBehind(fn, wrap, e2)
		ok3, _ := consumedOnlyBehind(fn, wrap, e3)
		good = ok2 && ok3
	} else if len(sliceForm) > 0 {
		good, _ = consumedOnlyBehind(fn, wrap, sliceForm)
	}
	c.check(good, rule, "step 4 wraps exactly when the bytes at positions 3 and 4 are both hyphens", p.instrPos(wrap), "", "the 0-...-0 wrap is not tied to hyphens at positions 3 and 4 of the step-3 result (indexes 2 and 3): prefixes such as a----b are left unwrapped, or others are wrapped needlessly, and the cache host differs from the one the AMP cache computes")
}

// checkURLParamsReadOnly: the URL builders do not write through the *url.URL
// values they are given (parameters, or the broker/cache URLs stored in the
// rendezvous objects): those are the client's configuration, shared by every
// later poll; the result is built in a new url.URL.
func (c *Ctx) checkURLParamsReadOnly() {
	p := c.P
	rule := "O-5c configured URLs are read-only"
	scope := append(p.FnsIn("common/amp"), p.FnsIn("client/lib")...)
	n, bad := 0, 0
	for _, fn := range scope {
		allInstrs(fn, func(in ssa.Instruction) {
			st, ok := in.(*ssa.Store)
			if !ok {
				return
			}
			fa, ok := st.Addr.(*ssa.FieldAddr)
			if !ok || !strings.HasSuffix(fa.X.Type().String(), "*net/url.URL") {
				return
			}
			n++
			base := xstrip(fa.X)
			shared := ""
			switch b := base.(type) {
			case *ssa.Parameter:
				shared = "parameter " + b.Name()
			default:
				if _, f, okf := fieldLoad(base); okf && f.Pkg() != nil && strings.HasPrefix(f.Pkg().Path(), modPath) {
					shared = "field " + f.Name()
				}
			}
			if shared != "" {
				bad++
				c.viol(rule, p.FnName(fn)+" writes through the URL held in "+shared, p.instrPos(st), "a configured URL (broker, cache, front) is modified in place: the first request is right, every later one is built from the modified URL")
			}
		})
	}
	if bad == 0 {
		c.ok(rule, "no store through a *url.URL parameter or a URL field of a rendezvous object", "-", fmt.Sprintf("%d store(s) into url.URL fields examined (request URLs and fresh results)", n))
	}
	// A URL that was parsed, resolved or copied from another carries the escaped form of its path in RawPath;
	// net/url uses RawPath only while it is a valid encoding of Path. Writing Path alone on such a URL silently
	// drops the escapes of the configured broker path (EscapedPath falls back to the default encoding). Only a
	// URL built field by field in a fresh composite literal has no RawPath to go stale.
	ruleR := "O-5d a rewritten path keeps its escaped form"
	nP, badP := 0, 0
	for _, fn := range scope {
		type acc struct {
			path    []*ssa.Store
			rawPath bool
			whole   bool
		}
		bases := map[ssa.Value]*acc{}
		get := func(v ssa.Value) *acc {
			if bases[v] == nil {
				bases[v] = &acc{}
			}
			return bases[v]
		}
		allInstrs(fn, func(in ssa.Instruction) {
			st, ok := in.(*ssa.Store)
			if !ok {
				return
			}
			if fa, okf := st.Addr.(*ssa.FieldAddr); okf && strings.HasSuffix(fa.X.Type().String(), "*net/url.URL") {
				if _, f, okn := fieldOfAddr(fa); okn {
					switch f.Name() {
					case "Path":
						get(xstrip(fa.X)).path = append(get(xstrip(fa.X)).path, st)
					case "RawPath":
						get(xstrip(fa.X)).rawPath = true
					}
				}
				return
			}
			if strings.HasSuffix(st.Addr.Type().String(), "*net/url.URL") {
				get(xstrip(st.Addr)).whole = true
			}
		})
		for base, a := range bases {
			for _, st := range a.path {
				nP++
				_, fresh := base.(*ssa.Alloc)
				if (fresh && !a.whole) || a.rawPath {
					continue
				}
				badP++
				c.viol(ruleR, p.FnName(fn)+" rewrites the Path of a parsed or copied URL", p.instrPos(st), "Path is stored on a URL that was not built in place, and RawPath is left as it was: escaped characters of the configured broker path are lost from the request URL")
			}
		}
	}
	if badP == 0 {
		c.ok(ruleR, "every store to url.URL.Path is on a URL built in place (or RawPath is stored with it)", "-", fmt.Sprintf("%d store(s) to Path examined", nP))
	}
}
