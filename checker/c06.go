package main

import (
	"fmt"
	"go/token"
	"strings"

	"golang.org/x/tools/go/ssa"
)

func init() {
	register("C06", propMeta{
		Explanation: "E-GUARD + E-PROV + E-OWN. O-1 matcher siblings agree: in IsSupersetOf and IsMember the receiver's suffix is always the needle (second argument of strings.HasSuffix, or one side of == in the exact branch); in the exact branch IsSupersetOf can yield true only behind 'the other rule is exact too'; NewNameMatcher strips one trailing $ and one leading ^ and takes exact from the leading ^. With these shapes 'superset implies membership' follows from transitivity of 'is a suffix of' (paper argument); the checker decides the shapes. O-2 broker rejects before registering: in ProxyPolls RequestOffer (the only way a poll becomes matchable; single caller) is reachable only through the true edge of CheckProxyRelayPattern applied to the decoded pattern and support flag; on the false edge the response is the explicit rejection; CheckProxyRelayPattern returns nothing but proxyPattern.IsSupersetOf(brokerPattern) with the receiver built from the proxy's (or, exactly on the legacy edge, the presumed) pattern and the argument from the allowed pattern. O-3 proxy validates before it can dial: the only WebSocket dial of proxy/lib is in datachannelHandler, reached only through the adaptor built in runSession with the polled relay URL; that construction is reachable only through (relayURL == \"\" or IsMember(parsed host)) and only through (relayURL == \"\" or AllowNonTLSRelay or scheme == wss), with parsed = url.Parse(relayURL) behind its err == nil edge and the matcher built from the proxy's own pattern; the URL dialled derives from that same string; Start refuses patterns without a trailing $. Added after the second seeding round: O-2b the stored pattern fields derive, through the installing function's parameters and main's arguments, from the flag variables registered under -allowed-relay-pattern and -default-relay-pattern respectively; the relay-URL predicates may live in a boolean helper of runSession (summarised by its true-returning paths). Added after the fourth seeding round: O-3c AllowNonTLSRelay and RelayDomainNamePattern are assigned only in the proxy's main, from the flags of those names, the permission defaulting to false; O-4/C12 the decoder's 'supports relay pattern' flag is the presence of the field (C12's default obligations).",
		NotDecided:  "the string law over all patterns and hostnames (value-level), DNS/redirect behaviour of the WebSocket dialer, the operator's choice of patterns.",
		Assumptions: []string{"strings.HasSuffix/TrimSuffix/TrimPrefix/HasPrefix behave as documented"},
	}, runC06)
}

func runC06(c *Ctx) {
	c.checkMatcherShapes()
	c.checkBrokerRelayGate()
	c.checkBrokerPatternWiring()
	c.checkProxyRelayGate()
	c.checkProxyPolicyIsConfiguration()
	// which pattern the broker tests depends on the decoder's 'supports relay pattern' flag being the presence
	// of the field (C12's default obligations)
	c.prefix = "O-4/C12:"
	c.checkMessageDefaults()
	c.prefix = ""
}

// checkBrokerPatternWiring: the two pattern fields of the broker context are
// written only from the command-line flags that carry their names
// (allowedRelayPattern <- -allowed-relay-pattern, presumedPatternForLegacyClient
// <- -default-relay-pattern), following the stored value through the parameters
// of the installing function to the flag variable.
func (c *Ctx) checkBrokerPatternWiring() {
	p := c.P
	rule := "O-2b pattern flags reach the fields they configure"
	want := map[string]string{"allowedRelayPattern": "allowed-relay-pattern", "presumedPatternForLegacyClient": "default-relay-pattern"}
	broker := p.FnsIn("broker")
	// flag variable -> flag name
	flagName := map[ssa.Value]string{}
	for _, fn := range broker {
		for _, ci := range callsTo(fn, "flag.StringVar") {
			if nm, ok := constString(ci.Common().Args[1]); ok {
				flagName[ci.Common().Args[0]] = nm
			}
		}
	}
	var origin func(v ssa.Value, depth int) []string
	origin = func(v ssa.Value, depth int) []string {
		v = strip(v)
		if depth > 4 {
			return []string{"?"}
		}
		if par, ok := v.(*ssa.Parameter); ok {
			fn := par.Parent()
			idx := -1
			for i, q := range fn.Params {
				if q == par {
					idx = i
				}
			}
			var out []string
			for _, site := range p.realCallers(fn) {
				args := callArgs(site)
				if idx < len(args) {
					out = append(out, origin(args[idx], depth+1)...)
				}
			}
			if len(out) == 0 {
				return []string{"?"}
			}
			return out
		}
		if addr, ok := loadAddr(v); ok {
			if nm, okf := flagName[addr]; okf {
				return []string{nm}
			}
		}
		if s, ok := constString(v); ok {
			return []string{"const:" + s}
		}
		return []string{"?"}
	}
	for field, flagWant := range want {
		f := p.Field("broker", "BrokerContext", field)
		if f == nil {
			c.undecided(rule, "BrokerContext."+field, "-", "field does not resolve")
			continue
		}
		n := 0
		for _, st := range storesToField(broker, f) {
			n++
			srcs := origin(st.Val, 0)
			good := len(srcs) > 0
			for _, s := range srcs {
				if s != flagWant {
					good = false
				}
			}
			c.check(good, rule, "BrokerContext."+field+" is configured from -"+flagWant, p.instrPos(st), "", fmt.Sprintf("the field is written from %v, expected the -%s flag: the allowed pattern and the pattern presumed for legacy proxies are exchanged or mis-wired", srcs, flagWant))
		}
		if n == 0 {
			c.undecided(rule, "BrokerContext."+field+" stores", "-", "none found")
		}
	}
}

func (c *Ctx) checkMatcherShapes() {
	p := c.P
	rule := "O-1 matcher siblings agree"
	sup := p.Fn("common/namematcher", "(*NameMatcher).IsSupersetOf")
	mem := p.Fn("common/namematcher", "(*NameMatcher).IsMember")
	newM := p.Fn("common/namematcher", "NewNameMatcher")
	if sup == nil || mem == nil || newM == nil {
		c.undecided(rule, "namematcher anchors", "-", "anchor does not resolve")
		return
	}
	for _, fn := range []*ssa.Function{sup, mem, newM} {
		c.analysedFn(p.FnName(fn))
	}
	recvField := func(fn *ssa.Function, v ssa.Value, name string) bool {
		base, f, ok := fieldLoad(v)
		return ok && f.Name() == name && strip(base) == ssa.Value(fn.Params[0])
	}
	paramField := func(fn *ssa.Function, v ssa.Value, name string) bool {
		// the parameter is a struct value: Field or FieldAddr of its spill
		if fl, ok := strip(v).(*ssa.Field); ok {
			st := derefStruct(fl.X.Type())
			return st != nil && st.Field(fl.Field).Name() == name && fl.X == ssa.Value(fn.Params[1])
		}
		base, f, ok := fieldLoad(v)
		if !ok || f.Name() != name {
			return false
		}
		if al, ok := base.(*ssa.Alloc); ok {
			return paramSpill(al) == ssa.Value(fn.Params[1])
		}
		return false
	}
	exactTrue := func(fn *ssa.Function) []Edge {
		return boolEdges(fn, true, func(v ssa.Value) bool { return recvField(fn, v, "exact") })
	}
	exactFalse := func(fn *ssa.Function) []Edge {
		return boolEdges(fn, false, func(v ssa.Value) bool { return recvField(fn, v, "exact") })
	}
	// --- IsSupersetOf ---
	{
		otherExact := boolEdges(sup, true, func(v ssa.Value) bool { return paramField(sup, v, "exact") })
		nEq, nHS := 0, 0
		allInstrs(sup, func(in ssa.Instruction) {
			switch x := in.(type) {
			case *ssa.BinOp:
				if x.Op != token.EQL {
					return
				}
				a := recvField(sup, x.X, "suffix") && paramField(sup, x.Y, "suffix")
				b := recvField(sup, x.Y, "suffix") && paramField(sup, x.X, "suffix")
				if !a && !b {
					return
				}
				nEq++
				ok1, _ := consumedOnlyBehind(sup, x, exactTrue(sup))
				ok2, _ := consumedOnlyBehind(sup, x, otherExact)
				c.check(len(otherExact) > 0 && ok1 && ok2, rule, "IsSupersetOf: an exact rule is a superset only of the identical exact rule", p.instrPos(in), "suffix equality evaluated only when both rules are exact",
					"in the exact branch the suffixes are compared without requiring the other rule to be exact: '^a$' is judged a superset of 'a$', which accepts hosts the exact rule rejects")
			case *ssa.Call:
				if calleeName(x) != "strings.HasSuffix" {
					return
				}
				nHS++
				okUse, _ := consumedOnlyBehind(sup, x, exactFalse(sup))
				good := paramField(sup, x.Call.Args[0], "suffix") && recvField(sup, x.Call.Args[1], "suffix") && okUse && len(exactFalse(sup)) > 0
				c.check(good, rule, "IsSupersetOf: suffix rule tests HasSuffix(other.suffix, own.suffix)", p.instrPos(in), "receiver's suffix is the needle", "receiver and argument of the suffix test are swapped (or the test is not confined to the non-exact branch): a narrower pattern is judged a superset of a wider one")
			}
		})
		// no constant true can be returned
		for _, r := range returnsOf(sup) {
			bad := false
			var visit func(v ssa.Value, depth int)
			visit = func(v ssa.Value, depth int) {
				if depth > 5 {
					return
				}
				if k, ok := v.(*ssa.Const); ok && k.Value != nil && k.Value.String() == "true" {
					bad = true
				}
				if ph, ok := v.(*ssa.Phi); ok {
					for _, e := range ph.Edges {
						visit(e, depth+1)
					}
				}
			}
			visit(r.Results[0], 0)
			c.check(!bad, rule, "IsSupersetOf never returns a constant true", p.instrPos(r), "", "a superset verdict that does not depend on both rules")
		}
		if nEq != 1 || nHS != 1 {
			c.undecided(rule, "IsSupersetOf shape", p.Pos(sup.Pos()), fmt.Sprintf("%d suffix equalities and %d HasSuffix calls found, expected 1 and 1", nEq, nHS))
		}
	}
	// --- IsMember ---
	{
		nEq, nHS := 0, 0
		s := mem.Params[1]
		allInstrs(mem, func(in ssa.Instruction) {
			switch x := in.(type) {
			case *ssa.BinOp:
				if x.Op == token.EQL && ((x.X == ssa.Value(s) && recvField(mem, x.Y, "suffix")) || (x.Y == ssa.Value(s) && recvField(mem, x.X, "suffix"))) {
					nEq++
					okUse, _ := consumedOnlyBehind(mem, x, exactTrue(mem))
					c.check(okUse && len(exactTrue(mem)) > 0, rule, "IsMember: exact rule compares the whole name", p.instrPos(in), "", "equality test outside the exact branch")
				}
			case *ssa.Call:
				if calleeName(x) == "strings.HasSuffix" {
					nHS++
					okUse, _ := consumedOnlyBehind(mem, x, exactFalse(mem))
					good := x.Call.Args[0] == ssa.Value(s) && recvField(mem, x.Call.Args[1], "suffix") && okUse && len(exactFalse(mem)) > 0
					c.check(good, rule, "IsMember: suffix rule tests HasSuffix(name, own.suffix)", p.instrPos(in), "", "the membership test does not ask whether the name ends with the rule's suffix")
				}
			}
		})
		if nEq != 1 || nHS != 1 {
			c.undecided(rule, "IsMember shape", p.Pos(mem.Pos()), fmt.Sprintf("%d equalities and %d HasSuffix calls", nEq, nHS))
		}
	}
	// --- NewNameMatcher ---
	{
		var trimS, trimP, hasP *ssa.Call
		for _, ci := range callsIn(newM) {
			cc, _ := ci.(*ssa.Call)
			switch calleeName(ci) {
			case "strings.TrimSuffix":
				trimS = cc
			case "strings.TrimPrefix":
				trimP = cc
			case "strings.HasPrefix":
				hasP = cc
			}
		}
		good := trimS != nil && trimP != nil && hasP != nil
		if good {
			d, _ := constString(trimS.Call.Args[1])
			h1, _ := constString(trimP.Call.Args[1])
			h2, _ := constString(hasP.Call.Args[1])
			good = d == "$" && h1 == "^" && h2 == "^" && trimS.Call.Args[0] == ssa.Value(newM.Params[0]) &&
				trimP.Call.Args[0] == ssa.Value(trimS) && hasP.Call.Args[0] == ssa.Value(trimS)
			if good {
				// fields
				for _, r := range returnsOf(newM) {
					al := strip(r.Results[0])
					if u, ok := r.Results[0].(*ssa.UnOp); ok {
						al = u.X
					}
					sv, ev := structLitField(al, "suffix"), structLitField(al, "exact")
					if sv != ssa.Value(trimP) || !boolIs(ev, hasP) {
						good = false
					}
				}
			}
		}
		c.check(good, rule, "NewNameMatcher: suffix = rule without one trailing $ and one leading ^; exact = had leading ^", p.Pos(newM.Pos()), "", "the rule parser does not produce (suffix, exact) as the matcher methods assume")
	}
}

func (c *Ctx) checkBrokerRelayGate() {
	p := c.P
	rule := "O-2 broker rejects before registering"
	pp := p.Fn("broker", "(*IPC).ProxyPolls")
	chk := p.Fn("broker", "(*BrokerContext).CheckProxyRelayPattern")
	ro := p.Fn("broker", "(*BrokerContext).RequestOffer")
	if pp == nil || chk == nil || ro == nil {
		c.undecided(rule, "ProxyPolls/CheckProxyRelayPattern/RequestOffer", "-", "anchor does not resolve")
		return
	}
	for _, fn := range []*ssa.Function{pp, chk, ro} {
		c.analysedFn(p.FnName(fn))
	}
	callers := p.realCallers(ro)
	c.check(len(callers) == 1 && callers[0].Parent() == pp, rule, "RequestOffer is called only from ProxyPolls", p.Pos(ro.Pos()), "", fmt.Sprintf("%d call sites: a poll can become matchable without the relay-pattern check", len(callers)))
	var gate *ssa.Call
	for _, ci := range callsIn(pp) {
		if staticCallee(ci) == chk {
			gate, _ = ci.(*ssa.Call)
		}
	}
	if gate == nil {
		c.viol(rule, "ProxyPolls calls CheckProxyRelayPattern", p.Pos(pp.Pos()), "the relay-pattern check is gone")
		return
	}
	dec := "common/messages.DecodeProxyPollRequestWithRelayPrefix"
	okArgs := isResultOf(gate.Call.Args[1], 4, dec)
	if u, ok := gate.Call.Args[2].(*ssa.UnOp); ok && u.Op == token.NOT {
		okArgs = okArgs && isResultOf(u.X, 5, dec)
	} else {
		okArgs = false
	}
	c.check(okArgs, rule, "CheckProxyRelayPattern is given the decoded pattern and !supported", p.instrPos(gate), "", "the check is applied to values other than this poll's decoded relay pattern and support flag")
	accept := boolEdges(pp, true, func(v ssa.Value) bool { return v == ssa.Value(gate) })
	reject := boolEdges(pp, false, func(v ssa.Value) bool { return v == ssa.Value(gate) })
	for _, ci := range callsIn(pp) {
		if staticCallee(ci) == ro {
			path := reachableWithout(pp, ci, accept)
			c.check(len(accept) > 0 && path == nil, rule, "RequestOffer reachable only when the pattern check passed", p.instrPos(ci), "", "a proxy whose accepted pattern is not a superset of the allowed pattern can be registered and given a client", p.pathString(path)...)
		}
	}
	// rejection edge: explicit response, never RequestOffer
	for _, e := range reject {
		path := escapesWithout(e.To(), func(in ssa.Instruction) bool {
			ci, ok := in.(ssa.CallInstruction)
			if !ok || calleeName(ci) != "common/messages.EncodePollResponseWithRelayURL" {
				return false
			}
			s, _ := constString(ci.Common().Args[4])
			return s == "incorrect relay pattern"
		})
		c.check(path == nil, rule, "rejected polls are answered with 'incorrect relay pattern'", p.instrPos(gate), "", "a rejected poll is not told so explicitly", p.pathString(path)...)
	}
	// CheckProxyRelayPattern internals
	var isSup *ssa.Call
	for _, ci := range callsTo(chk, "(*common/namematcher.NameMatcher).IsSupersetOf") {
		isSup, _ = ci.(*ssa.Call)
	}
	if isSup == nil {
		c.viol(rule, "CheckProxyRelayPattern uses IsSupersetOf", p.Pos(chk.Pos()), "no IsSupersetOf call")
		return
	}
	for _, r := range returnsOf(chk) {
		c.check(r.Results[0] == ssa.Value(isSup), rule, "CheckProxyRelayPattern returns nothing but the superset verdict", p.instrPos(r), "", "a return of CheckProxyRelayPattern does not come from IsSupersetOf (short-circuit acceptance): some pattern is accepted without being compared with the allowed pattern")
	}
	matcherOf := func(v ssa.Value) *ssa.Call {
		var found *ssa.Call
		flows(v, func(w ssa.Value) bool {
			if cc, _, ok := callResult(w); ok && calleeName(cc) == "common/namematcher.NewNameMatcher" {
				found = cc
				return true
			}
			return false
		})
		return found
	}
	recvM, argM := matcherOf(isSup.Call.Args[0]), matcherOf(isSup.Call.Args[1])
	okRecv, okArg := false, false
	if recvM != nil {
		// pattern parameter, replaced by presumed on the nonSupported edge
		if ph, ok := recvM.Call.Args[0].(*ssa.Phi); ok && len(ph.Edges) == 2 {
			var fromPar, fromPresumed int = -1, -1
			for i, e := range ph.Edges {
				if e == ssa.Value(chk.Params[1]) {
					fromPar = i
				}
				if _, f, okf := fieldLoad(e); okf && f.Name() == "presumedPatternForLegacyClient" {
					fromPresumed = i
				}
			}
			if fromPar >= 0 && fromPresumed >= 0 {
				legacy := boolEdges(chk, true, func(v ssa.Value) bool { return v == ssa.Value(chk.Params[2]) })
				pred := ph.Block().Preds[fromPresumed]
				okRecv = len(legacy) > 0 && reachPath(chk.Blocks[0], pred, legacy) == nil
			}
		}
	}
	if argM != nil {
		_, f, okf := fieldLoad(argM.Call.Args[0])
		okArg = okf && f.Name() == "allowedRelayPattern"
	}
	c.check(okRecv, rule, "the tested pattern is the proxy's, or the presumed one exactly for legacy proxies", p.Pos(chk.Pos()), "", "the receiver of IsSupersetOf is not built from the proxy's pattern / the presumed pattern on the legacy edge")
	c.check(okArg, rule, "the pattern it must cover is the broker's allowed pattern", p.Pos(chk.Pos()), "", "the argument of IsSupersetOf is not built from allowedRelayPattern (receiver and argument swapped?)")
}

func (c *Ctx) checkProxyRelayGate() {
	p := c.P
	rule := "O-3 proxy validates the relay URL before it can dial"
	run := p.Fn("proxy/lib", "(*SnowflakeProxy).runSession")
	dch := p.Fn("proxy/lib", "(*SnowflakeProxy).datachannelHandler")
	mk := p.Fn("proxy/lib", "(*SnowflakeProxy).makePeerConnectionFromOffer")
	start := p.Fn("proxy/lib", "(*SnowflakeProxy).Start")
	if run == nil || dch == nil || mk == nil || start == nil {
		c.undecided(rule, "proxy anchors", "-", "anchor does not resolve")
		return
	}
	px := p.FnsIn("proxy/lib")
	for _, fn := range px {
		c.analysedFn(p.FnName(fn))
	}
	// only dial
	nDial := 0
	for _, fn := range px {
		for _, ci := range callsIn(fn) {
			if strings.HasSuffix(calleeName(ci), "websocket.Dialer).Dial") || strings.HasSuffix(calleeName(ci), "websocket.Dialer).DialContext") {
				nDial++
				c.check(fn == dch, rule, p.FnName(fn)+" dials a relay", p.instrPos(ci), "only datachannelHandler dials", "a relay connection is opened outside datachannelHandler, bypassing the URL validation")
				if fn == dch {
					// dialled URL derives from the relayURL parameter (or sf.RelayURL on the == "" edge)
					okURL := flows(ci.Common().Args[1], func(v ssa.Value) bool {
						cc, _, ok := callResult(v)
						return ok && calleeName(cc) == "net/url.Parse"
					})
					var parse *ssa.Call
					for _, c2 := range callsTo(dch, "net/url.Parse") {
						parse, _ = c2.(*ssa.Call)
					}
					if parse != nil {
						arg := parse.Call.Args[0]
						okSrc := false
						if ph, ok := arg.(*ssa.Phi); ok {
							okSrc = true
							for _, e := range ph.Edges {
								_, f, okf := fieldLoad(e)
								if e != ssa.Value(dch.Params[3]) && !(okf && f.Name() == "RelayURL") {
									okSrc = false
								}
							}
						} else {
							okSrc = arg == ssa.Value(dch.Params[3])
						}
						okURL = okURL && okSrc
					} else {
						okURL = false
					}
					c.check(okURL, rule, "the URL dialled is the validated relay URL (or the configured default when none was given)", p.instrPos(ci), "", "the dialled URL does not derive from the relayURL handed over by runSession")
				}
			}
		}
	}
	if nDial == 0 {
		c.undecided(rule, "WebSocket dial in proxy/lib", "-", "none found")
	}
	// datachannelHandler is reached only with this session's polled relay URL: through the adaptor
	// (literal built only in runSession with RelayURL: relayURL) or from a closure of runSession
	// that captures the polled URL
	var poll *ssa.Call
	for _, ci := range callsIn(run) {
		if f := staticCallee(ci); f != nil && f == p.Fn("proxy/lib", "(*SignalingServer).pollOffer") {
			poll, _ = ci.(*ssa.Call)
		}
	}
	nAdaptor := 0
	for _, ci := range p.realCallers(dch) {
		caller := ci.Parent()
		okAd := caller.Name() == "datachannelHandler" && caller != dch
		if okAd {
			_, f, okf := fieldLoad(ci.Common().Args[3])
			if !okf {
				if fl, isF := strip(ci.Common().Args[3]).(*ssa.Field); isF {
					st := derefStruct(fl.X.Type())
					okf = st != nil && st.Field(fl.Field).Name() == "RelayURL"
				}
			} else {
				okf = f.Name() == "RelayURL"
			}
			okAd = okf
			if okAd {
				nAdaptor++
			}
		}
		if !okAd && caller.Parent() == run && poll != nil && isResultOfCall(ci.Common().Args[3], poll, 1) {
			okAd = true
		}
		c.check(okAd, rule, "datachannelHandler is called only with the relay URL of this session's poll (adaptor or closure of runSession)", p.instrPos(ci), "", "datachannelHandler is invoked with a relay URL that did not go through runSession's validation")
	}
	relF := p.Field("proxy/lib", "dataChannelHandlerWithRelayURL", "RelayURL")
	nLit := 0
	if relF != nil {
		for _, s := range storesToField(px, relF) {
			nLit++
			c.check(s.Parent() == run && poll != nil && isResultOfCall(s.Val, poll, 1), rule, p.FnName(s.Parent())+" builds the adaptor with the polled relay URL", p.instrPos(s), "", "the adaptor's RelayURL is not the URL returned by this session's poll (or the adaptor is built outside runSession)")
		}
	}
	if (nAdaptor > 0 && nLit != 1) || poll == nil {
		c.undecided(rule, "adaptor literal", p.Pos(run.Pos()), fmt.Sprintf("%d stores to dataChannelHandlerWithRelayURL.RelayURL", nLit))
		return
	}
	// pollOffer itself: relay URL = result 2 of the decoder, description = Deserialize(result 0)
	if po := p.Fn("proxy/lib", "(*SignalingServer).pollOffer"); po != nil {
		dec := "common/messages.DecodePollResponseWithRelayURL"
		n := 0
		for _, r := range returnsOf(po) {
			// the (offer, relay URL) pairs this return can yield: the values themselves, or, when both
			// were merged over the same paths (temporaries of a flattened helper), one pair per path
			type pair struct{ off, url ssa.Value }
			pairs := []pair{{retVal(r, 0), retVal(r, 1)}}
			if p0, ok0 := retVal(r, 0).(*ssa.Phi); ok0 {
				if p1, ok1 := retVal(r, 1).(*ssa.Phi); ok1 && p0.Block() == p1.Block() && len(p0.Edges) == len(p1.Edges) {
					pairs = nil
					for i := range p0.Edges {
						pairs = append(pairs, pair{p0.Edges[i], p1.Edges[i]})
					}
				}
			}
			for _, pr := range pairs {
				if isNilConst(pr.off) {
					continue
				}
				n++
				okURL := isResultOf(pr.url, 2, dec)
				okDesc := false
				if cc, i, okc := callResult(pr.off); okc && i == 0 && calleeName(cc) == "common/util.DeserializeSessionDescription" {
					okDesc = flows(cc.Call.Args[0], func(v ssa.Value) bool { return isResultOf(v, 0, dec) })
				}
				c.check(okURL && okDesc, rule, "pollOffer returns the decoded offer together with the decoded relay URL", p.instrPos(r), "", "the relay URL (or the offer) returned by pollOffer is not the corresponding field of the broker's response: the URL validated by runSession is not the one the broker sent with this offer")
			}
		}
		if n == 0 {
			c.undecided(rule, "pollOffer success return", p.Pos(po.Pos()), "none found")
		}
	}
	isRelay := func(v ssa.Value) bool { return isResultOfCall(v, poll, 1) }
	var parse *ssa.Call
	for _, ci := range callsTo(run, "net/url.Parse") {
		if isRelay(ci.Common().Args[0]) {
			parse, _ = ci.(*ssa.Call)
		}
	}
	var mkCall ssa.CallInstruction
	for _, ci := range callsIn(run) {
		if staticCallee(ci) == mk {
			mkCall = ci
		}
	}
	if parse == nil || mkCall == nil {
		c.undecided(rule, "runSession parses the relay URL and creates the peer connection", p.Pos(run.Pos()), "url.Parse(relayURL) or makePeerConnectionFromOffer call not found")
		return
	}
	empty := sEq(true, isRelay, func(v ssa.Value) bool { s, ok := constString(v); return ok && s == "" })
	member := sBool(true, func(v ssa.Value) bool {
		cc, _, ok := callResult(v)
		if !ok || calleeName(cc) != "(*common/namematcher.NameMatcher).IsMember" {
			return false
		}
		h, _, okh := callResult(cc.Call.Args[1])
		if !okh || calleeName(h) != "(*net/url.URL).Hostname" || !isResultOfCall(h.Call.Args[0], parse, 0) {
			return false
		}
		// matcher from the proxy's own pattern
		okM := false
		flows(cc.Call.Args[0], func(w ssa.Value) bool {
			if nm, _, okn := callResult(w); okn && calleeName(nm) == "common/namematcher.NewNameMatcher" {
				if _, f, okf := fieldLoad(nm.Call.Args[0]); okf && f.Name() == "RelayDomainNamePattern" {
					okM = true
				}
				return true
			}
			return false
		})
		return okM
	})
	allowNonTLS := sBool(true, func(v ssa.Value) bool { _, f, ok := fieldLoad(v); return ok && f.Name() == "AllowNonTLSRelay" })
	wss := sEq(true, func(v ssa.Value) bool {
		base, f, okf := fieldLoad(v)
		return okf && f.Name() == "Scheme" && isResultOfCall(base, parse, 0)
	}, func(v ssa.Value) bool { s, ok := constString(v); return ok && s == "wss" })
	// the conditions may be tested inline or through a boolean helper of runSession
	nMember, nWss, nAllow := specSeen(run, member, 2), specSeen(run, wss, 2), specSeen(run, allowNonTLS, 2)
	pathA := reachableWithout(run, mkCall, predEdgesS(run, []condSpec{empty, member}, 2))
	c.check(nMember > 0 && pathA == nil, rule, "a session is set up only if relayURL == \"\" or the parsed host is a member of the proxy's pattern", p.instrPos(mkCall), "",
		"the peer connection (and so the relay dial) is reachable for a broker-supplied URL whose host fails the proxy's own pattern", p.pathString(pathA)...)
	pathB := reachableWithout(run, mkCall, predEdgesS(run, []condSpec{empty, allowNonTLS, wss}, 2))
	c.check(nWss > 0 && nAllow > 0 && pathB == nil, rule, "a session is set up only if relayURL == \"\" or non-TLS relays are allowed or the scheme is wss", p.instrPos(mkCall), "",
		"the peer connection is reachable for a non-wss relay URL although non-TLS relays were not allowed", p.pathString(pathB)...)
	pathC := reachableWithout(run, mkCall, errNilEdges(run, parse, 1))
	c.check(pathC == nil, rule, "a session is set up only if the relay URL parsed", p.instrPos(parse), "", "the peer connection is reachable although url.Parse(relayURL) failed", p.pathString(pathC)...)
	// Start refuses patterns without trailing $
	valid := boolEdges(start, true, func(v ssa.Value) bool {
		cc, _, ok := callResult(v)
		if !ok || calleeName(cc) != "common/namematcher.IsValidRule" {
			return false
		}
		_, f, okf := fieldLoad(cc.Call.Args[0])
		return okf && f.Name() == "RelayDomainNamePattern"
	})
	var runCall ssa.CallInstruction
	for _, ci := range callsIn(start) {
		if staticCallee(ci) == run {
			runCall = ci
		}
	}
	if runCall != nil {
		path := reachableWithout(start, runCall, valid)
		c.check(len(valid) > 0 && path == nil, rule, "Start runs sessions only with a valid ($-terminated) pattern", p.instrPos(runCall), "", "sessions can run with a pattern IsValidRule rejects", p.pathString(path)...)
	}
}

// paramSpill: al is the local copy of a by-value struct parameter: exactly one
// whole-value store, and its fields are only read.
func paramSpill(al *ssa.Alloc) ssa.Value {
	var val ssa.Value
	n := 0
	if al.Referrers() == nil {
		return nil
	}
	for _, r := range *al.Referrers() {
		switch x := r.(type) {
		case *ssa.Store:
			if x.Addr == ssa.Value(al) {
				val = x.Val
				n++
			}
		case *ssa.FieldAddr:
			if x.Referrers() != nil {
				for _, rr := range *x.Referrers() {
					if st, ok := rr.(*ssa.Store); ok && st.Addr == ssa.Value(x) {
						return nil
					}
				}
			}
		}
	}
	if n != 1 {
		return nil
	}
	return val
}

// checkProxyPolicyIsConfiguration: the two fields that make up the proxy's relay
// policy (the accepted hostname pattern and the permission for non-TLS relays)
// are assigned nowhere but in the proxy's main, from the flags that carry their
// names, and the permission flag defaults to false. A library function that
// derives the permission from something else (the operator's own relay URL, the
// broker's answer) widens what the proxy relays to beyond what it accepted.
func (c *Ctx) checkProxyPolicyIsConfiguration() {
	p := c.P
	rule := "O-3c the proxy's relay policy is what the operator configured"
	for _, row := range []struct{ field, flagFn, flagName string }{
		{"AllowNonTLSRelay", "flag.Bool", "allow-non-tls-relay"},
		{"RelayDomainNamePattern", "flag.String", "allowed-relay-hostname-pattern"},
	} {
		f := p.Field("proxy/lib", "SnowflakeProxy", row.field)
		if f == nil {
			c.undecided(rule, "SnowflakeProxy."+row.field, "-", "field does not resolve")
			continue
		}
		n, bad := 0, 0
		for _, st := range storesToField(p.FnsIn(), f) {
			n++
			fn := st.Parent()
			if p.Rel(fn) == "proxy/lib" {
				bad++
				c.viol(rule, p.FnName(fn)+" assigns SnowflakeProxy."+row.field, p.instrPos(st), "the library changes its own relay policy: relays outside the pattern the proxy announced, or without TLS although that was not allowed, become acceptable")
				continue
			}
			fromFlag := flows(st.Val, func(v ssa.Value) bool {
				cc, _, ok := callResult(v)
				if !ok || calleeName(cc) != row.flagFn {
					return false
				}
				name, okn := constString(cc.Call.Args[0])
				return okn && name == row.flagName
			})
			if !fromFlag {
				bad++
				c.viol(rule, p.FnName(fn)+" assigns SnowflakeProxy."+row.field, p.instrPos(st), "the value does not come from the -"+row.flagName+" flag")
			}
		}
		if bad == 0 {
			if n == 0 {
				c.okTrivial(rule, "SnowflakeProxy."+row.field+" is assigned only from -"+row.flagName, p.Pos(f.Pos()), "no assignment in the repository")
			} else {
				c.ok(rule, "SnowflakeProxy."+row.field+" is assigned only from -"+row.flagName, p.Pos(f.Pos()), fmt.Sprintf("%d assignment(s), none in proxy/lib", n))
			}
		}
	}
	// the permission is off unless asked for
	if mainFn := p.Fn("proxy", "main"); mainFn != nil {
		for _, ci := range callsTo(mainFn, "flag.Bool") {
			if name, ok := constString(ci.Common().Args[0]); ok && name == "allow-non-tls-relay" {
				k, okc := ci.Common().Args[1].(*ssa.Const)
				c.check(okc && k.Value != nil && k.Value.String() == "false", rule, "-allow-non-tls-relay defaults to false", p.instrPos(ci), "", "non-TLS relays are allowed by default")
			}
		}
	}
}
