package main

// Cross-function value and site resolution. The rules of this checker are
// written against the shape of the anchored functions; a behaviour-preserving
// extraction of a few statements into a helper (or of a closure into a method)
// must not change a verdict. These helpers give the rules a bounded "virtual
// inlining" view:
//
//   - a parameter of an unexported repository function (or closure) that has
//     exactly one call site in the whole program IS the argument at that site;
//   - the result of a call to a repository function all of whose returns yield
//     one and the same value IS that value (getter inlining);
//   - sites (calls, stores, channel operations) are looked for in the anchored
//     function and in the repository helpers it calls, and are positioned in
//     the anchored function at the outermost call that leads to them;
//   - a boolean helper whose true (false) returns are all behind certifying
//     edges makes the true (false) edge of a test of its result certifying.

import (
	"go/token"
	"go/types"
	"strings"

	"golang.org/x/tools/go/ssa"
)

var uniqueSiteMemo = map[*ssa.Function]ssa.CallInstruction{}
var uniqueSiteDone = map[*ssa.Function]bool{}

// resetInterpMemo forgets the per-program caches (the self-test analyses a
// second, in-memory program).
func resetInterpMemo() {
	uniqueSiteMemo = map[*ssa.Function]ssa.CallInstruction{}
	uniqueSiteDone = map[*ssa.Function]bool{}
	fnValueUseCount = nil
}

// uniqueSite returns the single call site of fn in the program, when fn is an
// unexported repository function/method or a closure and the VTA call graph has
// exactly one incoming edge for it (from a source function).
func uniqueSite(fn *ssa.Function) ssa.CallInstruction {
	if fn == nil || theProg == nil {
		return nil
	}
	if uniqueSiteDone[fn] {
		return uniqueSiteMemo[fn]
	}
	uniqueSiteDone[fn] = true
	if !theProg.IsRepoFn(fn) || fn.Synthetic != "" {
		return nil
	}
	if fn.Parent() == nil && token.IsExported(fn.Name()) {
		return nil
	}
	cg := theProg.CallGraph()
	if cg == nil {
		return nil
	}
	n := cg.Nodes[fn]
	if n == nil || len(n.In) != 1 {
		return nil
	}
	e := n.In[0]
	if e.Site == nil || e.Site.Parent() == nil || e.Site.Parent().Synthetic != "" || e.Site.Parent() == fn {
		return nil
	}
	// the function value must not be stored or passed around: its only use is
	// this call (closures: the MakeClosure is the callee operand)
	if fn.Parent() == nil {
		if refs := fnValueUses(fn); refs > 0 {
			return nil
		}
	} else if staticCallee(e.Site) != fn {
		return nil
	}
	uniqueSiteMemo[fn] = e.Site
	return e.Site
}

var fnValueUseCount map[*ssa.Function]int

// fnValueUses counts the uses of fn as a value other than as the callee
// operand of a call (method values, function arguments, stores).
func fnValueUses(fn *ssa.Function) int {
	if fnValueUseCount == nil {
		fnValueUseCount = map[*ssa.Function]int{}
		for _, f := range theProg.fns {
			allInstrs(f, func(in ssa.Instruction) {
				var callee ssa.Value
				if ci, ok := in.(ssa.CallInstruction); ok && !ci.Common().IsInvoke() {
					callee = ci.Common().Value
				}
				for _, op := range in.Operands(nil) {
					if op == nil || *op == nil {
						continue
					}
					if g, ok := (*op).(*ssa.Function); ok && *op != callee {
						fnValueUseCount[g]++
					}
				}
			})
		}
	}
	return fnValueUseCount[fn]
}

// paramSource: the caller's argument bound to par, when its function has a
// unique call site.
func paramSource(par *ssa.Parameter) ssa.Value {
	fn := par.Parent()
	site := uniqueSite(fn)
	if site == nil {
		return nil
	}
	idx := -1
	for i, q := range fn.Params {
		if q == par {
			idx = i
		}
	}
	if idx < 0 {
		return nil
	}
	args := callArgs(site)
	if len(args) != len(fn.Params) {
		return nil
	}
	return args[idx]
}

// callReturnValue: the value returned as result idx by a call to a repository
// function, when every return of the callee yields the same value.
func callReturnValue(call *ssa.Call, idx int) ssa.Value {
	callee := staticCallee(call)
	if callee == nil || callee.Blocks == nil || theProg == nil || !theProg.IsRepoFn(callee) {
		return nil
	}
	var val ssa.Value
	for _, r := range returnsOf(callee) {
		if idx >= len(r.Results) {
			return nil
		}
		v := strip(retVal(r, idx))
		if val == nil {
			val = v
		} else if val != v {
			// two loads of the same field address are one value for our purposes
			if !sameLoad(val, v) {
				return nil
			}
		}
	}
	return val
}

func sameLoad(a, b ssa.Value) bool {
	aa, ok1 := loadAddr(a)
	ba, ok2 := loadAddr(b)
	if !ok1 || !ok2 {
		return false
	}
	b1, f1, ok1 := fieldOfAddr(aa)
	b2, f2, ok2 := fieldOfAddr(ba)
	return ok1 && ok2 && f1 == f2 && strip(b1) == strip(b2)
}

// xstep makes one cross-function identity step from a stripped value.
func xstep(v ssa.Value) ssa.Value {
	switch x := v.(type) {
	case *ssa.Parameter:
		return paramSource(x)
	case *ssa.Call:
		if x.Call.Signature().Results().Len() == 1 {
			return callReturnValue(x, 0)
		}
	case *ssa.Extract:
		if c, ok := x.Tuple.(*ssa.Call); ok {
			return callReturnValue(c, x.Index)
		}
	}
	return nil
}

// xforms visits the successive forms of v under strip and cross-function
// identity steps until visit returns true; it reports whether it did.
func xforms(v ssa.Value, visit func(ssa.Value) bool) bool {
	for i := 0; i < 8 && v != nil; i++ {
		v = strip(v)
		if visit(v) {
			return true
		}
		v = xstep(v)
	}
	return false
}

// xstrip is the last form of v: the value at its origin across helper calls.
func xstrip(v ssa.Value) ssa.Value {
	last := strip(v)
	xforms(v, func(x ssa.Value) bool { last = x; return false })
	return last
}

// ---------- sites in a function and the helpers it calls ----------

// deepSite is an instruction found in fn or in a helper called from it.
type deepSite struct {
	In    ssa.Instruction       // the instruction itself
	Top   ssa.Instruction       // the instruction of the root function that leads to it (== In when local)
	Chain []ssa.CallInstruction // call sites from the root function down to In's function
}

func (d deepSite) local() bool { return d.In == d.Top }

// deepInstrs collects the instructions satisfying pred in fn and in the
// repository functions and closures it calls (statically resolved; go and
// defer included), down to the given depth. Functions named in stop are not
// entered.
func deepInstrs(fn *ssa.Function, depth int, pred func(ssa.Instruction) bool) []deepSite {
	var out []deepSite
	type fk struct {
		f   *ssa.Function
		top ssa.Instruction
	}
	seen := map[fk]bool{}
	var rec func(f *ssa.Function, top ssa.Instruction, chain []ssa.CallInstruction, d int)
	rec = func(f *ssa.Function, top ssa.Instruction, chain []ssa.CallInstruction, d int) {
		if seen[fk{f, top}] {
			return
		}
		seen[fk{f, top}] = true
		for _, b := range f.Blocks {
			for _, in := range b.Instrs {
				t := top
				if t == nil {
					t = in
				}
				if pred(in) {
					out = append(out, deepSite{In: in, Top: t, Chain: append([]ssa.CallInstruction(nil), chain...)})
					continue
				}
				if d <= 0 {
					continue
				}
				if ci, ok := in.(ssa.CallInstruction); ok {
					callee := staticCallee(ci)
					if callee != nil && callee.Blocks != nil && theProg != nil && theProg.IsRepoFn(callee) && samePkg(callee, fn) {
						rec(callee, t, append(chain, ci), d-1)
					}
				}
			}
		}
	}
	rec(fn, nil, nil, depth)
	return out
}

// samePkg: helpers are looked for in the package of the anchored function only.
func samePkg(a, b *ssa.Function) bool {
	pa, pb := a, b
	for pa.Parent() != nil {
		pa = pa.Parent()
	}
	for pb.Parent() != nil {
		pb = pb.Parent()
	}
	return pa.Pkg != nil && pa.Pkg == pb.Pkg
}

// deepCalls: calls to one of the named callees, in fn or its helpers.
func deepCalls(fn *ssa.Function, depth int, names ...string) []deepSite {
	return deepInstrs(fn, depth, func(in ssa.Instruction) bool {
		ci, ok := in.(ssa.CallInstruction)
		return ok && isCallTo(ci, names...)
	})
}

// helperFns: fn, its closures, and the unexported repository helpers with a
// unique call site that they call (transitively to depth): the functions whose
// bodies are "part of" fn for a shape rule.
func helperFns(fn *ssa.Function, depth int) []*ssa.Function {
	var out []*ssa.Function
	seen := map[*ssa.Function]bool{}
	var rec func(f *ssa.Function, d int)
	rec = func(f *ssa.Function, d int) {
		if seen[f] {
			return
		}
		seen[f] = true
		out = append(out, f)
		for _, a := range f.AnonFuncs {
			rec(a, d)
		}
		if d <= 0 {
			return
		}
		for _, ci := range callsIn(f) {
			callee := staticCallee(ci)
			if callee != nil && callee.Blocks != nil && callee.Parent() == nil && uniqueSite(callee) == ci {
				rec(callee, d-1)
			}
		}
	}
	rec(fn, depth)
	return out
}

// ---------- boolean helper summaries ----------

// boolRetMay reports whether return r of a bool-returning function may yield want.
func boolRetMay(r *ssa.Return, idx int, want bool) bool {
	v := strip(retVal(r, idx))
	if c, ok := v.(*ssa.Const); ok && c.Value != nil {
		if b, isB := boolConst(c); isB {
			return b == want
		}
	}
	return true
}

func boolConst(c *ssa.Const) (bool, bool) {
	if c.Value == nil {
		return false, false
	}
	if bt, ok := c.Type().Underlying().(*types.Basic); ok && bt.Info()&types.IsBoolean != 0 {
		return c.Value.String() == "true", true
	}
	return false, false
}

// predEdges extends the certifying edges computed by mk with the edges of
// tests of boolean repository helpers: if every return of helper H that may
// yield true (false) lies behind mk(H)'s (recursively extended) edges, then the
// true (false) edge of "if H(...)" certifies as well. Returns with a non-constant
// value count as possibly-true and possibly-false, except a returned conjunction
// or negation, which go/ssa has already turned into control flow and phis.
func predEdges(fn *ssa.Function, mk func(fn *ssa.Function) []Edge, depth int) []Edge {
	return predEdgesCore(fn, mk, nil, depth)
}

// condSpec names a family of certifying conditions: the edges (and returned
// boolean values) on which an atom matching pred holds (want) or fails (!want).
type condSpec struct {
	want bool
	pred func(a Atom) bool
}

func sCond(want bool, pred func(a Atom) bool) condSpec { return condSpec{want, pred} }
func sBool(want bool, pred func(v ssa.Value) bool) condSpec {
	return condSpec{want, func(a Atom) bool { return a.Op == token.ILLEGAL && pred(a.X) }}
}
func sEq(want bool, px, py func(ssa.Value) bool) condSpec {
	return condSpec{want, func(a Atom) bool {
		return a.Op == token.EQL && ((px(a.X) && py(a.Y)) || (px(a.Y) && py(a.X)))
	}}
}

func specEdges(fn *ssa.Function, specs []condSpec) []Edge {
	var out []Edge
	for _, sp := range specs {
		out = append(out, condEdges(fn, sp.want, sp.pred)...)
	}
	return out
}

// specValue: does the boolean value v being `truth` certify under specs?
func specValue(specs []condSpec, v ssa.Value, truth bool) bool {
	a, pos := normCond(v)
	// v == truth  <=>  atom holds == (pos == truth)
	holds := pos == truth
	for _, sp := range specs {
		if sp.want == holds && sp.pred(a) {
			return true
		}
	}
	return false
}

// predEdgesS is predEdges for conditions given as specs; a helper may also
// return a certifying condition directly ("return u.Scheme == \"wss\"").
func predEdgesS(fn *ssa.Function, specs []condSpec, depth int) []Edge {
	return predEdgesCore(fn, func(f *ssa.Function) []Edge { return specEdges(f, specs) },
		func(v ssa.Value, truth bool) bool { return specValue(specs, v, truth) }, depth)
}

func predEdgesCore(fn *ssa.Function, mk func(fn *ssa.Function) []Edge, valCert func(v ssa.Value, truth bool) bool, depth int) []Edge {
	out := mk(fn)
	// "if flag" where flag is a boolean phi tested in its own block: for the incoming value that is
	// itself a certifying condition (flag = a && b assigned, not branched on), the corresponding
	// outcome of the test certifies for paths that arrive over that phi edge
	if valCert != nil {
		for _, b := range fn.Blocks {
			if len(b.Instrs) == 0 {
				continue
			}
			iff, ok := b.Instrs[len(b.Instrs)-1].(*ssa.If)
			if !ok {
				continue
			}
			ck, cpos := condKey(iff.Cond)
			ph, isPhi := ck.(*ssa.Phi)
			if !isPhi || ph.Block() != b {
				continue
			}
			for i, e := range ph.Edges {
				if _, isC := e.(*ssa.Const); isC {
					continue
				}
				for _, truth := range []bool{true, false} {
					if valCert(strip(e), truth) {
						// the phi is `truth` -> If outcome: cond true iff (phi == cpos)
						idx := 0
						if truth != cpos {
							idx = 1
						}
						out = append(out, Edge{From: b, Idx: idx, Via: b.Preds[i]})
					}
				}
			}
		}
	}
	if depth <= 0 || theProg == nil {
		return out
	}
	type key struct {
		h    *ssa.Function
		want bool
	}
	memo := map[key]bool{}
	only := func(h *ssa.Function, want bool) bool {
		k := key{h, want}
		if v, ok := memo[k]; ok {
			return v
		}
		memo[k] = false
		edges := predEdgesCore(h, mk, valCert, depth-1)
		if len(edges) == 0 && valCert == nil {
			return false
		}
		memo[k] = !boolRetEscape(h, want, edges, nil, valCert) && boolRetEscape(h, want, nil, nil, nil)
		return memo[k]
	}
	for _, b := range fn.Blocks {
		if len(b.Instrs) == 0 {
			continue
		}
		iff, ok := b.Instrs[len(b.Instrs)-1].(*ssa.If)
		if !ok {
			continue
		}
		a, pos := normCond(iff.Cond)
		if a.Op != token.ILLEGAL {
			continue
		}
		call, _, okc := callResult(a.X)
		if !okc {
			continue
		}
		h := staticCallee(call)
		if h == nil || h.Blocks == nil || !theProg.IsRepoFn(h) || h == fn {
			continue
		}
		if rs := h.Signature.Results(); rs.Len() != 1 {
			continue
		} else if bt, ok := rs.At(0).Type().Underlying().(*types.Basic); !ok || bt.Info()&types.IsBoolean == 0 {
			continue
		}
		// edge index on which the helper's result is true
		tIdx, fIdx := 0, 1
		if !pos {
			tIdx, fIdx = 1, 0
		}
		if only(h, true) {
			out = append(out, Edge{From: b, Idx: tIdx})
		}
		if only(h, false) {
			out = append(out, Edge{From: b, Idx: fIdx})
		}
	}
	return out
}

// boolSrc is one way a boolean return obtains its value: a constant or a
// computed value arriving at block blk (through predecessor edge via, or -1).
type boolSrc struct {
	val ssa.Value
	blk *ssa.BasicBlock
	via *ssa.BasicBlock // predecessor the value arrives from, for phi edges
}

func (s boolSrc) may(want bool) bool {
	if c, ok := strip(s.val).(*ssa.Const); ok {
		if b, isB := boolConst(c); isB {
			return b == want
		}
	}
	return true
}

// boolReturnSources expands the returned value of r through phis into its
// per-predecessor sources.
func boolReturnSources(r *ssa.Return) []boolSrc {
	v := retVal(r, 0)
	var out []boolSrc
	seen := map[ssa.Value]bool{}
	var rec func(v ssa.Value, blk, via *ssa.BasicBlock)
	rec = func(v ssa.Value, blk, via *ssa.BasicBlock) {
		if phi, ok := v.(*ssa.Phi); ok && !seen[v] {
			seen[v] = true
			for i, e := range phi.Edges {
				rec(e, phi.Block(), phi.Block().Preds[i])
			}
			return
		}
		out = append(out, boolSrc{val: v, blk: blk, via: via})
	}
	rec(v, r.Block(), nil)
	return out
}

// psSearchFromEntry: can block blk be reached from the entry of h (arriving
// through predecessor via, when given) without crossing one of the edges?
func psSearchFromEntry(h *ssa.Function, blk, via *ssa.BasicBlock, edges []Edge) bool {
	if via == nil {
		return psSearch(h.Blocks[0], edges, nil, func(x *ssa.BasicBlock) bool { return x == blk }) != nil
	}
	// the edge via->blk itself must be usable
	for _, e := range edges {
		if e.From == via && e.To() == blk {
			// arriving over a certifying edge: fine only if via has a single edge to blk
			n := 0
			for _, s := range via.Succs {
				if s == blk {
					n++
				}
			}
			if n == 1 {
				return false
			}
		}
	}
	return psSearch(h.Blocks[0], edges, nil, func(x *ssa.BasicBlock) bool { return x == via }) != nil
}

// closuresNear: the closures of fn (nested ones included) and of the
// repository functions it calls statically, to the given depth; also those
// callees themselves. A closure built by a small constructor helper is found
// the same way as one written inline.
func closuresNear(fn *ssa.Function, depth int) []*ssa.Function {
	var out []*ssa.Function
	seen := map[*ssa.Function]bool{}
	var anon func(f *ssa.Function)
	anon = func(f *ssa.Function) {
		for _, a := range f.AnonFuncs {
			if !seen[a] {
				seen[a] = true
				out = append(out, a)
				anon(a)
			}
		}
	}
	var rec func(f *ssa.Function, d int)
	rec = func(f *ssa.Function, d int) {
		anon(f)
		if d <= 0 {
			return
		}
		for _, g := range append([]*ssa.Function{f}, withAnon(f)...) {
			for _, ci := range callsIn(g) {
				callee := staticCallee(ci)
				if callee != nil && callee.Blocks != nil && callee.Parent() == nil && theProg != nil && theProg.IsRepoFn(callee) && !seen[callee] {
					seen[callee] = true
					rec(callee, d-1)
				}
			}
		}
	}
	seen[fn] = true
	rec(fn, depth)
	return out
}

// originAlong maps a value found at the end of a call chain back to the value
// of the chain's root function it derives from: parameters are replaced by the
// arguments of the chain's call sites, captured variables by their bindings.
func originAlong(v ssa.Value, chain []ssa.CallInstruction) ssa.Value {
	for i := len(chain) - 1; i >= 0; i-- {
		callee := staticCallee(chain[i])
		if callee == nil {
			return v
		}
		var next ssa.Value
		flowsLocal(v, func(x ssa.Value) bool {
			switch y := x.(type) {
			case *ssa.Parameter:
				if y.Parent() != callee {
					return false
				}
				args := callArgs(chain[i])
				for k, q := range callee.Params {
					if q == y && k < len(args) {
						next = args[k]
					}
				}
				return next != nil
			case *ssa.FreeVar:
				if y.Parent() != callee {
					return false
				}
				next = freeVarBinding(y)
				return next != nil
			}
			return false
		})
		if next == nil {
			return v
		}
		v = next
	}
	return v
}

// deepFns: fn, its closures, and the repository functions they call statically
// (with their closures), to the given depth.
func deepFns(fn *ssa.Function, depth int) []*ssa.Function {
	var out []*ssa.Function
	seen := map[*ssa.Function]bool{}
	var rec func(f *ssa.Function, d int)
	rec = func(f *ssa.Function, d int) {
		if seen[f] {
			return
		}
		seen[f] = true
		out = append(out, f)
		for _, a := range f.AnonFuncs {
			rec(a, d)
		}
		if d <= 0 {
			return
		}
		for _, ci := range callsIn(f) {
			callee := staticCallee(ci)
			if callee != nil && callee.Blocks != nil && theProg != nil && theProg.IsRepoFn(callee) && samePkg(callee, fn) {
				rec(callee, d-1)
			}
		}
	}
	rec(fn, depth)
	return out
}

// guardedAlong: is the site reachable only through certifying edges, tested in
// its own function first and then, level by level, at the call sites of the
// chain that leads to it from the root function? mk computes the certifying
// edges of a function given the chain prefix that leads to it (so that value
// patterns can be mapped back to the root with originAlong).
func guardedAlong(d deepSite, mk func(f *ssa.Function, chain []ssa.CallInstruction) []Edge) (bool, []*ssa.BasicBlock) {
	var lastPath []*ssa.BasicBlock
	for i := len(d.Chain); i >= 0; i-- {
		var in ssa.Instruction
		if i == len(d.Chain) {
			in = d.In
		} else {
			in = d.Chain[i]
		}
		f := in.Parent()
		edges := mk(f, d.Chain[:i])
		path := reachableWithout(f, in, edges)
		if len(edges) > 0 && path == nil {
			return true, nil
		}
		lastPath = path
		if _, isGo := in.(*ssa.Go); isGo {
			break
		}
	}
	return false, lastPath
}

// rootOf climbs from a closure or a unique-call-site helper to the function
// whose body it is, in effect, a part of.
func rootOf(fn *ssa.Function) *ssa.Function {
	for i := 0; i < 10; i++ {
		if fn.Parent() != nil {
			fn = fn.Parent()
			continue
		}
		if s := uniqueSite(fn); s != nil {
			fn = s.Parent()
			continue
		}
		break
	}
	return fn
}

// topSiteIn: the instruction of root through which `in` (located in root, one
// of its closures, or a unique-call-site helper) is reached: the closure's
// creation site or the helper's call site. nil if `in` does not belong to root.
func topSiteIn(root *ssa.Function, in ssa.Instruction) ssa.Instruction {
	for i := 0; i < 10 && in != nil; i++ {
		fn := in.Parent()
		if fn == root {
			return in
		}
		if fn.Parent() != nil {
			sites := theProg.closureSites[fn]
			if len(sites) != 1 {
				return nil
			}
			in = sites[0]
			continue
		}
		if s := uniqueSite(fn); s != nil {
			in = s
			continue
		}
		return nil
	}
	return nil
}

// belongsTo: fn is root, one of its closures, or a unique-call-site helper
// (transitively) of those.
func belongsTo(fn, root *ssa.Function) bool {
	for i := 0; i < 10; i++ {
		if fn == root {
			return true
		}
		if fn.Parent() != nil {
			fn = fn.Parent()
			continue
		}
		if s := uniqueSite(fn); s != nil {
			fn = s.Parent()
			continue
		}
		break
	}
	return fn == root
}

// specSeen counts the boolean values in fn and its helpers whose normalised
// condition matches the spec's atom (vacuity guard for edge-cut rules).
func specSeen(fn *ssa.Function, sp condSpec, depth int) int {
	n := 0
	for _, f := range deepFns(fn, depth) {
		allInstrs(f, func(in ssa.Instruction) {
			v, ok := in.(ssa.Value)
			if !ok {
				return
			}
			if bt, okb := v.Type().Underlying().(*types.Basic); !okb || bt.Info()&types.IsBoolean == 0 {
				return
			}
			if a, _ := normCond(v); sp.pred(a) {
				n++
			}
		})
	}
	return n
}

// unblockedAlong: is there a way from one of the start edges (in the root
// function) to the site that passes no block satisfying blocked - following
// the site's call chain through helpers? At every level but the last an
// unblocked way must exist to the chain's call; it returns the witness path of
// the last level, or nil when every way is blocked at some level.
func unblockedAlong(d deepSite, starts []*ssa.BasicBlock, blocked func(*ssa.BasicBlock) bool) []*ssa.BasicBlock {
	var path []*ssa.BasicBlock
	for i := 0; i <= len(d.Chain); i++ {
		var in ssa.Instruction
		if i == len(d.Chain) {
			in = d.In
		} else {
			in = d.Chain[i]
		}
		path = nil
		for _, st := range starts {
			if pth := psSearch(st, nil, blocked, func(b *ssa.BasicBlock) bool { return b == in.Block() }); pth != nil {
				path = pth
			}
		}
		if path == nil {
			return nil
		}
		if i < len(d.Chain) {
			callee := staticCallee(d.Chain[i])
			if callee == nil || len(callee.Blocks) == 0 {
				return path
			}
			starts = []*ssa.BasicBlock{callee.Blocks[0]}
		}
	}
	return path
}

// boolRetEscape enumerates the entry->return paths of a bool-returning helper h
// (loops cut at revisits) that cross no cut edge and pass no blocked block, and
// reports whether on one of them the returned value may equal want. The value
// is evaluated along the path: constants, phi edges chosen by the path, negation,
// and the outcome of any branch on the same SSA condition taken earlier on the
// path ("claimed := x == -1; if !claimed {...}; return claimed"). A returned
// value that is itself certifying (valCert) does not count as an escape.
func boolRetEscape(h *ssa.Function, want bool, cut []Edge, blocked func(*ssa.BasicBlock) bool, valCert func(v ssa.Value, truth bool) bool) bool {
	isCut := map[Edge]bool{}
	for _, e := range cut {
		isCut[e] = true
	}
	var path []*ssa.BasicBlock
	onPath := map[*ssa.BasicBlock]bool{}
	found := false
	nPaths := 0
	var eval func(v ssa.Value, known map[ssa.Value]bool) (val bool, ok bool)
	eval = func(v ssa.Value, known map[ssa.Value]bool) (bool, bool) {
		v = strip(v)
		switch x := v.(type) {
		case *ssa.Const:
			if b, isB := boolConst(x); isB {
				return b, true
			}
		case *ssa.UnOp:
			if x.Op == token.NOT {
				b, ok := eval(x.X, known)
				return !b, ok
			}
		case *ssa.Phi:
			// the predecessor through which the path entered the phi's block
			for i := len(path) - 1; i > 0; i-- {
				if path[i] == x.Block() {
					for k, pr := range x.Block().Preds {
						if pr == path[i-1] {
							return eval(x.Edges[k], known)
						}
					}
				}
			}
			return false, false
		}
		if o, ok := known[v]; ok {
			return o, true
		}
		return false, false
	}
	var dfs func(b *ssa.BasicBlock, known map[ssa.Value]bool)
	dfs = func(b *ssa.BasicBlock, known map[ssa.Value]bool) {
		if found || onPath[b] || nPaths > 5000 {
			return
		}
		onPath[b] = true
		path = append(path, b)
		defer func() { onPath[b] = false; path = path[:len(path)-1] }()
		if blocked != nil && blocked(b) {
			return
		}
		if blockNeverReturns(b) || len(b.Instrs) == 0 {
			return
		}
		switch last := b.Instrs[len(b.Instrs)-1].(type) {
		case *ssa.Return:
			nPaths++
			if b == h.Recover || len(last.Results) != 1 {
				return
			}
			v := retVal(last, 0)
			if val, ok := eval(v, known); ok {
				if val == want {
					found = true
				}
				return
			}
			// undetermined value: an escape unless the value itself certifies
			sv := strip(v)
			if phi, isPhi := sv.(*ssa.Phi); isPhi {
				// evaluate the chosen edge once more for valCert
				for i := len(path) - 1; i > 0; i-- {
					if path[i] == phi.Block() {
						for k, pr := range phi.Block().Preds {
							if pr == path[i-1] {
								sv = strip(phi.Edges[k])
							}
						}
						break
					}
				}
			}
			if valCert != nil && valCert(sv, want) {
				return
			}
			found = true
			return
		case *ssa.If:
			ck, cpos := condKey(last.Cond)
			for i, s := range b.Succs {
				if isCut[Edge{From: b, Idx: i}] {
					continue
				}
				out := (i == 0) == cpos
				if prev, ok := known[ck]; ok && prev != out {
					continue
				}
				nk := copyKnown(known)
				nk[ck] = out
				dfs(s, nk)
			}
			return
		}
		for i, s := range b.Succs {
			if isCut[Edge{From: b, Idx: i}] {
				continue
			}
			dfs(s, known)
		}
	}
	dfs(h.Blocks[0], map[ssa.Value]bool{})
	return found
}

// boolHelperOf: if cond (normalised) is the result of a call to a same-package
// bool-returning repository helper, return the helper and the polarity.
func boolHelperOf(fn *ssa.Function, cond ssa.Value) (h *ssa.Function, pos bool, ok bool) {
	a, pos := normCond(cond)
	if a.Op != token.ILLEGAL || theProg == nil {
		return nil, false, false
	}
	call, _, okc := callResult1(strip(a.X))
	if !okc {
		return nil, false, false
	}
	h = staticCallee(call)
	if h == nil || h.Blocks == nil || !theProg.IsRepoFn(h) || h == fn || !samePkg(h, fn) {
		return nil, false, false
	}
	rs := h.Signature.Results()
	if rs.Len() != 1 {
		return nil, false, false
	}
	if bt, isB := rs.At(0).Type().Underlying().(*types.Basic); !isB || bt.Info()&types.IsBoolean == 0 {
		return nil, false, false
	}
	return h, pos, true
}

// liftPassEdges: the edges of fn that are taken only after a pass instruction
// was executed inside a boolean helper: for "if h(...)" the true (false) edge
// qualifies when every path of h that may return true (false) passes.
func liftPassEdges(fn *ssa.Function, pass func(ssa.Instruction) bool, depth int) []Edge {
	var out []Edge
	if depth <= 0 {
		return nil
	}
	lp := liftPass(pass, depth)
	for _, b := range fn.Blocks {
		if len(b.Instrs) == 0 {
			continue
		}
		iff, ok := b.Instrs[len(b.Instrs)-1].(*ssa.If)
		if !ok {
			continue
		}
		h, pos, okh := boolHelperOf(fn, iff.Cond)
		if !okh {
			continue
		}
		blocked := func(x *ssa.BasicBlock) bool {
			for _, in := range x.Instrs {
				if lp(in) {
					return true
				}
			}
			return false
		}
		any := false
		for _, x := range h.Blocks {
			if blocked(x) {
				any = true
			}
		}
		if !any {
			continue
		}
		sub := liftPassEdges(h, pass, depth-1)
		tIdx, fIdx := 0, 1
		if !pos {
			tIdx, fIdx = 1, 0
		}
		if !boolRetEscape(h, true, sub, blocked, nil) {
			out = append(out, Edge{From: b, Idx: tIdx})
		}
		if !boolRetEscape(h, false, sub, blocked, nil) {
			out = append(out, Edge{From: b, Idx: fIdx})
		}
	}
	return out
}

// helperRoot climbs from a named unique-call-site helper to the function (or
// closure) that calls it; closures are not climbed out of (a goroutine body is
// its own root).
func helperRoot(fn *ssa.Function) *ssa.Function {
	for i := 0; i < 10; i++ {
		if fn.Parent() != nil {
			return fn
		}
		s := uniqueSite(fn)
		if s == nil {
			return fn
		}
		if _, isGo := s.(*ssa.Go); isGo {
			return fn
		}
		fn = s.Parent()
	}
	return fn
}

// ---------- fresh decode destination per loop iteration ----------

// staleDecodeDests: json decode calls inside a loop whose destination record is
// not re-created (or wholly overwritten) in every iteration: encoding/json
// leaves fields that are absent from the input untouched, so a record shared
// across iterations carries values of the previous line into the next one.
func staleDecodeDests(fns []*ssa.Function) (sites []ssa.CallInstruction, stale []ssa.CallInstruction) {
	for _, fn := range fns {
		for _, ci := range callsIn(fn) {
			var dest ssa.Value
			switch calleeName(ci) {
			case "encoding/json.Unmarshal":
				dest = ci.Common().Args[1]
			case "(*encoding/json.Decoder).Decode":
				dest = ci.Common().Args[1]
			default:
				// binary decoders that fill their receiver additively (gob into a sketch)
				if n := calleeName(ci); strings.HasSuffix(n, ").GobDecode") || strings.HasSuffix(n, ").UnmarshalBinary") {
					dest = callArgs(ci)[0]
				} else {
					continue
				}
			}
			if !inCycle(ci.Block()) {
				continue
			}
			sites = append(sites, ci)
			v := dest
			for {
				if mi, ok := v.(*ssa.MakeInterface); ok {
					v = mi.X
					continue
				}
				break
			}
			// an object produced by a call (a constructor): fresh iff the call is re-executed in the loop
			if cc, _, okc := callResult1(strip(v)); okc {
				if reachPath(ci.Block(), cc.Block(), nil) == nil {
					stale = append(stale, ci)
				}
				continue
			}
			al, ok := v.(*ssa.Alloc)
			if !ok {
				// not a local record (a field, a parameter): shared by construction
				stale = append(stale, ci)
				continue
			}
			if reachPath(ci.Block(), al.Block(), nil) != nil {
				continue // the variable is re-created in every iteration
			}
			fresh := false
			if al.Referrers() != nil {
				for _, r := range *al.Referrers() {
					if st, ok := r.(*ssa.Store); ok && st.Addr == ssa.Value(al) && reachPath(ci.Block(), st.Block(), nil) != nil && st.Block().Dominates(ci.Block()) {
						fresh = true // wholly overwritten inside the loop before the decode
					}
				}
			}
			if !fresh {
				stale = append(stale, ci)
			}
		}
	}
	return
}

// sCmp: the specs under which "X rel Y" is known to hold (see cmpEdges).
func sCmp(rel string, px, py func(ssa.Value) bool) []condSpec {
	switch rel {
	case ">":
		return sCmp("<", py, px)
	case ">=":
		return sCmp("<=", py, px)
	case "<":
		return []condSpec{
			{true, func(a Atom) bool { return a.Op == token.LSS && px(a.X) && py(a.Y) }},
			{false, func(a Atom) bool { return a.Op == token.LEQ && py(a.X) && px(a.Y) }},
		}
	default: // "<="
		return []condSpec{
			{true, func(a Atom) bool { return a.Op == token.LEQ && px(a.X) && py(a.Y) }},
			{false, func(a Atom) bool { return a.Op == token.LSS && py(a.X) && px(a.Y) }},
		}
	}
}
