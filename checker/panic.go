package main

// E-PANIC: process-termination constructs reachable, through repository code,
// from declared untrusted entry points.

import (
	"fmt"
	"go/token"
	"go/types"
	"regexp/syntax"
	"strings"

	"golang.org/x/tools/go/ssa"
)

type Term struct {
	Fn     *ssa.Function
	Instr  ssa.Instruction
	Kind   string // panic | exit | assert | index
	Detail string
}

var exitCallees = map[string]bool{
	"log.Fatal": true, "log.Fatalf": true, "log.Fatalln": true, "log.Panic": true, "log.Panicf": true, "log.Panicln": true,
	"(*log.Logger).Fatal": true, "(*log.Logger).Fatalf": true, "(*log.Logger).Fatalln": true,
	"(*log.Logger).Panic": true, "(*log.Logger).Panicf": true, "(*log.Logger).Panicln": true,
	"os.Exit": true, "runtime.Goexit": true,
}

// terminatorsIn lists the termination constructs of one function.
func terminatorsIn(fn *ssa.Function) []Term {
	var out []Term
	allInstrs(fn, func(in ssa.Instruction) {
		switch x := in.(type) {
		case *ssa.Panic:
			if s, ok := constString(x.X); ok && s == "blocking select matched no case" && !x.Pos().IsValid() {
				return // synthetic: emitted by go/ssa after a blocking select, unreachable
			}
			out = append(out, Term{fn, in, "panic", "explicit panic(" + valueBrief(x.X) + ")"})
		case *ssa.TypeAssert:
			if !x.CommaOk {
				out = append(out, Term{fn, in, "assert", "single-value type assertion to " + typeString(x.AssertedType)})
			}
		case ssa.CallInstruction:
			if n := calleeName(x); exitCallees[n] {
				out = append(out, Term{fn, in, "exit", "call of " + n})
			}
		}
	})
	return out
}

func valueBrief(v ssa.Value) string {
	if s, ok := constString(v); ok {
		return fmt.Sprintf("%q", s)
	}
	v = strip(v)
	if s, ok := constString(v); ok {
		return fmt.Sprintf("%q", s)
	}
	return v.Name() + ":" + typeString(v.Type())
}

// termKey is the refactoring-stable construct key of a terminator.
func (p *Prog) termKey(t Term) string {
	k := p.FnName(t.Fn) + " " + t.Kind
	switch x := t.Instr.(type) {
	case *ssa.TypeAssert:
		k += " " + describeOperand(p, x.X) + ".(" + shortType(x.AssertedType) + ")"
	case *ssa.Panic:
		k += " " + valueBrief(x.X)
	case ssa.CallInstruction:
		k += " " + calleeName(x)
	}
	return k
}

func shortType(t types.Type) string {
	return strings.ReplaceAll(typeString(t), modPath+"/", "")
}

// describeOperand gives a stable description of where a value comes from.
func describeOperand(p *Prog, v ssa.Value) string {
	v = strip(v)
	if c, idx, ok := callResult(v); ok {
		return fmt.Sprintf("result%d(%s)", idx, calleeName(c))
	}
	if base, f, ok := fieldLoad(v); ok {
		return "field " + fieldKey(base, f)
	}
	switch x := v.(type) {
	case *ssa.Parameter:
		return "param " + x.Name()
	case *ssa.Lookup:
		if k, ok := constString(x.Index); ok {
			return "map[" + fmt.Sprintf("%q", k) + "] of " + describeOperand(p, x.X)
		}
		return "map element of " + describeOperand(p, x.X)
	case *ssa.Extract:
		return fmt.Sprintf("extract%d(%s)", x.Index, describeOperand(p, x.Tuple))
	case *ssa.Phi:
		return "phi"
	case *ssa.Global:
		return "global " + x.Name()
	case *ssa.UnOp:
		if x.Op == token.MUL {
			return "*" + describeOperand(p, x.X)
		}
	case *ssa.FreeVar:
		return "captured " + x.Name()
	case *ssa.Alloc:
		return "local " + x.Comment
	}
	return v.Name()
}

// ---------- discharge of single-value type assertions ----------

// dischargeAssert tries the discharge rules of DESIGN.md (E-PANIC). It returns
// a non-empty reason when the assertion provably cannot fail.
func (p *Prog) dischargeAssert(ta *ssa.TypeAssert) string {
	fn := ta.Parent()
	// (i) dominated by a successful comma-ok assertion / type-switch case of
	// the same operand and type.
	for _, b := range fn.Blocks {
		for _, in := range b.Instrs {
			ta2, ok := in.(*ssa.TypeAssert)
			if !ok || !ta2.CommaOk || ta2 == ta {
				continue
			}
			if strip(ta2.X) != strip(ta.X) || !types.Identical(ta2.AssertedType, ta.AssertedType) {
				continue
			}
			okEdges := boolEdges(fn, true, func(v ssa.Value) bool {
				e, isE := v.(*ssa.Extract)
				return isE && e.Tuple == ta2 && e.Index == 1
			})
			if len(okEdges) > 0 && reachableWithout(fn, ta, okEdges) == nil {
				return "dominated by successful comma-ok assertion of the same value (" + p.instrPos(ta2) + ")"
			}
		}
	}
	x := strip(ta.X)
	// (ii-a) heap.Pop(h).(T): every return of h's Pop wraps T.
	if c, _, ok := callResult(x); ok && isCallTo(c, "container/heap.Pop", "container/heap.Remove") {
		if ht := heapArgType(c); ht != nil {
			if m := p.methodOf(ht, "Pop"); m != nil {
				all := true
				for _, r := range returnsOf(m) {
					if len(r.Results) != 1 || !types.Identical(boxedType(r.Results[0]), ta.AssertedType) {
						all = false
					}
				}
				if all && len(returnsOf(m)) > 0 {
					return "operand is heap.Pop/Remove result; every return of " + p.FnName(m) + " wraps " + shortType(ta.AssertedType)
				}
			}
		}
	}
	// (ii-b) parameter of a heap.Interface Push method: every heap.Push(h, x)
	// on that heap type passes T.
	if par, ok := x.(*ssa.Parameter); ok && fn.Name() == "Push" && fn.Signature.Recv() != nil && len(fn.Params) == 2 && par == fn.Params[1] {
		recvT := fn.Signature.Recv().Type()
		n, bad := 0, 0
		for _, f := range p.fns {
			for _, ci := range callsTo(f, "container/heap.Push") {
				if ht := heapArgType(ci); ht != nil && types.Identical(ht, recvT) {
					n++
					if !types.Identical(boxedType(ci.Common().Args[1]), ta.AssertedType) {
						bad++
					}
				}
			}
		}
		if n > 0 && bad == 0 {
			return fmt.Sprintf("operand is the heap.Push callback parameter; all %d heap.Push sites on %s pass %s", n, shortType(recvT), shortType(ta.AssertedType))
		}
	}
	// (ii-c) list.Element.Value: every Push*/Insert* in the package passes T.
	if _, f, ok := fieldLoad(x); ok && f.Name() == "Value" && f.Pkg() != nil && f.Pkg().Path() == "container/list" {
		n, bad := 0, 0
		rel := p.Rel(fn)
		for _, g := range p.FnsIn(rel) {
			for _, ci := range callsTo(g, "(*container/list.List).PushBack", "(*container/list.List).PushFront",
				"(*container/list.List).InsertBefore", "(*container/list.List).InsertAfter") {
				n++
				if !types.Identical(boxedType(ci.Common().Args[1]), ta.AssertedType) {
					bad++
				}
			}
		}
		if n > 0 && bad == 0 {
			return fmt.Sprintf("operand is list.Element.Value; all %d list insertions in %s pass %s", n, rel, shortType(ta.AssertedType))
		}
	}
	// (ii-d) MetricVec.GetMetricWith: the factory closure's returns implement T.
	if c, idx, ok := callResult(x); ok && idx == 0 && strings.HasSuffix(calleeName(c), "MetricVec).GetMetricWith") {
		iface, _ := ta.AssertedType.Underlying().(*types.Interface)
		if iface != nil {
			n, bad := 0, 0
			for _, g := range p.FnsIn(p.Rel(fn)) {
				for _, ci := range callsTo(g, "github.com/prometheus/client_golang/prometheus.NewMetricVec") {
					if mc, ok := strip(ci.Common().Args[1]).(*ssa.MakeClosure); ok {
						for _, r := range returnsOf(mc.Fn.(*ssa.Function)) {
							n++
							if bt := boxedType(r.Results[0]); bt == nil || !types.Implements(bt, iface) {
								bad++
							}
						}
					} else {
						bad++
					}
				}
			}
			if n > 0 && bad == 0 {
				return fmt.Sprintf("operand is MetricVec.GetMetricWith result; all %d returns of the vector factory implement %s", n, shortType(ta.AssertedType))
			}
		}
	}
	// (iv) stdlib rows.
	if c, _, ok := callResult(x); ok && isCallTo(c, "io.LimitReader") && shortType(ta.AssertedType) == "*io.LimitedReader" {
		return "io.LimitReader returns *io.LimitedReader (stdlib row)"
	}
	if addr, ok := loadAddr(x); ok {
		if g, ok := addr.(*ssa.Global); ok && g.Pkg.Pkg.Path() == "net/http" && g.Name() == "DefaultTransport" && shortType(ta.AssertedType) == "*net/http.Transport" {
			return "http.DefaultTransport is *http.Transport (stdlib row)"
		}
	}
	return ""
}

// boxedType returns the concrete type put into an interface by v (MakeInterface),
// or v's own static type if it is not an interface.
func boxedType(v ssa.Value) types.Type {
	for {
		switch x := v.(type) {
		case *ssa.MakeInterface:
			return x.X.Type()
		case *ssa.ChangeInterface:
			v = x.X
			continue
		}
		break
	}
	if _, ok := v.Type().Underlying().(*types.Interface); ok {
		return nil
	}
	return v.Type()
}

// heapArgType: static type of the heap handed to container/heap.X(h, ...).
func heapArgType(ci ssa.CallInstruction) types.Type {
	args := ci.Common().Args
	if len(args) == 0 {
		return nil
	}
	return boxedType(args[0])
}

// methodOf returns the declared method `name` of type t (pointer or value).
func (p *Prog) methodOf(t types.Type, name string) *ssa.Function {
	n := namedOf(t)
	if n == nil {
		return nil
	}
	for _, tt := range []types.Type{types.NewPointer(n), n} {
		ms := p.SSA.MethodSets.MethodSet(tt)
		for i := 0; i < ms.Len(); i++ {
			if ms.At(i).Obj().Name() == name {
				f := p.SSA.MethodValue(ms.At(i))
				// resolve wrappers to the declared function
				if f != nil && f.Synthetic != "" {
					if decl := p.SSA.FuncValue(ms.At(i).Obj().(*types.Func)); decl != nil {
						return decl
					}
				}
				return f
			}
		}
	}
	return nil
}

// ---------- constant index into regexp submatch / Split results ----------

type idxSite struct {
	Fn    *ssa.Function
	Instr ssa.Instruction
	Src   string // "submatch" | "split"
	Index int64
	Call  *ssa.Call
	X     ssa.Value
}

// constIndexSites finds constant-index element accesses whose indexed slice is
// the result of a regexp Find*Submatch or strings.Split call.
func constIndexSites(fn *ssa.Function) []idxSite {
	var out []idxSite
	allInstrs(fn, func(in ssa.Instruction) {
		var x, idx ssa.Value
		switch v := in.(type) {
		case *ssa.IndexAddr:
			x, idx = v.X, v.Index
		case *ssa.Index:
			x, idx = v.X, v.Index
		default:
			return
		}
		k, ok := constInt(idx)
		if !ok {
			return
		}
		c, _, ok := callResult(x)
		if !ok {
			return
		}
		n := calleeName(c)
		switch {
		case strings.HasPrefix(n, "(*regexp.Regexp).Find") && strings.Contains(n, "Submatch"):
			out = append(out, idxSite{fn, in, "submatch", k, c, x})
		case n == "strings.Split" || n == "strings.SplitN" || n == "bytes.Split":
			out = append(out, idxSite{fn, in, "split", k, c, x})
		}
	})
	return out
}

// minSubexp returns the minimum number of capture groups over all patterns a
// regexp receiver value may denote: a MustCompile(const) call, a package-level
// variable initialised with one, or an element of a package-level slice
// literal of such calls. ok=false if the receiver cannot be resolved.
func (p *Prog) minSubexp(recv ssa.Value) (min int, pats []string, ok bool) {
	var calls []*ssa.Call
	var g *ssa.Global
	if c, _, isCall := callResult(recv); isCall && isCallTo(c, "regexp.MustCompile") {
		calls = append(calls, c)
	} else if flows(recv, func(v ssa.Value) bool {
		if gg, isG := v.(*ssa.Global); isG {
			g = gg
			return true
		}
		return false
	}) && g != nil {
		init := g.Pkg.Func("init")
		if init == nil {
			return 0, nil, false
		}
		// every MustCompile result in init that flows into a store to g
		allInstrs(init, func(in ssa.Instruction) {
			st, isSt := in.(*ssa.Store)
			if !isSt || st.Addr != g {
				return
			}
			// direct: g = MustCompile(..)
			if c, _, isCall := callResult(st.Val); isCall && isCallTo(c, "regexp.MustCompile") {
				calls = append(calls, c)
				return
			}
			// slice literal: g = arr[:] with arr[i] = MustCompile(..)
			if sl, isSl := st.Val.(*ssa.Slice); isSl {
				if refs := sl.X.Referrers(); refs != nil {
					for _, r := range *refs {
						if ia, isIA := r.(*ssa.IndexAddr); isIA && ia.Referrers() != nil {
							for _, rr := range *ia.Referrers() {
								if s2, isS2 := rr.(*ssa.Store); isS2 && s2.Addr == ia {
									if c, _, isCall := callResult(s2.Val); isCall && isCallTo(c, "regexp.MustCompile") {
										calls = append(calls, c)
									} else {
										calls = append(calls, nil)
									}
								}
							}
						}
					}
				}
			}
		})
	}
	if len(calls) == 0 {
		return 0, nil, false
	}
	min = -1
	for _, c := range calls {
		if c == nil {
			return 0, nil, false
		}
		pat, isConst := constString(c.Call.Args[0])
		if !isConst {
			return 0, nil, false
		}
		re, err := syntax.Parse(pat, syntax.Perl)
		if err != nil {
			return 0, nil, false
		}
		n := re.MaxCap()
		pats = append(pats, pat)
		if min < 0 || n < min {
			min = n
		}
	}
	return min, pats, true
}

// lenAtLeastEdges: the edges of fn on which len(x) >= n is established by a
// comparison of len(x) with a constant.
func lenAtLeastEdges(fn *ssa.Function, x ssa.Value, n int64) []Edge {
	isLen := func(v ssa.Value) bool {
		cc, _, ok := callResult(v)
		return ok && calleeName(cc) == "builtin.len" && len(cc.Call.Args) == 1 && (strip(cc.Call.Args[0]) == strip(x) || sameLoad(cc.Call.Args[0], x))
	}
	var out []Edge
	// the atom holds and implies the bound
	out = append(out, condEdges(fn, true, func(a Atom) bool {
		switch a.Op {
		case token.EQL:
			if k, ok := constInt(a.Y); ok && isLen(a.X) {
				return k >= n
			}
			if k, ok := constInt(a.X); ok && isLen(a.Y) {
				return k >= n
			}
		case token.LSS: // k < len
			if k, ok := constInt(a.X); ok && isLen(a.Y) {
				return k+1 >= n
			}
		case token.LEQ: // k <= len
			if k, ok := constInt(a.X); ok && isLen(a.Y) {
				return k >= n
			}
		}
		return false
	})...)
	// the atom does not hold and its negation implies the bound
	out = append(out, condEdges(fn, false, func(a Atom) bool {
		switch a.Op {
		case token.LSS: // !(len < k)
			if k, ok := constInt(a.Y); ok && isLen(a.X) {
				return k >= n
			}
		case token.LEQ: // !(len <= k)
			if k, ok := constInt(a.Y); ok && isLen(a.X) {
				return k+1 >= n
			}
		}
		return false
	})...)
	return out
}

// checkConstIndexes adds one obligation per constant index into a submatch or
// Split result in the given functions.
func (c *Ctx) checkConstIndexes(rule string, fns []*ssa.Function) {
	p := c.P
	for _, fn := range fns {
		for _, s := range constIndexSites(fn) {
			key := fmt.Sprintf("%s index [%d] of %s result", p.FnName(fn), s.Index, calleeName(s.Call))
			pos := p.instrPos(s.Instr)
			switch s.Src {
			case "split":
				if s.Index == 0 {
					c.ok(rule, key, pos, "Split returns at least one element (library table)")
				} else {
					// must lie behind a length test of the same slice on every path
					edges := lenAtLeastEdges(fn, s.X, s.Index+1)
					if len(edges) == 0 {
						c.viol(rule, key, pos, fmt.Sprintf("element %d of a Split result is read and the function has no test that its length is at least %d: an input without the separator panics here", s.Index, s.Index+1))
					} else if path := reachableWithout(fn, s.Instr, edges); path != nil {
						c.viol(rule, key, pos, fmt.Sprintf("element %d of a Split result is reachable on a path without a test that its length is at least %d", s.Index, s.Index+1), p.pathString(path)...)
					} else {
						c.ok(rule, key, pos, fmt.Sprintf("behind a test that the Split result has at least %d elements on every path (%d edge(s))", s.Index+1, len(edges)))
					}
				}
			case "submatch":
				recv := s.Call.Call.Args[0]
				min, pats, ok := p.minSubexp(recv)
				if !ok {
					c.undecided(rule, key, pos, "cannot resolve the regular expression(s) of the receiver")
					continue
				}
				if int(s.Index) > min {
					c.viol(rule, key, pos, fmt.Sprintf("index %d exceeds the %d capture group(s) of %q", s.Index, min, pats))
					continue
				}
				// the match must be non-nil on every path to the index
				edges := nilCheckEdges(fn, false, func(v ssa.Value) bool { return strip(v) == strip(s.X) })
				if path := reachableWithout(fn, s.Instr, edges); path != nil {
					c.viol(rule, key, pos, "submatch result indexed without a dominating != nil test", p.pathString(path)...)
				} else {
					c.ok(rule, key, pos, fmt.Sprintf("index %d <= %d capture groups of %d pattern(s); guarded by != nil", s.Index, min, len(pats)))
				}
			}
		}
	}
}

// checkTerminators runs E-PANIC over everything reachable from entries.
// discharge may accept a terminator with a reason (table rows verified by the
// caller); otherwise the default assertion discharge rules apply.
func (c *Ctx) checkTerminators(rule string, entries []*ssa.Function, discharge func(t Term) string) (reached []*ssa.Function) {
	p := c.P
	g := p.cgl()
	order, via := g.reachFrom(entries)
	n := 0
	for _, fn := range order {
		if !p.IsRepoFn(fn) {
			continue
		}
		reached = append(reached, fn)
		c.analysedFn(p.FnName(fn))
		for _, t := range terminatorsIn(fn) {
			n++
			key := p.termKey(t)
			pos := p.instrPos(t.Instr)
			why := ""
			if discharge != nil {
				why = discharge(t)
			}
			if why == "" && t.Kind == "assert" {
				why = p.dischargeAssert(t.Instr.(*ssa.TypeAssert))
			}
			if why != "" {
				c.ok(rule, key, pos, t.Detail+": "+why)
			} else {
				c.viol(rule, key, pos, t.Detail+" reachable from an untrusted entry point", g.callPath(fn, via)...)
			}
		}
	}
	c.count("termination constructs examined", n)
	return reached
}
