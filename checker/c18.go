package main

import (
	"fmt"
	"go/token"
	"strings"

	"golang.org/x/tools/go/ssa"
)

func init() {
	register("C18", propMeta{
		Explanation: "E-GUARD + E-PROV + E-OWN + E-LOCK. O-1 sanitiser shape: clientAddr returns a non-empty address only through param != \"\", net.ParseIP(param) != nil and !ip.IsUnspecified() on that parsed IP; the value is (&net.TCPAddr{IP: ip, Port: 1}).String() of the parsed IP; every other return is the empty ClientMapAddr. O-2 flow: ServeHTTP sanitises the client_ip query value of this request and passes exactly that to turbotunnelMode, which stores it under this carrier's ClientID by the only Set call; acceptStreams fetches the address once, before the stream loop, with the session's RemoteAddr().(ClientID), and every accepted connection carries that value, which RemoteAddr() returns; on the proxy side the client_ip value is the String() of the address computed by remoteIPFromSDP, which returns only addresses that pass isRemoteAddress. O-3 bounded ring: entries is allocated once with the capacity and never appended or re-sliced; oldest advances only as (oldest + 1) % len(entries); inserting current[k] = oldest is preceded on every path by the delete of the stale owner of that slot; len(entries) == 0 returns before indexing; every access to the ring is under its mutex, Get's read of the entry included. Each clause is necessary: e.g. reading entries[i] after releasing the lock returns another session's address. Added after the second seeding round: O-2 every path from the successful ClientID read to the packet loops passes clientIDAddrMap.Set (each carrier records its address, not only the first), and the relay URL that client_ip is written into is parsed by this invocation of datachannelHandler; O-3 Set takes a new slot on every call with a non-empty ring. Added after the third seeding round: ServeHTTP and its helpers store nothing in the handler object, which all requests of a listener share. Added after the fourth seeding round: SnowflakeClientConn.RemoteAddr returns nothing but the stored address (no fallback to the wrapped stream's address, which is the ClientID). Added after the fifth seeding round: isRemoteAddress consults util.IsLocal (the table C08 verifies), IsUnspecified and IsLoopback on its parameter. Added after the sixth seeding round and the mutation audit: clientIDAddrMap.Set is a plain call (not go/defer) on every path to the packet loops; O-1/C20 the map is assigned only at package initialisation.",
		NotDecided:  "which carrier is 'most recent' under concurrent carriers (history-level), the address being forgotten when the ring overflowed between set and get (documented behaviour).",
		Assumptions: []string{"net.ParseIP / IsUnspecified / TCPAddr.String behave as documented"},
	}, runC18)
}

func runC18(c *Ctx) {
	p := c.P
	srv := p.FnsIn("server/lib")
	for _, fn := range srv {
		c.analysedFn(p.FnName(fn))
	}
	// ---------- O-1 sanitiser ----------
	rule1 := "O-1 sanitiser shape"
	ca := p.Fn("server/lib", "clientAddr")
	if ca == nil {
		c.undecided(rule1, "server/lib.clientAddr", "-", "anchor does not resolve")
	} else {
		par := ca.Params[0]
		var parse *ssa.Call
		for _, ci := range callsTo(ca, "net.ParseIP") {
			if ci.Common().Args[0] == ssa.Value(par) {
				parse, _ = ci.(*ssa.Call)
			}
		}
		nonEmptyParam := condEdges(ca, false, func(a Atom) bool {
			if a.Op != token.EQL {
				return false
			}
			s, ok := constString(a.Y)
			return ok && s == "" && a.X == ssa.Value(par)
		})
		var parsedOK, specified []Edge
		if parse != nil {
			parsedOK = nilCheckEdges(ca, false, func(v ssa.Value) bool { return v == ssa.Value(parse) })
			specified = boolEdges(ca, false, func(v ssa.Value) bool {
				cc, _, ok := callResult(v)
				return ok && calleeName(cc) == "(net.IP).IsUnspecified" && cc.Call.Args[0] == ssa.Value(parse)
			})
		}
		nNonEmpty := 0
		for _, r := range returnsOf(ca) {
			v := r.Results[0]
			// empty ClientMapAddr?
			if s, ok := constString(v); ok && s == "" {
				continue
			}
			nNonEmpty++
			for _, g := range []struct {
				edges []Edge
				what  string
			}{{nonEmptyParam, "param != \"\""}, {parsedOK, "net.ParseIP(param) != nil"}, {specified, "!ip.IsUnspecified()"}} {
				path := reachableWithout(ca, r, g.edges)
				c.check(len(g.edges) > 0 && path == nil, rule1, "clientAddr returns an address only behind "+g.what, p.instrPos(r), "", "a non-empty client address can be returned without the check "+g.what+" (on the parsed IP)", p.pathString(path)...)
			}
			// value: TCPAddr{IP: parsed, Port: 1}.String()
			good := false
			if cc, _, ok := callResult(v); ok && calleeName(cc) == "(*net.TCPAddr).String" {
				al := cc.Call.Args[0]
				ip := structLitField(al, "IP")
				port := structLitField(al, "Port")
				k, _ := constInt(port)
				okIP := ip != nil && parse != nil
				if okIP {
					// the IP is the parsed one (merged, at most, with the nil of the rejected cases)
					sawParse := false
					var walk func(v ssa.Value, d int)
					walk = func(v ssa.Value, d int) {
						if ph, isPhi := v.(*ssa.Phi); isPhi && d < 6 {
							for _, e := range ph.Edges {
								walk(e, d+1)
							}
							return
						}
						switch {
						case strip(v) == ssa.Value(parse):
							sawParse = true
						case isNilConst(v):
						default:
							okIP = false
						}
					}
					walk(ip, 0)
					okIP = okIP && sawParse
				}
				good = okIP && port != nil && k == 1
			}
			c.check(good, rule1, "clientAddr renders the parsed IP with the stub port", p.instrPos(r), "(&net.TCPAddr{IP: ip, Port: 1}).String()", "the returned address is not the parsed IP rendered with port 1 (e.g. the raw parameter is passed through)")
		}
		if nNonEmpty != 1 {
			c.undecided(rule1, "clientAddr non-empty returns", p.Pos(ca.Pos()), fmt.Sprintf("%d non-empty returns, expected 1", nNonEmpty))
		}
	}

	// ---------- O-2 flow ----------
	rule2 := "O-2 address flow"
	sh := p.Fn("server/lib", "(*httpHandler).ServeHTTP")
	tm := p.FnLoose("server/lib", "turbotunnelMode")
	as := p.Fn("server/lib", "(*SnowflakeListener).acceptStreams")
	// the handler object is shared by every request of a listener: nothing request-specific (the
	// sanitised client address least of all) is stored in it
	if sh != nil && len(sh.Params) > 0 {
		recv := sh.Params[0]
		bad := 0
		for _, f := range helperFns(sh, 2) {
			allInstrs(f, func(in ssa.Instruction) {
				st, ok := in.(*ssa.Store)
				if !ok {
					return
				}
				base, fld, okf := fieldOfAddr(st.Addr)
				if !okf {
					return
				}
				if sameValue(base, func(v ssa.Value) bool { return v == ssa.Value(recv) }) {
					bad++
					c.viol(rule2, p.FnName(f)+" stores request data in the shared handler (field "+fld.Name()+")", p.instrPos(st), "the handler is one object for all requests of a listener: a value stored in it by one request is read by another request's carrier (the session is credited with someone else's address), and the accesses race")
				}
			})
		}
		if bad == 0 {
			c.ok(rule2, "ServeHTTP keeps request data out of the shared handler object", p.Pos(sh.Pos()), "no store to a field of the receiver")
		}
	}
	if sh == nil || tm == nil || as == nil || ca == nil {
		c.undecided(rule2, "ServeHTTP/turbotunnelMode/acceptStreams", "-", "anchor does not resolve")
	} else {
		for _, ci := range callsIn(sh) {
			if staticCallee(ci) != tm {
				continue
			}
			addrIdx := 1
			if ap := paramOfType(tm, "net.Addr"); ap != nil {
				for i, par := range tm.Params {
					if par == ap {
						addrIdx = i
					}
				}
			}
			addr := ci.Common().Args[addrIdx]
			cc, _, ok := callResult(addr)
			good := ok && staticCallee(cc) == ca
			if good {
				// argument = r.URL.Query().Get("client_ip") of this request
				g, _, okg := callResult(cc.Call.Args[0])
				k := ""
				if okg && calleeName(g) == "(net/url.Values).Get" {
					k, _ = constString(g.Call.Args[1])
				}
				good = k == "client_ip" && flows(g.Call.Args[0], func(v ssa.Value) bool { return v == ssa.Value(sh.Params[2]) })
			}
			c.check(good, rule2, "ServeHTTP passes clientAddr(this request's client_ip) to turbotunnelMode", p.instrPos(ci), "", "the address handed to turbotunnelMode is not the sanitised client_ip of this request")
		}
		nSet := 0
		for _, fn := range p.FnsIn() {
			for _, ci := range callsTo(fn, "(*server/lib.clientIDMap).Set") {
				nSet++
				addrPar := paramOfType(tm, "net.Addr")
				good := fn == tm && addrPar != nil && ci.Common().Args[2] == ssa.Value(addrPar)
				if _, plain := ci.(*ssa.Call); !plain {
					c.viol(rule2, p.FnName(fn)+" records the carrier's address before serving it", p.instrPos(ci), "clientIDAddrMap.Set is started with go (or deferred): the carrier's first packets can establish the session before the address is recorded, and the Set calls of one ClientID are no longer ordered")
				}
				c.check(good, rule2, p.FnName(fn)+" stores the carrier's address", p.instrPos(ci), "the only Set call, with turbotunnelMode's addr parameter", "the ClientID-to-address map is written with something other than this carrier's sanitised address, or from another place")
			}
		}
		if nSet != 1 {
			c.viol(rule2, "exactly one clientIDAddrMap.Set call", "-", fmt.Sprintf("%d calls", nSet))
		}
		c.checkSetOnEveryCarrier(rule2)
		// the map that carries the addresses from the carriers to the sessions is one object for the life of
		// the process: replacing it discards the associations of the sessions being served
		c.prefix = "O-1/C20:"
		for _, r := range globalGuardTable {
			if r.Rel == "server/lib" && r.Name == "clientIDAddrMap" {
				c.checkGlobalRows("O-1 guarded-by table", []globalRow{r})
			}
		}
		c.prefix = ""
		// acceptStreams: Get once before the loop, keyed by RemoteAddr().(ClientID)
		var get *ssa.Call
		nGet := 0
		for _, ci := range callsTo(as, "(*server/lib.clientIDMap).Get") {
			nGet++
			get, _ = ci.(*ssa.Call)
		}
		if nGet != 1 || get == nil {
			c.viol(rule2, "acceptStreams looks the address up once", p.Pos(as.Pos()), fmt.Sprintf("%d Get calls", nGet))
		} else {
			c.check(!inCycle(get.Block()), rule2, "acceptStreams looks the address up when the session is established, not per stream", p.instrPos(get), "", "the lookup is inside the stream loop: later streams of one session get the address of whichever carrier came last (or none)")
			key := get.Call.Args[1]
			okKey := false
			if ta, ok := strip(key).(*ssa.TypeAssert); ok {
				if cc, _, okc := callResult(ta.X); okc && strings.HasSuffix(calleeName(cc), "UDPSession).RemoteAddr") && cc.Call.Args[0] == ssa.Value(as.Params[1]) {
					okKey = true
				}
			}
			c.check(okKey, rule2, "acceptStreams keys the lookup by the session's own ClientID", p.instrPos(get), "", "the address is looked up under a key other than this session's RemoteAddr")
			addrF := p.Field("server/lib", "SnowflakeClientConn", "address")
			n := 0
			for _, s := range storesToField(p.FnsIn("server/lib"), addrF) {
				n++
				c.check(isResultOfCall(s.Val, get, 0), rule2, p.FnName(s.Parent())+" gives the accepted connection the looked-up address", p.instrPos(s), "", "SnowflakeClientConn.address is not the value returned by clientIDAddrMap.Get for this session")
			}
			if n == 0 {
				c.missingOrMoved(rule2, "the accepted connection is given the looked-up address", as, func(in ssa.Instruction) bool {
					st, ok := in.(*ssa.Store)
					if !ok {
						return false
					}
					_, g, okf := fieldOfAddr(st.Addr)
					return okf && g == addrF
				}, "a store to SnowflakeClientConn.address", "RemoteAddr() of accepted connections is nil: the bridge is never told a client address")
			}
		}
		if ra := p.Fn("server/lib", "(*SnowflakeClientConn).RemoteAddr"); ra != nil {
			ok := false
			other := ""
			for _, r := range returnsOf(ra) {
				// every value that can be returned is the address field (a fallback to the wrapped stream's
				// RemoteAddr hands the bridge the ClientID - neither an address nor nothing)
				var leaves []ssa.Value
				var walk func(v ssa.Value, d int)
				walk = func(v ssa.Value, d int) {
					if ph, isPhi := v.(*ssa.Phi); isPhi && d < 6 {
						for _, e := range ph.Edges {
							walk(e, d+1)
						}
						return
					}
					leaves = append(leaves, v)
				}
				walk(r.Results[0], 0)
				for _, lf := range leaves {
					if _, f, okf := fieldLoad(lf); okf && f.Name() == "address" {
						ok = true
					} else if !isNilConst(lf) {
						other = p.instrPos(r)
					}
				}
			}
			c.check(ok && other == "", rule2, "SnowflakeClientConn.RemoteAddr returns the stored address", p.Pos(ra.Pos()), "and nothing else", "RemoteAddr can return something other than the address recorded for the session ("+other+"): the bridge is told the KCP session's ClientID, or a carrier's address, as the client address")
		}
	}
	// proxy side
	if dch := p.Fn("proxy/lib", "(*SnowflakeProxy).datachannelHandler"); dch != nil {
		c.analysedFn(p.FnName(dch))
		ok := false
		for _, ci := range callsTo(dch, "(net/url.Values).Set") {
			if k, _ := constString(ci.Common().Args[1]); k == "client_ip" {
				if cc, _, okc := callResult(ci.Common().Args[2]); okc && calleeName(cc) == "(net.Addr).String" && cc.Call.Value == ssa.Value(dch.Params[2]) {
					ok = true
				}
			}
		}
		c.check(ok, rule2, "proxy sets client_ip to remoteAddr.String()", p.Pos(dch.Pos()), "", "the client_ip sent to the bridge is not the address derived from the client's offer")
		// the URL that receives the query is parsed by this invocation: a URL object shared between
		// sessions (cached, package-level) keeps one client's client_ip for the next client
		nQ := 0
		allInstrs(dch, func(in ssa.Instruction) {
			st, okS := in.(*ssa.Store)
			if !okS {
				return
			}
			base, f, okf := fieldOfAddr(st.Addr)
			if !okf || f.Name() != "RawQuery" || f.Pkg() == nil || f.Pkg().Path() != "net/url" {
				return
			}
			nQ++
			cc, idx, okc := callResult1(strip(base))
			fresh := okc && idx == 0 && calleeName(cc) == "net/url.Parse" && cc.Parent() == dch
			c.check(fresh, rule2, "the relay URL carrying client_ip is parsed per session", p.instrPos(st), "url.Parse in datachannelHandler", "client_ip is written into a URL object that is not created by this invocation: another session's address stays in it")
		})
		if nQ == 0 {
			c.undecided(rule2, "store to URL.RawQuery in datachannelHandler", p.Pos(dch.Pos()), "none found")
		}
	}
	if rip := p.Fn("proxy/lib", "remoteIPFromSDP"); rip != nil {
		c.analysedFn(p.FnName(rip))
		bad := false
		n := 0
		// isRemoteAddress itself: "not local" is decided by util.IsLocal, the table C08 verifies (the standard library's
		// IsPrivate knows neither carrier-grade NAT nor 169.254/16), plus unspecified and loopback
		if ira := p.Fn("proxy/lib", "isRemoteAddress"); ira != nil && len(ira.Params) == 1 {
			need := map[string]bool{"common/util.IsLocal": false, "(net.IP).IsUnspecified": false, "(net.IP).IsLoopback": false}
			for _, ci := range callsIn(ira) {
				n := calleeName(ci)
				if _, ok := need[n]; ok {
					args := callArgs(ci)
					if len(args) > 0 && strip(args[0]) == ssa.Value(ira.Params[0]) {
						need[n] = true
					}
				}
			}
			missing := ""
			for k, v := range need {
				if !v {
					missing += " " + k
				}
			}
			c.check(missing == "", rule2, "isRemoteAddress excludes local (util.IsLocal), unspecified and loopback addresses", p.Pos(ira.Pos()), "", "isRemoteAddress does not consult"+missing+": addresses in ranges that are local by the table (100.64/10, 169.254/16, ...) are reported to the bridge as the client's address")
		}
		// a return is vetted when it lies behind the true edge of isRemoteAddress on
		// the returned value, or returns the result of a same-package helper whose
		// non-nil returns are all vetted in turn
		var vetted func(fn *ssa.Function, depth int, report bool) bool
		vetted = func(fn *ssa.Function, depth int, report bool) bool {
			okAll := true
			for _, r := range returnsOf(fn) {
				if len(r.Results) != 1 || isNilConst(r.Results[0]) {
					continue
				}
				if report {
					n++
				}
				v := r.Results[0]
				edges := boolEdges(fn, true, func(w ssa.Value) bool {
					cc, _, ok := callResult(w)
					return ok && calleeName(cc) == "proxy/lib.isRemoteAddress" && cc.Call.Args[0] == v
				})
				if len(edges) > 0 && reachableWithout(fn, r, edges) == nil {
					continue
				}
				if cc, ok := strip(v).(*ssa.Call); ok && depth > 0 {
					if h := staticCallee(cc); h != nil && h.Blocks != nil && samePkg(h, fn) && h != fn && vetted(h, depth-1, false) {
						continue
					}
				}
				okAll = false
				if report {
					bad = true
					c.viol(rule2, "remoteIPFromSDP returns only addresses passing isRemoteAddress", p.instrPos(r), "an address is returned without having passed isRemoteAddress (local or unspecified addresses would be reported to the bridge)")
				}
			}
			return okAll
		}
		vetted(rip, 2, true)
		if !bad {
			c.check(n > 0, rule2, "remoteIPFromSDP returns only addresses passing isRemoteAddress", p.Pos(rip.Pos()), fmt.Sprintf("%d returns", n), "no non-nil return")
		}
	}

	// ---------- O-3 bounded ring ----------
	rule3 := "O-3 bounded ring"
	var rows []guardRow
	for _, r := range guardTable {
		if r.Type == "clientIDMap" {
			rows = append(rows, r)
		}
	}
	c.checkGuardRows(rule3, rows, srv)
	set := p.Fn("server/lib", "(*clientIDMap).Set")
	newM := p.Fn("server/lib", "newClientIDMap")
	entF := p.Field("server/lib", "clientIDMap", "entries")
	oldF := p.Field("server/lib", "clientIDMap", "oldest")
	if set == nil || newM == nil || entF == nil || oldF == nil {
		c.undecided(rule3, "clientIDMap.Set/newClientIDMap", "-", "anchor does not resolve")
		return
	}
	// entries allocated once with the capacity, never reassigned
	for _, s := range storesToField(srv, entF) {
		ms, ok := s.Val.(*ssa.MakeSlice)
		good := ok && s.Parent() == newM && ms.Len == ssa.Value(newM.Params[0])
		c.check(good, rule3, p.FnName(s.Parent())+" assigns clientIDMap.entries", p.instrPos(s), "make(..., capacity) in the constructor", "the ring is re-allocated, appended to or re-sliced after construction: memory is no longer bounded by the capacity")
	}
	// oldest advances only as (oldest+1) % len(entries)
	for _, s := range storesToField(srv, oldF) {
		if k, ok := constInt(s.Val); ok && k == 0 && s.Parent() == newM {
			continue
		}
		good := false
		if rem, ok := s.Val.(*ssa.BinOp); ok && rem.Op == token.REM {
			if add, ok := rem.X.(*ssa.BinOp); ok && add.Op == token.ADD && isFieldLoadOf(add.X, oldF) {
				k, _ := constInt(add.Y)
				if cc, _, okc := callResult(rem.Y); okc && calleeName(cc) == "builtin.len" && isFieldLoadOf(cc.Call.Args[0], entF) && k == 1 {
					good = true
				}
			}
		}
		c.check(good, rule3, p.FnName(s.Parent())+" advances oldest as (oldest + 1) % len(entries)", p.instrPos(s), "", "the ring index does not advance modulo the ring size: the oldest entry is not the one forgotten first, or the index leaves the ring")
	}
	// insertion preceded by stale-owner delete; empty ring returns first
	curF := p.Field("server/lib", "clientIDMap", "current")
	nIns := 0
	allInstrs(set, func(in ssa.Instruction) {
		mu, ok := in.(*ssa.MapUpdate)
		if !ok {
			return
		}
		if _, f, okf := fieldLoad(mu.Map); !okf || f != curF {
			return
		}
		nIns++
		c.check(isFieldLoadOf(mu.Value, oldF) && mu.Key == ssa.Value(set.Params[1]), rule3, "Set maps the ClientID to the slot being overwritten", p.instrPos(in), "current[clientID] = oldest", "the quick-lookup map does not point at the slot just written")
		// a delete of the stale owner exists on the i == oldest edge and precedes the insertion
		nDel := 0
		for _, d := range callsTo(set, "builtin.delete") {
			if _, f, okf := fieldLoad(d.Common().Args[0]); okf && f == curF && canFollow(d, in) && !canFollow(in, d) {
				// on the edge "the slot's recorded owner still points at this slot"
				own := condEdges(set, true, func(a Atom) bool {
					return a.Op == token.EQL && (isFieldLoadOf(a.X, oldF) || isFieldLoadOf(a.Y, oldF))
				})
				if len(own) > 0 && reachableWithout(set, d, own) == nil {
					nDel++
				}
			}
		}
		c.check(nDel >= 1, rule3, "Set forgets the slot's previous owner before reusing it", p.instrPos(in), "", "the previous owner of the overwritten slot is not removed from the lookup map: the map grows without bound and a forgotten ClientID resolves to another session's address")
		// len(entries) == 0 returns before
		empty := condEdges(set, false, func(a Atom) bool {
			if a.Op != token.EQL {
				return false
			}
			k, okk := constInt(a.Y)
			cc, _, okc := callResult(a.X)
			return okk && k == 0 && okc && calleeName(cc) == "builtin.len" && isFieldLoadOf(cc.Call.Args[0], entF)
		})
		path := reachableWithout(set, in, empty)
		c.check(len(empty) > 0 && path == nil, rule3, "Set returns early on a zero-capacity ring", p.instrPos(in), "", "a ring of capacity 0 is indexed (division by zero / index out of range)", p.pathString(path)...)
	})
	if nIns != 1 {
		c.undecided(rule3, "Set inserts into current", p.Pos(set.Pos()), fmt.Sprintf("%d insertions", nIns))
	}
	// every Set takes the next slot (recency is refreshed even when the mapping is
	// unchanged): the only return that skips the insertion is the empty-ring one
	{
		nonEmpty := condEdges(set, false, func(a Atom) bool {
			if a.Op != token.EQL {
				return false
			}
			k, okk := constInt(a.Y)
			cc, _, okc := callResult(a.X)
			return okk && k == 0 && okc && calleeName(cc) == "builtin.len" && isFieldLoadOf(cc.Call.Args[0], entF)
		})
		okAlways := len(nonEmpty) > 0
		var wp []*ssa.BasicBlock
		for _, e := range nonEmpty {
			if pth := escapesWithout(e.To(), func(in ssa.Instruction) bool {
				mu, ok := in.(*ssa.MapUpdate)
				if !ok {
					return false
				}
				_, f, okf := fieldLoad(mu.Map)
				return okf && f == curF
			}); pth != nil {
				okAlways = false
				wp = pth
			}
		}
		c.check(okAlways, rule3, "Set takes a new slot on every call with a non-empty ring", p.Pos(set.Pos()), "", "a path of Set returns without inserting: a re-presented ClientID is not moved to most recent and is forgotten while older ones are kept", p.pathString(wp)...)
	}
}

// checkSetOnEveryCarrier: from the successful ClientID read of turbotunnelMode no
// path reaches the packet loops (the go statements) without passing
// clientIDAddrMap.Set: every carrier records its address, whatever it is.
func (c *Ctx) checkSetOnEveryCarrier(rule2 string) {
	p := c.P
	tm := p.FnLoose("server/lib", "turbotunnelMode")
	if tm == nil {
		c.undecided(rule2, "server/lib.turbotunnelMode", "-", "anchor does not resolve")
		return
	}
	{
		// every carrier records its address: from the successful ClientID read no path reaches
		// the packet loops (the go statements) or a nil-error return without passing Set
		for _, ci := range callsTo(tm, "io.ReadFull") {
			rd, _ := ci.(*ssa.Call)
			if rd == nil {
				continue
			}
			okE := errNilEdges(tm, rd, 1)
			okSet := len(okE) > 0
			var wp []*ssa.BasicBlock
			for _, e := range okE {
				pth := psSearch(e.To(), nil, func(b *ssa.BasicBlock) bool {
					for _, in := range b.Instrs {
						if c2, ok := in.(*ssa.Call); ok && calleeName(c2) == "(*server/lib.clientIDMap).Set" {
							return true
						}
					}
					return false
				}, func(b *ssa.BasicBlock) bool {
					for _, in := range b.Instrs {
						if _, isGo := in.(*ssa.Go); isGo {
							return true
						}
					}
					return false
				})
				if pth != nil {
					okSet = false
					wp = pth
				}
			}
			c.check(okSet, rule2, "turbotunnelMode records the address of every carrier before serving it", p.instrPos(rd), "Set on every path from the ClientID read to the packet loops", "a carrier can be served without its address being recorded (only the first carrier of a ClientID counts): the bridge is told the address of an earlier carrier", p.pathString(wp)...)
		}
	}
}
