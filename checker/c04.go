package main

import (
	"fmt"
	"go/token"
	"go/types"
	"strings"

	"golang.org/x/tools/go/ssa"
)

func init() {
	register("C04", propMeta{
		Explanation: "E-CHAN + E-PAIR + E-LOCK on the broker's rendezvous channels (BrokerContext.proxyPolls, ProxyPoll.offerChannel, Snowflake.offerChannel, Snowflake.answerChannel). Unbounded waiting has a shape: a goroutine parked on a channel operation no remaining path of any other goroutine completes. O-0 enumerates every operation on the four classes with its mode (unconditional / polling / timed). O-1 reply obligation: the responder of an unconditionally awaited class (the per-poll goroutine for ProxyPoll.offerChannel) sends on or closes that channel on every terminating path. O-2 abandonable peer: an unconditional send on a class is allowed only if every receiver that can walk away (timed/polling) either completes the receive later on each abandoning path or revokes the sender (heap.Remove under snowflakeLock on the index != -1 edge); a class whose receiver can walk away without revocation (answerChannel) admits only polling or timed sends. O-2b claimed means committed: index becomes -1 only in the heap's Pop; from the non-nil edge of matchSnowflake every path of ClientOffers reaches the send of the offer. O-3 the timed waits use the protocol constants (10 s). O-4 deregistration on every exit: after a match every path of ClientOffers passes the map delete and one gauge Dec under snowflakeLock; in the timeout branch Remove, delete, Dec and close lie on the same edge set; AddSnowflake is the only Inc and the only insert. O-5 lock hygiene: every Lock released on all paths, no blocking channel operation or RequestOffer under snowflakeLock/Metrics.lock, lock order acyclic. A violated clause is a concrete CFG path on which some request waits for ever or a registration is left behind. Added after the second seeding round: O-6/C03 the heap-shape obligations of C03 (Less orientation, index maintained by Push/Pop/Swap, interface methods private to container/heap), since the claimed test index == -1 depends on them. Added after the third seeding round: the guarded-by rows of the matching state (both heaps, the id map) are evaluated here as well, through C02's obligations, so a length test or a pop outside snowflakeLock (a lock-free fast path) is reported by this property. Added after the fourth seeding round: O-1b (through C02) every poll gets a registration of its own - AddSnowflake never hands out an existing entry, which two waiter goroutines would share. Added after the fifth seeding round: O-1 every poll received by the matching loop is handed to a waiter goroutine (or answered) on every path of the iteration; O-5b no loop other than iteration over a collection runs with snowflakeLock or metrics.lock held (journal writer included); the timed waits may use time.NewTimer. Added after the sixth seeding round and the mutation audit: the broker's main starts the matching loop; O-4c every move of the AvailableProxies gauge is labelled with the registered proxy's own natType/proxyType; O-11/C19 zeroMetrics re-creates every per-period map (a nil map panics with metrics.lock held and every later request waits for ever). O-12/C20 lock pairing of the broker. Added after the seventh seeding round: the snowflake a timed-out waiter removes from its heap is the registration the waiter holds, never the result of a lookup in the id map (two overlapping polls under one session id).",
		NotDecided:  "the numeric latency bound (scheduler, HTTP server, JSON time), starvation on snowflakeLock, a proxy re-using a session id while its earlier poll is pending, file I/O latency under Metrics.lock in printMetrics.",
		Assumptions: []string{"Go channel semantics; time.After fires", "the repeated test of one SSA condition value takes the same outcome within one execution (path-sensitive search)", "lock identity is (type, field)"},
	}, runC04)
}

var brokerChanClasses = []string{"BrokerContext.proxyPolls", "ProxyPoll.offerChannel", "Snowflake.offerChannel", "Snowflake.answerChannel"}

func isBrokerClass(s string) bool {
	for _, c := range brokerChanClasses {
		if c == s {
			return true
		}
	}
	return false
}

// opOn: does instruction `in` perform a dir-operation on channel class cls?
func opOn(p *Prog, in ssa.Instruction, cls string, dirs ...chanDir) bool {
	fn := in.Parent()
	for _, op := range chanOpsIn(p, fn) {
		if op.Instr != in || op.Class != cls {
			continue
		}
		for _, d := range dirs {
			if op.Dir == d {
				return true
			}
		}
	}
	return false
}

// checkAvailableGauge: the gauge of waiting proxies is moved, on registration and on every deregistration, in the
// series of the proxy's own NAT type and proxy type.
func (c *Ctx) checkAvailableGauge(broker []*ssa.Function) {
	p := c.P
	rule := "O-4c the available-proxies gauge returns to zero"
	n := 0
	for _, fn := range broker {
		for _, ci := range callsIn(fn) {
			if !strings.HasSuffix(calleeName(ci), "GaugeVec).With") || len(ci.Common().Args) < 2 {
				continue
			}
			if _, f, ok := fieldLoad(ci.Common().Args[0]); !ok || f.Name() != "AvailableProxies" {
				continue
			}
			n++
			for _, lab := range [][2]string{{"nat", "natType"}, {"type", "proxyType"}} {
				v := mapLiteralValue(ci.Common().Args[1], lab[0])
				good := false
				if v != nil {
					if _, f, ok := fieldLoad(v); ok && f.Name() == lab[1] {
						switch fieldOwnerName(f) {
						case "Snowflake", "ProxyPoll":
							good = true
						}
					}
					if par, isPar := strip(v).(*ssa.Parameter); isPar {
						if add := p.Fn("broker", "(*BrokerContext).AddSnowflake"); add != nil && par.Parent() == add && len(add.Params) >= 5 {
							idx := map[string]int{"natType": 3, "proxyType": 2}[lab[1]]
							good = add.Params[idx] == par
						}
					}
				}
				c.check(good, rule, fmt.Sprintf("%s moves AvailableProxies in the proxy's own %q series", p.FnName(fn), lab[0]), p.instrPos(ci), "", "the "+lab[0]+" label is not the registered proxy's "+lab[1]+" (the client's, for example): the gauge is decremented in another series than it was incremented in, so an idle broker reports available (or a negative number of) proxies")
			}
		}
	}
	if n == 0 {
		c.undecided(rule, "AvailableProxies gauge sites", "-", "none found")
	}
}

func runC04(c *Ctx) {
	p := c.P
	broker := p.FnsIn("broker")
	c.checkAvailableGauge(broker)
	// a per-period map that the daily reset leaves nil panics in the next poll that writes it - inside the
	// metrics.lock section of ProxyPolls, which then stays locked: every later request waits for ever (C19's rule)
	outer := c.prefix // C14 evaluates this whole property under its own prefix
	// a broker mutex that some path leaves locked makes every later request wait for ever (C20's pairing rule)
	c.prefix = outer + "O-12/C20:"
	c.checkLockPairing("O-2 lock pairing", broker)
	c.prefix = outer + "O-11/C19:"
	c.checkCountryMapsReset(p.Fn("broker", "NewMetrics"), p.Fn("broker", "(*Metrics).zeroMetrics"))
	c.prefix = outer
	le := p.Locks()
	var ops []chanOp
	for _, fn := range broker {
		c.analysedFn(p.FnName(fn))
		for _, op := range chanOpsIn(p, fn) {
			cls := op.Class
			if op.Dir == chMake {
				if fc := makeChanFieldClass(op.Instr.(*ssa.MakeChan)); fc != "" {
					cls = fc
					op.Class = fc
				}
			}
			if isBrokerClass(cls) {
				ops = append(ops, op)
			}
		}
	}
	// ---------- O-0 enumeration ----------
	nSend, nRecv, nClose, nMake := 0, 0, 0, 0
	caps := map[string]int64{}
	for _, op := range ops {
		switch op.Dir {
		case chSend:
			nSend++
		case chRecv:
			nRecv++
		case chClose:
			nClose++
		case chMake:
			nMake++
			caps[op.Class] = op.Cap
		}
		detail := op.Mode
		if op.Dir == chMake {
			detail = fmt.Sprintf("capacity %d", op.Cap)
		}
		c.okTrivial("O-0 channel operations", fmt.Sprintf("%s %s %s", p.FnName(op.Fn), op.Dir, op.Class)+modeSuffix(op), p.instrPos(op.Instr), detail)
	}
	c.count("sends", nSend)
	c.count("receives", nRecv)
	c.count("closes", nClose)
	for _, cls := range brokerChanClasses {
		if _, ok := caps[cls]; !ok {
			c.undecided("O-0 channel operations", "make of "+cls, "-", "no make(chan) with constant capacity found for the class")
		}
	}

	byClass := func(cls string, dir chanDir) []chanOp {
		var out []chanOp
		for _, op := range ops {
			if op.Class == cls && op.Dir == dir {
				out = append(out, op)
			}
		}
		return out
	}

	// ---------- O-1 reply obligation ----------
	rule1 := "O-1 reply obligation"
	for _, rcv := range byClass("ProxyPoll.offerChannel", chRecv) {
		if rcv.Mode != "unconditional" {
			continue
		}
		// responders: functions that send on or close the class
		resp := map[*ssa.Function]bool{}
		for _, op := range ops {
			if op.Class == "ProxyPoll.offerChannel" && (op.Dir == chSend || op.Dir == chClose) {
				resp[helperRoot(op.Fn)] = true
			}
		}
		if len(resp) == 0 {
			c.viol(rule1, "responder of ProxyPoll.offerChannel", p.instrPos(rcv.Instr), "an unconditional receive has no sender or closer anywhere")
		}
		for fn := range resp {
			path := escapesWithout(fn.Blocks[0], func(in ssa.Instruction) bool {
				return opOn(p, in, "ProxyPoll.offerChannel", chSend, chClose)
			})
			c.check(path == nil, rule1, p.FnName(fn)+" answers its poller on every terminating path", p.Pos(fn.Pos()),
				"every path to a return sends on or closes ProxyPoll.offerChannel; awaited unconditionally at "+p.instrPos(rcv.Instr),
				"a path of the responder ends without sending on or closing ProxyPoll.offerChannel, while RequestOffer waits for it unconditionally: that proxy poll never completes", p.pathString(path)...)
		}
	}

	// ---------- O-2 abandonable peer ----------
	rule2 := "O-2 abandonable peer"
	// (a) Snowflake.offerChannel
	for _, snd := range byClass("Snowflake.offerChannel", chSend) {
		if snd.Mode == "polling" || snd.Mode == "timed" {
			c.ok(rule2, p.FnName(snd.Fn)+" send on Snowflake.offerChannel", p.instrPos(snd.Instr), "the send itself can give up ("+snd.Mode+")")
			continue
		}
		// every receiver that can walk away must complete or revoke on each abandoning path
		for _, rcv := range byClass("Snowflake.offerChannel", chRecv) {
			key := fmt.Sprintf("%s receive on Snowflake.offerChannel [%s] vs unconditional send in %s", p.FnName(rcv.Fn), rcv.Mode, p.FnName(snd.Fn))
			if rcv.Mode == "unconditional" {
				c.ok(rule2, key, p.instrPos(rcv.Instr), "receiver never walks away")
				continue
			}
			if rcv.Sel == nil {
				c.undecided(rule2, key, p.instrPos(rcv.Instr), "non-unconditional receive outside a select")
				continue
			}
			// abandoning paths: every other state of the select (and default)
			bad := false
			for i := range rcv.Sel.States {
				if i == rcv.State {
					continue
				}
				e, ok := selectCaseEdge(rcv.Sel, i)
				if !ok {
					c.undecided(rule2, key, p.instrPos(rcv.Instr), "cannot locate the branch of select state "+itoa(i))
					bad = true
					continue
				}
				path := escapesWithout(e.To(), func(in ssa.Instruction) bool {
					if opOn(p, in, "Snowflake.offerChannel", chRecv) {
						return true // completion
					}
					if ci, ok := in.(ssa.CallInstruction); ok && isCallTo(ci, "container/heap.Remove") {
						return le.Held(in, "BrokerContext.snowflakeLock") >= heldWrite // revocation
					}
					return false
				})
				if path != nil {
					bad = true
					c.viol(rule2, key, p.instrPos(rcv.Instr), "the receiver can walk away (select state "+itoa(i)+") on a path that neither receives the pending offer later nor removes the snowflake from its heap under snowflakeLock: a client that already claimed the snowflake blocks for ever on its send", p.pathString(path)...)
				}
			}
			if !bad {
				c.ok(rule2, key, p.instrPos(rcv.Instr), "every abandoning path completes the receive or revokes the snowflake under the lock")
			}
		}
	}
	// revocation validity: heap.Remove only on the index != -1 edge (in the function itself or, when the
	// removal was extracted into a helper, at every call site), in the critical section of the test
	idxF := p.Field("broker", "Snowflake", "index")
	unclaimed := func(fn *ssa.Function) []Edge {
		return condEdges(fn, false, func(a Atom) bool {
			if a.Op != token.EQL {
				return false
			}
			k, ok := constInt(a.Y)
			return ok && k == -1 && isFieldLoadOf(a.X, idxF)
		})
	}
	for _, fn := range broker {
		for _, ci := range callsTo(fn, "container/heap.Remove") {
			okG, where, path := p.guardedUp(ci, unclaimed, 3)
			pos := p.instrPos(ci)
			if where != nil {
				pos = p.instrPos(where)
			}
			c.check(okG, rule2, p.FnName(fn)+" revokes (heap.Remove) only on the index != -1 edge", pos,
				"", "heap.Remove is reachable for a snowflake whose index may be -1 (already claimed by a client)", p.pathString(path)...)
			// index argument is that snowflake's index
			c.check(isFieldLoadOf(ci.Common().Args[1], idxF), rule2, p.FnName(fn)+" removes at the snowflake's own index", p.instrPos(ci), "", "heap.Remove is given something other than the snowflake's index")
			// ... and that snowflake is the waiter's own registration, not whatever the id map holds under
			// its id: session ids come from the proxies, two overlapping polls may carry the same one, and
			// the map then names only the later registration. A waiter that withdraws "the entry under my
			// id" removes the other poll's registration and leaves its own in the heap with nobody
			// listening - the other poll and the next client that pops the orphan wait for ever.
			if base, _, okb := fieldLoad(ci.Common().Args[1]); okb {
				viaMap := false
				xforms(base, func(x ssa.Value) bool {
					if ex, isEx := x.(*ssa.Extract); isEx {
						x = ex.Tuple
					}
					if lk, isLk := x.(*ssa.Lookup); isLk {
						if _, isMap := lk.X.Type().Underlying().(*types.Map); isMap {
							viaMap = true
							return true
						}
					}
					return false
				})
				c.check(!viaMap, rule2, p.FnName(fn)+" withdraws the registration it holds, not one looked up by id", p.instrPos(ci), "", "the snowflake removed from the heap is the result of a map lookup by session id: with two overlapping polls under one id the timed-out waiter withdraws the other poll's registration and leaves its own behind")
			}
			// test and removal in one critical section: lock held at the Remove and where the index is read;
			// the function that tests takes the lock once
			okCS := le.Held(ci, "BrokerContext.snowflakeLock") >= heldWrite
			testers := []*ssa.Function{fn}
			if len(unclaimed(fn)) == 0 {
				testers = nil
				for _, cs := range p.realCallers(fn) {
					testers = append(testers, cs.Parent())
				}
			}
			for _, tf := range testers {
				for _, e := range unclaimed(tf) {
					ifi := e.From.Instrs[len(e.From.Instrs)-1].(*ssa.If)
					a, _ := normCond(ifi.Cond)
					ld, isInstr := a.X.(ssa.Instruction)
					if !isInstr || le.Held(ld, "BrokerContext.snowflakeLock") < heldWrite {
						okCS = false
					}
				}
				nLock := 0
				for _, l := range callsIn(tf) {
					if k, kind := lockOp(l); kind == opLock && k == "BrokerContext.snowflakeLock" {
						nLock++
					}
				}
				if nLock != 1 {
					okCS = false
				}
			}
			c.check(okCS && len(testers) > 0, rule2, p.FnName(fn)+" tests index and removes in one critical section", p.instrPos(ci), "", "the index test and the heap.Remove are not inside one snowflakeLock critical section")
		}
	}
	// (b) ProxyPoll.offerChannel: unconditional senders need a receiver that never walks away
	for _, snd := range byClass("ProxyPoll.offerChannel", chSend) {
		if snd.Mode != "unconditional" {
			continue
		}
		okR := true
		n := 0
		for _, rcv := range byClass("ProxyPoll.offerChannel", chRecv) {
			n++
			if rcv.Mode != "unconditional" {
				okR = false
			}
		}
		c.check(okR && n > 0, rule2, p.FnName(snd.Fn)+" unconditional send on ProxyPoll.offerChannel", p.instrPos(snd.Instr), "its receiver (RequestOffer) waits unconditionally", "the poller can stop waiting while the matcher sends unconditionally")
	}
	// (c) Snowflake.answerChannel: receiver is timed without revocation
	for _, rcv := range byClass("Snowflake.answerChannel", chRecv) {
		if rcv.Mode == "unconditional" {
			continue
		}
		for _, snd := range byClass("Snowflake.answerChannel", chSend) {
			key := p.FnName(snd.Fn) + " send on Snowflake.answerChannel"
			switch snd.Mode {
			case "polling", "timed":
				c.ok(rule2, key, p.instrPos(snd.Instr), "send is "+snd.Mode+"; the client's receive is "+rcv.Mode)
			default:
				c.viol(rule2, key, p.instrPos(snd.Instr), "unconditional send while the only receiver ("+p.FnName(rcv.Fn)+") waits with a timeout and has no way to revoke the sender: an answer arriving after the client stopped waiting blocks this request for ever")
			}
		}
	}
	// (d) BrokerContext.proxyPolls: the matcher loop only blocks on its own receive
	if loop := p.Fn("broker", "(*BrokerContext).Broker"); loop != nil {
		bad := 0
		for _, op := range chanOpsIn(p, loop) {
			if op.Dir == chRecv && op.Class == "BrokerContext.proxyPolls" {
				continue
			}
			if op.Dir == chMake || op.Dir == chClose || op.Mode == "polling" {
				continue
			}
			bad++
			c.viol(rule2, "Broker loop blocks only on proxyPolls", p.instrPos(op.Instr), "the matcher goroutine performs a blocking "+op.String()+": while it is parked every proxy poll waits in RequestOffer")
		}
		if bad == 0 {
			c.ok(rule2, "Broker loop blocks only on proxyPolls", p.Pos(loop.Pos()), "")
		}
	}

	// ---------- O-2b claimed means committed ----------
	rule2b := "O-2b claimed means committed"
	if idxF != nil {
		n := 0
		for _, s := range storesToField(broker, idxF) {
			if k, ok := constInt(s.Val); ok && k == -1 {
				n++
				fn := s.Parent()
				c.check(fn.Name() == "Pop" && fn.Signature.Recv() != nil, rule2b, p.FnName(fn)+" sets index = -1", p.instrPos(s), "only the heap's Pop marks a snowflake as claimed", "index is set to -1 outside the heap's Pop: the timeout branch would wait for an offer that never comes")
			}
		}
		if n == 0 {
			c.undecided(rule2b, "index = -1", "-", "no store of -1 to Snowflake.index found")
		}
	}
	if co := p.Fn("broker", "(*IPC).ClientOffers"); co != nil {
		var X *ssa.Call
		for _, ci := range callsIn(co) {
			if f := staticCallee(ci); f != nil && f == p.Fn("broker", "(*IPC).matchSnowflake") {
				X, _ = ci.(*ssa.Call)
			}
		}
		if X == nil {
			c.undecided(rule2b, "ClientOffers commits after a match", p.Pos(co.Pos()), "matchSnowflake call not found")
		} else {
			// everything after the call: from the call's block onward, any path to a return either
			// passes the nil edge (no match) or sends the offer
			nilE := nilCheckEdges(co, true, func(v ssa.Value) bool { return v == ssa.Value(X) })
			nonNil := nilCheckEdges(co, false, func(v ssa.Value) bool { return v == ssa.Value(X) })
			if len(nilE) == 0 || len(nonNil) == 0 {
				c.viol(rule2b, "ClientOffers commits after a match", p.instrPos(X), "the result of matchSnowflake is not tested against nil")
			} else {
				// between the call and the nil test nothing may return
				bad := false
				for _, e := range nonNil {
					if e.From != X.Block() {
						// a return between the call and the test?
						if path := psSearch(X.Block(), nil, func(b *ssa.BasicBlock) bool { return b == e.From }, func(b *ssa.BasicBlock) bool {
							if len(b.Instrs) == 0 || b == X.Block() {
								return false
							}
							_, ok := b.Instrs[len(b.Instrs)-1].(*ssa.Return)
							return ok
						}); path != nil {
							bad = true
							c.viol(rule2b, "ClientOffers commits after a match", p.instrPos(X), "a return is reachable between the pop and the test of its result: a popped snowflake (index -1) is abandoned and its poll goroutine waits for ever", p.pathString(path)...)
						}
					}
					path := escapesWithout(e.To(), func(in ssa.Instruction) bool { return opOn(p, in, "Snowflake.offerChannel", chSend) })
					if path != nil {
						bad = true
						c.viol(rule2b, "ClientOffers commits after a match", p.instrPos(X), "after a successful match a path returns without sending the offer: the claimed snowflake's poll goroutine waits for an offer that never comes", p.pathString(path)...)
					}
				}
				if !bad {
					c.ok(rule2b, "ClientOffers commits after a match", p.instrPos(X), "every path from the non-nil edge reaches the send on the matched snowflake's offerChannel")
				}
			}
		}
	}

	// ---------- O-3 protocol constants ----------
	rule3 := "O-3 timed waits use the protocol constants"
	for _, name := range []string{"ClientTimeout", "ProxyTimeout"} {
		k := p.Const("broker", name)
		c.check(k != nil && k.Val().ExactString() == "10", rule3, "broker."+name+" == 10", "-", "", "protocol timeout constant missing or not 10")
	}
	nTimed := 0
	for _, fn := range broker {
		for _, op := range chanOpsIn(p, fn) {
			if op.Sel == nil || op.Mode != "timed" || !isTimerChan(op.Chan) {
				continue
			}
			// only selects that also wait on a broker class
			rel := false
			for _, st := range op.Sel.States {
				if isBrokerClass(chanClass(p, st.Chan)) {
					rel = true
				}
			}
			if !rel {
				continue
			}
			nTimed++
			d := timerDurationOf(op.Chan)
			c.check(d == 10_000_000_000, rule3, p.FnName(fn)+" waits at most 10 s for its peer", p.instrPos(op.Instr), "time.After(10 s)", fmt.Sprintf("timer duration is %d ns, not the protocol's 10 s", d))
		}
	}
	if nTimed < 2 {
		c.undecided(rule3, "timed selects on broker channels", "-", fmt.Sprintf("found %d, expected the proxy-poll wait and the client wait", nTimed))
	}

	c.checkEveryPollServed()
	c.checkNoRetryLoopsUnderLocks(le)
	// ---------- O-4 deregistration on every exit ----------
	c.checkDeregistration(le)
	// the heaps, the id map and Snowflake.index are touched only under snowflakeLock (C02's unique-holder rows):
	// an unlocked emptiness test followed by a locked Pop panics inside the handler when the last proxy times out
	c.prefix = c.prefix + "O-7/C02:"
	c.checkBrokerMatchingRows()
	c.checkBrokerLoopProvenance()
	c.prefix = strings.TrimSuffix(c.prefix, "O-7/C02:")
	// the claimed test (index == -1) is only as good as the heap's index bookkeeping (C03's heap-shape obligations)
	c.prefix = c.prefix + "O-6/C03:"
	c.checkHeapShape()
	c.prefix = strings.TrimSuffix(c.prefix, "O-6/C03:")

	// ---------- O-5 lock hygiene ----------
	rule5 := "O-5 lock hygiene"
	c.checkLockPairing(rule5, broker)
	c.checkLockOrder(rule5 + " (order)")
	nHeld := 0
	for _, fn := range broker {
		for _, op := range chanOpsIn(p, fn) {
			if op.Dir == chMake || op.Dir == chClose || op.Mode == "polling" {
				continue
			}
			for _, lk := range []string{"BrokerContext.snowflakeLock", "Metrics.lock"} {
				if le.Held(op.Instr, lk) != heldNone {
					nHeld++
					c.viol(rule5, p.FnName(fn)+" "+op.String()+" while holding "+lk, p.instrPos(op.Instr), "a goroutine parked here freezes every request that needs the lock")
				}
			}
		}
		for _, ci := range callsIn(fn) {
			n := calleeName(ci)
			blocking := n == "time.Sleep" || strings.HasSuffix(n, "BrokerContext).RequestOffer") || strings.HasPrefix(n, "net/http.") || strings.HasPrefix(n, "(*net/http.")
			if !blocking {
				continue
			}
			if _, isGo := ci.(*ssa.Go); isGo {
				continue
			}
			for _, lk := range []string{"BrokerContext.snowflakeLock", "Metrics.lock"} {
				if le.Held(ci, lk) != heldNone {
					nHeld++
					c.viol(rule5, p.FnName(fn)+" calls "+n+" while holding "+lk, p.instrPos(ci), "a blocking call under the lock freezes every request that needs it")
				}
			}
		}
	}
	if nHeld == 0 {
		c.ok(rule5, "no blocking channel operation, RequestOffer, Sleep or HTTP call under snowflakeLock/Metrics.lock", "-", "")
	}
}

func modeSuffix(op chanOp) string {
	if op.Dir == chMake {
		return ""
	}
	return " [" + op.Mode + "]"
}

func (c *Ctx) checkDeregistration(le *LockEngine) {
	p := c.P
	rule := "O-4 deregistration on every exit"
	broker := p.FnsIn("broker")
	isDelete := func(in ssa.Instruction) bool {
		ci, ok := in.(ssa.CallInstruction)
		if !ok || calleeName(ci) != "builtin.delete" {
			return false
		}
		_, f, ok := fieldLoad(ci.Common().Args[0])
		return ok && f.Name() == "idToSnowflake"
	}
	gaugeOp := func(in ssa.Instruction, method string) bool {
		ci, ok := in.(ssa.CallInstruction)
		if !ok || !strings.HasSuffix(calleeName(ci), "prometheus.Gauge)."+method) {
			return false
		}
		w, _, ok := callResult(ci.Common().Value)
		if !ok {
			return false
		}
		_, f, ok := fieldLoad(w.Call.Args[0])
		return ok && f.Name() == "AvailableProxies"
	}
	// ClientOffers
	if co := p.Fn("broker", "(*IPC).ClientOffers"); co != nil {
		var X *ssa.Call
		for _, ci := range callsIn(co) {
			if f := staticCallee(ci); f != nil && f == p.Fn("broker", "(*IPC).matchSnowflake") {
				X, _ = ci.(*ssa.Call)
			}
		}
		if X != nil {
			for _, e := range nilCheckEdges(co, false, func(v ssa.Value) bool { return v == ssa.Value(X) }) {
				for _, w := range []struct {
					what string
					pass func(ssa.Instruction) bool
				}{{"the idToSnowflake delete", isDelete}, {"AvailableProxies.Dec", func(in ssa.Instruction) bool { return gaugeOp(in, "Dec") }}} {
					path := escapesWithout(e.To(), w.pass)
					c.check(path == nil, rule, "ClientOffers: every exit after a match passes "+w.what, p.instrPos(X), "", "after a match a path returns without "+w.what+": the registration stays behind (ghost proxy)", p.pathString(path)...)
				}
			}
			for _, in := range instrsWhere(co, func(in ssa.Instruction) bool { return isDelete(in) || gaugeOp(in, "Dec") }) {
				c.check(le.Held(in, "BrokerContext.snowflakeLock") >= heldWrite, rule, "ClientOffers deregisters under snowflakeLock", p.instrPos(in), "", "deregistration outside snowflakeLock")
				// not in a loop: exactly once
				c.check(!inCycle(in.Block()), rule, "ClientOffers deregisters once", p.instrPos(in), "", "deregistration inside a loop")
			}
		} else {
			c.undecided(rule, "ClientOffers", p.Pos(co.Pos()), "matchSnowflake call not found")
		}
	}
	// timeout branch: Remove, delete, Dec, close on the same edge set
	if loop := p.Fn("broker", "(*BrokerContext).Broker"); loop != nil {
		for _, clo := range loop.AnonFuncs {
			removes := callsTo(clo, "container/heap.Remove")
			if len(removes) == 0 {
				continue
			}
			// the edge set: index != -1
			idxF := p.Field("broker", "Snowflake", "index")
			edges := condEdges(clo, false, func(a Atom) bool {
				k, ok := constInt(a.Y)
				return a.Op == token.EQL && ok && k == -1 && isFieldLoadOf(a.X, idxF)
			})
			for _, w := range []struct {
				what string
				pass func(ssa.Instruction) bool
			}{
				{"heap.Remove", func(in ssa.Instruction) bool {
					ci, ok := in.(ssa.CallInstruction)
					return ok && isCallTo(ci, "container/heap.Remove")
				}},
				{"the idToSnowflake delete", isDelete},
				{"AvailableProxies.Dec", func(in ssa.Instruction) bool { return gaugeOp(in, "Dec") }},
				{"close(request.offerChannel)", func(in ssa.Instruction) bool { return opOn(p, in, "ProxyPoll.offerChannel", chClose) }},
			} {
				bad := false
				n := 0
				for _, in := range instrsWhere(clo, w.pass) {
					n++
					if reachableWithout(clo, in, edges) != nil {
						bad = true
					}
				}
				for _, e := range earliestEdges(edges) {
					if escapesWithout(e.To(), w.pass) != nil {
						bad = true
					}
				}
				c.check(!bad && n > 0 && len(edges) > 0, rule, "timeout branch: "+w.what+" exactly on the index != -1 edge", p.Pos(clo.Pos()), "", w.what+" is not performed on exactly the paths where the snowflake is still unclaimed: a timed-out poll leaves a registration behind or deregisters twice")
			}
		}
	}
	// only one Inc and one insert
	nInc, nIns := 0, 0
	for _, fn := range broker {
		for _, in := range instrsWhere(fn, func(in ssa.Instruction) bool { return gaugeOp(in, "Inc") }) {
			nInc++
			c.check(fn.Name() == "AddSnowflake", rule, p.FnName(fn)+" increments AvailableProxies", p.instrPos(in), "", "the gauge is incremented outside AddSnowflake: increments and decrements no longer pair per registration")
		}
		allInstrs(fn, func(in ssa.Instruction) {
			if mu, ok := in.(*ssa.MapUpdate); ok {
				if _, f, ok := fieldLoad(mu.Map); ok && f.Name() == "idToSnowflake" {
					nIns++
					c.check(fn.Name() == "AddSnowflake", rule, p.FnName(fn)+" inserts into idToSnowflake", p.instrPos(in), "", "registrations are created outside AddSnowflake")
				}
			}
		})
	}
	if nInc != 1 || nIns != 1 {
		c.viol(rule, "one Inc and one insert per registration", "-", fmt.Sprintf("%d Inc sites, %d insert sites", nInc, nIns))
	}
}

func instrsWhere(fn *ssa.Function, pred func(ssa.Instruction) bool) []ssa.Instruction {
	var out []ssa.Instruction
	allInstrs(fn, func(in ssa.Instruction) {
		if pred(in) {
			out = append(out, in)
		}
	})
	return out
}

// inCycle: b can reach itself.
func inCycle(b *ssa.BasicBlock) bool {
	seen := map[*ssa.BasicBlock]bool{}
	q := append([]*ssa.BasicBlock(nil), b.Succs...)
	for len(q) > 0 {
		x := q[0]
		q = q[1:]
		if x == b {
			return true
		}
		if seen[x] {
			continue
		}
		seen[x] = true
		q = append(q, x.Succs...)
	}
	return false
}

// earliestEdges drops edges that are later re-tests of the same condition
// (their source block is reachable from another edge's target).
func earliestEdges(edges []Edge) []Edge {
	var out []Edge
	for i, e := range edges {
		later := false
		for j, e2 := range edges {
			if i != j && reachPath(e2.To(), e.From, nil) != nil && reachPath(e.To(), e2.From, nil) == nil {
				later = true
			}
		}
		if !later {
			out = append(out, e)
		}
	}
	return out
}

// checkEveryPollServed: every ProxyPoll the matching loop receives is handed to a
// waiter goroutine (which answers or closes its offerChannel) on every path of
// the iteration: a poll that is skipped (log and continue) leaves RequestOffer,
// and with it the proxy's HTTP request, waiting for ever.
func (c *Ctx) checkEveryPollServed() {
	p := c.P
	rule := "O-1 reply obligation"
	loop := p.Fn("broker", "(*BrokerContext).Broker")
	if loop == nil {
		c.undecided(rule, "BrokerContext.Broker", "-", "anchor does not resolve")
		return
	}
	// the matching loop is the only receiver of proxyPolls: the broker's main must start it, or every poll waits
	// for ever on the unbuffered channel
	started := 0
	for _, fn := range p.FnsIn("broker") {
		allInstrs(fn, func(in ssa.Instruction) {
			if g, ok := in.(*ssa.Go); ok {
				if callee := staticCallee(g); callee == loop {
					started++
				} else if callee != nil && callee.Parent() != nil {
					// go func() { ctx.Broker() }()
					for _, ci := range callsIn(callee) {
						if staticCallee(ci) == loop {
							started++
						}
					}
				}
			}
		})
	}
	if mainFn := p.Fn("broker", "main"); mainFn != nil {
		c.check(started > 0, rule, "the broker starts its matching loop", p.Pos(mainFn.Pos()), fmt.Sprintf("%d go statement(s)", started), "no go statement starts BrokerContext.Broker: nothing receives from proxyPolls and no proxy poll is ever answered")
	}
	n := 0
	for _, op := range chanOpsIn(p, loop) {
		if op.Dir != chRecv || op.Class != "BrokerContext.proxyPolls" {
			continue
		}
		n++
		isServe := func(in ssa.Instruction) bool {
			if _, ok := in.(*ssa.Go); ok {
				return true
			}
			for _, o2 := range chanOpsIn(p, loop) {
				if o2.Instr == in && (o2.Dir == chClose || o2.Dir == chSend) && o2.Class == "ProxyPoll.offerChannel" {
					return true
				}
			}
			return false
		}
		hdr := op.Instr.Block()
		good := true
		var wp []*ssa.BasicBlock
		for _, s := range hdr.Succs {
			// only the "a poll was received" successor leads back round the loop
			if reachPath(s, hdr, nil) == nil {
				continue
			}
			if pth := escapesOrLoopsBackWithout(s, hdr, isServe); pth != nil {
				good, wp = false, pth
			}
		}
		c.check(good, rule, "Broker starts a waiter for every poll it receives", p.instrPos(op.Instr), "", "an iteration of the matching loop can end without a waiter goroutine (or a reply) for the poll it received: that proxy's request never completes", p.pathString(wp)...)
	}
	if n == 0 {
		c.undecided(rule, "Broker receives from proxyPolls", p.Pos(loop.Pos()), "no receive found")
	}
}

// checkNoRetryLoopsUnderLocks: code that runs with snowflakeLock or metrics.lock
// held (the journal writer included) contains no loop other than iteration over
// a collection: a loop that repeats until an operation succeeds or a clock
// condition changes never ends when the operation keeps failing, and every later
// request queues on the lock.
func (c *Ctx) checkNoRetryLoopsUnderLocks(le *LockEngine) {
	p := c.P
	rule := "O-5b no retry loops under the broker's locks"
	scope := append(append([]*ssa.Function{}, p.FnsIn("broker")...), p.FnsIn("common/ipsetsink", "common/ipsetsink/sinkcluster")...)
	n, bad := 0, 0
	for _, fn := range scope {
		for _, b := range fn.Blocks {
			if len(b.Instrs) == 0 || !inCycle(b) {
				continue
			}
			ifi, ok := b.Instrs[len(b.Instrs)-1].(*ssa.If)
			if !ok {
				continue
			}
			// a loop-controlling branch: one successor leaves the cycle
			leaves := false
			for _, s := range b.Succs {
				if reachPath(s, b, nil) == nil {
					leaves = true
				}
			}
			if !leaves {
				continue
			}
			held := le.Held(ifi, "BrokerContext.snowflakeLock") != heldNone || le.Held(ifi, "Metrics.lock") != heldNone
			if !held {
				continue
			}
			n++
			// iteration over a collection: the condition is the ok of a range Next, an index compared with a length,
			// or a list element compared with nil
			okLoop := false
			switch x := ifi.Cond.(type) {
			case *ssa.Extract:
				_, okLoop = x.Tuple.(*ssa.Next)
			case *ssa.BinOp:
				for _, o := range []ssa.Value{x.X, x.Y} {
					if cc, _, okc := callResult1(strip(o)); okc && (calleeName(cc) == "builtin.len" || strings.HasSuffix(calleeName(cc), "list.List).Len")) {
						okLoop = true
					}
					if isNilConst(o) {
						okLoop = true
					}
				}
			}
			if !okLoop {
				bad++
				c.viol(rule, p.FnName(fn)+" loops on a condition that is not an iteration bound", p.instrPos(ifi), "a loop that runs with a broker lock held repeats until some condition changes (a write succeeds, an interval catches up): when it does not, the lock is never released and every request hangs")
			}
		}
	}
	if bad == 0 {
		c.ok(rule, "loops under snowflakeLock/metrics.lock iterate over collections", "-", fmt.Sprintf("%d loop condition(s) examined", n))
	}
}
