package main

// Small SSA helpers shared by all engines: callee resolution, value
// stripping/provenance, condition normalisation, CFG reachability with edge
// cuts (E-GUARD), dominance.

import (
	"fmt"
	"go/constant"
	"go/token"
	"go/types"
	"sort"
	"strings"

	"golang.org/x/tools/go/ssa"
)

// ---------- callee resolution ----------

// staticCallee returns the function called by ci when it is statically known
// (direct call, method call on concrete type, immediately-invoked closure).
func staticCallee(ci ssa.CallInstruction) *ssa.Function {
	c := ci.Common()
	if c.IsInvoke() {
		return nil
	}
	switch v := c.Value.(type) {
	case *ssa.Function:
		return v
	case *ssa.MakeClosure:
		if f, ok := v.Fn.(*ssa.Function); ok {
			return f
		}
	}
	return nil
}

// calleeName returns a type-resolved name for the callee of ci:
//
//	"container/heap.Pop", "(*sync.Mutex).Lock", "(io.Reader).Read" (interface
//	invoke), "builtin.close", or "" if dynamic.
func calleeName(ci ssa.CallInstruction) string {
	c := ci.Common()
	if c.IsInvoke() {
		recv := c.Value.Type()
		return strings.ReplaceAll("("+typeString(recv)+")."+c.Method.Name(), modPath+"/", "")
	}
	switch v := c.Value.(type) {
	case *ssa.Builtin:
		return "builtin." + v.Name()
	case *ssa.Function:
		return funcFullName(v)
	case *ssa.MakeClosure:
		if f, ok := v.Fn.(*ssa.Function); ok {
			return funcFullName(f)
		}
	}
	return ""
}

func typeString(t types.Type) string {
	return types.TypeString(t, func(p *types.Package) string { return p.Path() })
}

// funcFullName: "pkgpath.Func", "(*pkgpath.T).Method", "(pkgpath.T).Method";
// repository package paths are shortened to their module-relative form.
func funcFullName(f *ssa.Function) string {
	short := func(s string) string { return strings.ReplaceAll(s, modPath+"/", "") }
	// a renamed reference function keeps its reference name for the rules (load.go indexRenames)
	if theProg != nil && f.Parent() == nil && len(theProg.renamedFrom) > 0 {
		if old, ok := theProg.renamedFrom[theProg.FnName(f)]; ok {
			oldName := old[strings.LastIndex(old, ".")+1:]
			if recv := f.Signature.Recv(); recv != nil {
				return short("(" + typeString(recv.Type()) + ")." + oldName)
			}
			if f.Pkg != nil {
				return short(f.Pkg.Pkg.Path() + "." + oldName)
			}
		}
	}
	if f.Parent() != nil {
		return funcFullName(f.Parent()) + "$" + f.Name()[strings.LastIndex(f.Name(), "$")+1:]
	}
	if recv := f.Signature.Recv(); recv != nil {
		return short("(" + typeString(recv.Type()) + ")." + f.Name())
	}
	if f.Pkg != nil {
		return short(f.Pkg.Pkg.Path() + "." + f.Name())
	}
	if f.Object() != nil && f.Object().Pkg() != nil {
		return short(f.Object().Pkg().Path() + "." + f.Name())
	}
	return f.Name()
}

// isCallTo reports whether ci calls one of the named callees (calleeName form).
func isCallTo(ci ssa.CallInstruction, names ...string) bool {
	n := calleeName(ci)
	for _, w := range names {
		if n == w {
			return true
		}
	}
	return false
}

// callsIn returns all call instructions (call/go/defer) of fn, in block order.
func callsIn(fn *ssa.Function) []ssa.CallInstruction {
	var out []ssa.CallInstruction
	for _, b := range fn.Blocks {
		for _, in := range b.Instrs {
			if ci, ok := in.(ssa.CallInstruction); ok {
				out = append(out, ci)
			}
		}
	}
	return out
}

// callsTo returns the call instructions in fn whose callee has one of the names.
func callsTo(fn *ssa.Function, names ...string) []ssa.CallInstruction {
	var out []ssa.CallInstruction
	for _, ci := range callsIn(fn) {
		if isCallTo(ci, names...) {
			out = append(out, ci)
		}
	}
	return out
}

// callArgs returns the actual arguments including the receiver (first) for
// method calls, in both call and invoke mode.
func callArgs(ci ssa.CallInstruction) []ssa.Value {
	c := ci.Common()
	if c.IsInvoke() {
		return append([]ssa.Value{c.Value}, c.Args...)
	}
	return c.Args
}

// ---------- value helpers ----------

// strip removes value-preserving wrappers: conversions between identical
// underlying types, interface boxing, and loads of single-store locals.
func strip(v ssa.Value) ssa.Value {
	for i := 0; i < 50; i++ {
		switch x := v.(type) {
		case *ssa.ChangeType:
			v = x.X
		case *ssa.ChangeInterface:
			v = x.X
		case *ssa.MakeInterface:
			v = x.X
		case *ssa.Convert:
			v = x.X
		case *ssa.UnOp:
			if x.Op == token.MUL {
				if a, ok := x.X.(*ssa.Alloc); ok {
					if s := singleStore(a); s != nil {
						v = s
						continue
					}
				}
				if fv, ok := x.X.(*ssa.FreeVar); ok {
					if b := freeVarBinding(fv); b != nil {
						if a, ok := b.(*ssa.Alloc); ok && !cellSharedByClosure(a, fv.Parent()) {
							if s := singleStore(a); s != nil {
								v = s
								continue
							}
						}
					}
				}
				if fw := localForward(x); fw != nil {
					v = fw
					continue
				}
			}
			return v
		default:
			return v
		}
	}
	return v
}

// localForward: for a load of a local cell (Alloc or captured variable) that
// has several stores, return the value of the closest preceding store in the
// same block (store-to-load forwarding), or nil.
func localForward(u *ssa.UnOp) ssa.Value {
	switch u.X.(type) {
	case *ssa.Alloc, *ssa.FreeVar:
	default:
		return nil
	}
	b := u.Block()
	if b == nil {
		return nil
	}
	idx := -1
	for i, in := range b.Instrs {
		if in == ssa.Instruction(u) {
			idx = i
			break
		}
	}
	for i := idx - 1; i >= 0; i-- {
		if st, ok := b.Instrs[i].(*ssa.Store); ok && st.Addr == u.X {
			return st.Val
		}
	}
	return nil
}

// singleStore returns the only value ever stored into the local cell a
// (through a itself), or nil if there are zero or several stores or the
// address escapes other than to closures that only read it.
func singleStore(a *ssa.Alloc) ssa.Value {
	var val ssa.Value
	n := 0
	var visit func(addr ssa.Value, fnRefs []ssa.Instruction) bool
	visit = func(addr ssa.Value, refs []ssa.Instruction) bool {
		for _, r := range refs {
			switch r := r.(type) {
			case *ssa.Store:
				if r.Addr == addr {
					val = r.Val
					n++
				} else {
					return false // address stored somewhere: escapes
				}
			case *ssa.UnOp:
				// load: fine
			case *ssa.MakeClosure:
				// captured: look at the closure's uses of the free variable
				f, ok := r.Fn.(*ssa.Function)
				if !ok {
					return false
				}
				for i, b := range r.Bindings {
					if b == addr {
						fv := f.FreeVars[i]
						if fv.Referrers() != nil && !visit(fv, *fv.Referrers()) {
							return false
						}
					}
				}
			case *ssa.DebugRef:
			case *ssa.FieldAddr, *ssa.IndexAddr:
				// partial writes through sub-addresses: give up
				return false
			default:
				return false
			}
		}
		return true
	}
	if a.Referrers() == nil || !visit(a, *a.Referrers()) {
		return nil
	}
	if n != 1 {
		return nil
	}
	return val
}

// storesTo returns every value stored into the local cell a (directly or from
// closures capturing it); ok=false if the address escapes otherwise.
func storesTo(a ssa.Value) (vals []ssa.Value, ok bool) {
	ok = true
	var visit func(addr ssa.Value)
	seen := map[ssa.Value]bool{}
	visit = func(addr ssa.Value) {
		if seen[addr] {
			return
		}
		seen[addr] = true
		refs := addr.Referrers()
		if refs == nil {
			return
		}
		for _, r := range *refs {
			switch r := r.(type) {
			case *ssa.Store:
				if r.Addr == addr {
					vals = append(vals, r.Val)
				} else {
					ok = false
				}
			case *ssa.UnOp, *ssa.DebugRef:
			case *ssa.MakeClosure:
				if f, isf := r.Fn.(*ssa.Function); isf {
					for i, b := range r.Bindings {
						if b == addr {
							visit(f.FreeVars[i])
						}
					}
				} else {
					ok = false
				}
			default:
				ok = false
			}
		}
	}
	visit(a)
	return
}

// freeVarBinding returns the value bound to the free variable fv at the single
// MakeClosure site of its function (nil if none or several).
func freeVarBinding(fv *ssa.FreeVar) ssa.Value {
	fn := fv.Parent()
	par := fn.Parent()
	if par == nil {
		return nil
	}
	idx := -1
	for i, v := range fn.FreeVars {
		if v == fv {
			idx = i
		}
	}
	if idx < 0 {
		return nil
	}
	var found ssa.Value
	cnt := 0
	for _, b := range par.Blocks {
		for _, in := range b.Instrs {
			if mc, ok := in.(*ssa.MakeClosure); ok && mc.Fn == fn {
				found = mc.Bindings[idx]
				cnt++
			}
		}
	}
	if cnt != 1 {
		return nil
	}
	return found
}

// loadAddr: if v is a load (*addr), return addr.
func loadAddr(v ssa.Value) (ssa.Value, bool) {
	if u, ok := v.(*ssa.UnOp); ok && u.Op == token.MUL {
		return u.X, true
	}
	return nil, false
}

// fieldOfAddr: if addr is &base.f, return base and the field.
func fieldOfAddr(addr ssa.Value) (base ssa.Value, f *types.Var, ok bool) {
	fa, isfa := addr.(*ssa.FieldAddr)
	if !isfa {
		return nil, nil, false
	}
	st := derefStruct(fa.X.Type())
	if st == nil {
		return nil, nil, false
	}
	return fa.X, st.Field(fa.Field), true
}

func derefStruct(t types.Type) *types.Struct {
	if p, ok := t.Underlying().(*types.Pointer); ok {
		t = p.Elem()
	}
	st, _ := t.Underlying().(*types.Struct)
	return st
}

// fieldLoad: if v (after strip) is a load of struct field f (x.f), return the
// base value and the field.
func fieldLoad(v ssa.Value) (base ssa.Value, f *types.Var, ok bool) {
	xforms(v, func(x ssa.Value) bool {
		base, f, ok = fieldLoad1(x)
		return ok
	})
	return
}

func fieldLoad1(v ssa.Value) (base ssa.Value, f *types.Var, ok bool) {
	if fl, isf := v.(*ssa.Field); isf {
		st, _ := fl.X.Type().Underlying().(*types.Struct)
		if st == nil {
			return nil, nil, false
		}
		return fl.X, st.Field(fl.Field), true
	}
	addr, isl := loadAddr(v)
	if !isl {
		return nil, nil, false
	}
	return fieldOfAddr(addr)
}

// isFieldLoadOf reports whether v is a load of the given field object.
func isFieldLoadOf(v ssa.Value, f *types.Var) bool {
	_, g, ok := fieldLoad(v)
	return ok && g == f
}

// callResult: if v is the (idx-th) result of a call, return the call.
func callResult(v ssa.Value) (call *ssa.Call, idx int, ok bool) {
	xforms(v, func(x ssa.Value) bool {
		call, idx, ok = callResult1(x)
		return ok
	})
	return
}

func callResult1(v ssa.Value) (call *ssa.Call, idx int, ok bool) {
	switch x := v.(type) {
	case *ssa.Call:
		return x, 0, true
	case *ssa.Extract:
		if c, isc := x.Tuple.(*ssa.Call); isc {
			return c, x.Index, true
		}
	}
	return nil, 0, false
}

// isResultOf reports whether v is result idx of a call to one of the names.
func isResultOf(v ssa.Value, idx int, names ...string) bool {
	return xforms(v, func(x ssa.Value) bool {
		c, i, ok := callResult1(x)
		return ok && i == idx && isCallTo(c, names...)
	})
}

// constOf returns the compile-time constant value of v, if any.
func constOf(v ssa.Value) (constant.Value, bool) {
	var out constant.Value
	differ := false
	ok := xforms(v, func(x ssa.Value) bool {
		if c, ok := x.(*ssa.Const); ok && c.Value != nil {
			if out != nil && (out.Kind() != c.Value.Kind() || out.ExactString() != c.Value.ExactString()) {
				differ = true
			}
			out = c.Value
			return true
		}
		return false
	})
	return out, ok && !differ
}

// constStrings: every value v can take is a string constant (alternatives merge
// in phis); the distinct alternatives.
func constStrings(v ssa.Value) ([]string, bool) {
	var out []string
	seen := map[ssa.Value]bool{}
	var rec func(v ssa.Value, d int) bool
	rec = func(v ssa.Value, d int) bool {
		v = strip(v)
		if ph, isPhi := v.(*ssa.Phi); isPhi {
			if seen[v] {
				return true
			}
			seen[v] = true
			if d > 6 || len(ph.Edges) == 0 {
				return false
			}
			for _, e := range ph.Edges {
				if !rec(e, d+1) {
					return false
				}
			}
			return true
		}
		s, ok := constString(v)
		if !ok {
			return false
		}
		for _, o := range out {
			if o == s {
				return true
			}
		}
		out = append(out, s)
		return true
	}
	ok := rec(v, 0)
	return out, ok && len(out) > 0
}

func constInt(v ssa.Value) (int64, bool) {
	c, ok := constOf(v)
	if !ok || c.Kind() != constant.Int {
		return 0, false
	}
	return constant.Int64Val(c)
}

func constString(v ssa.Value) (string, bool) {
	c, ok := constOf(v)
	if !ok || c.Kind() != constant.String {
		return "", false
	}
	return constant.StringVal(c), true
}

func isNilConst(v ssa.Value) bool {
	c, ok := v.(*ssa.Const)
	return ok && c.IsNil()
}

// flows reports whether target is reachable backwards from v through data
// dependencies (operands), looking through phis, loads of local cells (to
// their stores), closure bindings and, for calls, their arguments. It is a
// taint-style "derives from" relation. pred identifies sources.
func flows(v ssa.Value, pred func(ssa.Value) bool) bool { return flowsX(v, pred, true) }

// flowsLocal is flows restricted to the function of v (for "must not derive
// from" rules, where following a parameter to every caller proves nothing).
func flowsLocal(v ssa.Value, pred func(ssa.Value) bool) bool { return flowsX(v, pred, false) }

func flowsX(v ssa.Value, pred func(ssa.Value) bool, cross bool) bool {
	seen := map[ssa.Value]bool{}
	var rec func(v ssa.Value, depth int) bool
	rec = func(v ssa.Value, depth int) bool {
		if v == nil || seen[v] || depth > 60 {
			return false
		}
		seen[v] = true
		if pred(v) {
			return true
		}
		switch x := v.(type) {
		case *ssa.Phi:
			for _, e := range x.Edges {
				if rec(e, depth+1) {
					return true
				}
			}
			return false
		case *ssa.UnOp:
			if x.Op == token.MUL {
				// load: from local cell -> its stores
				if vals, ok := storesTo(x.X); ok {
					if _, isAlloc := x.X.(*ssa.Alloc); isAlloc {
						for _, s := range vals {
							if rec(s, depth+1) {
								return true
							}
						}
					}
				}
				// load of a local aggregate (struct/array literal): values stored
				// through its field/element addresses
				if al, isAlloc := x.X.(*ssa.Alloc); isAlloc {
					for _, s := range subStores(al) {
						if rec(s, depth+1) {
							return true
						}
					}
				}
				if fv, ok := x.X.(*ssa.FreeVar); ok {
					if b := freeVarBinding(fv); b != nil {
						if vals, ok := storesTo(b); ok {
							for _, s := range vals {
								if rec(s, depth+1) {
									return true
								}
							}
						}
					}
				}
			}
			return rec(x.X, depth+1)
		case *ssa.FreeVar:
			if b := freeVarBinding(x); b != nil {
				return rec(b, depth+1)
			}
			return false
		case *ssa.Parameter:
			if !cross {
				return false
			}
			if a := paramSource(x); a != nil {
				return rec(a, depth+1)
			}
			return false
		case *ssa.Alloc:
			// address of a local: whatever is stored there (directly, from
			// closures, or through field/element addresses)
			vals, _ := storesTo(x)
			vals = append(vals, subStores(x)...)
			for _, s := range vals {
				if rec(s, depth+1) {
					return true
				}
			}
			return false
		case ssa.Instruction:
			for _, op := range x.Operands(nil) {
				if op != nil && *op != nil && rec(*op, depth+1) {
					return true
				}
			}
			// results of a repository helper: whatever its returns yield
			if call, ok := v.(*ssa.Call); ok && theProg != nil && cross {
				if callee := staticCallee(call); callee != nil && callee.Blocks != nil && theProg.IsRepoFn(callee) {
					for _, r := range returnsOf(callee) {
						for i := range r.Results {
							if rec(retVal(r, i), depth+1) {
								return true
							}
						}
					}
				}
			}
		}
		return false
	}
	return rec(v, 0)
}

// sameValue is a strict identity relation: v is pred's value possibly
// converted/boxed, or a phi all of whose edges are.
func sameValue(v ssa.Value, pred func(ssa.Value) bool) bool {
	seen := map[ssa.Value]bool{}
	var rec func(v ssa.Value) bool
	rec = func(v ssa.Value) bool {
		v = strip(v)
		if pred(v) {
			return true
		}
		if seen[v] {
			return true
		}
		seen[v] = true
		switch x := v.(type) {
		case *ssa.Phi:
			for _, e := range x.Edges {
				if !rec(e) {
					return false
				}
			}
			return len(x.Edges) > 0
		case *ssa.FreeVar:
			if b := freeVarBinding(x); b != nil {
				return rec(b)
			}
		default:
			if n := xstep(v); n != nil {
				return rec(n)
			}
		}
		return false
	}
	return rec(v)
}

// ---------- conditions ----------

// Atom is a normalised branch condition. Either a comparison X Op Y with
// Op in {EQL, LSS, LEQ}, or (Op == ILLEGAL) the boolean value X itself.
type Atom struct {
	Op   token.Token
	X, Y ssa.Value
}

// normCond normalises cond; pos reports whether cond being true means the atom
// holds (false: the atom's negation holds).
func normCond(cond ssa.Value) (a Atom, pos bool) {
	pos = true
	for {
		switch x := cond.(type) {
		case *ssa.UnOp:
			if x.Op == token.NOT {
				pos = !pos
				cond = x.X
				continue
			}
		case *ssa.BinOp:
			// b == true, b != false, true == b ...: the boolean itself
			if x.Op == token.EQL || x.Op == token.NEQ {
				if bv, other, ok := boolConstOperand(x); ok {
					if (x.Op == token.EQL) != bv {
						pos = !pos
					}
					cond = other
					continue
				}
			}
			switch x.Op {
			case token.EQL:
				return Atom{token.EQL, x.X, x.Y}, pos
			case token.NEQ:
				return Atom{token.EQL, x.X, x.Y}, !pos
			case token.LSS:
				return Atom{token.LSS, x.X, x.Y}, pos
			case token.GTR:
				return Atom{token.LSS, x.Y, x.X}, pos
			case token.LEQ:
				return Atom{token.LEQ, x.X, x.Y}, pos
			case token.GEQ:
				return Atom{token.LEQ, x.Y, x.X}, pos
			}
		}
		return Atom{token.ILLEGAL, cond, nil}, pos
	}
}

// consumedOnlyBehind: every place where the pure value v takes effect - a return,
// a branch, a call or store that uses it, or the edge over which a phi selects
// it - lies behind one of the cut edges. Where v is computed does not matter (a
// comparison may be evaluated early and used on one branch only). n is the
// number of consumption points examined.
func consumedOnlyBehind(fn *ssa.Function, v ssa.Value, cut []Edge) (ok bool, n int) {
	ok = true
	seen := map[ssa.Value]bool{}
	inCut := func(from, to *ssa.BasicBlock) bool {
		for _, e := range cut {
			if e.From == from && e.To() == to && e.Via == nil {
				return true
			}
		}
		return false
	}
	var rec func(v ssa.Value)
	rec = func(v ssa.Value) {
		if seen[v] || v.Referrers() == nil {
			return
		}
		seen[v] = true
		for _, r := range *v.Referrers() {
			switch x := r.(type) {
			case *ssa.DebugRef:
			case *ssa.Phi:
				for i, e := range x.Edges {
					if e != v {
						continue
					}
					n++
					pred := x.Block().Preds[i]
					if inCut(pred, x.Block()) || len(pred.Instrs) == 0 {
						continue
					}
					if reachableWithout(fn, pred.Instrs[len(pred.Instrs)-1], cut) != nil {
						ok = false
					}
				}
			case *ssa.UnOp:
				if x.Op == token.NOT {
					rec(x)
					continue
				}
				n++
				if reachableWithout(fn, x, cut) != nil {
					ok = false
				}
			default:
				n++
				if reachableWithout(fn, r, cut) != nil {
					ok = false
				}
			}
		}
	}
	rec(v)
	return ok, n
}

// leafAt is one of the values a merged value can take, with the instruction at
// which that alternative is selected (the terminator of the block it arrives
// from; the use itself for an unmerged value).
type leafAt struct {
	V  ssa.Value
	At ssa.Instruction
}

// valueLeaves unfolds v through phis.
func valueLeaves(v ssa.Value, at ssa.Instruction) []leafAt {
	var out []leafAt
	seen := map[ssa.Value]bool{}
	var rec func(v ssa.Value, at ssa.Instruction, d int)
	rec = func(v ssa.Value, at ssa.Instruction, d int) {
		ph, ok := v.(*ssa.Phi)
		if !ok || d > 6 || seen[v] {
			out = append(out, leafAt{v, at})
			return
		}
		seen[v] = true
		for i, e := range ph.Edges {
			pred := ph.Block().Preds[i]
			if len(pred.Instrs) == 0 {
				continue
			}
			rec(e, pred.Instrs[len(pred.Instrs)-1], d+1)
		}
	}
	rec(v, at, 0)
	return out
}

// boolIs: v is the boolean cond, either the value itself or a flag that receives
// the constant true exactly over cond's true edge and false over its false edge
// (if cond { v = true } else { v = false }).
func boolIs(v, cond ssa.Value) bool {
	if v == nil {
		return false
	}
	v = strip(v)
	if v == cond {
		return true
	}
	ph, ok := v.(*ssa.Phi)
	if !ok {
		return false
	}
	for i, e := range ph.Edges {
		k, isC := e.(*ssa.Const)
		if !isC || k.Value == nil || k.Value.Kind() != constant.Bool {
			return false
		}
		want := constant.BoolVal(k.Value)
		to, pred := ph.Block(), ph.Block().Preds[i]
		decided := false
		for steps := 0; steps < 8; steps++ {
			if ifi, isIf := pred.Instrs[len(pred.Instrs)-1].(*ssa.If); isIf {
				a, pos := normCond(ifi.Cond)
				if a.Op == token.ILLEGAL && a.X == cond {
					idx := 0
					if want != pos {
						idx = 1
					}
					decided = pred.Succs[idx] == to && pred.Succs[1-idx] != to
				}
				break
			}
			if len(pred.Preds) != 1 {
				break
			}
			to, pred = pred, pred.Preds[0]
		}
		if !decided {
			return false
		}
	}
	return true
}

// boolConstOperand: one operand of the comparison is a boolean constant.
func boolConstOperand(x *ssa.BinOp) (val bool, other ssa.Value, ok bool) {
	for i, op := range []ssa.Value{x.X, x.Y} {
		k, isC := op.(*ssa.Const)
		if !isC || k.Value == nil || k.Value.Kind() != constant.Bool {
			continue
		}
		other = x.Y
		if i == 1 {
			other = x.X
		}
		return constant.BoolVal(k.Value), other, true
	}
	return false, nil, false
}

// Edge is a CFG edge: successor index idx of block From.
type Edge struct {
	From *ssa.BasicBlock
	Idx  int
	// Via, when set, restricts the edge to paths that entered From directly from block Via: a
	// branch on a boolean phi certifies only for the incoming value that arrived over that edge.
	Via *ssa.BasicBlock
}

func (e Edge) To() *ssa.BasicBlock { return e.From.Succs[e.Idx] }

// condEdges returns, for every If in fn whose normalised condition matches
// pred, the edge on which the atom holds (want=true) or does not hold
// (want=false). pred returns whether the atom matches.
func condEdges(fn *ssa.Function, want bool, pred func(a Atom) bool) []Edge {
	var out []Edge
	for _, b := range fn.Blocks {
		if len(b.Instrs) == 0 {
			continue
		}
		ifi, ok := b.Instrs[len(b.Instrs)-1].(*ssa.If)
		if !ok {
			continue
		}
		a, pos := normCond(ifi.Cond)
		if !pred(a) {
			continue
		}
		// Succs[0] is taken when cond is true.
		idx := 0
		if pos != want {
			idx = 1
		}
		out = append(out, Edge{From: b, Idx: idx})
	}
	return out
}

// nilCheckEdges returns the edges on which a value satisfying pred is known to
// be nil (isNil=true) or non-nil (isNil=false).
func nilCheckEdges(fn *ssa.Function, isNil bool, pred func(ssa.Value) bool) []Edge {
	return condEdges(fn, isNil, func(a Atom) bool {
		if a.Op != token.EQL {
			return false
		}
		if isNilConst(a.Y) && pred(a.X) {
			return true
		}
		if isNilConst(a.X) && pred(a.Y) {
			return true
		}
		return false
	})
}

// boolEdges returns the edges on which a boolean value satisfying pred is
// true (want=true) or false.
func boolEdges(fn *ssa.Function, want bool, pred func(ssa.Value) bool) []Edge {
	return condEdges(fn, want, func(a Atom) bool {
		return a.Op == token.ILLEGAL && pred(a.X)
	})
}

// eqEdges returns the edges on which X == Y holds (want=true) or not, for
// comparisons whose operands satisfy px and py in either order.
func eqEdges(fn *ssa.Function, want bool, px, py func(ssa.Value) bool) []Edge {
	return condEdges(fn, want, func(a Atom) bool {
		if a.Op != token.EQL {
			return false
		}
		return (px(a.X) && py(a.Y)) || (px(a.Y) && py(a.X))
	})
}

// ---------- reachability with cuts (E-GUARD) ----------

// condKey strips negations from a branch condition and reports the polarity.
func condKey(v ssa.Value) (ssa.Value, bool) {
	pos := true
	for {
		if u, ok := v.(*ssa.UnOp); ok && u.Op == token.NOT {
			v = u.X
			pos = !pos
			continue
		}
		return v, pos
	}
}

// multiConds returns the condition values tested by two or more If
// instructions of fn (the only ones whose outcome must be remembered).
func multiConds(fn *ssa.Function) map[ssa.Value]bool {
	cnt := map[ssa.Value]int{}
	for _, b := range fn.Blocks {
		if len(b.Instrs) == 0 {
			continue
		}
		if ifi, ok := b.Instrs[len(b.Instrs)-1].(*ssa.If); ok {
			k, _ := condKey(ifi.Cond)
			cnt[k]++
		}
	}
	out := map[ssa.Value]bool{}
	for k, n := range cnt {
		if n >= 2 {
			out[k] = true
		}
	}
	// a condition that is also stored into a flag (it arrives at a boolean phi) is remembered too:
	// the branch on the flag repeats the test
	for _, b := range fn.Blocks {
		for _, in := range b.Instrs {
			ph, ok := in.(*ssa.Phi)
			if !ok {
				break
			}
			if bt, okb := ph.Type().Underlying().(*types.Basic); !okb || bt.Info()&types.IsBoolean == 0 {
				continue
			}
			for _, e := range ph.Edges {
				if _, isC := e.(*ssa.Const); isC {
					continue
				}
				if k, _ := condKey(e); cnt[k] >= 1 {
					out[k] = true
				}
			}
		}
	}
	return out
}

// psSearch is a path search that is sensitive to repeated tests of one SSA
// condition value: a path may not take the true edge of one `if c` and the
// false edge of another `if c` (same SSA value, same execution) unless it
// passes the block defining c in between. It returns a block path from start to
// a block satisfying goal, avoiding cut edges and not continuing past blocks
// for which blocked is true (a goal block is reported before blocked applies
// only if goalFirst).
func psSearch(start *ssa.BasicBlock, cut []Edge, blocked func(*ssa.BasicBlock) bool, goal func(*ssa.BasicBlock) bool) []*ssa.BasicBlock {
	return psSearchState(start, cut, blocked, func(b *ssa.BasicBlock, _ map[ssa.Value]bool) bool { return goal(b) })
}

// psSearchState is psSearch with a goal that may also inspect the outcomes known
// on the path (conditions taken, constants and nil-ness that phis received).
func psSearchState(start *ssa.BasicBlock, cut []Edge, blocked func(*ssa.BasicBlock) bool, goal func(*ssa.BasicBlock, map[ssa.Value]bool) bool) []*ssa.BasicBlock {
	return psSearchInit(start, nil, cut, blocked, goal)
}

// canReenter: can control, having executed block b, come back to b? The first step out of
// b is taken with the knowledge that step establishes (constants that flag phis of the
// successor receive over that edge), so a loop that is left through a flag set in b is
// recognised as left.
func canReenter(b *ssa.BasicBlock) bool {
	for _, s := range b.Succs {
		init := phiOutcomes(b, s, map[ssa.Value]bool{})
		if s == b {
			return true
		}
		if psSearchInit(s, init, nil, nil, func(x *ssa.BasicBlock, _ map[ssa.Value]bool) bool { return x == b }) != nil {
			return true
		}
	}
	return false
}

// psSearchInit is psSearchState started with outcomes already known on entry to start.
func psSearchInit(start *ssa.BasicBlock, init map[ssa.Value]bool, cut []Edge, blocked func(*ssa.BasicBlock) bool, goal func(*ssa.BasicBlock, map[ssa.Value]bool) bool) []*ssa.BasicBlock {
	fn := start.Parent()
	multi := multiConds(fn)
	isCut := map[Edge]bool{}
	for _, e := range cut {
		isCut[e] = true
	}
	type state struct {
		b   *ssa.BasicBlock
		sig string
	}
	type node struct {
		b     *ssa.BasicBlock
		known map[ssa.Value]bool
		prev  *node
	}
	sigOf := func(k map[ssa.Value]bool) string {
		if len(k) == 0 {
			return ""
		}
		var parts []string
		for v, o := range k {
			parts = append(parts, fmt.Sprintf("%s=%v", v.Name(), o))
		}
		sort.Strings(parts)
		return strings.Join(parts, ",")
	}
	seen := map[state]bool{}
	if init == nil {
		init = map[ssa.Value]bool{}
	}
	q := []*node{{b: start, known: init}}
	seen[state{start, sigOf(init)}] = true
	for len(q) > 0 {
		n := q[0]
		q = q[1:]
		b := n.b
		if goal(b, n.known) && (blocked == nil || !blocked(b)) {
			var path []*ssa.BasicBlock
			for x := n; x != nil; x = x.prev {
				path = append(path, x.b)
			}
			for i, j := 0, len(path)-1; i < j; i, j = i+1, j-1 {
				path[i], path[j] = path[j], path[i]
			}
			return path
		}
		if blocked != nil && blocked(b) {
			continue
		}
		if blockNeverReturns(b) {
			continue // log.Fatal*/os.Exit/panic: control does not continue past this block
		}
		// conditions defined in this block are recomputed: forget them
		known := n.known
		for v := range known {
			if _, isPhi := v.(*ssa.Phi); isPhi {
				continue // phi outcomes are maintained on the edge into the block (below)
			}
			if bo, isB := v.(*ssa.BinOp); isB {
				// a comparison of one of this block's phis with a constant is maintained on the edge as well
				px, okx := bo.X.(*ssa.Phi)
				py, oky := bo.Y.(*ssa.Phi)
				if (okx && px.Block() == b) || (oky && py.Block() == b) {
					continue
				}
			}
			if in, ok := v.(ssa.Instruction); ok && in.Block() == b && n.prev != nil {
				known = copyKnown(known)
				delete(known, v)
			}
		}
		var ck ssa.Value
		var cpos bool
		isIf := false
		if len(b.Instrs) > 0 {
			if ifi, ok := b.Instrs[len(b.Instrs)-1].(*ssa.If); ok {
				isIf = true
				ck, cpos = condKey(ifi.Cond)
			}
		}
		for i, s := range b.Succs {
			if isCut[Edge{From: b, Idx: i}] {
				continue
			}
			if n.prev != nil && isCut[Edge{From: b, Idx: i, Via: n.prev.b}] {
				continue
			}
			nk := known
			if isIf {
				// outcome of the underlying value on this edge
				out := (i == 0) == cpos
				if kc, isK := ck.(*ssa.Const); isK && kc.Value != nil && kc.Value.Kind() == constant.Bool {
					if constant.BoolVal(kc.Value) != out {
						continue // infeasible: the condition is a constant (a flag that every remaining path sets the same way)
					}
				}
				if isNilOut, okn := nilTestOutcome(ck, known); okn && isNilOut != out {
					continue // infeasible: the compared value is known (not) to be nil on this path
				}
				if prevOut, ok := known[ck]; ok {
					if prevOut != out {
						continue // infeasible: contradicts an earlier test of the same value, or the constant a flag was set to on this path
					}
				} else if multi[ck] || isNilTest(ck) {
					nk = copyKnown(known)
					nk[ck] = out
				}
			}
			// boolean phis of the successor: the value that arrives over this edge, when it is a
			// constant or a condition whose outcome is known on this path (flag variables)
			nk = phiOutcomes(b, s, nk)
			st := state{s, sigOf(nk)}
			if seen[st] {
				continue
			}
			seen[st] = true
			q = append(q, &node{b: s, known: nk, prev: n})
		}
	}
	return nil
}

func copyKnown(k map[ssa.Value]bool) map[ssa.Value]bool {
	n := make(map[ssa.Value]bool, len(k)+1)
	for a, b := range k {
		n[a] = b
	}
	return n
}

// reachPath returns a block path from `from` to `to` that uses none of the cut
// edges, or nil if there is none. from == to yields a single-element path.
func reachPath(from, to *ssa.BasicBlock, cut []Edge) []*ssa.BasicBlock {
	return psSearch(from, cut, nil, func(b *ssa.BasicBlock) bool { return b == to })
}

// reachableWithout: can instruction target be reached from fn's entry without
// crossing any of the certifying edges? Returns the offending path if so.
func reachableWithout(fn *ssa.Function, target ssa.Instruction, cut []Edge) []*ssa.BasicBlock {
	if len(fn.Blocks) == 0 || target.Block() == nil {
		return nil
	}
	return reachPath(fn.Blocks[0], target.Block(), cut)
}

// reachableSet returns all blocks reachable from `from` avoiding cut edges.
func reachableSet(from *ssa.BasicBlock, cut []Edge) map[*ssa.BasicBlock]bool {
	isCut := map[Edge]bool{}
	for _, e := range cut {
		isCut[e] = true
	}
	seen := map[*ssa.BasicBlock]bool{from: true}
	q := []*ssa.BasicBlock{from}
	for len(q) > 0 {
		b := q[0]
		q = q[1:]
		for i, s := range b.Succs {
			if isCut[Edge{From: b, Idx: i}] || seen[s] {
				continue
			}
			seen[s] = true
			q = append(q, s)
		}
	}
	return seen
}

// instrIndex returns the index of in within its block.
func instrIndex(in ssa.Instruction) int {
	for i, x := range in.Block().Instrs {
		if x == in {
			return i
		}
	}
	return -1
}

// precedes: a is executed before b on every path reaching b (a dominates b).
func precedes(a, b ssa.Instruction) bool {
	if a.Block() == b.Block() {
		return instrIndex(a) < instrIndex(b)
	}
	return a.Block().Dominates(b.Block())
}

// canFollow: there is a CFG path on which b executes after a.
func canFollow(a, b ssa.Instruction) bool {
	if a.Block() == b.Block() && instrIndex(a) < instrIndex(b) {
		return true
	}
	for _, s := range a.Block().Succs {
		if reachPath(s, b.Block(), nil) != nil {
			return true
		}
	}
	return false
}

// returnsOf lists the Return instructions of fn.
func returnsOf(fn *ssa.Function) []*ssa.Return {
	var out []*ssa.Return
	for _, b := range fn.Blocks {
		if len(b.Instrs) == 0 || b == fn.Recover {
			continue // the recover block (functions with defer) only re-returns the result cells
		}
		if r, ok := b.Instrs[len(b.Instrs)-1].(*ssa.Return); ok {
			out = append(out, r)
		}
	}
	return out
}

// pathString renders a block path with source lines.
func (p *Prog) pathString(path []*ssa.BasicBlock) []string {
	var out []string
	for _, b := range path {
		out = append(out, fmt.Sprintf("b%d(%s)@%s", b.Index, b.Comment, p.blockPos(b)))
	}
	return out
}

func (p *Prog) blockPos(b *ssa.BasicBlock) string {
	for _, in := range b.Instrs {
		if in.Pos().IsValid() {
			return p.Pos(in.Pos())
		}
	}
	return "-"
}

// instrPos gives the best position for an instruction (falls back to block).
func (p *Prog) instrPos(in ssa.Instruction) string {
	if in.Pos().IsValid() {
		return p.Pos(in.Pos())
	}
	if v, ok := in.(ssa.Value); ok {
		if refs := v.Referrers(); refs != nil {
			for _, r := range *refs {
				if r.Pos().IsValid() {
					return p.Pos(r.Pos())
				}
			}
		}
	}
	return p.blockPos(in.Block())
}

// ---------- misc ----------

func namedOf(t types.Type) *types.Named {
	if p, ok := t.(*types.Pointer); ok {
		t = p.Elem()
	}
	n, _ := t.(*types.Named)
	return n
}

// fieldKey: "Type.field" using the struct's named owner when available.
func fieldKey(base ssa.Value, f *types.Var) string {
	if n := namedOf(base.Type()); n != nil {
		return n.Obj().Name() + "." + f.Name()
	}
	return "?." + f.Name()
}

func sortedKeys(m map[string]bool) []string {
	var ks []string
	for k := range m {
		ks = append(ks, k)
	}
	sort.Strings(ks)
	return ks
}

// allInstrs visits every instruction of fn.
func allInstrs(fn *ssa.Function, visit func(ssa.Instruction)) {
	for _, b := range fn.Blocks {
		for _, in := range b.Instrs {
			visit(in)
		}
	}
}

// withAnon returns fn and all (transitively) nested anonymous functions.
func withAnon(fn *ssa.Function) []*ssa.Function {
	out := []*ssa.Function{fn}
	for _, a := range fn.AnonFuncs {
		out = append(out, withAnon(a)...)
	}
	return out
}

// subStores returns the values stored through field/element addresses derived
// from the local aggregate a.
func subStores(a ssa.Value) []ssa.Value {
	var out []ssa.Value
	if a.Referrers() == nil {
		return nil
	}
	for _, r := range *a.Referrers() {
		switch x := r.(type) {
		case *ssa.FieldAddr:
			if x.X == a {
				for _, rr := range *x.Referrers() {
					if st, ok := rr.(*ssa.Store); ok && st.Addr == ssa.Value(x) {
						out = append(out, st.Val)
					}
				}
				out = append(out, subStores(x)...)
			}
		case *ssa.IndexAddr:
			if x.X == a {
				for _, rr := range *x.Referrers() {
					if st, ok := rr.(*ssa.Store); ok && st.Addr == ssa.Value(x) {
						out = append(out, st.Val)
					}
				}
				out = append(out, subStores(x)...)
			}
		}
	}
	return out
}

// cellSharedByClosure: the local cell a, captured by closure fn, is allocated
// outside a loop that contains the closure's creation site: every iteration
// (and every goroutine or callback created there) shares the one variable, so
// a single static store does not identify the value a later load sees.
func cellSharedByClosure(a *ssa.Alloc, fn *ssa.Function) bool {
	par := a.Parent()
	// A cell whose stores can never run again once a closure over it exists holds one value for
	// every iteration (a parameter, a value computed before the loop): nothing is confused.
	if a.Referrers() != nil {
		reexecuted := false
		for _, r := range *a.Referrers() {
			st, ok := r.(*ssa.Store)
			if !ok || st.Addr != ssa.Value(a) {
				continue
			}
			for _, b := range par.Blocks {
				for _, in := range b.Instrs {
					if mc, ok := in.(*ssa.MakeClosure); ok && mc.Fn == fn {
						if canFollow(mc, st) {
							reexecuted = true
						}
					}
				}
			}
		}
		if !reexecuted {
			return false
		}
	}
	for _, b := range par.Blocks {
		for _, in := range b.Instrs {
			mc, ok := in.(*ssa.MakeClosure)
			if !ok || mc.Fn != fn {
				continue
			}
			sb := mc.Block()
			if a.Block() == sb && instrIndex(a) < instrIndex(mc) {
				continue
			}
			seen := map[*ssa.BasicBlock]bool{}
			q := append([]*ssa.BasicBlock(nil), sb.Succs...)
			for len(q) > 0 {
				x := q[0]
				q = q[1:]
				if seen[x] || x == a.Block() {
					continue
				}
				seen[x] = true
				if x == sb {
					return true
				}
				q = append(q, x.Succs...)
			}
		}
	}
	return false
}

// blockNeverReturns: the block contains a call that terminates the process
// (log.Fatal*, os.Exit, ...) or ends in a panic; its CFG successors are not
// really reachable through it.
func blockNeverReturns(b *ssa.BasicBlock) bool {
	for _, in := range b.Instrs {
		switch x := in.(type) {
		case *ssa.Panic:
			return true
		case *ssa.Call:
			if exitCallees[calleeName(x)] {
				return true
			}
		}
	}
	return false
}

// theProg is the program under analysis (set by loadProg); it lets the
// path helpers follow calls into repository helpers.
var theProg *Prog

// liftPass extends an instruction predicate to calls of repository helpers
// (including immediately invoked and deferred closures are NOT included) that
// perform a satisfying instruction on every one of their returning paths, up to
// the given call depth: extracting "the thing that must happen" into a helper
// does not change a must-pass-through verdict.
func liftPass(pass func(ssa.Instruction) bool, depth int) func(ssa.Instruction) bool {
	memo := map[*ssa.Function]int{} // 0 unknown, 1 computing, 2 yes, 3 no
	var must func(fn *ssa.Function, d int) bool
	var lifted func(in ssa.Instruction, d int) bool
	lifted = func(in ssa.Instruction, d int) bool {
		if pass(in) {
			return true
		}
		if d <= 0 || theProg == nil {
			return false
		}
		ci, ok := in.(*ssa.Call)
		if !ok {
			return false
		}
		callee := staticCallee(ci)
		if callee == nil || callee.Blocks == nil || !theProg.IsRepoFn(callee) {
			return false
		}
		return must(callee, d-1)
	}
	must = func(fn *ssa.Function, d int) bool {
		switch memo[fn] {
		case 1, 3:
			return false
		case 2:
			return true
		}
		memo[fn] = 1
		blocked := func(b *ssa.BasicBlock) bool {
			for _, in := range b.Instrs {
				if lifted(in, d) {
					return true
				}
			}
			return false
		}
		isExit := func(b *ssa.BasicBlock) bool {
			if len(b.Instrs) == 0 || b == fn.Recover {
				return false
			}
			_, ok := b.Instrs[len(b.Instrs)-1].(*ssa.Return)
			return ok
		}
		ok := psSearch(fn.Blocks[0], nil, blocked, isExit) == nil
		// a function with no returning path at all does not "perform" anything
		if ok {
			any := false
			for _, b := range fn.Blocks {
				if blocked(b) {
					any = true
				}
			}
			ok = any
		}
		if ok {
			memo[fn] = 2
		} else {
			memo[fn] = 3
		}
		return ok
	}
	return func(in ssa.Instruction) bool { return lifted(in, depth) }
}

// cmpEdges returns the edges on which the relation "X rel Y" is known to hold,
// for comparisons whose operands satisfy px and py, whatever form the source
// uses (x < y, !(x >= y), y > x, ...). rel is one of "<", "<=", ">", ">=".
func cmpEdges(fn *ssa.Function, rel string, px, py func(ssa.Value) bool) []Edge {
	switch rel {
	case ">":
		return cmpEdges(fn, "<", py, px)
	case ">=":
		return cmpEdges(fn, "<=", py, px)
	}
	var strictOp, weakOp token.Token = token.LSS, token.LEQ
	var out []Edge
	if rel == "<" {
		// X < Y: true edge of LSS(X,Y); false edge of LEQ(Y,X)
		out = append(out, condEdges(fn, true, func(a Atom) bool { return a.Op == strictOp && px(a.X) && py(a.Y) })...)
		out = append(out, condEdges(fn, false, func(a Atom) bool { return a.Op == weakOp && py(a.X) && px(a.Y) })...)
	} else {
		// X <= Y: true edge of LEQ(X,Y); false edge of LSS(Y,X)
		out = append(out, condEdges(fn, true, func(a Atom) bool { return a.Op == weakOp && px(a.X) && py(a.Y) })...)
		out = append(out, condEdges(fn, false, func(a Atom) bool { return a.Op == strictOp && py(a.X) && px(a.Y) })...)
	}
	return out
}

// guardedUp: is instruction `in` reachable only through certifying edges, where
// the edges of a function are computed by mk from value patterns (field loads,
// constants)? If `in` is not guarded inside its own function, every call site of
// that function must be (transitively, up to depth): extracting a guarded action
// into a helper does not change the verdict. It returns the unguarded site and a
// path when the answer is no.
func (p *Prog) guardedUp(in ssa.Instruction, mk func(fn *ssa.Function) []Edge, depth int) (bool, ssa.Instruction, []*ssa.BasicBlock) {
	fn := in.Parent()
	edges := mk(fn)
	path := reachableWithout(fn, in, edges)
	if len(edges) > 0 && path == nil {
		return true, nil, nil
	}
	if depth <= 0 {
		return false, in, path
	}
	callers := p.realCallers(fn)
	if len(callers) == 0 {
		return false, in, path
	}
	for _, ci := range callers {
		if _, isGo := ci.(*ssa.Go); isGo {
			return false, ci, nil
		}
		if ok, where, pth := p.guardedUp(ci, mk, depth-1); !ok {
			return false, where, pth
		}
	}
	return true, nil, nil
}

// strictLess: if boolean v means "x < y" (written x < y, y > x, !(x >= y), ...)
// return x and y.
func strictLess(v ssa.Value) (x, y ssa.Value, ok bool) {
	a, pos := normCond(v)
	switch {
	case a.Op == token.LSS && pos:
		return a.X, a.Y, true
	case a.Op == token.LEQ && !pos:
		return a.Y, a.X, true
	}
	return nil, nil, false
}

// freshFieldForward: u loads field f of an object allocated in u's function;
// if that function stores to this field of this object exactly once, in a block
// that dominates the load (or earlier in the same block), return the stored value.
func freshFieldForward(u *ssa.UnOp) ssa.Value {
	fa, ok := u.X.(*ssa.FieldAddr)
	if !ok {
		return nil
	}
	al, ok := fa.X.(*ssa.Alloc)
	if !ok || al.Parent() != u.Parent() || al.Referrers() == nil {
		return nil
	}
	var st *ssa.Store
	n := 0
	for _, r := range *al.Referrers() {
		fb, ok := r.(*ssa.FieldAddr)
		if !ok || fb.Field != fa.Field || fb.Referrers() == nil {
			continue
		}
		for _, rr := range *fb.Referrers() {
			if s, ok := rr.(*ssa.Store); ok && s.Addr == ssa.Value(fb) {
				st = s
				n++
			}
		}
	}
	if n != 1 {
		return nil
	}
	if st.Block() == u.Block() {
		if instrIndex(st) < instrIndex(u) {
			return st.Val
		}
		return nil
	}
	if st.Block().Dominates(u.Block()) {
		return st.Val
	}
	return nil
}

// fwdStrip is strip plus forwarding of fields of freshly allocated objects
// (s := new(T); s.id = id; ... use of s.id is a use of id).
func fwdStrip(v ssa.Value) ssa.Value {
	for i := 0; i < 6; i++ {
		v = strip(v)
		u, ok := v.(*ssa.UnOp)
		if !ok || u.Op != token.MUL {
			return v
		}
		fw := freshFieldForward(u)
		if fw == nil {
			return v
		}
		v = fw
	}
	return v
}

// phiOutcomes updates the known outcomes with the boolean phis of block to for
// the edge from -> to: a constant incoming value fixes the phi's outcome on
// this path, a condition with a known outcome passes it on, anything else
// makes the phi unknown again.
func phiOutcomes(from, to *ssa.BasicBlock, known map[ssa.Value]bool) map[ssa.Value]bool {
	copied := false
	set := func(v ssa.Value, val bool, del bool) {
		if !copied {
			known = copyKnown(known)
			copied = true
		}
		if del {
			delete(known, v)
		} else {
			known[v] = val
		}
	}
	for _, in := range to.Instrs {
		ph, ok := in.(*ssa.Phi)
		if !ok {
			break
		}
		bt, okb := ph.Type().Underlying().(*types.Basic)
		isBool := okb && bt.Info()&types.IsBoolean != 0
		nilable := false
		switch ph.Type().Underlying().(type) {
		case *types.Interface, *types.Pointer, *types.Map, *types.Slice, *types.Chan, *types.Signature:
			nilable = true
		}
		if !isBool && !nilable {
			// a number or string merged from constants (a status, a mode): the constant that arrives over this edge
			// decides every comparison of the phi with a constant
			isNumStr := okb && bt.Info()&(types.IsInteger|types.IsString) != 0
			if !isNumStr || ph.Referrers() == nil {
				continue
			}
			ix := -1
			for k, pr := range to.Preds {
				if pr == from {
					ix = k
				}
			}
			if ix < 0 {
				continue
			}
			inc, isK := ph.Edges[ix].(*ssa.Const)
			for _, r := range *ph.Referrers() {
				bo, isB := r.(*ssa.BinOp)
				if !isB || (bo.Op != token.EQL && bo.Op != token.NEQ) {
					continue
				}
				var other *ssa.Const
				if bo.X == ssa.Value(ph) {
					other, _ = bo.Y.(*ssa.Const)
				} else if bo.Y == ssa.Value(ph) {
					other, _ = bo.X.(*ssa.Const)
				}
				if other == nil || other.Value == nil {
					continue
				}
				ek, pos := condKey(bo)
				if !isK || inc.Value == nil {
					if _, had := known[ek]; had {
						set(ek, false, true)
					}
					continue
				}
				eq := constant.Compare(inc.Value, token.EQL, other.Value)
				truth := eq
				if bo.Op == token.NEQ {
					truth = !eq
				}
				set(ek, truth == pos, false)
			}
			continue
		}
		idx := -1
		for k, pr := range to.Preds {
			if pr == from {
				idx = k
			}
		}
		if idx < 0 {
			continue
		}
		e := ph.Edges[idx]
		if nilable {
			// known[phi] == true means "the phi is nil on this path"
			switch {
			case isNilConst(e):
				set(ph, true, false)
			case definitelyNonNil(e):
				set(ph, false, false)
			default:
				if e2, isPhi := e.(*ssa.Phi); isPhi {
					if out, okk := known[e2]; okk {
						set(ph, out, false)
						continue
					}
				}
				if isNil, okn := nilnessFromTests(e, known); okn {
					set(ph, isNil, false)
					continue
				}
				if _, had := known[ph]; had {
					set(ph, false, true)
				}
			}
			continue
		}
		if c, okc := e.(*ssa.Const); okc && c.Value != nil {
			set(ph, c.Value.String() == "true", false)
			continue
		}
		ek, pos := condKey(e)
		if out, okk := known[ek]; okk {
			set(ph, out == pos, false)
			continue
		}
		if _, had := known[ph]; had {
			set(ph, false, true)
		}
	}
	return known
}

// nilTestOutcome: if cond is "v == nil" or "v != nil" for a phi v whose nil-ness
// is known on the path, return the outcome of cond.
func nilTestOutcome(cond ssa.Value, known map[ssa.Value]bool) (bool, bool) {
	bo, ok := cond.(*ssa.BinOp)
	if !ok || (bo.Op != token.EQL && bo.Op != token.NEQ) {
		return false, false
	}
	var v ssa.Value
	switch {
	case isNilConst(bo.Y):
		v = bo.X
	case isNilConst(bo.X):
		v = bo.Y
	default:
		return false, false
	}
	ph, isPhi := v.(*ssa.Phi)
	if !isPhi {
		return false, false
	}
	isNil, okk := known[ph]
	if !okk {
		return false, false
	}
	return isNil == (bo.Op == token.EQL), true
}

// isNilTest: v == nil or v != nil.
func isNilTest(cond ssa.Value) bool {
	bo, ok := cond.(*ssa.BinOp)
	return ok && (bo.Op == token.EQL || bo.Op == token.NEQ) && (isNilConst(bo.X) || isNilConst(bo.Y))
}

// nilnessFromTests: is value e known (not) to be nil from a nil test of e whose
// outcome is recorded on this path?
func nilnessFromTests(e ssa.Value, known map[ssa.Value]bool) (bool, bool) {
	for k, out := range known {
		bo, ok := k.(*ssa.BinOp)
		if !ok || (bo.Op != token.EQL && bo.Op != token.NEQ) {
			continue
		}
		var v ssa.Value
		switch {
		case isNilConst(bo.Y):
			v = bo.X
		case isNilConst(bo.X):
			v = bo.Y
		default:
			continue
		}
		if v == e {
			return out == (bo.Op == token.EQL), true
		}
	}
	return false, false
}
