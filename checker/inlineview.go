package main

// The helper-inlined view of /repo.
//
// The rules were confirmed against the functions that exist on the reference
// tree (expect.json "known_functions"). A behaviour-preserving change that
// moves statements into a NEW function (an extracted helper, a predicate, a
// closure turned into a named function or method) leaves the program's
// behaviour alone but changes the shape the rules look at. When a property
// does not pass on the tree as written, the checker builds a second,
// equivalent program in memory in which every static call to a function that
// is not on the reference list is inlined into its caller (with the
// semantics-preserving inliner of golang.org/x/tools, vendored under xtools/),
// after rewriting
//
//	go f(a, b)       ->  go func(p0 A, p1 B) { f(p0, p1) }(a, b)
//	x.m  (method value of a new method, x an identifier)
//	                 ->  func(ps...) R { return x.m(ps...) }
//
// so that those calls become inlinable too, and judges that program. The
// overlay exists only in memory: nothing is written to /repo, nothing is
// executed. A verdict obtained on the inlined view is marked as such in the
// output and the evidence.

import (
	"bytes"
	"fmt"
	"go/ast"
	"go/format"
	"go/parser"
	"go/token"
	"go/types"
	"os"
	"path/filepath"
	"sort"
	"strings"

	"golang.org/x/tools/go/ast/astutil"
	"golang.org/x/tools/go/packages"
	"golang.org/x/tools/go/types/typeutil"

	"sfcheck/xtools/inline"
)

type inlineStep struct {
	Callee string
	Caller string
	File   string
	Kind   string // "call", "go-wrap", "method-value-wrap"
}

func loadEnv() []string {
	env := []string{}
	for _, e := range os.Environ() {
		if strings.HasPrefix(e, "GOFLAGS=") || strings.HasPrefix(e, "GOWORK=") {
			continue
		}
		env = append(env, e)
	}
	return append(env, "GOFLAGS=-mod=readonly", "GOWORK=off", "GOPROXY=off", "GOSUMDB=off", "GOTOOLCHAIN=local",
		"GOOS=linux", "GOARCH=amd64", "CGO_ENABLED=0")
}

// declName: "Func" or "(*T).Method" / "(T).Method" as in Prog.FnName without the package.
func declName(fn *types.Func) string {
	sig := fn.Type().(*types.Signature)
	if sig.Recv() == nil {
		return fn.Name()
	}
	t := sig.Recv().Type()
	ptr := ""
	if pt, ok := t.(*types.Pointer); ok {
		t = pt.Elem()
		ptr = "*"
	}
	if n, ok := t.(*types.Named); ok {
		return "(" + ptr + n.Obj().Name() + ")." + fn.Name()
	}
	return fn.Name()
}

// buildInlinedOverlay returns file contents (by absolute path) of the
// helper-inlined view and the list of transformations made. known is the set
// of "rel.declName" keys of the reference tree.
func buildInlinedOverlay(repo string, known map[string]bool, maxRounds int) (map[string][]byte, []inlineStep, error) {
	abs, err := filepath.Abs(repo)
	if err != nil {
		return nil, nil, err
	}
	overlay := map[string][]byte{}
	var steps []inlineStep
	relOf := func(pkgPath string) string {
		return strings.TrimPrefix(strings.TrimPrefix(pkgPath, modPath), "/")
	}
	isNew := func(fn *types.Func) bool {
		if fn == nil || fn.Pkg() == nil || !strings.HasPrefix(fn.Pkg().Path(), modPath) {
			return false
		}
		return !known[relOf(fn.Pkg().Path())+"."+declName(fn)]
	}
	// Loops over a local table of functions are unrolled first, so that the calls they make are ordinary calls
	// for the steps below.
	{
		trial := map[string][]byte{}
		if n, err := unrollOverlay(abs, trial); err == nil && n > 0 {
			good := true
			for k, v := range trial {
				fm, ferr := format.Source(v)
				if ferr != nil {
					good = false
					break
				}
				trial[k] = fm
			}
			if good && typeCheckOverlay(abs, trial) == nil {
				for k, v := range trial {
					overlay[k] = v
				}
				steps = append(steps, inlineStep{Callee: fmt.Sprintf("%d loop(s) over a table of functions", n), Caller: "one block per element", Kind: "unroll"})
			}
		}
	}
	for round := 0; round < maxRounds; round++ {
		cfg := &packages.Config{
			Mode:    packages.NeedName | packages.NeedFiles | packages.NeedCompiledGoFiles | packages.NeedSyntax | packages.NeedTypes | packages.NeedTypesInfo | packages.NeedImports | packages.NeedDeps | packages.NeedTypesSizes,
			Dir:     abs,
			Env:     loadEnv(),
			Tests:   false,
			Overlay: overlay,
		}
		pkgs, err := packages.Load(cfg, "./...")
		if err != nil {
			return nil, nil, fmt.Errorf("inlined view: packages.Load: %v", err)
		}
		changed := false
		for _, pkg := range pkgs {
			if !strings.HasPrefix(pkg.PkgPath, modPath) {
				continue
			}
			if len(pkg.Errors) > 0 {
				return nil, nil, fmt.Errorf("inlined view: %s does not type-check after %d step(s): %v", pkg.PkgPath, len(steps), pkg.Errors[0])
			}
			content := func(f *ast.File) ([]byte, string, error) {
				name := pkg.Fset.Position(f.Pos()).Filename
				if c, ok := overlay[name]; ok {
					return c, name, nil
				}
				c, err := os.ReadFile(name)
				return c, name, err
			}
			// declarations of new functions in this package
			decls := map[*types.Func]*ast.FuncDecl{}
			declFile := map[*types.Func]*ast.File{}
			for _, f := range pkg.Syntax {
				for _, d := range f.Decls {
					fd, ok := d.(*ast.FuncDecl)
					if !ok || fd.Body == nil {
						continue
					}
					if fn, ok := pkg.TypesInfo.Defs[fd.Name].(*types.Func); ok && isNew(fn) {
						decls[fn] = fd
						declFile[fn] = f
					}
				}
			}
			if len(decls) == 0 {
				continue
			}
			// one transformation per file per round
			for _, f := range pkg.Syntax {
				src, fname, err := content(f)
				if err != nil {
					return nil, nil, err
				}
				done := false
				// (1) wrap go statements and method values that target new functions
				var rewritten []byte
				var wrapStep *inlineStep
				astutil.Apply(f, func(c *astutil.Cursor) bool {
					if done {
						return false
					}
					switch n := c.Node().(type) {
					case *ast.GoStmt:
						callee := typeutil.StaticCallee(pkg.TypesInfo, n.Call)
						if callee == nil || decls[callee] == nil {
							return true
						}
						if _, isLit := n.Call.Fun.(*ast.FuncLit); isLit {
							return true
						}
						txt, ok := wrapGoCall(pkg, f, n, src)
						if !ok {
							return true
						}
						rewritten = spliceNode(pkg.Fset, src, n.Pos(), n.End(), txt)
						wrapStep = &inlineStep{Callee: declName(callee), Caller: enclosingName(f, n.Pos()), File: fname, Kind: "go-wrap"}
						done = true
						return false
					case *ast.SelectorExpr:
						sel, ok := pkg.TypesInfo.Selections[n]
						if !ok || sel.Kind() != types.MethodVal {
							return true
						}
						callee, _ := sel.Obj().(*types.Func)
						if callee == nil || decls[callee] == nil {
							return true
						}
						// only a method VALUE (not the Fun of a call), with a plain identifier receiver
						if call, isCall := c.Parent().(*ast.CallExpr); isCall && call.Fun == ast.Expr(n) {
							return true
						}
						if _, isIdent := n.X.(*ast.Ident); !isIdent {
							// or a composite literal of plain identifiers (an adapter value built on the spot)
							cl, isLit := n.X.(*ast.CompositeLit)
							if !isLit {
								return true
							}
							for _, el := range cl.Elts {
								v := el
								if kv, isKV := el.(*ast.KeyValueExpr); isKV {
									v = kv.Value
								}
								if _, isId := v.(*ast.Ident); !isId {
									return true
								}
							}
						}
						txt, ok := wrapMethodValue(pkg, f, n, callee, src)
						if !ok {
							return true
						}
						rewritten = spliceNode(pkg.Fset, src, n.Pos(), n.End(), txt)
						wrapStep = &inlineStep{Callee: declName(callee), Caller: enclosingName(f, n.Pos()), File: fname, Kind: "method-value-wrap"}
						done = true
						return false
					}
					return true
				}, nil)
				if done {
					out, ferr := format.Source(rewritten)
					if ferr != nil {
						return nil, nil, fmt.Errorf("inlined view: wrapping in %s produced unparsable source: %v", fname, ferr)
					}
					overlay[fname] = out
					steps = append(steps, *wrapStep)
					changed = true
					continue
				}
				// (2) inline one static call to a new function
				var target *ast.CallExpr
				var targetFn *types.Func
				ast.Inspect(f, func(n ast.Node) bool {
					if target != nil {
						return false
					}
					switch x := n.(type) {
					case *ast.GoStmt:
						// the call of a go statement is not inlinable (its FuncLit body is)
						if lit, ok := x.Call.Fun.(*ast.FuncLit); ok {
							ast.Inspect(lit.Body, func(m ast.Node) bool {
								if target != nil {
									return false
								}
								if call, ok := m.(*ast.CallExpr); ok {
									if callee := typeutil.StaticCallee(pkg.TypesInfo, call); callee != nil && decls[callee] != nil && !withinDecl(decls[callee], call) {
										target, targetFn = call, callee
										return false
									}
								}
								return true
							})
						}
						return false
					case *ast.DeferStmt:
						if lit, ok := x.Call.Fun.(*ast.FuncLit); ok {
							ast.Inspect(lit.Body, func(m ast.Node) bool {
								if target != nil {
									return false
								}
								if call, ok := m.(*ast.CallExpr); ok {
									if callee := typeutil.StaticCallee(pkg.TypesInfo, call); callee != nil && decls[callee] != nil && !withinDecl(decls[callee], call) {
										target, targetFn = call, callee
										return false
									}
								}
								return true
							})
						}
						return false
					case *ast.CallExpr:
						if callee := typeutil.StaticCallee(pkg.TypesInfo, x); callee != nil && decls[callee] != nil && !withinDecl(decls[callee], x) {
							target, targetFn = x, callee
							return false
						}
					}
					return true
				})
				if target == nil {
					continue
				}
				calleeSrc, _, err := content(declFile[targetFn])
				if err != nil {
					return nil, nil, err
				}
				callee, err := inline.AnalyzeCallee(func(string, ...any) {}, pkg.Fset, pkg.Types, pkg.TypesInfo, decls[targetFn], calleeSrc)
				if err != nil {
					// not inlinable (e.g. uses recover): leave it, but do not loop on it for ever
					known[relOf(pkg.PkgPath)+"."+declName(targetFn)] = true
					continue
				}
				res, err := inline.Inline(&inline.Caller{Fset: pkg.Fset, Types: pkg.Types, Info: pkg.TypesInfo, File: f, Call: target, Content: src}, callee, &inline.Options{})
				if err != nil {
					known[relOf(pkg.PkgPath)+"."+declName(targetFn)] = true
					continue
				}
				overlay[fname] = res.Content
				steps = append(steps, inlineStep{Callee: declName(targetFn), Caller: enclosingName(f, target.Pos()), File: fname, Kind: "call"})
				changed = true
			}
		}
		if !changed {
			break
		}
	}
	// A deferred clean-up guarded by a constant flag is made explicit at every return behind it (undefer.go).
	{
		before := map[string][]byte{}
		for k, v := range overlay {
			before[k] = v
		}
		if n := undeferOverlay(abs, overlay); n > 0 {
			if err := typeCheckOverlay(abs, overlay); err != nil {
				for k := range overlay {
					if v, was := before[k]; was {
						overlay[k] = v
					} else {
						delete(overlay, k)
					}
				}
			} else {
				steps = append(steps, inlineStep{Callee: fmt.Sprintf("%d flag-guarded deferred clean-up(s)", n), Caller: "every return behind the defer statement", Kind: "undefer"})
			}
		}
	}
	// Flatten the function literals the inliner had to introduce in statement context - and the ones the change
	// itself wrote (a critical section moved into a literal that is called on the spot): files with such a call
	// join the view.
	{
		added := map[string]bool{}
		filepath.Walk(abs, func(path string, info os.FileInfo, err error) error {
			if err != nil {
				return nil
			}
			if info.IsDir() {
				if n := info.Name(); n == "vendor" || n == "testdata" || (strings.HasPrefix(n, ".") && path != abs) {
					return filepath.SkipDir
				}
				return nil
			}
			if !strings.HasSuffix(path, ".go") || strings.HasSuffix(path, "_test.go") {
				return nil
			}
			if _, in := overlay[path]; in {
				return nil
			}
			src, rerr := os.ReadFile(path)
			if rerr != nil || !bytes.Contains(src, []byte("}(")) {
				return nil
			}
			fset := token.NewFileSet()
			f, perr := parserParse(fset, path, src)
			if perr != nil {
				return nil
			}
			has := false
			started := map[*ast.CallExpr]bool{} // the calls of go and defer statements are not calls on the spot
			ast.Inspect(f, func(n ast.Node) bool {
				switch x := n.(type) {
				case *ast.GoStmt:
					started[x.Call] = true
				case *ast.DeferStmt:
					started[x.Call] = true
				case *ast.CallExpr:
					if _, isLit := x.Fun.(*ast.FuncLit); isLit && !started[x] {
						has = true
					}
				}
				return !has
			})
			if has {
				overlay[path] = src
				added[path] = true
			}
			return nil
		})
		before := map[string][]byte{}
		for k, v := range overlay {
			before[k] = v
		}
		if err := flattenIIFEs(abs, overlay); err != nil {
			return nil, nil, err
		}
		changedOwn := 0
		for path := range added {
			if bytes.Equal(overlay[path], before[path]) {
				delete(overlay, path)
				delete(before, path)
			} else {
				changedOwn++
			}
		}
		// the flattened files must still type-check; otherwise keep the unflattened ones
		if err := typeCheckOverlay(abs, overlay); err != nil {
			for k, v := range before {
				if added[k] {
					delete(overlay, k)
				} else {
					overlay[k] = v
				}
			}
		} else if changedOwn > 0 {
			steps = append(steps, inlineStep{Callee: fmt.Sprintf("function literals called on the spot in %d file(s)", changedOwn), Caller: "their statements", Kind: "flatten"})
		}
	}
	// Local variables of struct types the change introduced (result structs, adapter types) are split into
	// one variable per field, so that the rules see the locals those structs replaced.
	if len(steps) > 0 && knownTypesRef != nil {
		before := map[string][]byte{}
		for k, v := range overlay {
			before[k] = v
		}
		if n, err := sroaOverlay(abs, overlay, knownTypesRef); err == nil && n > 0 {
			if err := typeCheckOverlay(abs, overlay); err != nil {
				if os.Getenv("SFCHECK_DEBUG_SROA") != "" {
					fmt.Fprintln(os.Stderr, "sroa: undone:", err)
				}
				for k, v := range before {
					overlay[k] = v
				}
			} else {
				steps = append(steps, inlineStep{Callee: fmt.Sprintf("%d local struct variable(s)", n), Caller: "per-field variables", Kind: "scalar-replacement"})
			}
		}
	}
	// Second-chance view: the continuation behind a flattened helper copied to each of its exits.
	if viewTailDup && len(steps) > 0 {
		before := map[string][]byte{}
		for k, v := range overlay {
			before[k] = v
		}
		if n := tailDupOverlay(overlay); n > 0 {
			if err := typeCheckOverlay(abs, overlay); err != nil {
				for k, v := range before {
					overlay[k] = v
				}
			} else {
				steps = append(steps, inlineStep{Callee: fmt.Sprintf("%d continuation(s)", n), Caller: "the exits of the flattened helper before them", Kind: "tail-duplication"})
			}
		}
	}
	// Finally remove the declarations of new functions that are no longer referenced.
	if len(steps) > 0 {
		if err := dropUnusedNewDecls(abs, overlay, known); err != nil {
			return nil, nil, err
		}
	}
	sort.SliceStable(steps, func(i, j int) bool { return steps[i].File < steps[j].File })
	return overlay, steps, nil
}

// viewTailDup: build the second-chance view (taildup.go).
var viewTailDup bool

// knownTypesRef: "rel.TypeName" of the named types of the reference tree (expect_types.json); nil disables the
// scalar-replacement pass.
var knownTypesRef map[string]bool

func parserParse(fset *token.FileSet, name string, src []byte) (*ast.File, error) {
	return parser.ParseFile(fset, name, src, parser.ParseComments)
}

func withinDecl(d *ast.FuncDecl, n ast.Node) bool {
	return d.Pos() <= n.Pos() && n.End() <= d.End()
}

func enclosingName(f *ast.File, pos token.Pos) string {
	for _, d := range f.Decls {
		if fd, ok := d.(*ast.FuncDecl); ok && fd.Pos() <= pos && pos <= fd.End() {
			if fd.Recv != nil && len(fd.Recv.List) > 0 {
				var b bytes.Buffer
				format.Node(&b, token.NewFileSet(), fd.Recv.List[0].Type)
				return "(" + b.String() + ")." + fd.Name.Name
			}
			return fd.Name.Name
		}
	}
	return "?"
}

func spliceNode(fset *token.FileSet, src []byte, from, to token.Pos, repl string) []byte {
	a, b := fset.Position(from).Offset, fset.Position(to).Offset
	out := append([]byte{}, src[:a]...)
	out = append(out, repl...)
	return append(out, src[b:]...)
}

// qualifierFor renders types with the import names of file f; ok is false when
// a needed package is not imported by f.
func qualifierFor(pkg *packages.Package, f *ast.File) (types.Qualifier, *bool) {
	names := map[string]string{}
	for _, imp := range f.Imports {
		path := strings.Trim(imp.Path.Value, "\"")
		if imp.Name != nil {
			names[path] = imp.Name.Name
		} else if ip, ok := pkg.Imports[path]; ok {
			names[path] = ip.Name
		}
	}
	ok := true
	return func(p *types.Package) string {
		if p == pkg.Types {
			return ""
		}
		if n, found := names[p.Path()]; found && n != "_" && n != "." {
			return n
		}
		ok = false
		return p.Name()
	}, &ok
}

func nodeText(fset *token.FileSet, src []byte, n ast.Node) string {
	return string(src[fset.Position(n.Pos()).Offset:fset.Position(n.End()).Offset])
}

// wrapGoCall: go f(a, b) -> go func(p0 A, p1 B) { f(p0, p1) }(a, b); a method
// call's receiver expression is passed as the first parameter.
func wrapGoCall(pkg *packages.Package, f *ast.File, g *ast.GoStmt, src []byte) (string, bool) {
	q, ok := qualifierFor(pkg, f)
	call := g.Call
	var params, inner, args []string
	funText := ""
	switch fun := call.Fun.(type) {
	case *ast.Ident:
		funText = fun.Name
	case *ast.SelectorExpr:
		if sel, isSel := pkg.TypesInfo.Selections[fun]; isSel && sel.Kind() == types.MethodVal {
			rt := pkg.TypesInfo.TypeOf(fun.X)
			if rt == nil {
				return "", false
			}
			params = append(params, "recv0 "+types.TypeString(rt, q))
			args = append(args, nodeText(pkg.Fset, src, fun.X))
			funText = "recv0." + fun.Sel.Name
		} else {
			return "", false
		}
	default:
		return "", false
	}
	if call.Ellipsis.IsValid() {
		return "", false
	}
	sig, _ := pkg.TypesInfo.TypeOf(call.Fun).(*types.Signature)
	if sig == nil || sig.Variadic() {
		return "", false
	}
	for i, a := range call.Args {
		t := sig.Params().At(i).Type()
		params = append(params, fmt.Sprintf("p%d %s", i, types.TypeString(t, q)))
		inner = append(inner, fmt.Sprintf("p%d", i))
		args = append(args, nodeText(pkg.Fset, src, a))
	}
	if !*ok {
		return "", false
	}
	return fmt.Sprintf("go func(%s) { %s(%s) }(%s)", strings.Join(params, ", "), funText, strings.Join(inner, ", "), strings.Join(args, ", ")), true
}

// wrapMethodValue: x.m -> func(p0 A) R { return x.m(p0) }
func wrapMethodValue(pkg *packages.Package, f *ast.File, sel *ast.SelectorExpr, callee *types.Func, src []byte) (string, bool) {
	q, ok := qualifierFor(pkg, f)
	sig := callee.Type().(*types.Signature)
	var params, inner []string
	for i := 0; i < sig.Params().Len(); i++ {
		t := sig.Params().At(i).Type()
		if sig.Variadic() && i == sig.Params().Len()-1 {
			sl, ok := t.(*types.Slice)
			if !ok {
				return "", false
			}
			params = append(params, fmt.Sprintf("p%d ...%s", i, types.TypeString(sl.Elem(), q)))
			inner = append(inner, fmt.Sprintf("p%d...", i))
			continue
		}
		params = append(params, fmt.Sprintf("p%d %s", i, types.TypeString(t, q)))
		inner = append(inner, fmt.Sprintf("p%d", i))
	}
	res := ""
	ret := ""
	switch sig.Results().Len() {
	case 0:
	case 1:
		res = " " + types.TypeString(sig.Results().At(0).Type(), q)
		ret = "return "
	default:
		var rs []string
		for i := 0; i < sig.Results().Len(); i++ {
			rs = append(rs, types.TypeString(sig.Results().At(i).Type(), q))
		}
		res = " (" + strings.Join(rs, ", ") + ")"
		ret = "return "
	}
	if !*ok {
		return "", false
	}
	return fmt.Sprintf("func(%s)%s { %s%s(%s) }", strings.Join(params, ", "), res, ret, nodeText(pkg.Fset, src, sel), strings.Join(inner, ", ")), true
}

// dropUnusedNewDecls removes, from the overlay view, declarations of functions
// that are not on the reference list and are no longer referenced anywhere
// (their only uses were inlined), so that package-wide rules do not see a dead
// copy of the moved statements.
func dropUnusedNewDecls(abs string, overlay map[string][]byte, known map[string]bool) error {
	for iter := 0; iter < 4; iter++ {
		cfg := &packages.Config{
			Mode:    packages.NeedName | packages.NeedFiles | packages.NeedCompiledGoFiles | packages.NeedSyntax | packages.NeedTypes | packages.NeedTypesInfo | packages.NeedImports | packages.NeedDeps | packages.NeedTypesSizes,
			Dir:     abs,
			Env:     loadEnv(),
			Tests:   false,
			Overlay: overlay,
		}
		pkgs, err := packages.Load(cfg, "./...")
		if err != nil {
			return err
		}
		used := map[*types.Func]bool{}
		for _, pkg := range pkgs {
			if !strings.HasPrefix(pkg.PkgPath, modPath) {
				continue
			}
			if len(pkg.Errors) > 0 {
				return fmt.Errorf("inlined view: %s does not type-check: %v", pkg.PkgPath, pkg.Errors[0])
			}
			for _, obj := range pkg.TypesInfo.Uses {
				if fn, ok := obj.(*types.Func); ok {
					used[fn] = true
				}
			}
		}
		changed := false
		for _, pkg := range pkgs {
			if !strings.HasPrefix(pkg.PkgPath, modPath) {
				continue
			}
			rel := strings.TrimPrefix(strings.TrimPrefix(pkg.PkgPath, modPath), "/")
			for _, f := range pkg.Syntax {
				fname := pkg.Fset.Position(f.Pos()).Filename
				src, ok := overlay[fname]
				if !ok {
					var rerr error
					if src, rerr = os.ReadFile(fname); rerr != nil {
						return rerr
					}
				}
				type span struct{ a, b int }
				var cut []span
				for _, d := range f.Decls {
					fd, ok := d.(*ast.FuncDecl)
					if !ok {
						continue
					}
					fn, _ := pkg.TypesInfo.Defs[fd.Name].(*types.Func)
					if fn == nil || used[fn] || known[rel+"."+declName(fn)] || fn.Exported() || fn.Name() == "init" || fn.Name() == "main" {
						continue
					}
					// a method may satisfy an interface without being named: keep methods whose name is exported or conventional
					if fd.Recv != nil && methodMayBeDispatched(fn) {
						continue
					}
					start := fd.Pos()
					if fd.Doc != nil {
						start = fd.Doc.Pos()
					}
					cut = append(cut, span{pkg.Fset.Position(start).Offset, pkg.Fset.Position(fd.End()).Offset})
				}
				if len(cut) == 0 {
					continue
				}
				sort.Slice(cut, func(i, j int) bool { return cut[i].a > cut[j].a })
				out := append([]byte{}, src...)
				for _, c := range cut {
					out = append(out[:c.a], out[c.b:]...)
				}
				// dropping a declaration can orphan an import: let the type checker tell us next round
				fixed, ferr := format.Source(out)
				if ferr != nil {
					return ferr
				}
				overlay[fname] = fixed
				changed = true
			}
		}
		if !changed {
			return nil
		}
		// remove imports that became unused
		if err := fixUnusedImports(abs, overlay); err != nil {
			return err
		}
	}
	return nil
}

// methodMayBeDispatched: an unexported method can still be called through an
// interface declared in the same package; keep it unless no interface of the
// package has a method of that name.
func methodMayBeDispatched(fn *types.Func) bool {
	scope := fn.Pkg().Scope()
	for _, n := range scope.Names() {
		if tn, ok := scope.Lookup(n).(*types.TypeName); ok {
			if it, ok := tn.Type().Underlying().(*types.Interface); ok {
				for i := 0; i < it.NumMethods(); i++ {
					if it.Method(i).Name() == fn.Name() {
						return true
					}
				}
			}
		}
	}
	return false
}

// fixUnusedImports deletes import specs that the type checker reports as unused
// in overlay files.
func fixUnusedImports(abs string, overlay map[string][]byte) error {
	cfg := &packages.Config{
		Mode:    packages.NeedName | packages.NeedFiles | packages.NeedCompiledGoFiles | packages.NeedSyntax | packages.NeedTypes | packages.NeedTypesInfo | packages.NeedImports | packages.NeedDeps,
		Dir:     abs,
		Env:     loadEnv(),
		Tests:   false,
		Overlay: overlay,
	}
	pkgs, err := packages.Load(cfg, "./...")
	if err != nil {
		return err
	}
	for _, pkg := range pkgs {
		if !strings.HasPrefix(pkg.PkgPath, modPath) {
			continue
		}
		for _, f := range pkg.Syntax {
			fname := pkg.Fset.Position(f.Pos()).Filename
			src, ok := overlay[fname]
			if !ok {
				continue
			}
			usedPkgs := map[string]bool{}
			ast.Inspect(f, func(n ast.Node) bool {
				if sel, ok := n.(*ast.SelectorExpr); ok {
					if id, ok := sel.X.(*ast.Ident); ok {
						if pn, ok := pkg.TypesInfo.Uses[id].(*types.PkgName); ok {
							usedPkgs[pn.Imported().Path()] = true
						}
					}
				}
				return true
			})
			changed := false
			for _, imp := range f.Imports {
				path := strings.Trim(imp.Path.Value, "\"")
				if imp.Name != nil && (imp.Name.Name == "_" || imp.Name.Name == ".") {
					continue
				}
				if !usedPkgs[path] {
					if astutil.DeleteNamedImport(pkg.Fset, f, importName(imp), path) {
						changed = true
					}
				}
			}
			if changed {
				var b bytes.Buffer
				if err := format.Node(&b, pkg.Fset, f); err != nil {
					return err
				}
				overlay[fname] = b.Bytes()
			}
			_ = src
		}
	}
	return nil
}

func importName(imp *ast.ImportSpec) string {
	if imp.Name != nil {
		return imp.Name.Name
	}
	return ""
}

// dumpFunctions lists "rel.declName" for every top-level function and method
// of the repository's non-test packages: the reference list of expect_functions.json.
// dumpTypeNames lists "rel.TypeName" for every named type declared at package level in the repository.
func dumpTypeNames(repo string) ([]string, error) {
	abs, err := filepath.Abs(repo)
	if err != nil {
		return nil, err
	}
	cfg := &packages.Config{
		Mode:  packages.NeedName | packages.NeedTypes | packages.NeedImports | packages.NeedDeps,
		Dir:   abs,
		Env:   loadEnv(),
		Tests: false,
	}
	pkgs, err := packages.Load(cfg, "./...")
	if err != nil {
		return nil, err
	}
	var out []string
	for _, pkg := range pkgs {
		if !strings.HasPrefix(pkg.PkgPath, modPath) || pkg.Types == nil {
			continue
		}
		rel := strings.TrimPrefix(strings.TrimPrefix(pkg.PkgPath, modPath), "/")
		for _, n := range pkg.Types.Scope().Names() {
			if _, ok := pkg.Types.Scope().Lookup(n).(*types.TypeName); ok {
				out = append(out, rel+"."+n)
			}
		}
	}
	sort.Strings(out)
	return out, nil
}

func dumpFunctions(repo string) ([]string, error) {
	abs, err := filepath.Abs(repo)
	if err != nil {
		return nil, err
	}
	cfg := &packages.Config{
		Mode:  packages.NeedName | packages.NeedFiles | packages.NeedCompiledGoFiles | packages.NeedSyntax | packages.NeedTypes | packages.NeedTypesInfo | packages.NeedImports | packages.NeedDeps,
		Dir:   abs,
		Env:   loadEnv(),
		Tests: false,
	}
	pkgs, err := packages.Load(cfg, "./...")
	if err != nil {
		return nil, err
	}
	var out []string
	relOf := func(path string) string { return strings.TrimPrefix(strings.TrimPrefix(path, modPath), "/") }
	// static callers (top-level declarations) of every repository function
	callers := map[*types.Func]map[string]bool{}
	for _, pkg := range pkgs {
		if !strings.HasPrefix(pkg.PkgPath, modPath) {
			continue
		}
		for _, f := range pkg.Syntax {
			for _, d := range f.Decls {
				fd, ok := d.(*ast.FuncDecl)
				if !ok || fd.Body == nil {
					continue
				}
				self, _ := pkg.TypesInfo.Defs[fd.Name].(*types.Func)
				if self == nil {
					continue
				}
				ast.Inspect(fd.Body, func(n ast.Node) bool {
					if call, ok := n.(*ast.CallExpr); ok {
						if callee := typeutil.StaticCallee(pkg.TypesInfo, call); callee != nil && callee.Pkg() != nil && strings.HasPrefix(callee.Pkg().Path(), modPath) {
							if callers[callee] == nil {
								callers[callee] = map[string]bool{}
							}
							callers[callee][relOf(pkg.PkgPath)+"."+declName(self)] = true
						}
					}
					return true
				})
			}
		}
	}
	for _, pkg := range pkgs {
		if !strings.HasPrefix(pkg.PkgPath, modPath) {
			continue
		}
		rel := relOf(pkg.PkgPath)
		for _, f := range pkg.Syntax {
			for _, d := range f.Decls {
				if fd, ok := d.(*ast.FuncDecl); ok {
					if fn, ok := pkg.TypesInfo.Defs[fd.Name].(*types.Func); ok {
						out = append(out, rel+"."+declName(fn)+"\t"+sigString(fn)+"\t"+strings.Join(sortedKeys(callers[fn]), ","))
					}
				}
			}
		}
	}
	sort.Strings(out)
	return out, nil
}

// ---------- flattening of immediately invoked function literals ----------
//
// When the inliner cannot reduce a call to statements it replaces it by a
// function literal that is called on the spot. In statement context
//
//	x, err = func() (T, error) { BODY }()      x, err := func() ... { BODY }()
//	func() { BODY }()                          return func() (T, error) { BODY }()
//
// that literal is flattened into a block (results through fresh temporaries,
// early returns through a goto to a label placed right after the block), so
// that the moved statements are part of the caller's control-flow graph again.
// Literals that defer, recover, or take parameters are left alone.

func flattenIIFEs(abs string, overlay map[string][]byte) error {
	ctr := 0
	for name := range overlay {
		for iter := 0; iter < 50; iter++ {
			src := overlay[name]
			fset := token.NewFileSet()
			f, err := parserParse(fset, name, src)
			if err != nil {
				return fmt.Errorf("inlined view: %s does not parse: %v", name, err)
			}
			out, ok := flattenOne(fset, f, src, &ctr)
			if !ok {
				break
			}
			fm, ferr := format.Source(out)
			if ferr != nil {
				// leave this file as it was: an unflattened literal is still a correct program
				break
			}
			overlay[name] = fm
		}
	}
	return nil
}

func flattenOne(fset *token.FileSet, f *ast.File, src []byte, ctr *int) ([]byte, bool) {
	var result []byte
	done := false
	text := func(n ast.Node) string {
		return string(src[fset.Position(n.Pos()).Offset:fset.Position(n.End()).Offset])
	}
	var visitBlock func(list []ast.Stmt, fnTail bool)
	try := func(s ast.Stmt, tail bool) bool {
		var call *ast.CallExpr
		kind := ""
		switch x := s.(type) {
		case *ast.AssignStmt:
			// f := func(..) {...} used only in calls f(..): rewritten as "var f = func..." and handled as a declaration
			if x.Tok == token.DEFINE && len(x.Lhs) == 1 && len(x.Rhs) == 1 {
				if id, isId := x.Lhs[0].(*ast.Ident); isId {
					if _, isLit := x.Rhs[0].(*ast.FuncLit); isLit {
						a := fset.Position(x.Pos()).Offset
						b := fset.Position(x.End()).Offset
						cand := append(append(append([]byte{}, src[:a]...), ("var "+id.Name+" = "+text(x.Rhs[0]))...), src[b:]...)
						fset2 := token.NewFileSet()
						if f2, perr := parserParse(fset2, "x.go", cand); perr == nil {
							var decl *ast.DeclStmt
							ast.Inspect(f2, func(n ast.Node) bool {
								if d, isD := n.(*ast.DeclStmt); isD && decl == nil && fset2.Position(d.Pos()).Offset == a {
									decl = d
								}
								return decl == nil
							})
							if decl != nil {
								if txt, ok := substFuncVar(fset2, f2, decl, cand); ok {
									result = txt
									return true
								}
							}
						}
					}
				}
			}
			if len(x.Rhs) == 1 {
				call, _ = x.Rhs[0].(*ast.CallExpr)
				kind = "assign"
				if call == nil {
					allPure := true
					for _, l := range x.Lhs {
						if !pureExpr(l) {
							allPure = false
						}
					}
					if lc := wrappedLitCall(x.Rhs[0]); lc != nil && allPure {
						call, kind = lc, "arg"
					}
				}
			}
		case *ast.ExprStmt:
			call, _ = x.X.(*ast.CallExpr)
			kind = "expr"
		case *ast.DeclStmt:
			// var f func(..) = func(..) {...} used only in calls f(..): put the literal where it is called
			if txt, ok := substFuncVar(fset, f, x, src); ok {
				result = txt
				return true
			}
			// var x T = func() T {...}()
			if gd, ok := x.Decl.(*ast.GenDecl); ok && gd.Tok == token.VAR && len(gd.Specs) == 1 {
				if vs, ok := gd.Specs[0].(*ast.ValueSpec); ok && len(vs.Values) == 1 {
					if c, okc := vs.Values[0].(*ast.CallExpr); okc {
						if _, isLit := c.Fun.(*ast.FuncLit); isLit {
							call, kind = c, "vardecl"
						}
					}
				}
			}
		case *ast.ReturnStmt:
			if len(x.Results) == 1 {
				call, _ = x.Results[0].(*ast.CallExpr)
				kind = "return"
				if call == nil {
					// return f().(T), return f().field, return *f() ...: the literal call is the first thing evaluated
					if lc := wrappedLitCall(x.Results[0]); lc != nil {
						call, kind = lc, "arg"
					}
				}
			} else {
				// return pure..., func() T {..}(), ...: the literal is the first thing evaluated that can have an effect
				for _, r := range x.Results {
					if rc, ok := r.(*ast.CallExpr); ok {
						if _, isLit := rc.Fun.(*ast.FuncLit); isLit {
							call, kind = rc, "arg"
						}
						break
					}
					if !pureExpr(r) {
						break
					}
				}
			}
		case *ast.IfStmt:
			// if f() { / if !f() { with nothing else in the condition: evaluating the literal first is what the if does anyway
			if x.Init == nil {
				call, _ = litCallOfCond(x.Cond)
				kind = "if"
			} else if as, ok := x.Init.(*ast.AssignStmt); ok && len(as.Rhs) == 1 {
				// if v, err := f(); cond {
				if c, okc := as.Rhs[0].(*ast.CallExpr); okc {
					if _, isLit := c.Fun.(*ast.FuncLit); isLit {
						call, kind = c, "ifinit"
					}
				}
			}
		}
		// f(pure..., func() T {..}(), ...) as the statement's call: the literal is evaluated before anything
		// with an effect, so it can be evaluated in a statement of its own just before
		if call != nil {
			if _, isLit := call.Fun.(*ast.FuncLit); !isLit && kind != "arg" && (kind == "assign" || kind == "expr" || kind == "return") && pureExpr(call.Fun) {
				for _, a := range call.Args {
					if ac, ok := a.(*ast.CallExpr); ok {
						if _, isLit := ac.Fun.(*ast.FuncLit); isLit {
							call, kind = ac, "arg"
						} else if _, isConv := ac.Fun.(*ast.ArrayType); isConv && len(ac.Args) == 1 {
							// []byte(func() string {...}())
							if ic, okc := ac.Args[0].(*ast.CallExpr); okc {
								if _, isLit2 := ic.Fun.(*ast.FuncLit); isLit2 {
									call, kind = ic, "arg"
								}
							}
						}
						break
					}
					if !pureExpr(a) {
						break
					}
				}
			}
		}
		if call == nil {
			return false
		}
		fun := call.Fun
		for {
			pe, isP := fun.(*ast.ParenExpr)
			if !isP {
				break
			}
			fun = pe.X
		}
		lit, ok := fun.(*ast.FuncLit)
		if !ok || call.Ellipsis.IsValid() {
			return false
		}
		// parameters of the literal become variables of the block, initialised with the arguments in order
		prelude := ""
		{
			var pnames, ptypes []string
			if lit.Type.Params != nil {
				for _, fld := range lit.Type.Params.List {
					if _, variadic := fld.Type.(*ast.Ellipsis); variadic {
						return false
					}
					if len(fld.Names) == 0 {
						pnames = append(pnames, "_")
						ptypes = append(ptypes, text(fld.Type))
					}
					for _, nm := range fld.Names {
						pnames = append(pnames, nm.Name)
						ptypes = append(ptypes, text(fld.Type))
					}
				}
			}
			if len(pnames) != len(call.Args) {
				return false
			}
			for i := range pnames {
				if pnames[i] == "_" {
					prelude += "var _ " + ptypes[i] + " = " + text(call.Args[i]) + "\n"
				} else {
					prelude += "var " + pnames[i] + " " + ptypes[i] + " = " + text(call.Args[i]) + "\n_ = " + pnames[i] + "\n"
				}
			}
		}
		// A result-less literal called as the last statement of a result-less function body is that
		// body's tail: its statements (defers and returns included) can simply take its place.
		if tail && kind == "expr" && (lit.Type.Results == nil || len(lit.Type.Results.List) == 0) {
			usesRecover := false
			ast.Inspect(lit.Body, func(n ast.Node) bool {
				if c, ok := n.(*ast.CallExpr); ok {
					if id, ok := c.Fun.(*ast.Ident); ok && id.Name == "recover" {
						usesRecover = true
					}
				}
				return true
			})
			if !usesRecover {
				bodyStart := fset.Position(lit.Body.Lbrace).Offset + 1
				bodyEnd := fset.Position(lit.Body.Rbrace).Offset
				a := fset.Position(s.Pos()).Offset
				b := fset.Position(s.End()).Offset
				result = append(append(append(append([]byte{}, src[:a]...), prelude...), src[bodyStart:bodyEnd]...), src[b:]...)
				return true
			}
		}
		// One unconditional defer at the top level of the literal, of a call whose operands are plain names
		// (defer mu.Unlock()), with no return before it, runs exactly when the literal is left: it can be called at
		// the join point after the flattened body instead. (On a panic inside the body the deferred call would
		// have run and the flattened form does not run it; the view is for recognising structure, termination
		// constructs are judged on their own.)
		var hoisted *ast.DeferStmt
		if kind != "return" {
			nDefer := 0
			ast.Inspect(lit.Body, func(n ast.Node) bool {
				switch n.(type) {
				case *ast.FuncLit:
					return false
				case *ast.DeferStmt:
					nDefer++
				}
				return true
			})
			if nDefer == 1 {
				for _, st := range lit.Body.List {
					if d, isD := st.(*ast.DeferStmt); isD {
						okArgs := pureExpr(d.Call.Fun)
						for _, a := range d.Call.Args {
							if !pureExpr(a) {
								okArgs = false
							}
						}
						if okArgs {
							hoisted = d
						}
						break
					}
					// a statement before the defer that can leave the literal would leave it without the deferred call
					leaves := false
					ast.Inspect(st, func(n ast.Node) bool {
						switch n.(type) {
						case *ast.FuncLit:
							return false
						case *ast.ReturnStmt:
							leaves = true
						}
						return true
					})
					if leaves {
						break
					}
				}
			}
		}
		// no (other) defer / recover / labels in the literal's own body
		bad := false
		var rets []*ast.ReturnStmt
		ast.Inspect(lit.Body, func(n ast.Node) bool {
			switch y := n.(type) {
			case *ast.FuncLit:
				return false
			case *ast.DeferStmt:
				if y != hoisted {
					bad = true
				}
			case *ast.LabeledStmt:
				bad = true
			case *ast.CallExpr:
				if id, ok := y.Fun.(*ast.Ident); ok && id.Name == "recover" {
					bad = true
				}
			case *ast.ReturnStmt:
				rets = append(rets, y)
			}
			return true
		})
		if bad {
			return false
		}
		// result types and names
		var rtypes, rnames []string
		named := false
		if lit.Type.Results != nil {
			for _, fld := range lit.Type.Results.List {
				t := text(fld.Type)
				if len(fld.Names) == 0 {
					rtypes = append(rtypes, t)
					rnames = append(rnames, "")
				}
				for _, nm := range fld.Names {
					rtypes = append(rtypes, t)
					rnames = append(rnames, nm.Name)
					named = true
				}
			}
		}
		nres := len(rtypes)
		if kind == "return" && named {
			// the literal's named results become local variables of a block; a bare return names them
			for _, nm := range rnames {
				if nm == "" || nm == "_" {
					return false
				}
			}
		}
		if kind == "if" && nres != 1 {
			return false
		}
		if kind == "ifinit" && nres == 0 {
			return false
		}
		if kind == "arg" && nres != 1 {
			return false
		}
		if kind == "vardecl" && nres != len(s.(*ast.DeclStmt).Decl.(*ast.GenDecl).Specs[0].(*ast.ValueSpec).Names) {
			return false
		}
		*ctr++
		id := *ctr
		tmp := func(i int) string { return fmt.Sprintf("iife%dr%d", id, i) }
		label := fmt.Sprintf("iife%ddone", id)
		// body text with returns rewritten (from the last to the first, by offset)
		bodyStart := fset.Position(lit.Body.Lbrace).Offset + 1
		bodyEnd := fset.Position(lit.Body.Rbrace).Offset
		body := append([]byte{}, src[bodyStart:bodyEnd]...)
		usedGoto := false
		if kind == "return" && named {
			sort.Slice(rets, func(i, j int) bool { return rets[i].Pos() > rets[j].Pos() })
			for _, r := range rets {
				if len(r.Results) != 0 {
					continue
				}
				a := fset.Position(r.Pos()).Offset - bodyStart
				b := fset.Position(r.End()).Offset - bodyStart
				body = append(append(append([]byte{}, body[:a]...), "return "+strings.Join(rnames, ", ")...), body[b:]...)
			}
		}
		if kind != "return" {
			sort.Slice(rets, func(i, j int) bool { return rets[i].Pos() > rets[j].Pos() })
			lastStmt := ast.Stmt(nil)
			if n := len(lit.Body.List); n > 0 {
				lastStmt = lit.Body.List[n-1]
			}
			for _, r := range rets {
				a := fset.Position(r.Pos()).Offset - bodyStart
				b := fset.Position(r.End()).Offset - bodyStart
				var assign string
				switch {
				case nres == 0:
					assign = ""
				case len(r.Results) == 0: // bare return with named results
					var ns, ts []string
					for i := 0; i < nres; i++ {
						ns = append(ns, rnames[i])
						ts = append(ts, tmp(i))
					}
					assign = strings.Join(ts, ", ") + " = " + strings.Join(ns, ", ")
				case len(r.Results) == nres:
					// one statement per result, in order (the temporaries are fresh, so this equals the tuple
					// assignment); a computed boolean is assigned through a branch, so that the conditions it
					// is made of become branches of the caller's control-flow graph
					var stmts []string
					for i, e := range r.Results {
						switch e.(type) {
						case *ast.Ident, *ast.BasicLit, *ast.SelectorExpr:
							stmts = append(stmts, tmp(i)+" = "+text(e))
						default:
							if rtypes[i] == "bool" {
								stmts = append(stmts, "if "+text(e)+" { "+tmp(i)+" = true } else { "+tmp(i)+" = false }")
							} else {
								stmts = append(stmts, tmp(i)+" = "+text(e))
							}
						}
					}
					assign = strings.Join(stmts, "\n")
				case len(r.Results) == 1 && nres > 1: // return g() with a tuple
					var ts []string
					for i := 0; i < nres; i++ {
						ts = append(ts, tmp(i))
					}
					assign = strings.Join(ts, ", ") + " = " + text(r.Results[0])
				default:
					return false
				}
				repl := ""
				if ast.Stmt(r) == lastStmt {
					repl = assign
				} else {
					usedGoto = true
					repl = "{\n" + assign + "\ngoto " + label + "\n}"
					if assign == "" {
						repl = "goto " + label
					}
				}
				body = append(append(append([]byte{}, body[:a]...), repl...), body[b:]...)
			}
		}
		hoistedCall := ""
		if hoisted != nil {
			a := fset.Position(hoisted.Pos()).Offset - bodyStart
			b := fset.Position(hoisted.End()).Offset - bodyStart
			hoistedCall = text(hoisted.Call)
			body = append(append([]byte{}, body[:a]...), body[b:]...)
		}
		var sb strings.Builder
		if kind != "return" {
			for i := 0; i < nres; i++ {
				fmt.Fprintf(&sb, "var %s %s\n", tmp(i), rtypes[i])
			}
		}
		sb.WriteString("{\n")
		sb.WriteString(prelude)
		if named {
			for i := 0; i < nres; i++ {
				if rnames[i] != "" && rnames[i] != "_" {
					fmt.Fprintf(&sb, "var %s %s\n_ = %s\n", rnames[i], rtypes[i], rnames[i])
				}
			}
		}
		sb.Write(body)
		sb.WriteString("\n}\n")
		if usedGoto {
			sb.WriteString(label + ":\n")
		}
		if hoistedCall != "" {
			sb.WriteString(hoistedCall + "\n")
		}
		switch kind {
		case "assign":
			as := s.(*ast.AssignStmt)
			var lhs, ts []string
			for _, l := range as.Lhs {
				lhs = append(lhs, text(l))
			}
			for i := 0; i < nres; i++ {
				ts = append(ts, tmp(i))
			}
			fmt.Fprintf(&sb, "%s %s %s\n", strings.Join(lhs, ", "), as.Tok.String(), strings.Join(ts, ", "))
		case "expr":
			if nres > 0 {
				for i := 0; i < nres; i++ {
					fmt.Fprintf(&sb, "_ = %s\n", tmp(i))
				}
			} else if usedGoto {
				sb.WriteString("_ = 0\n")
			}
		case "return":
			// the literal's returns are the function's returns
		case "arg":
			ca := fset.Position(call.Pos()).Offset
			cb := fset.Position(call.End()).Offset
			sa := fset.Position(s.Pos()).Offset
			sbEnd := fset.Position(s.End()).Offset
			sb.WriteString(string(src[sa:ca]) + tmp(0) + string(src[cb:sbEnd]) + "\n")
		case "vardecl":
			var ts []string
			for i := 0; i < nres; i++ {
				ts = append(ts, tmp(i))
			}
			ca := fset.Position(call.Pos()).Offset
			cb := fset.Position(call.End()).Offset
			sa := fset.Position(s.Pos()).Offset
			sbEnd := fset.Position(s.End()).Offset
			sb.WriteString(string(src[sa:ca]) + strings.Join(ts, ", ") + string(src[cb:sbEnd]) + "\n")
		case "ifinit":
			ifs := s.(*ast.IfStmt)
			var ts []string
			for i := 0; i < nres; i++ {
				ts = append(ts, tmp(i))
			}
			ca := fset.Position(call.Pos()).Offset
			cb := fset.Position(call.End()).Offset
			sa := fset.Position(ifs.Pos()).Offset
			sbEnd := fset.Position(ifs.End()).Offset
			sb.WriteString(string(src[sa:ca]) + strings.Join(ts, ", ") + string(src[cb:sbEnd]) + "\n")
		case "if":
			ifs := s.(*ast.IfStmt)
			// the if statement itself with the literal call replaced by the temporary
			ca := fset.Position(call.Pos()).Offset
			cb := fset.Position(call.End()).Offset
			sa := fset.Position(ifs.Pos()).Offset
			sbEnd := fset.Position(ifs.End()).Offset
			sb.WriteString(string(src[sa:ca]) + tmp(0) + string(src[cb:sbEnd]) + "\n")
		}
		a := fset.Position(s.Pos()).Offset
		b := fset.Position(s.End()).Offset
		result = append(append(append([]byte{}, src[:a]...), sb.String()...), src[b:]...)
		return true
	}
	visitStmt := func(s ast.Stmt) {}
	visitBlock = func(list []ast.Stmt, fnTail bool) {
		for i, s := range list {
			if done {
				return
			}
			if try(s, fnTail && i == len(list)-1) {
				done = true
				return
			}
			visitStmt(s)
		}
	}
	visitStmt = func(s ast.Stmt) {
		switch x := s.(type) {
		case *ast.BlockStmt:
			visitBlock(x.List, false)
		case *ast.IfStmt:
			visitBlock(x.Body.List, false)
			if done {
				return
			}
			if els, ok := x.Else.(*ast.IfStmt); ok && els.Init == nil {
				if c, _ := litCallOfCond(els.Cond); c != nil && len(c.Args) == 0 {
					// else if f() {..}  ->  else { if f() {..} }   (hoisted on the next pass)
					a := fset.Position(els.Pos()).Offset
					b := fset.Position(els.End()).Offset
					result = append(append(append(append([]byte{}, src[:a]...), "{\n"...), src[a:b]...), append([]byte("\n}"), src[b:]...)...)
					done = true
					return
				}
			}
			if x.Else != nil {
				visitStmt(x.Else)
			}
		case *ast.ForStmt:
			if x.Init == nil && x.Post == nil && x.Cond != nil {
				if c, _ := litCallOfCond(x.Cond); c != nil && len(c.Args) == 0 {
					// for f() { BODY }  ->  for { if !(f()) { break }; BODY }   (no post statement: continue still
					// re-evaluates the condition first); the if is hoisted on the next pass
					ca := fset.Position(x.Cond.Pos()).Offset
					cb := fset.Position(x.Cond.End()).Offset
					lb := fset.Position(x.Body.Lbrace).Offset
					cond := string(src[ca:cb])
					var out []byte
					out = append(out, src[:ca]...)
					out = append(out, src[cb:lb+1]...)
					out = append(out, ("\nif !(" + cond + ") {\nbreak\n}\n")...)
					out = append(out, src[lb+1:]...)
					result = out
					done = true
					return
				}
			}
			visitBlock(x.Body.List, false)
		case *ast.RangeStmt:
			visitBlock(x.Body.List, false)
		case *ast.SwitchStmt:
			for _, c := range x.Body.List {
				visitBlock(c.(*ast.CaseClause).Body, false)
			}
		case *ast.TypeSwitchStmt:
			for _, c := range x.Body.List {
				visitBlock(c.(*ast.CaseClause).Body, false)
			}
		case *ast.SelectStmt:
			for _, c := range x.Body.List {
				visitBlock(c.(*ast.CommClause).Body, false)
			}
		case *ast.LabeledStmt:
			visitStmt(x.Stmt)
		case *ast.GoStmt:
			if lit, ok := x.Call.Fun.(*ast.FuncLit); ok {
				visitBlock(lit.Body.List, lit.Type.Results == nil || len(lit.Type.Results.List) == 0)
			}
		case *ast.DeferStmt:
			if lit, ok := x.Call.Fun.(*ast.FuncLit); ok {
				visitBlock(lit.Body.List, lit.Type.Results == nil || len(lit.Type.Results.List) == 0)
			}
		case *ast.AssignStmt:
			for _, r := range x.Rhs {
				if lit, ok := r.(*ast.FuncLit); ok {
					visitBlock(lit.Body.List, lit.Type.Results == nil || len(lit.Type.Results.List) == 0)
				}
			}
		case *ast.ExprStmt:
			if call, ok := x.X.(*ast.CallExpr); ok {
				for _, a := range call.Args {
					if lit, ok := a.(*ast.FuncLit); ok {
						visitBlock(lit.Body.List, lit.Type.Results == nil || len(lit.Type.Results.List) == 0)
					}
				}
			}
		}
	}
	for _, d := range f.Decls {
		if fd, ok := d.(*ast.FuncDecl); ok && fd.Body != nil {
			visitBlock(fd.Body.List, fd.Type.Results == nil || len(fd.Type.Results.List) == 0)
			if done {
				return result, true
			}
		}
	}
	return nil, false
}

func typeCheckOverlay(abs string, overlay map[string][]byte) error {
	cfg := &packages.Config{
		Mode:    packages.NeedName | packages.NeedFiles | packages.NeedCompiledGoFiles | packages.NeedSyntax | packages.NeedTypes | packages.NeedTypesInfo | packages.NeedImports | packages.NeedDeps,
		Dir:     abs,
		Env:     loadEnv(),
		Tests:   false,
		Overlay: overlay,
	}
	pkgs, err := packages.Load(cfg, "./...")
	if err != nil {
		return err
	}
	for _, pkg := range pkgs {
		if strings.HasPrefix(pkg.PkgPath, modPath) && len(pkg.Errors) > 0 {
			return fmt.Errorf("%s: %v", pkg.PkgPath, pkg.Errors[0])
		}
	}
	return nil
}

// litCallOfCond: cond is f() or !f() or (f()) with f a function literal.
func litCallOfCond(e ast.Expr) (*ast.CallExpr, bool) {
	neg := false
	for {
		switch x := e.(type) {
		case *ast.ParenExpr:
			e = x.X
			continue
		case *ast.UnaryExpr:
			if x.Op == token.NOT {
				neg = !neg
				e = x.X
				continue
			}
		}
		break
	}
	call, ok := e.(*ast.CallExpr)
	if !ok {
		return nil, false
	}
	if _, isLit := call.Fun.(*ast.FuncLit); !isLit {
		return nil, false
	}
	return call, neg
}

// pureExpr: identifiers, selectors of them, literals, and & / * / unary of
// those: evaluating them has no effect and reads nothing a function literal
// evaluated earlier could change in a way that matters for evaluation order.
func pureExpr(e ast.Expr) bool {
	switch x := e.(type) {
	case *ast.Ident, *ast.BasicLit:
		return true
	case *ast.SelectorExpr:
		return pureExpr(x.X)
	case *ast.ParenExpr:
		return pureExpr(x.X)
	case *ast.StarExpr:
		return pureExpr(x.X)
	case *ast.UnaryExpr:
		return x.Op != token.ARROW && pureExpr(x.X)
	}
	return false
}

// substFuncVar: decl is "var f T = func(...) {...}" and every other occurrence of
// the identifier f in the enclosing function is the callee of a call f(...); f is
// declared nowhere else in that function. The declaration is dropped and each
// call gets the literal itself as callee. (The literal captures by reference, so
// evaluating it at the call instead of at the declaration is the same closure.)
func substFuncVar(fset *token.FileSet, file *ast.File, decl *ast.DeclStmt, src []byte) ([]byte, bool) {
	gd, ok := decl.Decl.(*ast.GenDecl)
	if !ok || gd.Tok != token.VAR || len(gd.Specs) != 1 {
		return nil, false
	}
	vs, ok := gd.Specs[0].(*ast.ValueSpec)
	if !ok || len(vs.Names) != 1 || len(vs.Values) != 1 {
		return nil, false
	}
	lit, ok := vs.Values[0].(*ast.FuncLit)
	if !ok {
		return nil, false
	}
	name := vs.Names[0].Name
	// the enclosing function declaration
	var encl *ast.FuncDecl
	for _, d := range file.Decls {
		if fd, okf := d.(*ast.FuncDecl); okf && fd.Body != nil && fd.Pos() <= decl.Pos() && decl.End() <= fd.End() {
			encl = fd
		}
	}
	if encl == nil {
		return nil, false
	}
	type edit struct {
		a, b int
		txt  string
	}
	var edits []edit
	okAll := true
	callees := map[*ast.Ident]bool{}
	ast.Inspect(encl.Body, func(n ast.Node) bool {
		if c, isCall := n.(*ast.CallExpr); isCall {
			if id, isId := c.Fun.(*ast.Ident); isId && id.Name == name {
				callees[id] = true
			}
		}
		return true
	})
	litTxt := string(src[fset.Position(lit.Pos()).Offset:fset.Position(lit.End()).Offset])
	ast.Inspect(encl, func(n ast.Node) bool {
		id, isId := n.(*ast.Ident)
		if !isId || id.Name != name || id == vs.Names[0] {
			return true
		}
		if !callees[id] || (id.Pos() >= lit.Pos() && id.End() <= lit.End()) || id.Pos() < decl.End() {
			okAll = false // another use, a recursive use, or another declaration of the name
			return true
		}
		edits = append(edits, edit{fset.Position(id.Pos()).Offset, fset.Position(id.End()).Offset, litTxt})
		return true
	})
	if !okAll || len(edits) == 0 {
		return nil, false
	}
	edits = append(edits, edit{fset.Position(decl.Pos()).Offset, fset.Position(decl.End()).Offset, ""})
	sort.Slice(edits, func(i, j int) bool { return edits[i].a > edits[j].a })
	out := append([]byte{}, src...)
	for _, e := range edits {
		out = append(append(append([]byte{}, out[:e.a]...), e.txt...), out[e.b:]...)
	}
	return out, true
}

// wrappedLitCall: e is a call of a parameterless function literal wrapped in
// operations that evaluate nothing else (type assertion, parentheses, field
// selection, dereference): the call can be evaluated in a statement of its own
// just before.
func wrappedLitCall(e ast.Expr) *ast.CallExpr {
	depth := 0
	for {
		switch x := e.(type) {
		case *ast.TypeAssertExpr:
			e = x.X
		case *ast.ParenExpr:
			e = x.X
		case *ast.SelectorExpr:
			e = x.X
		case *ast.StarExpr:
			e = x.X
		case *ast.CallExpr:
			if _, isLit := x.Fun.(*ast.FuncLit); isLit && depth > 0 && len(x.Args) == 0 {
				return x
			}
			return nil
		default:
			return nil
		}
		depth++
	}
}

// sigString: the signature of fn without parameter names, package paths in
// full (used to recognise a renamed function).
func sigString(fn *types.Func) string {
	sig := fn.Type().(*types.Signature)
	q := func(p *types.Package) string { return p.Path() }
	var ps, rs []string
	for i := 0; i < sig.Params().Len(); i++ {
		t := types.TypeString(sig.Params().At(i).Type(), q)
		if sig.Variadic() && i == sig.Params().Len()-1 {
			t = "..." + strings.TrimPrefix(t, "[]")
		}
		ps = append(ps, t)
	}
	for i := 0; i < sig.Results().Len(); i++ {
		rs = append(rs, types.TypeString(sig.Results().At(i).Type(), q))
	}
	return "(" + strings.Join(ps, ",") + ")(" + strings.Join(rs, ",") + ")"
}

// recvPart: "(*T)" / "(T)" / "" of a declName key "rel.(*T).m" -> used to match renames within one receiver type.
func recvPart(key string) string {
	if i := strings.Index(key, ".("); i >= 0 {
		if j := strings.Index(key[i:], ")."); j >= 0 {
			return key[:i+j+2]
		}
	}
	if i := strings.LastIndex(key, "."); i >= 0 {
		return key[:i+1]
	}
	return key
}

// renamedFunctions matches reference functions that no longer exist with new
// functions of the same package, receiver type and signature; only unambiguous
// matches count. It returns new key -> old key.
func renamedFunctions(ref map[string]string, present map[string]string) map[string]string {
	return renamedFunctionsC(ref, present, nil, nil)
}

// renamedFunctionsC additionally requires, when caller sets are known on both
// sides, that the renamed function is called from the same functions as before
// (a deleted function and an unrelated new one with the same signature are not
// a rename).
func renamedFunctionsC(ref map[string]string, present map[string]string, refCallers, presentCallers map[string]string) map[string]string {
	out := renamedFunctions0(ref, present)
	if refCallers == nil || presentCallers == nil {
		return out
	}
	for newKey, oldKey := range out {
		if refCallers[oldKey] != presentCallers[newKey] {
			delete(out, newKey)
		}
	}
	// second tier: a method moved to another receiver type of the same package (name and receiver
	// change, parameters and results do not), recognised by its non-empty set of static callers
	pkgOf := func(key string) string {
		if i := strings.Index(key, ".("); i >= 0 {
			return key[:i]
		}
		if i := strings.LastIndex(key, "."); i >= 0 {
			return key[:i]
		}
		return key
	}
	isMethod := func(key string) bool { return strings.Contains(key, ".(") }
	matchedOld := map[string]bool{}
	for _, o := range out {
		matchedOld[o] = true
	}
	type grp struct{ olds, news []string }
	groups := map[string]*grp{}
	for k, sig := range ref {
		if _, ok := present[k]; ok || matchedOld[k] || !isMethod(k) || refCallers[k] == "" {
			continue
		}
		g := pkgOf(k) + "|" + sig + "|" + refCallers[k]
		if groups[g] == nil {
			groups[g] = &grp{}
		}
		groups[g].olds = append(groups[g].olds, k)
	}
	for k, sig := range present {
		if _, ok := ref[k]; ok || !isMethod(k) || presentCallers[k] == "" {
			continue
		}
		if _, done := out[k]; done {
			continue
		}
		g := pkgOf(k) + "|" + sig + "|" + presentCallers[k]
		if groups[g] != nil {
			groups[g].news = append(groups[g].news, k)
		}
	}
	for _, g := range groups {
		if len(g.olds) == 1 && len(g.news) == 1 {
			out[g.news[0]] = g.olds[0]
		}
	}
	return out
}

func renamedFunctions0(ref map[string]string, present map[string]string) map[string]string {
	type grp struct{ olds, news []string }
	groups := map[string]*grp{}
	for k, sig := range ref {
		if _, ok := present[k]; ok {
			continue
		}
		g := recvPart(k) + "|" + sig
		if groups[g] == nil {
			groups[g] = &grp{}
		}
		groups[g].olds = append(groups[g].olds, k)
	}
	for k, sig := range present {
		if _, ok := ref[k]; ok {
			continue
		}
		g := recvPart(k) + "|" + sig
		if groups[g] != nil {
			groups[g].news = append(groups[g].news, k)
		}
	}
	out := map[string]string{}
	for _, g := range groups {
		if len(g.olds) == 1 && len(g.news) == 1 {
			out[g.news[0]] = g.olds[0]
		}
	}
	return out
}
